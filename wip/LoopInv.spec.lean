/-
Action-level invariants of the run-loop model (M4): what every reaction of `react` does and does not do, for every
prepared workflow, every state, every event and every processing order.  These are the obligations of C01 (no
blocking send, at most one output, bounded error buffer, "no more outputs" reported once) and feed C03/C07.
-/
import Arca.Model.RunLoop

namespace Arca.Model

def Action.isOutput : Action → Bool
  | .output _ _ => true
  | _ => false

def Action.isStuck : Action → Bool
  | .stuck => true
  | _ => false

def Action.isPanic : Action → Bool
  | .panic _ => true
  | _ => false

/-- "all outputs marked as unresolvable" was reported (sent or dropped because the buffer was full) -/
def Action.isNoMoreOutputs : Action → Bool
  | .errorSent .noMoreOutputs => true
  | .errorDropped .noMoreOutputs => true
  | _ => false

def countP (p : Action → Bool) (l : List Action) : Nat := (l.filter p).length

def b2n (b : Bool) : Nat := if b then 1 else 0

/-! ### one reaction -/

/-- The loop never performs a blocking send while holding the lock: no reaction emits `Action.stuck`. -/
theorem react_no_stuck (P : Prepared) (fns : Fns) (ord : Order) (s : LoopState) (e : Event) :
    ∀ a ∈ (react P fns ord s e).2, a.isStuck = false := by
  sorry

/-- A reaction kills the loop only by an explicit panic action. -/
theorem react_dead_only_by_panic (P : Prepared) (fns : Fns) (ord : Order) (s : LoopState) (e : Event)
    (hs : s.dead = false) (hd : (react P fns ord s e).1.dead = true) :
    ∃ a ∈ (react P fns ord s e).2, a.isPanic = true := by
  sorry

/-- A dead loop does nothing. -/
theorem react_dead (P : Prepared) (fns : Fns) (ord : Order) (s : LoopState) (e : Event) (hs : s.dead = true) :
    react P fns ord s e = (s, []) := by
  sorry

/-- `outputDone` is monotone and the number of `output` actions of a reaction is exactly its increase. -/
theorem react_output_count (P : Prepared) (fns : Fns) (ord : Order) (s : LoopState) (e : Event) :
    (s.outputDone = true → (react P fns ord s e).1.outputDone = true) ∧
    countP Action.isOutput (react P fns ord s e).2 + b2n s.outputDone = b2n (react P fns ord s e).1.outputDone := by
  sorry

/-- The error buffer never exceeds its capacity. -/
theorem react_errs_le_cap (P : Prepared) (fns : Fns) (ord : Order) (s : LoopState) (e : Event)
    (h : s.errs ≤ P.errCap) : (react P fns ord s e).1.errs ≤ P.errCap := by
  sorry

/-- Output nodes are only ever removed from the waiting set; "no more outputs" is reported at most once per reaction,
    only when the set becomes empty in that reaction, and never again once it is empty. -/
theorem react_noMoreOutputs (P : Prepared) (fns : Fns) (ord : Order) (s : LoopState) (e : Event) :
    (∀ x ∈ (react P fns ord s e).1.waitingOutputs, x ∈ s.waitingOutputs) ∧
    countP Action.isNoMoreOutputs (react P fns ord s e).2 ≤ 1 ∧
    (countP Action.isNoMoreOutputs (react P fns ord s e).2 = 1 →
        s.waitingOutputs ≠ [] ∧ (react P fns ord s e).1.waitingOutputs = []) := by
  sorry

/-- The result slot is written exactly by the (single) `output` action. -/
theorem react_result (P : Prepared) (fns : Fns) (ord : Order) (s : LoopState) (e : Event)
    (hinv : s.outputDone = s.result.isSome) :
    (react P fns ord s e).1.outputDone = (react P fns ord s e).1.result.isSome ∧
    (∀ id v, Action.output id v ∈ (react P fns ord s e).2 → (react P fns ord s e).1.result = some (id, v)) ∧
    (s.result.isSome = true → (react P fns ord s e).1.result = s.result) := by
  sorry

/-! ### whole histories -/

theorem run_no_stuck (P : Prepared) (fns : Fns) (ord : Order) (h : List Event) :
    ∀ a ∈ (run P fns ord h).2, a.isStuck = false := by
  sorry

/-- At most one output is ever produced, whatever the history. -/
theorem run_at_most_one_output (P : Prepared) (fns : Fns) (ord : Order) (h : List Event) :
    countP Action.isOutput (run P fns ord h).2 ≤ 1 := by
  sorry

/-- "No more outputs" is reported at most once in a whole run. -/
theorem run_noMoreOutputs_once (P : Prepared) (fns : Fns) (ord : Order) (h : List Event) :
    countP Action.isNoMoreOutputs (run P fns ord h).2 ≤ 1 := by
  sorry

theorem run_errs_le_cap (P : Prepared) (fns : Fns) (ord : Order) (h : List Event) :
    (run P fns ord h).1.errs ≤ P.errCap := by
  sorry

/-- The returned result, if any, is the value carried by the only `output` action. -/
theorem run_result (P : Prepared) (fns : Fns) (ord : Order) (h : List Event) :
    ∀ id v, Action.output id v ∈ (run P fns ord h).2 → (run P fns ord h).1.result = some (id, v) := by
  sorry

end Arca.Model
