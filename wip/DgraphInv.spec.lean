/-
Invariants of the dependency-graph model (M2) and their preservation by every operation the engine performs on
a graph after it has been built: the statements the run-loop theorems (C02, C03, C04, C10, C15) rest on.

`Graph.Inv` relates, for every edge (m → n), the status of the source `m` to the bookkeeping lists of the target
`n` (`out` = outstanding, `res` = resolved), records that the ready set only contains nodes without outstanding hard
dependencies (or unresolvable ones), and that unresolvability has propagated along `and` edges and across exhausted
`or` groups.  All operations are considered only when they succeed (`= .ok _`): the error results are Go errors or
panics that the run loop turns into an explicit failure action.
-/
import Arca.Model.Dgraph

namespace Arca.Model

variable {ι : Type} [DecidableEq ι]

def keys (l : List (ι × Dep)) : List ι := l.map (·.1)

/-- the entry a dependency list holds for an edge of original type `d`: unchanged, or obviated (`or` / `opt` only) -/
def entryOk (t d : Dep) : Prop := t = d ∨ (t = Dep.obv ∧ (d = Dep.or ∨ d = Dep.opt))

structure Graph.Inv (g : Graph ι) : Prop where
  /-- node ids are unique -/
  nodup : (g.nodes.map (·.id)).Nodup
  /-- at most one edge per ordered pair, and edges connect existing nodes -/
  edges_nodup : (g.edges.map (fun e => (e.1, e.2.1))).Nodup
  edge_nodes : ∀ e ∈ g.edges, g.has e.1 = true ∧ g.has e.2.1 = true
  /-- every entry of `out` / `res` belongs to an edge and carries that edge's type or its obviation -/
  out_edge : ∀ n ∈ g.nodes, ∀ p ∈ n.out, ∃ d, (p.1, n.id, d) ∈ g.edges ∧ entryOk p.2 d
  res_edge : ∀ n ∈ g.nodes, ∀ p ∈ n.res, ∃ d, (p.1, n.id, d) ∈ g.edges ∧ entryOk p.2 d
  out_nodup : ∀ n ∈ g.nodes, (keys n.out).Nodup
  /-- status of the source of an edge vs. the lists of its target -/
  src_waiting : ∀ e ∈ g.edges, ∀ m n, g.find? e.1 = some m → g.find? e.2.1 = some n →
      m.status = St.waiting → e.1 ∈ keys n.out ∧ e.1 ∉ keys n.res
  src_resolved : ∀ e ∈ g.edges, ∀ m n, g.find? e.1 = some m → g.find? e.2.1 = some n →
      m.status = St.resolved → e.1 ∉ keys n.out ∧ e.1 ∈ keys n.res
  src_unres : ∀ e ∈ g.edges, ∀ m n, g.find? e.1 = some m → g.find? e.2.1 = some n →
      m.status = St.unres → e.1 ∉ keys n.out ∧ e.1 ∉ keys n.res
  /-- unresolvability has propagated along `and` edges -/
  and_unres : ∀ e ∈ g.edges, e.2.2 = Dep.and → ∀ m n, g.find? e.1 = some m → g.find? e.2.1 = some n →
      m.status = St.unres → n.status = St.unres
  /-- ... and across `or` groups none of whose members can be resolved any more -/
  or_unres : ∀ n ∈ g.nodes, (∃ e ∈ g.edges, e.2.1 = n.id ∧ e.2.2 = Dep.or) →
      (∀ e ∈ g.edges, e.2.1 = n.id → e.2.2 = Dep.or → ∀ m, g.find? e.1 = some m → m.status = St.unres) →
      n.status = St.unres
  /-- an obviated `or` entry witnesses that another member of the group was resolved first -/
  or_obviated : ∀ n ∈ g.nodes, ∀ p ∈ n.out ++ n.res, p.2 = Dep.obv →
      (∃ d, (p.1, n.id, d) ∈ g.edges ∧ d = Dep.or) → ∃ q ∈ n.res, q.2 = Dep.or
  /-- at most one resolved dependency keeps the type `or` (the one `resolveOneOfExpression` picks) -/
  or_unique : ∀ n ∈ g.nodes, (n.res.filter (fun p => p.2 = Dep.or)).length ≤ 1
  /-- nodes in the ready set have no outstanding hard dependency, unless they are unresolvable -/
  ready_ok : ∀ id ∈ g.ready, ∃ n, g.find? id = some n ∧ (n.status = St.unres ∨ ∀ p ∈ n.out, p.2.hard = false)

/-! ## Preservation (to be proved; no `sorry` may remain) -/

theorem Graph.inv_empty : (Graph.empty : Graph ι).Inv := by
  sorry

/-- adding a node to a graph in which nothing has been resolved yet -/
theorem Graph.inv_addNode (g g' : Graph ι) (id : ι) (h : g.Inv) (hok : g.addNode id = .ok g') : g'.Inv := by
  sorry

/-- connecting two nodes while every node is still waiting (the engine connects only while preparing) -/
theorem Graph.inv_connect (g g' : Graph ι) (src dst : ι) (d : Dep) (h : g.Inv)
    (hw : ∀ n ∈ g.nodes, n.status = St.waiting ∧ n.res = [])
    (hok : g.connect src dst d = .ok g') : g'.Inv ∧ (∀ n ∈ g'.nodes, n.status = St.waiting ∧ n.res = []) := by
  sorry

theorem Graph.inv_clone (g : Graph ι) (h : g.Inv) : g.clone.Inv := by
  sorry

theorem Graph.inv_pushStarting (g : Graph ι) (h : g.Inv) : g.pushStarting.Inv := by
  sorry

theorem Graph.inv_popReady (g : Graph ι) (h : g.Inv) : g.popReady.2.Inv := by
  sorry

/-- the central lemma: a successful explicit resolution (with all its propagation) preserves the invariant -/
theorem Graph.inv_resolve (g g' : Graph ι) (id : ι) (st : St) (h : g.Inv) (hok : g.resolve id st = .ok g') :
    g'.Inv := by
  sorry

/-- statuses only ever leave `waiting`: a successful resolution never changes a non-waiting status -/
theorem Graph.resolve_status_mono (g g' : Graph ι) (id x : ι) (st : St) (n : Node ι)
    (h : g.Inv) (hok : g.resolve id st = .ok g') (hn : g.find? x = some n) (hs : n.status ≠ St.waiting) :
    ∃ n', g'.find? x = some n' ∧ n'.status = n.status := by
  sorry

/-- a successful resolution adds/removes no nodes and no edges -/
theorem Graph.resolve_frame (g g' : Graph ι) (id : ι) (st : St) (hok : g.resolve id st = .ok g') :
    g'.edges = g.edges ∧ g'.nodes.map (·.id) = g.nodes.map (·.id) := by
  sorry

/-! ## What "ready" means -/

/--
`ready_sound`: a node that is in the ready set and is not unresolvable has
* every `and` predecessor resolved (and recorded in `res`),
* every `completion-and` predecessor settled one way or the other,
* if it has `or` predecessors: a resolved one recorded in `res` with type `or`.
-/
theorem Graph.ready_sound (g : Graph ι) (h : g.Inv) (id : ι) (n : Node ι)
    (hr : id ∈ g.ready) (hn : g.find? id = some n) (hs : n.status ≠ St.unres) :
    (∀ e ∈ g.edges, e.2.1 = id → e.2.2 = Dep.and → ∀ m, g.find? e.1 = some m →
        m.status = St.resolved ∧ e.1 ∈ keys n.res) ∧
    (∀ e ∈ g.edges, e.2.1 = id → e.2.2 = Dep.cand → ∀ m, g.find? e.1 = some m → m.status ≠ St.waiting) ∧
    ((∃ e ∈ g.edges, e.2.1 = id ∧ e.2.2 = Dep.or) →
        ∃ q ∈ n.res, q.2 = Dep.or ∧ ∃ m, g.find? q.1 = some m ∧ m.status = St.resolved) := by
  sorry

/-- an entry in `res` always names a resolved node (what `resolveOptionalExpression` relies on) -/
theorem Graph.res_resolved (g : Graph ι) (h : g.Inv) (n : Node ι) (hn : n ∈ g.nodes) (p : ι × Dep) (hp : p ∈ n.res) :
    ∃ m, g.find? p.1 = some m ∧ m.status = St.resolved := by
  sorry

end Arca.Model
