// Package vsched is the schedule-point runtime injected (by overlay only) into instrumented copies of the engine's
// sources. A plan holds a goroutine at a chosen point for a chosen time; with no plan a point costs one atomic load.
package vsched

import (
	"encoding/json"
	"os"
	"sync"
	"sync/atomic"
	"time"
)

// Hold delays the Nth arrival (1-based; 0 = every arrival) at point ID by DelayMs.
type Hold struct {
	ID      string `json:"id"`
	Nth     int    `json:"nth"`
	DelayMs int    `json:"delay_ms"`
}

var (
	active atomic.Bool
	mu     sync.Mutex
	plan   []Hold
	counts = map[string]int{}
	hits   = map[string]int{}
	record atomic.Bool
)

// applied counts the holds that fired since the last SetPlan.
var applied atomic.Int64

func init() {
	if s := os.Getenv("VSCHED_PLAN"); s != "" {
		var p []Hold
		if json.Unmarshal([]byte(s), &p) == nil {
			SetPlan(p)
		}
	}
}

// SetPlan installs a plan (nil clears it) and resets the arrival counters.
func SetPlan(p []Hold) {
	mu.Lock()
	defer mu.Unlock()
	plan = p
	counts = map[string]int{}
	applied.Store(0)
	active.Store(len(p) > 0 || record.Load())
}

// Record switches the recording of point hits on or off.
func Record(on bool) {
	record.Store(on)
	mu.Lock()
	defer mu.Unlock()
	if on {
		hits = map[string]int{}
	}
	active.Store(len(plan) > 0 || on)
}

// Hits returns how often each point was passed since Record(true).
func Hits() map[string]int {
	mu.Lock()
	defer mu.Unlock()
	out := make(map[string]int, len(hits))
	for k, v := range hits {
		out[k] = v
	}
	return out
}

// Point is called before a synchronisation statement.
func Point(id string) {
	if !active.Load() {
		return
	}
	var d time.Duration
	mu.Lock()
	if record.Load() {
		hits[id]++
	}
	if len(plan) > 0 {
		counts[id]++
		n := counts[id]
		for _, h := range plan {
			if h.ID == id && (h.Nth == 0 || h.Nth == n) {
				d = time.Duration(h.DelayMs) * time.Millisecond
			}
		}
	}
	mu.Unlock()
	if d > 0 {
		applied.Add(1)
		time.Sleep(d)
	}
}

// Applied tells how many holds of the current plan have fired since SetPlan.
func Applied() int { return int(applied.Load()) }
