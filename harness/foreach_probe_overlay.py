#!/usr/bin/env python3
"""C13, optional probe: produce an INSTRUMENTED COPY of /repo/internal/step/foreach/provider.go (current working tree) that
counts, inside the provider, how many `r.workflow.Execute` calls overlap and how many are started after the step's context
was cancelled.  /repo is not touched: the copy is substituted by `go build -overlay`.

usage:  foreach_probe_overlay.py <outdir>      writes <outdir>/provider.go and <outdir>/extra.json, prints the json path
then:   VERIF_OVERLAY_EXTRA=<outdir>/extra.json bin/build-harness .build/vharness-probe -tags verif,foreachprobe
        .build/vharness-probe foreach-probe-run -n 60 -seed 1 -out probe.jsonl
        python3 lib/props_c13.py probe.jsonl
(`vharness foreach-probe -n 60 ...` does the three steps: cmd_foreach_probe_launch.go)

The anchor is the statement that runs the sub-workflow; if the source changes shape the script fails instead of guessing.
"""
import json
import os
import re
import sys

REPO = os.environ.get("VERIF_REPO", "/repo")
ANCHOR = re.compile(r"^([ \t]*)outputID, outputData, err := r\.workflow\.Execute\(r\.ctx, [^\n]*\)\n", re.M)
DECL_ANCHOR = "// New creates a new loop provider.\n"


def main():
    out = sys.argv[1]
    os.makedirs(out, exist_ok=True)
    path = os.path.join(REPO, "internal", "step", "foreach", "provider.go")
    src = open(path).read()
    hits = ANCHOR.findall(src)
    if len(hits) != 1 or src.count(DECL_ANCHOR) != 1:
        sys.exit("foreach provider changed shape: anchor statements not found exactly once")
    ind = hits[0]
    src = src.replace(DECL_ANCHOR, "// ProbeRunning etc.: verification probe counters (overlay copy only).\n"
                                   "var ProbeRunning, ProbeMax, ProbeStartedAfterCancel int64\n\n" + DECL_ANCHOR)
    pre = ["if r.ctx.Err() != nil {", "\tatomic.AddInt64(&ProbeStartedAfterCancel, 1)", "}",
           "probeN := atomic.AddInt64(&ProbeRunning, 1)", "for {", "\tprobeM := atomic.LoadInt64(&ProbeMax)",
           "\tif probeN <= probeM || atomic.CompareAndSwapInt64(&ProbeMax, probeM, probeN) {", "\t\tbreak", "\t}", "}"]
    src = ANCHOR.sub(lambda m: "".join(ind + l + "\n" for l in pre) + m.group(0) + ind + "atomic.AddInt64(&ProbeRunning, -1)\n", src)
    open(os.path.join(out, "provider.go"), "w").write(src)
    extra = os.path.join(out, "extra.json")
    json.dump({path: os.path.join(os.path.abspath(out), "provider.go")}, open(extra, "w"))
    print(extra)


if __name__ == "__main__":
    main()
