//go:build verif

package main

import (
	"bytes"
	"context"
	"encoding/json"
	"flag"
	"fmt"
	"os"
	"os/exec"
	"regexp"
	"strings"
	"sync"
	"time"

	"go.flow.arcalot.io/engine/workflow"
)

func init() { register("rerun", cmdRerun); register("rerun-oracle", cmdRerunOracle) }

// ---- C14: one prepared workflow, many runs ----------------------------------------------------------------------------------
//
// One workflow is prepared once and then executed (a) several times in sequence with equal and different inputs,
// including runs whose context is cancelled early and runs that end in an error, (b) from N goroutines at the same time,
// (c) interleaved with a twin prepared from the same text on the same registry.  The oracle of every run is an ISOLATED
// FIRST RUN: fresh registry, fresh Prepare, one Execute with the same input and the same behaviours (the scripted plugin
// is deterministic given its input).  Where the engine's own scheduling makes the isolated result non-unique (several
// admissible results for one input), the oracle is the SET of results of repeated isolated runs: a run is "equal" when
// its result is a member; on a mismatch up to `rerunOracleRetries` further isolated runs are made before "equal": false is
// recorded.  Plugin logs are not compared (the script is process-global and shared by concurrent runs).

const rerunOracleRetries = 32

type rerunResult struct {
	OutputID string `json:"output_id"`
	Data     any    `json:"data"`
	ErrClass string `json:"err_class"`
	Err      string `json:"err,omitempty"`
	Panic    string `json:"panic,omitempty"`
	Timeout  bool   `json:"timeout,omitempty"`
	WallMs   int64  `json:"wall_ms"`
}

func (r rerunResult) key() string {
	b, _ := json.Marshal([]any{r.OutputID, r.Data, r.ErrClass, r.Panic != "", r.Timeout})
	return string(b)
}

// rerunExecuteOnce runs one Execute with a watchdog; cancelAfterMs >= 0 cancels the caller's context after that time.
func rerunExecuteOnce(p workflow.ExecutableWorkflow, input map[string]any, cancelAfterMs int) rerunResult {
	ctx, cancel := context.WithCancel(context.Background())
	defer cancel()
	ch := make(chan rerunResult, 1)
	t0 := time.Now()
	go func() {
		defer func() {
			if rec := recover(); rec != nil {
				ch <- rerunResult{Panic: fmt.Sprint(rec)}
			}
		}()
		id, data, err := p.Execute(ctx, rerunCopyInput(input))
		r := rerunResult{OutputID: id, Data: encVal(data)}
		if err != nil {
			r.Err = err.Error()
			if len(r.Err) > 300 {
				r.Err = r.Err[:300]
			}
			r.ErrClass = classifyExecErr(err)
		}
		ch <- r
	}()
	if cancelAfterMs >= 0 {
		time.AfterFunc(time.Duration(cancelAfterMs)*time.Millisecond, cancel)
	}
	select {
	case r := <-ch:
		r.WallMs = time.Since(t0).Milliseconds()
		return r
	case <-time.After(25 * time.Second):
		return rerunResult{Timeout: true, WallMs: time.Since(t0).Milliseconds()}
	}
}

// rerunCopyInput gives every run its own input value (a run must not see another run's data through a shared argument).
func rerunCopyInput(in map[string]any) map[string]any {
	out := make(map[string]any, len(in))
	for k, v := range in {
		if l, ok := v.([]any); ok {
			v = append([]any{}, l...)
		}
		out[k] = v
	}
	return out
}

type rerunOracle struct {
	text    string
	input   map[string]any
	results []rerunResult
	keys    map[string]bool
}

// The isolated first runs of the oracle are made in a FRESH PROCESS each (`vharness rerun-oracle`, request on stdin): an
// isolated run must not share anything with the runs under test, package-level state of the engine included.

type rerunOracleRequest struct {
	YAML       string               `json:"yaml"`
	Behaviours map[string]Behaviour `json:"behaviours"`
	Inputs     []any                `json:"inputs"` // tagged values
	Mix        []int                `json:"mix"`    // the inputs to run, all at the same time, each on its own registry + Prepare
}

// rerunOracleRun performs the isolated first runs `mix` in one fresh child process and records the results.
func rerunOracleRun(oracles []*rerunOracle, text string, beh map[string]Behaviour, inputsJ []any, mix []int) {
	req, _ := json.Marshal(rerunOracleRequest{YAML: text, Behaviours: beh, Inputs: inputsJ, Mix: mix})
	exe, err := os.Executable()
	if err != nil {
		return
	}
	for attempt := 0; attempt < 3; attempt++ { // a crash of the in-process plugin (pluginsdk ATP server) loses the attempt only
		cmd := exec.Command(exe, "rerun-oracle")
		cmd.Stdin = bytes.NewReader(req)
		var so bytes.Buffer
		cmd.Stdout = &so
		done := make(chan error, 1)
		if err := cmd.Start(); err != nil {
			return
		}
		go func() { done <- cmd.Wait() }()
		select {
		case <-done:
		case <-time.After(2 * time.Minute):
			_ = cmd.Process.Kill()
		}
		var res []*rerunResult
		lines := strings.Split(strings.TrimSpace(so.String()), "\n")
		if json.Unmarshal([]byte(lines[len(lines)-1]), &res) != nil || len(res) != len(mix) {
			continue
		}
		for i, r := range res {
			if r != nil {
				oracles[mix[i]].record(*r)
			}
		}
		return
	}
}

func cmdRerunOracle(_ []string) int {
	var req rerunOracleRequest
	if err := json.NewDecoder(os.Stdin).Decode(&req); err != nil {
		fmt.Fprintln(os.Stderr, "bad request:", err)
		return 2
	}
	s := newScript()
	for k, v := range req.Behaviours {
		s.set(k, v)
	}
	currentScript.Store(s)
	oracles := make([]*rerunOracle, len(req.Inputs))
	for i, in := range req.Inputs {
		m, _ := decVal(in).(map[string]any)
		oracles[i] = &rerunOracle{text: req.YAML, input: m, keys: map[string]bool{}}
	}
	res := rerunIsolatedBatch(s, oracles, req.Mix)
	b, _ := json.Marshal(res)
	fmt.Println(string(b))
	return 0
}

// rerunErrAtoms: the error classes a result reports ("multiple:a+b" = both a and b were in the error channel on return).
func rerunErrAtoms(cls string) []string {
	return strings.Split(strings.TrimPrefix(cls, "multiple:"), "+")
}

// admits: outputs are compared exactly (id and data).  For an error, WHICH of the errors of a failing run are still in
// the error channel when Execute returns depends on the engine's own timing, so an error result is admitted when every
// class it reports is reported by some isolated run.
func (o *rerunOracle) admits(r rerunResult) bool {
	if o.keys[r.key()] {
		return true
	}
	if r.ErrClass == "" || r.Panic != "" || r.Timeout {
		return false
	}
	known := map[string]bool{}
	for _, x := range o.results {
		if x.ErrClass != "" && x.Panic == "" && !x.Timeout {
			for _, a := range rerunErrAtoms(x.ErrClass) {
				known[a] = true
			}
		}
	}
	// "no more outputs / steps" are follow-ups of any failing run (the failure cancels the run, the remaining steps close):
	// they may accompany an admitted primary error, but do not stand in for one
	primary := 0
	for _, a := range rerunErrAtoms(r.ErrClass) {
		if a == "noMoreOutputs" || a == "noMoreSteps" {
			continue
		}
		if !known[a] {
			return false
		}
		primary++
	}
	if primary > 0 {
		return true
	}
	for _, a := range rerunErrAtoms(r.ErrClass) {
		if !known[a] {
			return false
		}
	}
	return true
}

func (o *rerunOracle) record(r rerunResult) {
	if !o.keys[r.key()] {
		o.keys[r.key()] = true
		o.results = append(o.results, r)
	}
}

// rerunIsolatedBatch (in the oracle process) performs len(mix) isolated first runs AT THE SAME TIME, each on its own fresh
// registry and its own fresh Prepare: one run for a sequential run under test, several for runs that overlapped, so that
// the load is the same and only the sharing differs.
func rerunIsolatedBatch(s *Script, oracles []*rerunOracle, mix []int) []*rerunResult {
	ps := make([]workflow.ExecutableWorkflow, len(mix))
	for i, idx := range mix {
		reg, f, err := newRegistry(nil)
		if err != nil {
			continue
		}
		s.probe.Store(true)
		p, err := prepareYAML(reg, f, oracles[idx].text, nil)
		s.probe.Store(false)
		if err == nil {
			ps[i] = p
		}
	}
	res := make([]*rerunResult, len(mix))
	start := make(chan struct{})
	var wg sync.WaitGroup
	for i := range mix {
		if ps[i] == nil {
			continue
		}
		wg.Add(1)
		go func(i int) {
			defer wg.Done()
			<-start
			r := rerunExecuteOnce(ps[i], oracles[mix[i]].input, -1)
			res[i] = &r
		}(i)
	}
	close(start)
	wg.Wait()
	return res
}

func genRerunInputs(r *rng, wf *AWf) []map[string]any {
	names := []string{"nm", "refuse-other", "x1", "7"}
	n := 2 + r.intn(3)
	out := []map[string]any{}
	for i := 0; i < n; i++ {
		in := map[string]any{"name": names[i%len(names)]}
		for _, fl := range wf.InputFields {
			switch fl.Name {
			case "flag":
				in["flag"] = r.chance(1, 2)
			case "n":
				if r.chance(2, 3) {
					in["n"] = int64(r.intn(50))
				}
			case "opt":
				if r.chance(1, 2) {
					in["opt"] = "given"
				}
			case "lst":
				if r.chance(2, 3) {
					l := []any{}
					for k := r.intn(4); k > 0; k-- {
						l = append(l, fmt.Sprintf("e%d", k))
					}
					in["lst"] = l
				}
			case "z":
				if r.chance(1, 2) {
					in["z"] = int64(r.intn(3))
				}
			}
		}
		out = append(out, in)
	}
	// documents the input schema REJECTS: such a run is refused before anything starts, and the prepared workflow must be
	// as good as new afterwards (the isolated first run of these documents returns the same refusal)
	if r.chance(2, 3) {
		for k := 1 + r.intn(2); k > 0; k-- {
			in := rerunCopyInput(out[r.intn(n)])
			switch r.intn(5) {
			case 0:
				delete(in, "name")
			case 1:
				in["name"] = []any{"x"}
			case 2:
				in["zz_unknown"] = "x"
			case 3:
				in["name"] = map[string]any{"a": "b"}
			default:
				in["name"] = nil
			}
			out = append(out, in)
		}
	}
	return out
}

// rerunFirstRefused: index of the first input of a case that the isolated first run refused as invalid input (-1: none)
func rerunFirstRefused(oracles []*rerunOracle) int {
	for i, o := range oracles {
		for _, r := range o.results {
			if r.ErrClass == "invalidInput" {
				return i
			}
		}
	}
	return -1
}

func runRerunCase(r *rng, caseID string, tier string) map[string]any {
	g := genOpts{maxSteps: 2 + r.intn(4), tags: r.chance(1, 2), failOutputs: true, enabled: r.chance(1, 2),
		stopIf: r.chance(1, 4), waitFor: r.chance(1, 2), evalFail: r.chance(1, 3), deployExpr: r.chance(1, 3)}
	wf := genWorkflow(r, g)
	text := wf.yaml(nil, nil)
	beh := genBehaviours(r, wf, engineOpts{cancelAfterMs: -1})
	if r.chance(1, 2) {
		for k, b := range beh { // zero delays: maximal overlap of the runs' internal steps
			b.DelayMs, b.DeployDelayMs = 0, 0
			beh[k] = b
		}
	}
	s := newScript()
	for k, v := range beh {
		s.set(k, v)
	}
	currentScript.Store(s)
	inputs := genRerunInputs(r, wf)
	pr := r.fork() // perturbation choices have their own stream: the case itself does not depend on whether a retry happened
	inputsJ := []any{}
	for _, in := range inputs {
		inputsJ = append(inputsJ, encVal(in))
	}
	out := map[string]any{"kind": "rerun", "id": caseID, "yaml": text, "behaviours": beh, "inputs": inputsJ}
	if kb, err := json.Marshal([]any{inputsJ, beh}); err == nil {
		out["key"] = string(kb) // distinct = workflow text + inputs + behaviours
	}

	// oracle: isolated first runs, one per distinct input (more on demand)
	oracles := make([]*rerunOracle, len(inputs))
	for i, in := range inputs {
		oracles[i] = &rerunOracle{text: text, input: in, keys: map[string]bool{}}
	}
	for i := range inputs {
		rerunOracleRun(oracles, text, beh, inputsJ, []int{i})
	}
	reg, f, err := newRegistry(nil)
	if err != nil {
		return map[string]any{"kind": "harness-error", "id": caseID, "error": err.Error()}
	}
	s.probe.Store(true)
	prepared, err := prepareYAML(reg, f, text, nil)
	s.probe.Store(false)
	if err != nil {
		out["skip"] = "prepare: " + err.Error()
		return out
	}

	type runRec struct {
		Mode        string      `json:"mode"` // sequential | concurrent | twin
		Which       string      `json:"which"`
		Input       int         `json:"input"`
		CancelAfter int         `json:"cancel_after_ms"`
		Result      rerunResult `json:"result"`
		Equal       bool        `json:"equal"`
		OracleRuns  int         `json:"oracle_runs"`
		After       string      `json:"after,omitempty"` // what preceded: ok | error | cancelled
	}
	runs := []runRec{}
	var pending []int // indexes of runs whose verdict needs more oracle runs (resolved when nothing else is running)
	judge := func(rec *runRec) {
		o := oracles[rec.Input]
		if rec.CancelAfter >= 0 {
			// a cancelled run must return: an error, or one of the declared outputs (which data it carries depends on
			// the instant of the cancellation and is not compared)
			_, declared := wf.Outputs[rec.Result.OutputID]
			rec.Equal = !rec.Result.Timeout && rec.Result.Panic == "" && (rec.Result.ErrClass != "" || declared)
			return
		}
		rec.Equal = o.admits(rec.Result)
	}
	// resolve: a mismatch is only recorded after further isolated runs failed to produce the same result.  Runs that
	// overlapped with others are compared with isolated runs that overlap in the same way (mix = the inputs of the phase).
	// Which of several racing events of ONE run wins (an output against an evaluation error, a soft-optional source against
	// its consumer) depends on goroutine speed, which differs after a cancelled run or under load; so after the first plain
	// retries the isolated runs are made under perturbed plugin timing (extra deploy / execution delays of a few ms for a
	// random subset of steps; what the plugins return is unchanged).  A result that no isolated first run produces under any
	// of these timings is what C14 forbids.
	var mix []int
	perturbed := func() map[string]Behaviour {
		out := map[string]Behaviour{}
		for _, k := range sortedKeys(beh) {
			b := beh[k]
			if pr.chance(1, 2) {
				b.DeployDelayMs += []int{3, 8, 15}[pr.intn(3)]
			}
			if pr.chance(1, 3) {
				b.DelayMs += []int{2, 5, 12}[pr.intn(3)]
			}
			out[k] = b
		}
		return out
	}
	dead := false // a run did not return: its goroutine is lost and every further run would be judged against a wedged process
	resolve := func() {
		for _, i := range pending {
			rec := &runs[i]
			if rec.Result.Timeout {
				continue // no isolated run can make "did not return" admissible
			}
			for k := 0; k < rerunOracleRetries && !rec.Equal; k++ {
				// plain and perturbed timings alternate (a perturbation only ever SLOWS steps down, which decides some races
				// one way: a stop condition against the completion of the step it stops), and so do isolated runs that overlap
				// like the phase did and a single isolated run
				b := beh
				if k >= 3 && k%2 == 1 {
					b = perturbed()
				}
				if mix != nil && k%3 != 2 {
					rerunOracleRun(oracles, text, b, inputsJ, mix)
				} else {
					rerunOracleRun(oracles, text, b, inputsJ, []int{rec.Input})
				}
				judge(rec)
			}
		}
		pending = nil
		mix = nil
	}
	add := func(rec runRec) {
		judge(&rec)
		if rec.Result.Timeout {
			dead = true
		}
		runs = append(runs, rec)
		if !rec.Equal {
			pending = append(pending, len(runs)-1)
		}
	}
	last := ""
	describe := func(rec runRec) string {
		switch {
		case rec.CancelAfter >= 0:
			return "cancelled"
		case rec.Result.ErrClass != "":
			return "error"
		default:
			return "ok"
		}
	}

	// (a) sequential
	k := 4 + r.intn(4)
	if tier == "thorough" {
		k += 4
	}
	refused := rerunFirstRefused(oracles)
	for i := 0; i < k && !dead; i++ {
		idx := r.intn(len(inputs))
		if i == 1 {
			idx = runs[0].Input // the same input twice in a row
		}
		cancelAfter := -1
		if r.chance(1, 5) {
			cancelAfter = r.intn(6)
		}
		if i == 2 && refused >= 0 {
			idx, cancelAfter = refused, -1 // a refused input between accepted ones
		}
		rec := runRec{Mode: "sequential", Which: "A", Input: idx, CancelAfter: cancelAfter, After: last}
		rec.Result = rerunExecuteOnce(prepared, inputs[idx], cancelAfter)
		add(rec)
		last = describe(rec)
	}
	resolve()

	finish := func() map[string]any {
		for i := range runs { // final verdicts against the final oracle sets
			judge(&runs[i])
			runs[i].OracleRuns = len(oracles[runs[i].Input].results)
		}
		oj := []any{}
		unstable := false
		for i, o := range oracles {
			oj = append(oj, map[string]any{"input": i, "results": o.results})
			if len(o.results) > 1 {
				unstable = true
			}
		}
		allEqual := true
		for _, rec := range runs {
			allEqual = allEqual && rec.Equal
		}
		out["oracle"] = oj
		out["oracle_unstable"] = unstable
		out["runs"] = runs
		out["equal_all"] = allEqual
		if dead {
			out["aborted_after_timeout"] = true
		}
		return out
	}
	if dead {
		return finish()
	}

	// (b) concurrent: N goroutines released together
	n := 2 + r.intn(7)
	out["n_concurrent"] = n
	recs := make([]runRec, n)
	for i := range recs {
		recs[i] = runRec{Mode: "concurrent", Which: "A", Input: r.intn(len(inputs)), CancelAfter: -1, After: last}
		if i > 0 && r.chance(1, 8) {
			recs[i].CancelAfter = r.intn(6)
		}
	}
	if n >= 2 {
		recs[1].Input = recs[0].Input // equal inputs at the same time
	}
	start := make(chan struct{})
	var wg sync.WaitGroup
	for i := range recs {
		wg.Add(1)
		go func(i int) {
			defer wg.Done()
			<-start
			recs[i].Result = rerunExecuteOnce(prepared, inputs[recs[i].Input], recs[i].CancelAfter)
		}(i)
	}
	close(start)
	wg.Wait()
	for _, rec := range recs {
		add(rec)
		if rec.CancelAfter < 0 {
			mix = append(mix, rec.Input)
		}
	}
	resolve()
	if dead {
		return finish()
	}
	// one more sequential run after the overlap
	{
		idx := r.intn(len(inputs))
		rec := runRec{Mode: "sequential", Which: "A", Input: idx, CancelAfter: -1, After: "overlap"}
		rec.Result = rerunExecuteOnce(prepared, inputs[idx], -1)
		add(rec)
		resolve()
	}

	if dead {
		return finish()
	}
	// (c) a twin prepared from the same text on the same registry, interleaved with the original
	s.probe.Store(true)
	twin, err := prepareYAML(reg, f, text, nil)
	s.probe.Store(false)
	if err != nil {
		out["twin_error"] = err.Error()
	} else {
		seq := []string{"A", "B", "A", "B"}
		for _, w := range seq {
			if dead {
				break
			}
			idx := r.intn(len(inputs))
			p := prepared
			if w == "B" {
				p = twin
			}
			rec := runRec{Mode: "twin", Which: w, Input: idx, CancelAfter: -1, After: "twin-prepared"}
			rec.Result = rerunExecuteOnce(p, inputs[idx], -1)
			add(rec)
		}
		resolve()
		if dead {
			return finish()
		}
		m := 2 + r.intn(3)
		trecs := make([]runRec, 2*m)
		for i := range trecs {
			trecs[i] = runRec{Mode: "twin", Which: []string{"A", "B"}[i%2], Input: r.intn(len(inputs)), CancelAfter: -1, After: "twin-overlap"}
		}
		start := make(chan struct{})
		for i := range trecs {
			wg.Add(1)
			go func(i int) {
				defer wg.Done()
				<-start
				p := prepared
				if trecs[i].Which == "B" {
					p = twin
				}
				trecs[i].Result = rerunExecuteOnce(p, inputs[trecs[i].Input], -1)
			}(i)
		}
		close(start)
		wg.Wait()
		for _, rec := range trecs {
			add(rec)
			mix = append(mix, rec.Input)
		}
		resolve()
	}
	return finish()
}

// ---- child-process mode: race detector reports and crashes become part of the case -------------------------------------------

type rerunRaceReport struct {
	Engine bool     `json:"engine"` // a frame of go.flow.arcalot.io/engine (not the harness) is on one of the stacks
	Tops   []string `json:"tops"`   // the first non-runtime function of each of the two accesses
	Text   string   `json:"text"`
}

var rerunRaceFrameRe = regexp.MustCompile(`(?m)^  ([^\s/][^\s]*)\(`)

func rerunParseRaceReports(stderr string) []rerunRaceReport {
	out := []rerunRaceReport{}
	for _, blk := range strings.Split(stderr, "==================") {
		i := strings.Index(blk, "WARNING: DATA RACE")
		if i < 0 {
			continue
		}
		blk = strings.TrimSpace(blk[i:])
		rep := rerunRaceReport{Text: blk}
		if len(rep.Text) > 8000 {
			rep.Text = rep.Text[:8000]
		}
		for _, sec := range strings.Split(blk, "\n\n") {
			if !(strings.HasPrefix(sec, "WARNING") || strings.HasPrefix(sec, "Read") || strings.HasPrefix(sec, "Write") ||
				strings.HasPrefix(sec, "Previous") || strings.HasPrefix(sec, "Atomic")) {
				continue
			}
			for _, m := range rerunRaceFrameRe.FindAllStringSubmatch(sec, -1) {
				if !strings.HasPrefix(m[1], "runtime.") && !strings.HasPrefix(m[1], "sync.") && !strings.HasPrefix(m[1], "sync/atomic.") {
					if len(rep.Tops) < 2 {
						rep.Tops = append(rep.Tops, m[1])
					}
					break
				}
			}
		}
		for _, line := range strings.Split(blk, "\n") {
			l := strings.TrimSpace(line)
			if strings.HasPrefix(l, "go.flow.arcalot.io/engine/") || strings.HasPrefix(l, "go.flow.arcalot.io/engine.") {
				rep.Engine = true
			}
		}
		out = append(out, rep)
	}
	return out
}

func rerunCrashSummary(stderr string) string {
	i := strings.Index(stderr, "panic:")
	if i < 0 {
		i = strings.Index(stderr, "fatal error:")
	}
	if i < 0 {
		if len(stderr) > 1500 {
			return stderr[len(stderr)-1500:]
		}
		return stderr
	}
	t := stderr[i:]
	if len(t) > 2500 {
		t = t[:2500]
	}
	return t
}

// rerunChildCase runs case i of the stream in a child process of `bin` (typically the -race build of this harness).
func rerunChildCase(bin string, c *common, i int) map[string]any {
	id := fmt.Sprintf("rerun-%d-%d", c.seed, i)
	cmd := exec.Command(bin, "rerun", "-n", fmt.Sprint(i+1), "-skip", fmt.Sprint(i), "-seed", fmt.Sprint(c.seed), "-tier", c.tier, "-out", "-")
	var so, se bytes.Buffer
	cmd.Stdout, cmd.Stderr = &so, &se
	done := make(chan error, 1)
	if err := cmd.Start(); err != nil {
		return map[string]any{"kind": "harness-error", "id": id, "error": err.Error()}
	}
	go func() { done <- cmd.Wait() }()
	var werr error
	select {
	case werr = <-done:
	case <-time.After(10 * time.Minute):
		_ = cmd.Process.Kill()
		werr = fmt.Errorf("child timed out")
	}
	var out map[string]any
	for _, line := range strings.Split(so.String(), "\n") {
		var m map[string]any
		if json.Unmarshal([]byte(line), &m) == nil && m["kind"] == "rerun" {
			out = m
		}
	}
	stderr := se.String()
	if out == nil {
		out = map[string]any{"kind": "rerun", "id": id, "crash": rerunCrashSummary(stderr)}
	}
	out["child"] = bin
	if werr != nil {
		out["child_exit"] = werr.Error()
	}
	out["race_reports"] = rerunParseRaceReports(stderr)
	return out
}

// rerunMismatchModes: the modes of the runs of a case that differ from the isolated runs (timeouts excluded: a run that
// never returns is not a matter of sampling)
func rerunMismatchModes(out map[string]any) map[string]bool {
	modes := map[string]bool{}
	runs, _ := out["runs"].([]any)
	for _, r := range runs {
		m, _ := r.(map[string]any)
		if m == nil {
			continue
		}
		res, _ := m["result"].(map[string]any)
		if eq, _ := m["equal"].(bool); !eq && res != nil && res["timeout"] != true {
			modes[fmt.Sprint(m["mode"])] = true
		}
	}
	return modes
}

// rerunConfirmedCase: the isolated-run oracle of a result that depends on the engine's own scheduling is a SAMPLE of the
// admissible results.  A run that returns what no sampled isolated run returned is therefore reported only if it
// reproduces: the case is executed a second time (fresh child process, same seed) and must again contain a run of the
// same mode that differs from the isolated runs.  State leaking from one run into another reproduces; a rare ordering of
// one run's own events that the sample missed does not (it is recorded as `unconfirmed`, the runs count as inconclusive).
func rerunConfirmedCase(bin string, c *common, i int) map[string]any {
	out := rerunChildCase(bin, c, i)
	first := rerunMismatchModes(out)
	if len(first) == 0 || out["aborted_after_timeout"] == true {
		return out
	}
	again := rerunChildCase(bin, c, i)
	second := rerunMismatchModes(again)
	confirmed := false
	for m := range first {
		if second[m] {
			confirmed = true
		}
	}
	if confirmed {
		out["confirmed_by_second_execution"] = true
		return out
	}
	unconfirmed := []any{}
	runs, _ := out["runs"].([]any)
	for _, r := range runs {
		m, _ := r.(map[string]any)
		if m == nil {
			continue
		}
		res, _ := m["result"].(map[string]any)
		if eq, _ := m["equal"].(bool); !eq && res != nil && res["timeout"] != true {
			unconfirmed = append(unconfirmed, map[string]any{"mode": m["mode"], "input": m["input"], "result": res})
			m["equal"] = true
			m["unconfirmed"] = true
		}
	}
	out["unconfirmed"] = unconfirmed
	out["equal_all"] = true
	// race reports of the second execution are reports all the same
	if rr, ok := again["race_reports"].([]rerunRaceReport); ok && len(rr) > 0 {
		if r1, ok := out["race_reports"].([]rerunRaceReport); ok {
			out["race_reports"] = append(r1, rr...)
		}
	}
	return out
}

func cmdRerun(args []string) int {
	var child string
	c, _ := parseCommon("rerun", args, func(fs *flag.FlagSet) {
		fs.StringVar(&child, "child", "", "run every case in a child process of this harness binary (`self`, or e.g. the -race build); "+
			"data race reports and crashes of the child are attached to the case")
	})
	if child == "self" {
		if exe, err := os.Executable(); err == nil {
			child = exe
		}
	}
	w := openOut(c.out)
	defer w.close()
	r := newRng(c.seed)
	wedged := 0 // cases that ended in a run that never returned (25 s each): two of them say all there is to say
	for i := 0; i < c.n; i++ {
		cr := r.fork()
		if i < c.skip {
			continue
		}
		w.emit(map[string]any{"kind": "begin", "index": i})
		if wedged >= 2 {
			w.emit(map[string]any{"kind": "rerun", "id": fmt.Sprintf("rerun-%d-%d", c.seed, i),
				"skip": "not run: two earlier cases of this stream already ended in a run that never returned"})
			continue
		}
		if child != "" {
			out := rerunConfirmedCase(child, c, i)
			if a, _ := out["aborted_after_timeout"].(bool); a {
				wedged++
			}
			w.emit(out)
			continue
		}
		out := runRerunCase(cr, fmt.Sprintf("rerun-%d-%d", c.seed, i), c.tier)
		w.emit(out)
		if a, _ := out["aborted_after_timeout"].(bool); a {
			// the goroutine of the run that did not return is lost: this process is done
			w.close()
			os.Exit(0)
		}
	}
	return 0
}
