//go:build verif

package main

import (
	"context"
	"crypto/sha256"
	"encoding/hex"
	"encoding/json"
	"errors"
	"flag"
	"fmt"
	"io"
	"os"
	"path/filepath"
	"reflect"
	"sort"
	"strings"
	"time"

	engine "go.flow.arcalot.io/engine"
	engineyaml "go.flow.arcalot.io/engine/internal/yaml"
	"go.flow.arcalot.io/engine/loadfile"
	"go.flow.arcalot.io/engine/workflow"
)

func init() { register("engineapi", cmdEngineAPI) }

// ---- C20: the engine API classifies results and resolves files consistently -------------------------------------------------
//
// One case = one generated workflow TREE (root workflow.yaml + sub-workflow files reached through foreach steps, nesting
// depth 1..3, shared sub-workflows, sub-directories) written to a fresh temporary context directory, run
//   (A) through the engine entry point (engine.New + RunWorkflow / Parse + Run) with the file cache built as
//       cmd/arcaflow/main.go builds it and through the in-memory API loadfile.NewFileCache, with absolute / relative /
//       non-canonical spellings of the context directory and from several working directories; the in-memory cache holds
//       every file (also for a directory that does not exist), only some of the sub-workflows (the others are in the
//       context directory), only the workflows that reference others (the referenced ones are in the context directory),
//       or a copy that differs from the one in the context directory, and
//   (B) directly: YAML converter + Executor.Prepare(wf, contents) + Execute(decoded input) with a hand-built file map.
// The case also carries the result an oracle computes from the abstract tree alone (independent of nesting and sharing),
// the error flag the tree declares, and a direct exercise of loadfile.MergeFileCaches for the model comparison.

// ---- abstract tree ------------------------------------------------------------------------------------------------------

type tItem struct {
	Lit   string `json:"lit,omitempty"`
	Input bool   `json:"input,omitempty"` // the item's v is the parent's own $.input.v
}

type tLoop struct {
	ID          string  `json:"id"`
	File        string  `json:"file"`
	FromInput   bool    `json:"from_input"` // root only: items: !expr $.input.items
	Items       []tItem `json:"items,omitempty"`
	Parallelism int     `json:"parallelism"`
}

type tOutput struct {
	ID       string `json:"id"`
	Role     string `json:"role"`     // good | bad | pbad
	Declared *bool  `json:"declared"` // error flag of the explicit schema, nil = inferred
}

type tNode struct {
	File     string    `json:"file"`
	Kind     string    `json:"kind"` // root | mid | leaf
	Version  string    `json:"version"`
	Loops    []tLoop   `json:"loops,omitempty"`
	Plugs    []string  `json:"plugs,omitempty"` // plugin sources: leaf = chained steps a,b ; root = optional step p
	Outputs  []tOutput `json:"outputs"`
	Explicit string    `json:"explicit"` // none | all | partial
	BadLoop  string    `json:"bad_loop,omitempty"`
	ReadFile bool      `json:"read_file,omitempty"`
	Tag      string    `json:"tag,omitempty"` // extra literal field in the success output (in-memory != disk variant)
}

type tTree struct {
	Nodes    map[string]*tNode `json:"nodes"`
	Order    []string          `json:"order"`
	Depth    int               `json:"depth"`
	Shared   bool              `json:"shared"`
	SubDirs  bool              `json:"subdirs"`
	RootFile string            `json:"root_file"`
}

func (t *tTree) root() *tNode { return t.Nodes[t.RootFile] }

var apiOutputIDs = []string{"success", "failure", "error", "done"}

func boolp(b bool) *bool { return &b }

func genTree(r *rng) *tTree {
	t := &tTree{Nodes: map[string]*tNode{}, RootFile: "workflow.yaml"}
	depth := 1 + r.intn(3)
	t.Depth = depth
	t.SubDirs = r.chance(1, 2)
	name := func(base string) string {
		if !t.SubDirs {
			return base
		}
		switch r.intn(3) {
		case 0:
			return base
		case 1:
			return "sub/" + base
		default:
			return "sub/deep/" + base
		}
	}
	add := func(n *tNode) {
		t.Nodes[n.File] = n
		t.Order = append(t.Order, n.File)
	}
	// levels[l] = files whose foreach nesting level is l (1 = referenced by the root); the last level holds leaves
	levels := make([][]string, depth+1)
	nLeaf := 1 + r.intn(2)
	for i := 0; i < nLeaf; i++ {
		n := &tNode{File: name(fmt.Sprintf("leaf%d.yaml", i+1)), Kind: "leaf", Version: "v0.2.0", Explicit: "none"}
		tag := fmt.Sprintf("leaf%d", i+1)
		n.Plugs = []string{tag + "-a"}
		if r.chance(1, 2) {
			n.Plugs = append(n.Plugs, tag+"-b")
		}
		n.Outputs = []tOutput{{ID: "success", Role: "good"}}
		if r.chance(1, 3) {
			n.Outputs = append(n.Outputs, tOutput{ID: "failure", Role: "bad"})
		}
		if r.chance(1, 4) {
			n.Explicit = "all"
			for k := range n.Outputs {
				n.Outputs[k].Declared = boolp(r.chance(1, 2))
			}
		}
		if r.chance(1, 12) {
			n.Version = "v0.9.9" // only the root workflow's version is checked by the engine
		}
		levels[depth] = append(levels[depth], n.File)
		add(n)
	}
	mkItems := func() []tItem {
		k := r.intn(4)
		items := []tItem{}
		for i := 0; i < k; i++ {
			if r.chance(1, 2) {
				items = append(items, tItem{Input: true})
			} else {
				items = append(items, tItem{Lit: fmt.Sprintf("x%d", r.intn(9))})
			}
		}
		return items
	}
	pickChild := func(level int) string {
		// mostly the next level; sometimes a leaf directly (mixed depths in one tree)
		l := level + 1
		if l < depth && r.chance(1, 5) {
			l = depth
		}
		return levels[l][r.intn(len(levels[l]))]
	}
	for l := depth - 1; l >= 1; l-- {
		nMid := 1 + r.intn(2)
		for i := 0; i < nMid; i++ {
			n := &tNode{File: name(fmt.Sprintf("mid%d_%d.yaml", l, i+1)), Kind: "mid", Version: "v0.2.0", Explicit: "none"}
			nl := 1 + r.intn(2)
			for k := 0; k < nl; k++ {
				lp := tLoop{ID: fmt.Sprintf("l%d", k+1), File: pickChild(l), Items: mkItems(), Parallelism: 1 + r.intn(3)}
				if k == 1 && r.chance(1, 2) {
					lp.File = n.Loops[0].File // shared: two foreach steps of one parent use the same file
				}
				n.Loops = append(n.Loops, lp)
			}
			n.Outputs = []tOutput{{ID: "success", Role: "good"}}
			if r.chance(1, 4) {
				n.Outputs = append(n.Outputs, tOutput{ID: "failure", Role: "bad"})
				n.BadLoop = n.Loops[r.intn(len(n.Loops))].ID
			}
			if r.chance(1, 4) {
				n.Explicit = "all"
				for k := range n.Outputs {
					n.Outputs[k].Declared = boolp(r.chance(1, 2))
				}
			}
			levels[l] = append(levels[l], n.File)
			add(n)
		}
	}
	root := &tNode{File: t.RootFile, Kind: "root", Version: "v0.2.0", Explicit: "none"}
	nl := 1 + r.intn(2)
	for k := 0; k < nl; k++ {
		lp := tLoop{ID: fmt.Sprintf("l%d", k+1), File: pickChild(0), Parallelism: 1 + r.intn(3)}
		if r.chance(1, 2) {
			lp.FromInput = true
		} else {
			lp.Items = mkItems()
		}
		if k == 1 && r.chance(1, 2) {
			lp.File = root.Loops[0].File
		}
		root.Loops = append(root.Loops, lp)
	}
	if r.chance(1, 2) {
		root.Plugs = []string{"root-p"}
	}
	ids := r.perm(len(apiOutputIDs))
	root.Outputs = []tOutput{{ID: apiOutputIDs[ids[0]], Role: "good"}}
	root.BadLoop = root.Loops[r.intn(len(root.Loops))].ID
	if r.chance(3, 4) {
		root.Outputs = append(root.Outputs, tOutput{ID: apiOutputIDs[ids[1]], Role: "bad"})
	}
	if len(root.Plugs) > 0 && r.chance(2, 3) {
		root.Outputs = append(root.Outputs, tOutput{ID: apiOutputIDs[ids[2]], Role: "pbad"})
	}
	switch c := r.intn(10); {
	case c < 4:
		root.Explicit = "all"
		for k := range root.Outputs {
			root.Outputs[k].Declared = boolp(r.chance(1, 2))
		}
	case c == 4 && len(root.Outputs) > 1:
		// the documentation of outputSchema says unlisted outputs are inferred; Prepare rejects them
		root.Explicit = "partial"
		root.Outputs[0].Declared = boolp(r.chance(1, 2))
	}
	if r.chance(1, 25) {
		root.Version = "v0.3.0" // matches the version pattern, is not in engine.supportedVersions
	}
	root.ReadFile = r.chance(1, 8)
	add(root)
	// drop files nothing refers to (unreferenced pool entries) and find sharing
	refCount := map[string]int{}
	var walk func(f string)
	seen := map[string]bool{}
	walk = func(f string) {
		n := t.Nodes[f]
		for _, lp := range n.Loops {
			refCount[lp.File]++
			if !seen[lp.File] {
				seen[lp.File] = true
				walk(lp.File)
			}
		}
	}
	seen[t.RootFile] = true
	walk(t.RootFile)
	order := []string{}
	for _, f := range t.Order {
		if seen[f] {
			order = append(order, f)
		} else {
			delete(t.Nodes, f)
		}
	}
	t.Order = order
	for _, c := range refCount {
		if c > 1 {
			t.Shared = true
		}
	}
	t.Depth = apiTreeDepth(t, t.RootFile)
	return t
}

func apiTreeDepth(t *tTree, f string) int {
	d := 0
	for _, lp := range t.Nodes[f].Loops {
		if c := 1 + apiTreeDepth(t, lp.File); c > d {
			d = c
		}
	}
	return d
}

func (n *tNode) refs() []string {
	seen := map[string]bool{}
	out := []string{}
	for _, lp := range n.Loops {
		if !seen[lp.File] {
			seen[lp.File] = true
			out = append(out, lp.File)
		}
	}
	sort.Strings(out)
	return out
}

// ---- rendering ----------------------------------------------------------------------------------------------------------

func anySchemaYAML(id string, props []string, declared bool, indent string) string {
	var b strings.Builder
	fmt.Fprintf(&b, "%s%s:\n%s  error: %v\n%s  schema:\n%s    root: Out\n%s    objects:\n%s      Out:\n%s        id: Out\n%s        properties:\n",
		indent, id, indent, declared, indent, indent, indent, indent, indent, indent)
	for _, p := range props {
		fmt.Fprintf(&b, "%s          %s:\n%s            type: {type_id: any}\n", indent, p, indent)
	}
	return b.String()
}

// render returns the YAML text of one node and, per output, the property names of its data.
func (n *tNode) render() string {
	var b strings.Builder
	if n.Kind == "root" {
		fmt.Fprintf(&b, "version: %s\ninput:\n  root: RootObject\n  objects:\n    RootObject:\n      id: RootObject\n      properties:\n", n.Version)
	} else {
		// the items of a foreach step must be objects with the same id as the sub-workflow's input root
		fmt.Fprintf(&b, "version: %s\ninput:\n  root: Item\n  objects:\n    Item:\n      id: Item\n      properties:\n", n.Version)
	}
	if n.Kind == "root" {
		b.WriteString("        name:\n          type: {type_id: string}\n        items:\n          type:\n            type_id: list\n            items: {type_id: ref, id: Item}\n")
		b.WriteString("    Item:\n      id: Item\n      properties:\n        v:\n          type: {type_id: string}\n")
	} else {
		b.WriteString("        v:\n          type: {type_id: string}\n")
	}
	b.WriteString("steps:\n")
	for _, lp := range n.Loops {
		fmt.Fprintf(&b, "  %s:\n    kind: foreach\n    workflow: %s\n    parallelism: %d\n", lp.ID, yq(lp.File), lp.Parallelism)
		if lp.FromInput {
			b.WriteString("    items: !expr $.input.items\n")
		} else {
			parts := []string{}
			for _, it := range lp.Items {
				switch {
				case it.Input && n.Kind == "root":
					parts = append(parts, "{v: !expr $.input.name}")
				case it.Input:
					parts = append(parts, "{v: !expr $.input.v}")
				default:
					parts = append(parts, "{v: "+yq(it.Lit)+"}")
				}
			}
			fmt.Fprintf(&b, "    items: [%s]\n", strings.Join(parts, ", "))
		}
	}
	switch n.Kind {
	case "leaf":
		for i, src := range n.Plugs {
			in := "$.input.v"
			if i > 0 {
				in = "$.steps.a.outputs.success.s"
			}
			fmt.Fprintf(&b, "  %s:\n    plugin: {src: %s, deployment_type: \"builtin\"}\n    step: op\n    input: {s: !expr %s}\n",
				string(rune('a'+i)), yq(src), yq(in))
		}
	case "root":
		for _, src := range n.Plugs {
			fmt.Fprintf(&b, "  p:\n    plugin: {src: %s, deployment_type: \"builtin\"}\n    step: op\n    input: {s: !expr \"$.input.name\"}\n", yq(src))
		}
	}
	b.WriteString("outputs:\n")
	props := map[string][]string{}
	for _, o := range n.Outputs {
		fmt.Fprintf(&b, "  %s:\n", o.ID)
		put := func(k, v string) {
			fmt.Fprintf(&b, "    %s: %s\n", k, v)
			props[o.ID] = append(props[o.ID], k)
		}
		switch {
		case n.Kind == "leaf" && o.Role == "good":
			last := string(rune('a' + len(n.Plugs) - 1))
			put("r", "!expr $.steps."+last+".outputs.success.s")
			if n.Tag != "" {
				put("tag", yq(n.Tag))
			}
		case n.Kind == "leaf":
			put("e", "!expr $.steps.a.outputs.error.reason")
		case o.Role == "good":
			for _, lp := range n.Loops {
				put("d_"+lp.ID, "!expr $.steps."+lp.ID+".outputs.success.data")
			}
			if n.Kind == "root" && len(n.Plugs) > 0 {
				put("p", "!expr $.steps.p.outputs.success.s")
			}
			if n.ReadFile {
				put("note", "!expr 'readFile(\"note.txt\")'")
			}
		case o.Role == "bad":
			put("d", "!expr $.steps."+n.BadLoop+".failed.error.data")
		case o.Role == "pbad":
			put("r", "!expr $.steps.p.outputs.error.reason")
			put("d", "!expr $.steps."+n.BadLoop+".outputs.success.data")
		}
	}
	if n.Explicit != "none" {
		b.WriteString("outputSchema:\n")
		for _, o := range n.Outputs {
			if o.Declared != nil {
				b.WriteString(anySchemaYAML(o.ID, props[o.ID], *o.Declared, "  "))
			}
		}
	}
	return b.String()
}

// ---- oracle: the result the tree denotes, computed without any notion of files or nesting --------------------------------

func srcOK(beh map[string]Behaviour, src string) bool {
	b, ok := beh[src]
	if !ok {
		return true
	}
	return b.Outcome == "success" && !b.DeployFail
}

// evalSub evaluates a sub-workflow (mid or leaf) on one item; ok=false: the item fails.
func evalSub(t *tTree, file string, v string, beh map[string]Behaviour) (bool, any) {
	n := t.Nodes[file]
	if n.Kind == "leaf" {
		s := v
		for _, src := range n.Plugs {
			if !srcOK(beh, src) {
				return false, nil
			}
			s = s + "+" + src
		}
		out := map[string]any{"r": s}
		if n.Tag != "" {
			out["tag"] = n.Tag
		}
		return true, out
	}
	out := map[string]any{}
	all := true
	for _, lp := range n.Loops {
		ok, data, _ := evalLoop(t, lp, v, nil, beh)
		if !ok {
			all = false
		}
		out["d_"+lp.ID] = data
	}
	if !all {
		return false, nil
	}
	return true, out
}

// evalLoop returns (all items succeeded, list of item outputs, map index -> output of the successful items).
func evalLoop(t *tTree, lp tLoop, v string, inputItems []string, beh map[string]Behaviour) (bool, []any, map[int]any) {
	vals := []string{}
	if lp.FromInput {
		vals = inputItems
	} else {
		for _, it := range lp.Items {
			if it.Input {
				vals = append(vals, v)
			} else {
				vals = append(vals, it.Lit)
			}
		}
	}
	list := []any{}
	good := map[int]any{}
	all := true
	for i, x := range vals {
		ok, d := evalSub(t, lp.File, x, beh)
		if ok {
			good[i] = d
			list = append(list, d)
		} else {
			all = false
		}
	}
	return all, list, good
}

type apiExpect struct {
	PrepareError string `json:"prepare_error,omitempty"` // the tree is rejected when it is prepared
	NoOutput     bool   `json:"no_output"`
	OutputID     string `json:"output_id,omitempty"`
	Data         any    `json:"data,omitempty"`
	ErrorFlag    bool   `json:"error_flag"`
	Declared     *bool  `json:"declared"`
	Role         string `json:"role,omitempty"`
}

func evalRoot(t *tTree, name string, items []string, beh map[string]Behaviour, note string) apiExpect {
	n := t.root()
	if n.Explicit == "partial" {
		// model.go documents "outputs that are not explicitly specified here will be inferred"; Prepare rejects them
		return apiExpect{NoOutput: true, PrepareError: "missingOutputSchema"}
	}
	byRole := map[string]tOutput{}
	for _, o := range n.Outputs {
		byRole[o.Role] = o
	}
	loopOK := map[string]bool{}
	loopList := map[string][]any{}
	loopGood := map[string]map[int]any{}
	all := true
	for _, lp := range n.Loops {
		ok, list, good := evalLoop(t, lp, name, items, beh)
		loopOK[lp.ID], loopList[lp.ID], loopGood[lp.ID] = ok, list, good
		if !ok {
			all = false
		}
	}
	pOK, pErr := true, false
	if len(n.Plugs) > 0 {
		b := beh[n.Plugs[0]]
		pOK = srcOK(beh, n.Plugs[0])
		pErr = b.Outcome == "error" && !b.DeployFail
	}
	mk := func(o tOutput, data any) apiExpect {
		flag := o.ID == "error"
		if o.Declared != nil {
			flag = *o.Declared
		}
		return apiExpect{OutputID: o.ID, Data: encVal(data), ErrorFlag: flag, Declared: o.Declared, Role: o.Role}
	}
	if !loopOK[n.BadLoop] {
		if o, ok := byRole["bad"]; ok {
			return mk(o, map[string]any{"d": loopGood[n.BadLoop]})
		}
		return apiExpect{NoOutput: true}
	}
	if pErr {
		if o, ok := byRole["pbad"]; ok {
			return mk(o, map[string]any{"r": "scripted failure of " + n.Plugs[0], "d": loopList[n.BadLoop]})
		}
		return apiExpect{NoOutput: true}
	}
	if all && pOK {
		data := map[string]any{}
		for _, lp := range n.Loops {
			data["d_"+lp.ID] = loopList[lp.ID]
		}
		if len(n.Plugs) > 0 {
			data["p"] = name + "+" + n.Plugs[0]
		}
		if n.ReadFile {
			data["note"] = note
		}
		return mk(byRole["good"], data)
	}
	return apiExpect{NoOutput: true}
}

// ---- running ------------------------------------------------------------------------------------------------------------

type apiResult struct {
	OutputID  string `json:"output_id"`
	Data      any    `json:"data"`
	ErrorFlag bool   `json:"error_flag"`
	Err       string `json:"err,omitempty"`
	ErrClass  string `json:"err_class,omitempty"`
	Stage     string `json:"stage,omitempty"` // where the error arose: cache | parse | run
	Panic     string `json:"panic,omitempty"`
	Timeout   bool   `json:"timeout,omitempty"`
}

func classifyAPIErr(stage string, err error) string {
	if err == nil {
		return ""
	}
	msg := err.Error()
	switch {
	case errors.Is(err, engine.ErrNoWorkflowFile):
		return "noWorkflowFile"
	case strings.Contains(msg, "file caches have different root directory"):
		return "rootMismatch"
	case strings.Contains(msg, "error reading file"):
		return "readError"
	case strings.Contains(msg, "unsupported workflow schema version"):
		return "unsupportedVersion"
	case strings.Contains(msg, "references itself through its foreach steps"):
		return "selfReference"
	case strings.Contains(msg, "could not find output id"):
		return "missingOutputSchema"
	case strings.Contains(msg, "failed to YAML decode input"):
		return "inputDecode"
	}
	if stage == "run" {
		return classifyExecErr(err)
	}
	return "prepare"
}

// installQuietScriptedEngine is installScriptedEngine (env.go) with the engine's own log sent nowhere: the engine logs
// every failing sub-workflow to its configured stdout, which would end up in the JSON stream.
func installQuietScriptedEngine() (engine.WorkflowEngine, error) {
	engine.DefaultDeployerRegistry = scriptedDeployerRegistry()
	cfg := engineConfig()
	cfg.Log.Stdout = io.Discard
	return engine.New(cfg)
}

func installBehaviours(beh map[string]Behaviour) *Script {
	s := newScript()
	for k, v := range beh {
		s.set(k, v)
	}
	currentScript.Store(s)
	return s
}

// runEngine mirrors runWorkflow of cmd/arcaflow/main.go: Parse, then Run, mapping the outcome to the CLI exit code.
func runEngine(beh map[string]Behaviour, mk func() (loadfile.FileCache, error), fileName string, input []byte, split bool) (apiResult, int) {
	return runEngineOn(nil, beh, mk, fileName, input, split)
}

// longLivedEngine is ONE engine instance used by the `same_engine*` variants of every case of a harness process: what an
// engine returns for a context has to be a function of that context, not of what the instance parsed or ran before.
var longLivedEngine engine.WorkflowEngine

// runEngineOn is runEngine on a given engine instance (nil: a fresh one).
func runEngineOn(given engine.WorkflowEngine, beh map[string]Behaviour, mk func() (loadfile.FileCache, error), fileName string, input []byte, split bool) (apiResult, int) {
	res := apiResult{}
	exit := -1
	g := guarded(30*time.Second, func() {
		installBehaviours(beh)
		flow, err := given, error(nil)
		if flow == nil {
			flow, err = installQuietScriptedEngine()
		}
		if err != nil {
			res = apiResult{ErrorFlag: true, Err: err.Error(), ErrClass: "engineNew", Stage: "cache"}
			exit = 1
			return
		}
		cache, err := mk()
		if err != nil {
			res = apiResult{ErrorFlag: true, Err: err.Error(), ErrClass: classifyAPIErr("cache", err), Stage: "cache"}
			exit = 1 // ExitCodeInvalidData: "Failed to load required files into context"
			return
		}
		ctx, cancel := context.WithTimeout(context.Background(), 25*time.Second)
		defer cancel()
		if split {
			wf, err := flow.Parse(cache, fileName)
			if err != nil {
				res = apiResult{ErrorFlag: true, Err: err.Error(), ErrClass: classifyAPIErr("parse", err), Stage: "parse"}
				exit = 1
				return
			}
			id, data, flag, err := wf.Run(ctx, input)
			if err != nil {
				res = apiResult{OutputID: id, Data: encVal(data), ErrorFlag: flag, Err: err.Error(), ErrClass: classifyAPIErr("run", err), Stage: "run"}
				exit = 3
				return
			}
			res = apiResult{OutputID: id, Data: encVal(data), ErrorFlag: flag}
			if flag {
				exit = 2
			} else {
				exit = 0
			}
			return
		}
		id, data, flag, err := flow.RunWorkflow(ctx, input, cache, fileName)
		res = apiResult{OutputID: id, Data: encVal(data), ErrorFlag: flag}
		if err != nil {
			// RunWorkflow does not say whether Parse or Run failed; probe Parse again for the stage
			res.Err = err.Error()
			res.Stage = "run"
			if _, perr := flow.Parse(cache, fileName); perr != nil {
				res.Stage = "parse"
			}
			res.ErrClass = classifyAPIErr(res.Stage, err)
		}
	})
	if g.Panic != "" {
		res = apiResult{Panic: g.Panic, ErrClass: "panic"}
	}
	if g.Timeout {
		res = apiResult{Timeout: true, ErrClass: "timeout"}
	}
	return res, exit
}

// runDirect is path (B): converter + Prepare(wf, contents) + Execute(decoded input).
func runDirect(beh map[string]Behaviour, rootText string, contents map[string][]byte, input []byte) apiResult {
	res := apiResult{}
	g := guarded(30*time.Second, func() {
		installBehaviours(beh)
		reg, f, err := newRegistry(nil)
		if err != nil {
			res = apiResult{Err: err.Error(), ErrClass: "registry", Stage: "cache"}
			return
		}
		conv := workflow.NewYAMLConverter(reg)
		wf, err := conv.FromYAML([]byte(rootText))
		if err != nil {
			res = apiResult{Err: err.Error(), ErrClass: "prepare", Stage: "parse"}
			return
		}
		ex, err := f.exec(quietLogger())
		if err != nil {
			res = apiResult{Err: err.Error(), ErrClass: "prepare", Stage: "parse"}
			return
		}
		prepared, err := ex.Prepare(wf, contents)
		if err != nil {
			res = apiResult{Err: err.Error(), ErrClass: classifyAPIErr("parse", err), Stage: "parse"}
			return
		}
		decoded, err := engineyaml.New().Parse(input)
		if err != nil {
			res = apiResult{Err: err.Error(), ErrClass: "inputDecode", Stage: "run"}
			return
		}
		ctx, cancel := context.WithTimeout(context.Background(), 25*time.Second)
		defer cancel()
		id, data, err := prepared.Execute(ctx, decoded.Raw())
		res = apiResult{OutputID: id, Data: encVal(data)}
		if err != nil {
			res.Err = err.Error()
			res.ErrClass = classifyAPIErr("run", err)
			res.Stage = "run"
			return
		}
		if sch, ok := prepared.OutputSchema()[id]; ok {
			res.ErrorFlag = sch.Error()
		}
	})
	if g.Panic != "" {
		res = apiResult{Panic: g.Panic, ErrClass: "panic"}
	}
	if g.Timeout {
		res = apiResult{Timeout: true, ErrClass: "timeout"}
	}
	return res
}

func sameAPIOutcome(a, b apiResult) bool {
	if (a.Err != "") != (b.Err != "") || a.Panic != "" || b.Panic != "" || a.Timeout || b.Timeout {
		return false
	}
	if a.Err != "" {
		return true // error classes are recorded, the comparison is error vs no error
	}
	return a.OutputID == b.OutputID && reflect.DeepEqual(canonJSON(a.Data), canonJSON(b.Data))
}

func canonJSON(v any) any {
	b, _ := json.Marshal(v)
	var out any
	_ = json.Unmarshal(b, &out)
	return out
}

func digest(b []byte) string {
	h := sha256.Sum256(b)
	return hex.EncodeToString(h[:6])
}

type apiVariant struct {
	Name         string            `json:"name"`
	API          string            `json:"api"` // context (NewFileCacheUsingContext + LoadContext) | memory (NewFileCache)
	Cwd          string            `json:"cwd"` // neutral | parent | other | ctx
	RootGiven    string            `json:"root_given"`
	RootAbs      string            `json:"root_abs"`   // what filepath.Abs gives for root_given in that cwd
	RootClass    string            `json:"root_class"` // absolute | relative | unclean | empty
	FileName     string            `json:"file_name"`  // as passed to Parse / RunWorkflow ("" = default)
	Keys         map[string]string `json:"keys"`       // cache key -> content digest (before sub-workflow discovery)
	Disk         string            `json:"disk"`       // tree | none
	Baseline     string            `json:"baseline"`   // which direct run this variant must equal
	Split        bool              `json:"split"`      // Parse + Run (as the CLI) instead of RunWorkflow
	Result       apiResult         `json:"result"`
	ExitCode     int               `json:"exit_code"` // CLI mapping, -1 when not computed
	EqualsDirect bool              `json:"equals_direct"`
	Supplied     string            `json:"supplied,omitempty"` // memory API: all | some | referrers | modified (which files the cache holds)

	memTexts map[string]string // memory API: the files handed to loadfile.NewFileCache
}

func withCwd(dir string, fn func()) error {
	old, err := os.Getwd()
	if err != nil {
		return err
	}
	if err := os.Chdir(dir); err != nil {
		return err
	}
	defer func() { _ = os.Chdir(old) }()
	fn()
	return nil
}

func writeTree(dir string, files map[string]string) error {
	for rel, text := range files {
		p := filepath.Join(dir, rel)
		if err := os.MkdirAll(filepath.Dir(p), 0o755); err != nil {
			return err
		}
		if err := os.WriteFile(p, []byte(text), 0o644); err != nil {
			return err
		}
	}
	return nil
}

type apiOpts struct {
	forceReadFile int // -1 random, 0 never, 1 always
	keep          bool
}

func runEngineAPICase(r *rng, caseID string, o apiOpts) map[string]any {
	t := genTree(r)
	switch o.forceReadFile {
	case 0:
		t.root().ReadFile = false
	case 1:
		t.root().ReadFile = true
	}
	root := t.root()
	// behaviours: half of the cases everything succeeds, otherwise one or two sources misbehave
	srcs := []string{}
	for _, f := range t.Order {
		srcs = append(srcs, t.Nodes[f].Plugs...)
	}
	beh := map[string]Behaviour{}
	for _, s := range srcs {
		b := Behaviour{Outcome: "success"}
		if r.chance(1, 4) {
			b.DelayMs = r.intn(8)
		}
		beh[s] = b
	}
	if r.chance(1, 2) {
		for k := 1 + r.intn(2); k > 0; k-- {
			s := srcs[r.intn(len(srcs))]
			b := beh[s]
			// no deployment failures here: RunWorkflow gives no hook between Parse (schema probes deploy too) and Run
			switch r.intn(4) {
			case 0, 1:
				b.Outcome = "error"
			case 2:
				b.Outcome = "crash"
			default:
				b.Outcome = "alt"
			}
			beh[s] = b
		}
	}
	nItems := r.intn(4)
	items := []string{}
	itemParts := []string{}
	for i := 0; i < nItems; i++ {
		items = append(items, fmt.Sprintf("i%d", i))
		itemParts = append(itemParts, fmt.Sprintf("{v: \"i%d\"}", i))
	}
	name := "nm"
	inputYAML := fmt.Sprintf("{name: %q, items: [%s]}", name, strings.Join(itemParts, ", "))
	noteCtx, noteOther := "from-ctx", "from-other"

	texts := map[string]string{}
	for _, f := range t.Order {
		texts[f] = t.Nodes[f].render()
	}
	// the in-memory != disk variant: one leaf gets an extra literal field in the memory copy only
	var modFile string
	modTexts := map[string]string{}
	if r.chance(1, 3) {
		for _, f := range t.Order {
			if t.Nodes[f].Kind == "leaf" {
				modFile = f
			}
		}
		for f, s := range texts {
			modTexts[f] = s
		}
		n := *t.Nodes[modFile]
		n.Tag = "mem"
		modTexts[modFile] = n.render()
	}
	missingSub := r.chance(1, 20) && len(t.Order) > 1 // a referenced sub-workflow is absent from the disk
	var missingFile string

	out := map[string]any{"kind": "engineapi", "id": caseID, "tree": t, "input_yaml": inputYAML, "behaviours": beh,
		"uses_readfile": root.ReadFile, "depth": t.Depth, "shared": t.Shared, "subdirs": t.SubDirs,
		"explicit": root.Explicit, "version_supported": root.Version == "v0.2.0", "yaml": texts[t.RootFile]}

	base, err := os.MkdirTemp("", "c20-")
	if err != nil {
		out["skip"] = "mkdtemp: " + err.Error()
		return out
	}
	if !o.keep {
		defer func() { _ = os.RemoveAll(base) }()
	} else {
		out["kept_dir"] = base
	}
	base, _ = filepath.EvalSymlinks(base)
	ctxDir := filepath.Join(base, "parent", "ctx")
	parent := filepath.Join(base, "parent")
	neutral := filepath.Join(base, "neutral")
	other := filepath.Join(base, "other")
	for _, d := range []string{ctxDir, neutral, other} {
		if err := os.MkdirAll(d, 0o755); err != nil {
			out["skip"] = "mkdir: " + err.Error()
			return out
		}
	}
	diskTexts := map[string]string{}
	for f, s := range texts {
		diskTexts[f] = s
	}
	if missingSub {
		missingFile = t.Order[r.intn(len(t.Order)-1)] // never the root (it is last in Order)
		delete(diskTexts, missingFile)
		out["missing_on_disk"] = missingFile
	}
	if err := writeTree(ctxDir, diskTexts); err != nil {
		out["skip"] = "write: " + err.Error()
		return out
	}
	_ = os.WriteFile(filepath.Join(ctxDir, "note.txt"), []byte(noteCtx), 0o644)
	_ = os.WriteFile(filepath.Join(other, "note.txt"), []byte(noteOther), 0o644)

	// what the files denote
	fileInfo := map[string]any{}
	addInfo := func(text string, n *tNode) {
		decl := any(nil)
		if n.Explicit != "none" {
			m := map[string]bool{}
			for _, o := range n.Outputs {
				if o.Declared != nil {
					m[o.ID] = *o.Declared
				}
			}
			decl = m
		}
		ids := []string{}
		for _, o := range n.Outputs {
			ids = append(ids, o.ID)
		}
		fileInfo[digest([]byte(text))] = map[string]any{"file": n.File, "refs": n.refs(), "version": n.Version, "outputs": ids, "declared": decl}
	}
	for _, f := range t.Order {
		addInfo(texts[f], t.Nodes[f])
	}
	if modFile != "" {
		n := *t.Nodes[modFile]
		n.Tag = "mem"
		addInfo(modTexts[modFile], &n)
	}
	out["contents"] = fileInfo
	disk := map[string]string{}
	for f, s := range diskTexts {
		disk[f] = digest([]byte(s))
	}
	out["disk"] = disk

	exp := evalRoot(t, name, items, beh, noteCtx)
	out["expected"] = exp

	bytesMap := func(m map[string]string) map[string][]byte {
		res := map[string][]byte{}
		for k, v := range m {
			res[k] = []byte(v)
		}
		return res
	}
	digests := func(m map[string]string) map[string]string {
		res := map[string]string{}
		for k, v := range m {
			res[k] = digest([]byte(v))
		}
		return res
	}
	input := []byte(inputYAML)

	// (B) direct, from the neutral working directory
	baselines := map[string]any{}
	var direct, directMod apiResult
	_ = withCwd(neutral, func() { direct = runDirect(beh, texts[t.RootFile], bytesMap(texts), input) })
	subOnly := func(m map[string]string) map[string]string {
		res := map[string]string{}
		for k, v := range m {
			if k != t.RootFile {
				res[k] = v
			}
		}
		return res
	}
	baselines["direct"] = map[string]any{"root": digest([]byte(texts[t.RootFile])), "sub": subOnly(digests(texts)), "result": direct}
	if modFile != "" {
		_ = withCwd(neutral, func() { directMod = runDirect(beh, modTexts[t.RootFile], bytesMap(modTexts), input) })
		baselines["direct_mod"] = map[string]any{"root": digest([]byte(modTexts[t.RootFile])), "sub": subOnly(digests(modTexts)), "result": directMod}
		out["mod_file"] = modFile
	}
	var directDisk apiResult
	if missingSub {
		// what is on disk is the context of the context-API variants: the comparable direct run lacks the file too
		_ = withCwd(neutral, func() { directDisk = runDirect(beh, texts[t.RootFile], bytesMap(diskTexts), input) })
		baselines["direct_disk"] = map[string]any{"root": digest([]byte(texts[t.RootFile])), "sub": subOnly(digests(diskTexts)), "result": directDisk}
	}
	var directInCtx apiResult
	if root.ReadFile {
		// the direct path evaluates readFile too: run it where the relative path does resolve to the context copy
		_ = withCwd(ctxDir, func() { directInCtx = runDirect(beh, texts[t.RootFile], bytesMap(texts), input) })
		out["direct_in_ctx"] = directInCtx
	}
	out["baselines"] = baselines
	out["direct"] = direct
	out["direct_equals_expected"] = expectMatches(exp, direct)

	// (A) the engine path
	cwdOf := map[string]string{"neutral": neutral, "parent": parent, "other": other, "ctx": ctxDir}
	rootClass := func(given string) string {
		switch {
		case given == "":
			return "empty"
		case !filepath.IsAbs(given):
			return "relative"
		case filepath.Clean(given) != given:
			return "unclean"
		default:
			return "absolute"
		}
	}
	variants := []*apiVariant{}
	ctxBaseline := "direct"
	if missingSub {
		ctxBaseline = "direct_disk"
	}
	addCtx := func(name, cwd, given, key, fileName string, split bool) {
		variants = append(variants, &apiVariant{Name: name, API: "context", Cwd: cwd, RootGiven: given, FileName: fileName, Split: split,
			Keys: map[string]string{key: digest([]byte(texts[t.RootFile]))}, Disk: "tree", Baseline: ctxBaseline})
	}
	addMem := func(name, cwd, given string, m map[string]string, baseline string) {
		variants = append(variants, &apiVariant{Name: name, API: "memory", Cwd: cwd, RootGiven: given, FileName: "workflow.yaml",
			Keys: digests(m), Disk: "tree", Baseline: baseline, Supplied: "all", memTexts: m})
	}
	// baselineFor: the direct run on exactly these contents (an existing baseline, or a new one)
	results := map[string]*apiResult{"direct": &direct, "direct_mod": &directMod, "direct_disk": &directDisk}
	baselineFor := func(contents map[string]string) string {
		want := subOnly(digests(contents))
		rootD := digest([]byte(contents[t.RootFile]))
		for _, nm := range sortedKeys(baselines) {
			b := baselines[nm].(map[string]any)
			if b["root"] == rootD && reflect.DeepEqual(b["sub"], want) {
				return nm
			}
		}
		nm := fmt.Sprintf("direct_%d", len(baselines))
		res := new(apiResult)
		_ = withCwd(neutral, func() { *res = runDirect(beh, contents[t.RootFile], bytesMap(contents), input) })
		baselines[nm] = map[string]any{"root": rootD, "sub": want, "result": *res}
		results[nm] = res
		return nm
	}
	// addPartial: an in-memory cache that holds only `supplied` (always including the root); what Parse is going to use is
	// the supplied files plus, for every other referenced file, the copy in the context directory (if `disk`)
	addPartial := func(name, cwd, given string, supplied map[string]string, disk bool, kind string) {
		contents := map[string]string{}
		dsk := "none"
		if disk {
			dsk = "tree"
			for f, s := range diskTexts {
				contents[f] = s
			}
		}
		for f, s := range supplied {
			contents[f] = s
		}
		variants = append(variants, &apiVariant{Name: name, API: "memory", Cwd: cwd, RootGiven: given, FileName: "workflow.yaml",
			Keys: digests(supplied), Disk: dsk, Baseline: baselineFor(contents), Supplied: kind, memTexts: supplied})
	}
	// exactly the CLI: NewFileCacheUsingContext(dir, {"workflow": "workflow.yaml"}) + LoadContext, Parse(fileCtx, "workflow"), Run
	addCtx("cli_abs", "neutral", ctxDir, "workflow", "workflow", true)
	addCtx("cli_rel", "parent", "ctx", "workflow", "workflow", true)
	addCtx("cli_dot", "ctx", ".", "workflow", "workflow", true)
	addCtx("abs", "neutral", ctxDir, "workflow.yaml", "workflow.yaml", false)
	addCtx("abs_default_name", "neutral", ctxDir, "workflow.yaml", "", false)
	addCtx("abs_other_cwd", "other", ctxDir, "workflow.yaml", "workflow.yaml", false)
	addCtx("abs_in_ctx", "ctx", ctxDir, "workflow.yaml", "workflow.yaml", false)
	addCtx("rel", "parent", "ctx", "workflow.yaml", "workflow.yaml", false)
	addCtx("unclean", "neutral", ctxDir+"/../ctx/", "workflow.yaml", "workflow.yaml", false)
	addMem("mem_abs", "neutral", ctxDir, texts, "direct")
	addMem("mem_rel", "parent", "ctx", texts, "direct")
	addMem("mem_unclean", "neutral", ctxDir+"/", texts, "direct")
	addMem("mem_empty_root", "ctx", "", texts, "direct")
	if modFile != "" {
		addMem("mem_abs_mod", "neutral", ctxDir, modTexts, "direct_mod")
	}
	// every file supplied, for a directory that does not exist: nothing is read from disk
	addPartial("mem_nodisk", "neutral", filepath.Join(base, "absent"), texts, false, "all")
	if len(t.Order) > 1 {
		subs := t.Order[:len(t.Order)-1] // the root is last in Order
		// some of the sub-workflows supplied, the others only in the context directory
		some := map[string]string{t.RootFile: texts[t.RootFile]}
		for _, f := range subs {
			if r.chance(1, 2) {
				some[f] = texts[f]
			}
		}
		if len(some) == 1+len(subs) {
			delete(some, subs[r.intn(len(subs))])
		}
		addPartial("mem_some", "neutral", ctxDir, some, true, "some")
		addPartial("mem_some_rel", "parent", "ctx", some, true, "some")
		if r.chance(1, 3) {
			// the files that are neither supplied nor on disk are missing for the engine and for the direct run alike
			addPartial("mem_some_nodisk", "neutral", filepath.Join(base, "absent"), some, false, "some")
		}
		// the workflows that reference others supplied, the ones they reference only in the context directory
		referrers := map[string]string{}
		for _, f := range t.Order {
			if len(t.Nodes[f].refs()) > 0 {
				referrers[f] = texts[f]
			}
		}
		addPartial("mem_referrers", "neutral", ctxDir, referrers, true, "referrers")
		if modFile != "" {
			// only the root and a copy that differs from the one in the context directory: the caller's copy is used
			addPartial("mem_mod_only", "neutral", ctxDir, map[string]string{t.RootFile: modTexts[t.RootFile], modFile: modTexts[modFile]}, true, "modified")
		}
	}
	if r.chance(1, 10) {
		addCtx("abs_missing_name", "neutral", ctxDir, "workflow.yaml", "nope.yaml", false)
	}
	for _, v := range variants {
		v := v
		mk := func() (loadfile.FileCache, error) {
			if v.API == "memory" {
				return loadfile.NewFileCache(v.RootGiven, bytesMap(v.memTexts)), nil
			}
			req := map[string]string{}
			for k := range v.Keys {
				req[k] = "workflow.yaml"
			}
			fc, err := loadfile.NewFileCacheUsingContext(v.RootGiven, req)
			if err != nil {
				return nil, err
			}
			if err := fc.LoadContext(); err != nil {
				return nil, err
			}
			return fc, nil
		}
		_ = withCwd(cwdOf[v.Cwd], func() {
			v.RootAbs, _ = filepath.Abs(v.RootGiven)
			v.RootClass = rootClass(v.RootGiven)
			v.Result, v.ExitCode = runEngine(beh, mk, v.FileName, input, v.Split)
		})
		v.EqualsDirect = sameAPIOutcome(v.Result, *results[v.Baseline])
	}
	// the context is loaded (relative root) while the process is in one working directory and parsed / run while it is in
	// another one: the context directory is the one the files were loaded from, wherever the process has moved to since
	{
		v := &apiVariant{Name: "rel_loaded_then_chdir", API: "context", Cwd: "parent->other", RootGiven: "ctx", FileName: "workflow.yaml",
			Keys: map[string]string{"workflow.yaml": digest([]byte(texts[t.RootFile]))}, Disk: "tree", Baseline: ctxBaseline}
		var fc loadfile.FileCache
		var ferr error
		_ = withCwd(cwdOf["parent"], func() {
			v.RootAbs, _ = filepath.Abs(v.RootGiven)
			v.RootClass = rootClass(v.RootGiven)
			fc, ferr = loadfile.NewFileCacheUsingContext(v.RootGiven, map[string]string{"workflow.yaml": "workflow.yaml"})
			if ferr == nil {
				ferr = fc.LoadContext()
			}
		})
		_ = withCwd(cwdOf["other"], func() {
			v.Result, v.ExitCode = runEngine(beh, func() (loadfile.FileCache, error) { return fc, ferr }, v.FileName, input, v.Split)
		})
		bl := direct
		if ctxBaseline == "direct_disk" {
			bl = directDisk
		}
		v.EqualsDirect = sameAPIOutcome(v.Result, bl)
		variants = append(variants, v)
	}
	// one long-lived engine instance (shared by all cases of this process): first the context with the modified leaf (if the
	// case has one), then the context as it is - same file names, same texts except for that leaf; each has to give what a
	// fresh engine gives for it
	{
		if longLivedEngine == nil {
			longLivedEngine, _ = installQuietScriptedEngine()
		}
		seq := []struct {
			name, baseline string
			m              map[string]string
		}{}
		if modFile != "" {
			seq = append(seq, struct {
				name, baseline string
				m              map[string]string
			}{"same_engine_mod", "direct_mod", modTexts})
		}
		seq = append(seq, struct {
			name, baseline string
			m              map[string]string
		}{"same_engine", "direct", texts})
		for _, e := range seq {
			e := e
			v := &apiVariant{Name: e.name, API: "memory", Cwd: "neutral", RootGiven: ctxDir, FileName: "workflow.yaml",
				Keys: digests(e.m), Disk: "tree", Baseline: e.baseline, Supplied: "all", Split: true, memTexts: e.m}
			if longLivedEngine != nil {
				_ = withCwd(cwdOf[v.Cwd], func() {
					v.RootAbs, _ = filepath.Abs(v.RootGiven)
					v.RootClass = rootClass(v.RootGiven)
					v.Result, v.ExitCode = runEngineOn(longLivedEngine, beh, func() (loadfile.FileCache, error) {
						return loadfile.NewFileCache(v.RootGiven, bytesMap(v.memTexts)), nil
					}, v.FileName, input, true)
				})
				v.EqualsDirect = sameAPIOutcome(v.Result, *results[v.Baseline])
				variants = append(variants, v)
			}
		}
	}
	out["variants"] = variants
	out["merge"] = mergeProbe(r, ctxDir, t, texts)
	return out
}

func expectMatches(exp apiExpect, res apiResult) bool {
	if res.Panic != "" || res.Timeout {
		return false
	}
	if exp.PrepareError != "" {
		return res.Err != "" && res.ErrClass == exp.PrepareError
	}
	if exp.NoOutput {
		return res.Err != ""
	}
	return res.Err == "" && res.OutputID == exp.OutputID && reflect.DeepEqual(canonJSON(exp.Data), canonJSON(res.Data))
}

// mergeProbe calls loadfile.MergeFileCaches on caches derived from the tree (one per workflow file: the cache of the files
// it references, loaded from disk), in a generated order, with nil entries, root mismatches, empty roots and conflicting
// contents mixed in.  The Lean driver replays the same list through Model.EngineApi.mergeFileCaches.
func mergeProbe(r *rng, ctxDir string, t *tTree, texts map[string]string) any {
	type mc struct {
		Nil   bool              `json:"nil"`
		Root  string            `json:"root"`
		Files map[string]string `json:"files"` // key -> content digest
	}
	probes := []any{}
	for p := 0; p < 3; p++ {
		caches := []mc{}
		real := []loadfile.FileCache{}
		add := func(root string, m map[string][]byte) {
			d := map[string]string{}
			for k, v := range m {
				d[k] = digest(v)
			}
			caches = append(caches, mc{Root: root, Files: d})
			real = append(real, loadfile.NewFileCache(root, m))
		}
		for _, f := range t.Order {
			n := t.Nodes[f]
			if len(n.Loops) == 0 {
				if r.chance(1, 2) {
					caches = append(caches, mc{Nil: true})
					real = append(real, nil)
				}
				continue
			}
			m := map[string][]byte{}
			for _, ref := range n.refs() {
				m[ref] = []byte(texts[ref])
			}
			root := ctxDir
			switch r.intn(14) {
			case 0:
				root = ctxDir + "-elsewhere"
			case 1:
				root = ""
			case 2, 3:
				root = "ctx" // the probe runs in the parent directory: another spelling of ctxDir
			case 4:
				root = ctxDir + "/"
			}
			if r.chance(1, 6) {
				for k := range m {
					m[k] = []byte("conflicting copy of " + k)
					break
				}
			}
			add(root, m)
		}
		if r.chance(1, 2) {
			add(ctxDir, map[string][]byte{"workflow.yaml": []byte(texts[t.RootFile])})
		}
		perm := r.perm(len(caches))
		pc := make([]mc, len(caches))
		pr := make([]loadfile.FileCache, len(caches))
		for i, j := range perm {
			pc[i], pr[i] = caches[j], real[j]
		}
		res := map[string]any{}
		absOf := map[string]string{}
		_ = withCwd(filepath.Dir(ctxDir), func() {
			for _, c := range pc {
				if !c.Nil {
					absOf[c.Root], _ = filepath.Abs(c.Root)
				}
			}
			merged, err := loadfile.MergeFileCaches(pr...)
			if err != nil {
				res["err"] = classifyAPIErr("parse", err)
			} else {
				d := map[string]string{}
				for k, v := range merged.Contents() {
					d[k] = digest(v)
				}
				res["root"] = merged.RootDir()
				res["files"] = d
			}
		})
		probes = append(probes, map[string]any{"caches": pc, "abs": absOf, "result": res})
	}
	return probes
}

// ---- minimal witnesses of the known findings (vharness engineapi -minimal) ---------------------------------------------------

const minimalLeaf = `version: v0.2.0
input:
  root: Item
  objects:
    Item:
      id: Item
      properties:
        v:
          type: {type_id: string}
steps:
  a:
    plugin: {src: "leaf-a", deployment_type: "builtin"}
    step: op
    input: {s: !expr $.input.v}
outputs:
  success:
    r: !expr $.steps.a.outputs.success.s
`

const minimalLoopRoot = `version: v0.2.0
input:
  root: RootObject
  objects:
    RootObject:
      id: RootObject
      properties: {}
steps:
  l1:
    kind: foreach
    workflow: "leaf.yaml"
    items: [{v: "x"}]
outputs:
  success:
    d: !expr $.steps.l1.outputs.success.data
`

const minimalReadFileRoot = `version: v0.2.0
input:
  root: RootObject
  objects:
    RootObject:
      id: RootObject
      properties: {}
steps:
  a:
    plugin: {src: "root-a", deployment_type: "builtin"}
    step: op
    input: {s: "x"}
outputs:
  success:
    s: !expr $.steps.a.outputs.success.s
    note: !expr 'readFile("note.txt")'
`

func runMinimal(w *lineWriter) int {
	base, err := os.MkdirTemp("", "c20min-")
	if err != nil {
		fmt.Fprintln(os.Stderr, err)
		return 2
	}
	defer func() { _ = os.RemoveAll(base) }()
	base, _ = filepath.EvalSymlinks(base)
	ctxDir := filepath.Join(base, "parent", "ctx")
	other := filepath.Join(base, "other")
	neutral := filepath.Join(base, "neutral")
	for _, d := range []string{ctxDir, other, neutral} {
		_ = os.MkdirAll(d, 0o755)
	}
	beh := map[string]Behaviour{}
	input := []byte("{}")
	show := func(r apiResult) map[string]any {
		return map[string]any{"output_id": r.OutputID, "data": r.Data, "error_flag": r.ErrorFlag, "err": r.Err, "err_class": r.ErrClass}
	}
	// F15 and the disk dependence of the in-memory API
	_ = writeTree(ctxDir, map[string]string{"workflow.yaml": minimalLoopRoot, "leaf.yaml": minimalLeaf})
	mem := map[string][]byte{"workflow.yaml": []byte(minimalLoopRoot), "leaf.yaml": []byte(minimalLeaf)}
	f15 := map[string]any{"kind": "engineapi-minimal", "id": "F15", "files": map[string]string{"workflow.yaml": minimalLoopRoot, "leaf.yaml": minimalLeaf}}
	memRun := func(cwd, root string) map[string]any {
		var r apiResult
		_ = withCwd(cwd, func() {
			r, _ = runEngine(beh, func() (loadfile.FileCache, error) { return loadfile.NewFileCache(root, mem), nil }, "workflow.yaml", input, false)
		})
		return show(r)
	}
	f15["NewFileCache(<abs ctx>)"] = memRun(neutral, ctxDir)
	f15["NewFileCache(\"ctx\") from the parent directory"] = memRun(filepath.Join(base, "parent"), "ctx")
	f15["NewFileCache(<abs ctx>/)"] = memRun(neutral, ctxDir+"/")
	f15["NewFileCache(\"\") from inside ctx"] = memRun(ctxDir, "")
	f15["NewFileCache(<abs dir that does not exist>) with both files in the map"] = memRun(neutral, filepath.Join(base, "absent"))
	var d apiResult
	_ = withCwd(neutral, func() { d = runDirect(beh, minimalLoopRoot, mem, input) })
	f15["direct Prepare+Execute with the same map"] = show(d)
	w.emit(f15)
	// F14
	ctx2 := filepath.Join(base, "parent", "ctx2")
	_ = os.MkdirAll(ctx2, 0o755)
	_ = writeTree(ctx2, map[string]string{"workflow.yaml": minimalReadFileRoot, "note.txt": "from-ctx"})
	_ = os.WriteFile(filepath.Join(other, "note.txt"), []byte("from-other"), 0o644)
	f14 := map[string]any{"kind": "engineapi-minimal", "id": "F14", "files": map[string]string{"workflow.yaml": minimalReadFileRoot, "note.txt": "from-ctx"},
		"other_dir": map[string]string{"note.txt": "from-other"}}
	ctxRun := func(cwd string) map[string]any {
		var r apiResult
		_ = withCwd(cwd, func() {
			r, _ = runEngine(beh, func() (loadfile.FileCache, error) {
				fc, err := loadfile.NewFileCacheUsingContext(ctx2, map[string]string{"workflow": "workflow.yaml"})
				if err != nil {
					return nil, err
				}
				return fc, fc.LoadContext()
			}, "workflow", input, true)
		})
		return show(r)
	}
	f14["context=<abs ctx2>, cwd=ctx2"] = ctxRun(ctx2)
	f14["context=<abs ctx2>, cwd=other (has its own note.txt)"] = ctxRun(other)
	f14["context=<abs ctx2>, cwd=neutral (no note.txt)"] = ctxRun(neutral)
	w.emit(f14)
	return 0
}

func cmdEngineAPI(args []string) int {
	var readFile int
	var keep, minimal bool
	c, _ := parseCommon("engineapi", args, func(fs *flag.FlagSet) {
		fs.IntVar(&readFile, "readfile", -1, "-1: some trees call readFile(\"note.txt\"); 0: none; 1: all")
		fs.BoolVar(&keep, "keep", false, "keep the temporary context directories")
		fs.BoolVar(&minimal, "minimal", false, "run the minimal witnesses of findings F14 / F15 instead of generated trees")
	})
	w := openOut(c.out)
	defer w.close()
	if minimal {
		return runMinimal(w)
	}
	r := newRng(c.seed)
	for i := 0; i < c.n; i++ {
		cr := r.fork()
		if i < c.skip {
			continue
		}
		w.emit(map[string]any{"kind": "begin", "index": i})
		w.emit(runEngineAPICase(cr, fmt.Sprintf("engineapi-%d-%d", c.seed, i), apiOpts{forceReadFile: readFile, keep: keep}))
	}
	return 0
}
