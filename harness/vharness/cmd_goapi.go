//go:build verif

package main

import (
	"context"
	"fmt"
	"math"
	"reflect"
	"time"

	"go.flow.arcalot.io/engine/workflow"
	"go.flow.arcalot.io/expressions"
)

// ---- C08: workflows built through the Go API, with literals of Go types ------------------------------------------------------
//
// YAML delivers every literal as a string; an embedding application that builds `workflow.Workflow` itself can put Go values
// of any kind into outputs.  The output schema is INFERRED from those values (internal/infer): the schema inferred from a
// literal has to accept that literal, i.e. an accepted workflow returns its output instead of failing with an internal
// consistency error.  One case = one literal kind x one position (top-level output field, inside a list, inside a map).

func init() { register("goapi", cmdGoAPI) }

type goLit struct {
	name string
	v    any
}

func goLiterals() []goLit {
	return []goLit{
		{"int8-min", int8(math.MinInt8)}, {"int8-max", int8(math.MaxInt8)},
		{"int16-min", int16(math.MinInt16)}, {"int16-max", int16(math.MaxInt16)},
		{"int32-min", int32(math.MinInt32)}, {"int32-max", int32(math.MaxInt32)},
		{"int64-min", int64(math.MinInt64)}, {"int64-max", int64(math.MaxInt64)},
		{"int-small", int(-7)}, {"int-max", int(math.MaxInt64)},
		{"uint8-low", uint8(100)}, {"uint8-mid", uint8(128)}, {"uint8-max", uint8(math.MaxUint8)},
		{"uint16-low", uint16(100)}, {"uint16-mid", uint16(32768)}, {"uint16-max", uint16(math.MaxUint16)},
		{"uint32-low", uint32(100)}, {"uint32-mid", uint32(1 << 31)}, {"uint32-max", uint32(math.MaxUint32)},
		{"uint64-low", uint64(5)}, {"uint-low", uint(9)},
		{"float32", float32(1.5)}, {"float64", float64(-2.25)}, {"float64-big", float64(1e300)},
		{"bool-true", true}, {"bool-false", false}, {"string", "text"}, {"string-empty", ""},
	}
}

func goNum(v any) (float64, bool) {
	rv := reflect.ValueOf(v)
	switch rv.Kind() {
	case reflect.Int, reflect.Int8, reflect.Int16, reflect.Int32, reflect.Int64:
		return float64(rv.Int()), true
	case reflect.Uint, reflect.Uint8, reflect.Uint16, reflect.Uint32, reflect.Uint64:
		return float64(rv.Uint()), true
	case reflect.Float32, reflect.Float64:
		return rv.Float(), true
	}
	return 0, false
}

func goSame(lit, got any) bool {
	if a, ok := goNum(lit); ok {
		b, ok2 := goNum(got)
		return ok2 && a == b
	}
	return reflect.DeepEqual(lit, got)
}

func cmdGoAPI(args []string) int {
	c, _ := parseCommon("goapi", args, nil)
	w := openOut(c.out)
	defer w.close()
	positions := []string{"field", "in-list", "in-map"}
	i := 0
	for _, lit := range goLiterals() {
		for _, pos := range positions {
			id := fmt.Sprintf("goapi-%d", i)
			i++
			out := map[string]any{"kind": "goapi", "id": id, "literal": lit.name, "go_type": fmt.Sprintf("%T", lit.v), "position": pos,
				"value": fmt.Sprint(lit.v)}
			var field any = lit.v
			switch pos {
			case "in-list":
				field = []any{lit.v}
			case "in-map":
				field = map[string]any{"k": lit.v}
			}
			s := newScript()
			currentScript.Store(s)
			g := guarded(20*time.Second, func() {
				_, f, err := newRegistry(nil)
				if err != nil {
					out["skip"] = "registry: " + err.Error()
					return
				}
				e, err := expressions.New("$.steps.w.outputs.success.s")
				if err != nil {
					out["skip"] = "expression: " + err.Error()
					return
				}
				wf := &workflow.Workflow{
					Version: "v0.2.0",
					Input: map[string]any{"root": "RootObject", "objects": map[string]any{
						"RootObject": map[string]any{"id": "RootObject", "properties": map[string]any{}}}},
					Steps: map[string]any{"w": map[any]any{
						"plugin": map[any]any{"src": "w", "deployment_type": "builtin"}, "step": "op", "input": map[any]any{"s": "x"}}},
					Outputs: map[string]any{"success": map[string]any{"n": field, "msg": e}},
				}
				ex, err := f.exec(quietLogger())
				if err != nil {
					out["skip"] = "executor: " + err.Error()
					return
				}
				s.probe.Store(true)
				prepared, err := ex.Prepare(wf, map[string][]byte{})
				s.probe.Store(false)
				if err != nil {
					out["prepare_err"] = err.Error()
					return
				}
				out["accepted"] = true
				ctx, cancel := context.WithTimeout(context.Background(), 15*time.Second)
				defer cancel()
				oid, data, err := prepared.Execute(ctx, map[string]any{})
				out["output_id"] = oid
				if err != nil {
					out["err"] = err.Error()
					out["err_class"] = classifyExecErr(err)
					return
				}
				var got any
				if m, ok := data.(map[any]any); ok {
					got = m["n"]
				} else if m, ok := data.(map[string]any); ok {
					got = m["n"]
				}
				switch pos {
				case "in-list":
					rv := reflect.ValueOf(got)
					if rv.IsValid() && rv.Kind() == reflect.Slice && rv.Len() == 1 {
						got = rv.Index(0).Interface()
					} else {
						got = nil
					}
				case "in-map":
					rv := reflect.ValueOf(got)
					if rv.IsValid() && rv.Kind() == reflect.Map && rv.Len() == 1 {
						got = rv.MapIndex(rv.MapKeys()[0]).Interface()
					} else {
						got = nil
					}
				}
				out["returned"] = fmt.Sprintf("%v (%T)", got, got)
				out["same"] = goSame(lit.v, got)
			})
			if g.Panic != "" {
				out["panic"] = g.Panic
			}
			if g.Timeout {
				out["timeout"] = true
			}
			w.emit(out)
		}
	}
	return 0
}
