//go:build verif

package main

import (
	"context"
	"flag"
	"fmt"
	"runtime"
	"strings"
	"sync"
	"time"
)

func init() { register("foreach", cmdForeach) }

// ---- C13: whole-engine runs of a foreach step over generated item lists ----------------------------------------------------
//
// Parent workflow: one foreach step `loop` over `$.input.items`, outputs returning the step's outputs verbatim
// (success: {r: data}, failed: {e: failed.error}).  The sub-workflow (sub.yaml) has ONE plugin step `op` with the fixed
// src "item"; the per-item behaviour (outcome, duration) is keyed by the item's `s` field through the item-keyed scripted
// plugin (sdeploy_item.go).  Nested cases loop over mid.yaml, which itself loops over `$.input.inner` with sub.yaml.
//
// Recorded: items with their scripted outcomes, effective parallelism, which outputs the sub-workflows declare, the
// parent result, the plugin log (exec-start / exec-end tagged with the item key, global sequence numbers), the
// concurrency high-water mark, deploy balance, goroutine delta, wall time; with -close the instant of the cancellation.

const feSrc = "item"

type feItem struct {
	Key     string   `json:"key"`
	I       int64    `json:"i"`
	Outcome string   `json:"outcome"` // success | error | alt | crash
	DelayMs int      `json:"delay_ms"`
	Inner   []feItem `json:"inner,omitempty"`
	HasIn   bool     `json:"has_inner"`
}

type feCase struct {
	Nested     bool
	Items      []feItem
	ParMode    string // omitted | literal | input
	Par        int    // effective parallelism of the outer loop
	InnerPar   int    // effective parallelism of the inner loops (nested)
	InnerMode  string // omitted | literal
	DeclAlt    bool   // sub.yaml declares an output `alt`
	DeclErr    bool   // sub.yaml declares an output `error`
	DeclFailed bool   // mid.yaml declares an output `failed`
	DelayMode  string
	CloseAfter int // ms, -1 = never
	// > 0: the caller's context is cancelled at the moment the k-th item handler starts (an instant defined by the run's
	// own progress, not by the clock: the same point of the run is hit on a loaded machine); CloseAfter is then only the
	// fallback for runs that never get that far
	CancelOnStarts int
	EstimatedMs    int
	// targeted classes (see feGenLongQueue / feGenCancelQueue); the random generator leaves them at their zero values
	Class      string // "" (random) | long-queue | cancel-queue
	DeployMs   int    // > 0: every deployment of an item plugin takes this long ...
	DeployHard bool   // ... and does not watch its context while it works (like go.flow.arcalot.io/testdeployer)
	ClosureMs  int    // >= 0: closure_wait_timeout of the sub-workflow's step (ms); -1 = omitted (provider default)
	LogAll     bool   // every step output is logged (config.LoggedOutputConfigs), parent and sub-workflows alike
}

const feItemObject = `    Item:
      id: Item
      properties:
        s:
          type: {type_id: string}
          required: true
        i:
          type: {type_id: integer}
          required: true
`

func feSubYAML(c *feCase) string {
	var b strings.Builder
	b.WriteString("version: v0.2.0\ninput:\n  root: Item\n  objects:\n" + feItemObject)
	b.WriteString("steps:\n  op:\n    plugin: {src: \"" + feSrc + "\", deployment_type: \"builtin\"}\n    step: op\n")
	b.WriteString("    input: {s: !expr $.input.s, i: !expr $.input.i}\n")
	if c.ClosureMs >= 0 {
		fmt.Fprintf(&b, "    closure_wait_timeout: %d\n", c.ClosureMs)
	}
	b.WriteString("outputs:\n  success: {s: !expr $.steps.op.outputs.success.s, i: !expr $.steps.op.outputs.success.i}\n")
	if c.DeclAlt {
		b.WriteString("  alt: {v: !expr $.steps.op.outputs.alt.s}\n")
	}
	if c.DeclErr {
		b.WriteString("  error: {m: !expr $.steps.op.outputs.error.reason}\n")
	}
	return b.String()
}

func fePar(mode string, par int) string {
	switch mode {
	case "literal":
		return fmt.Sprintf("    parallelism: %d\n", par)
	case "input":
		return "    parallelism: !expr $.input.par\n"
	}
	return ""
}

func feMidYAML(c *feCase) string {
	var b strings.Builder
	b.WriteString("version: v0.2.0\ninput:\n  root: Outer\n  objects:\n    Outer:\n      id: Outer\n      properties:\n")
	b.WriteString("        s:\n          type: {type_id: string}\n          required: true\n")
	b.WriteString("        i:\n          type: {type_id: integer}\n          required: true\n")
	b.WriteString("        inner:\n          type:\n            type_id: list\n            items: {type_id: ref, id: Item}\n          required: true\n")
	b.WriteString(feItemObject)
	b.WriteString("steps:\n  loop2:\n    kind: foreach\n    workflow: \"sub.yaml\"\n    items: !expr $.input.inner\n")
	b.WriteString(fePar(c.InnerMode, c.InnerPar))
	b.WriteString("outputs:\n  success: {r: !expr $.steps.loop2.outputs.success.data}\n")
	if c.DeclFailed {
		b.WriteString("  failed: {e: !expr $.steps.loop2.failed.error}\n")
	}
	return b.String()
}

func feParentYAML(c *feCase) string {
	var b strings.Builder
	b.WriteString("version: v0.2.0\ninput:\n  root: RootObject\n  objects:\n    RootObject:\n      id: RootObject\n      properties:\n")
	item := "Item"
	if c.Nested {
		item = "Outer"
	}
	b.WriteString("        items:\n          type:\n            type_id: list\n            items: {type_id: ref, id: " + item + "}\n          required: true\n")
	if c.ParMode == "input" {
		b.WriteString("        par:\n          type: {type_id: integer}\n          required: true\n")
	}
	if c.Nested {
		b.WriteString("    Outer:\n      id: Outer\n      properties:\n")
		b.WriteString("        s:\n          type: {type_id: string}\n          required: true\n")
		b.WriteString("        i:\n          type: {type_id: integer}\n          required: true\n")
		b.WriteString("        inner:\n          type:\n            type_id: list\n            items: {type_id: ref, id: Item}\n          required: true\n")
	}
	b.WriteString(feItemObject)
	wf := "sub.yaml"
	if c.Nested {
		wf = "mid.yaml"
	}
	b.WriteString("steps:\n  loop:\n    kind: foreach\n    workflow: \"" + wf + "\"\n    items: !expr $.input.items\n")
	b.WriteString(fePar(c.ParMode, c.Par))
	b.WriteString("outputs:\n  success: {r: !expr $.steps.loop.outputs.success.data}\n  failed: {e: !expr $.steps.loop.failed.error}\n")
	return b.String()
}

var feFailKinds = []string{"error", "alt", "crash"}

func feGenItems(r *rng, prefix string, n int, failMode int, maxDelay int, delayMode string) []feItem {
	items := make([]feItem, n)
	for j := 0; j < n; j++ {
		it := feItem{Key: fmt.Sprintf("%s%d", prefix, j), I: int64(r.intn(1000)), Outcome: "success"}
		switch failMode {
		case 1: // sparse failures
			if r.chance(1, 5) {
				it.Outcome = r.pick(feFailKinds)
			}
		case 2: // mostly failures
			if r.chance(3, 4) {
				it.Outcome = r.pick(feFailKinds)
			}
		}
		switch delayMode {
		case "reverse": // later items are faster: within one batch they finish in reverse order
			if n > 1 {
				it.DelayMs = maxDelay * (n - 1 - j) / (n - 1)
			}
		case "random":
			it.DelayMs = r.intn(maxDelay + 1)
		}
		items[j] = it
	}
	if failMode == 3 && n > 0 { // exactly one failure
		items[r.intn(n)].Outcome = r.pick(feFailKinds)
	}
	return items
}

func feSize(r *rng, max int) int {
	switch c := r.intn(10); {
	case c == 0:
		return 0
	case c == 1:
		return 1
	case c <= 5:
		return 2 + r.intn(5)
	case c <= 8:
		return 2 + r.intn(15)
	default:
		return max/2 + r.intn(max/2+1)
	}
}

func feGen(r *rng, tier string, closeMode bool) *feCase {
	c := &feCase{CloseAfter: -1, ClosureMs: -1}
	max := 40
	if tier == "thorough" {
		max = 200
	}
	c.Nested = r.chance(1, 5)
	c.DeclAlt = r.chance(1, 2)
	c.DeclErr = r.chance(1, 2)
	c.DeclFailed = r.chance(1, 2)
	c.DelayMode = []string{"random", "random", "reverse", "reverse", "zero"}[r.intn(5)]
	failMode := []int{0, 0, 1, 1, 2, 3}[r.intn(6)]
	n := feSize(r, max)
	if c.Nested {
		n = r.intn(6)
	}
	// parallelism 1..n+1 or omitted (= 1)
	c.ParMode = []string{"omitted", "literal", "literal", "literal", "input"}[r.intn(5)]
	c.Par = 1
	if c.ParMode != "omitted" {
		c.Par = 1 + r.intn(n+1)
	}
	maxDelay := 25
	if n > 0 && 1500*c.Par/n < maxDelay {
		maxDelay = 1500 * c.Par / n
	}
	if c.Nested {
		c.InnerMode = []string{"omitted", "literal", "literal"}[r.intn(3)]
		c.InnerPar = 1
		c.Items = feGenItems(r, "o", n, 0, 0, "zero")
		maxInner := 0
		for o := range c.Items {
			m := r.intn(6)
			if m > maxInner {
				maxInner = m
			}
			c.Items[o].HasIn = true
			fm := failMode
			if fm != 0 && r.chance(1, 2) {
				fm = 0 // some outer items succeed entirely
			}
			c.Items[o].Inner = feGenItems(r, fmt.Sprintf("o%d_", o), m, fm, 15, c.DelayMode)
			if c.DelayMode == "reverse" {
				// later OUTER items are faster too
				for j := range c.Items[o].Inner {
					c.Items[o].Inner[j].DelayMs += 4 * (n - 1 - o)
				}
			}
		}
		if c.InnerMode == "literal" {
			c.InnerPar = 1 + r.intn(maxInner+1)
		}
		c.EstimatedMs = 40 * (n + 1)
	} else {
		c.Items = feGenItems(r, "k", n, failMode, maxDelay, c.DelayMode)
		sum := 0
		for _, it := range c.Items {
			sum += it.DelayMs + 2
		}
		c.EstimatedMs = sum/c.Par + 10
	}
	if closeMode {
		c.CloseAfter = r.intn(c.EstimatedMs + 15)
		if !c.Nested && r.chance(1, 3) {
			k := c.Par + 1
			if k > len(c.Items) {
				k = len(c.Items)
			}
			c.CancelOnStarts = 1 + r.intn(k)
			c.CloseAfter = 5000
		}
	}
	return c
}

// ---- targeted classes --------------------------------------------------------------------------------------------------------
//
// long-queue (C13, "all per-item outcomes and durations"): more items than `parallelism`, the items holding the slots run
// for `holdMs`, so the others stay QUEUED behind the limit for that long.  Whatever a queued item does while it waits
// (log, poll, time out), it must not run without a slot.  `holdMs` is chosen by the orchestrator: several seconds, and
// longer than every timer constant the fact extractor finds inside the foreach provider.
// big-list (C13, "for all item lists"): more items than any plausible batch size, failures on both sides of the powers of two
// and in the last item; all items return at once, parallelism is large so that the case stays cheap.
// logged-list: every item succeeds, the loop's own `success` output (a list of 17..60 entries, some of them long texts) and the
// outputs of the items' steps are logged.  What is logged may be abbreviated; what is returned may not.
func feGenLoggedList(r *rng) *feCase {
	c := &feCase{CloseAfter: -1, ClosureMs: -1, Class: "logged-list", DelayMode: "zero", ParMode: "literal", LogAll: true,
		DeclAlt: r.chance(1, 2), DeclErr: r.chance(1, 2), DeclFailed: true}
	n := 17 + r.intn(44)
	c.Par = []int{1, 4, 16}[r.intn(3)]
	c.Items = feGenItems(r, "g", n, 0, 0, "zero")
	for j := range c.Items {
		if r.chance(1, 5) {
			c.Items[j].Key = c.Items[j].Key + strings.Repeat("x", 300+r.intn(500))
		}
	}
	c.EstimatedMs = 4*n/c.Par + 200
	return c
}

func feGenBigList(r *rng) *feCase {
	c := &feCase{CloseAfter: -1, ClosureMs: -1, Class: "big-list", DelayMode: "zero", ParMode: "literal",
		DeclAlt: r.chance(1, 2), DeclErr: r.chance(1, 2), DeclFailed: true}
	n := []int{513, 520 + r.intn(200), 1025 + r.intn(40)}[r.intn(3)]
	c.Par = []int{1, 16, 64, n}[r.intn(4)]
	c.Items = feGenItems(r, "b", n, 0, 0, "zero")
	for _, j := range []int{r.intn(n), 255, 256, 511, 512, n - 1, n/2 + r.intn(n/2)} {
		if j < n && r.chance(2, 3) {
			c.Items[j].Outcome = r.pick(feFailKinds)
		}
	}
	c.EstimatedMs = 4*n/c.Par + 200
	return c
}

func feGenLongQueue(r *rng, holdMs int, variant int) *feCase {
	c := &feCase{CloseAfter: -1, ClosureMs: -1, Class: "long-queue", DelayMode: "long", ParMode: "literal",
		DeclAlt: r.chance(1, 2), DeclErr: r.chance(1, 2)}
	c.Par = 1
	if variant%3 == 2 {
		c.Par = 2
	}
	short := func(j int) feItem {
		return feItem{Key: fmt.Sprintf("q%d", j), I: int64(r.intn(1000)), Outcome: "success", DelayMs: r.intn(20)}
	}
	switch variant % 3 {
	case 0:
		// the slot(s) are held by the first item(s); 2..3 short items queue behind them
		n := c.Par + 2 + r.intn(2)
		for j := 0; j < n; j++ {
			it := short(j)
			if j < c.Par {
				it.DelayMs = holdMs + r.intn(200)
			}
			c.Items = append(c.Items, it)
		}
		c.EstimatedMs = holdMs + 300
	case 1:
		// queue waits add up: three items of holdMs/2 each, the last one waits a full holdMs
		for j := 0; j < 3; j++ {
			it := short(j)
			it.DelayMs = holdMs/2 + r.intn(100)
			c.Items = append(c.Items, it)
		}
		c.EstimatedMs = 3*holdMs/2 + 300
	default:
		// parallelism 2: a short item first, then two long ones, then short ones (one of them fails)
		n := 5 + r.intn(2)
		for j := 0; j < n; j++ {
			it := short(j)
			if j == 1 || j == 2 {
				it.DelayMs = holdMs + r.intn(200)
			}
			c.Items = append(c.Items, it)
		}
		c.Items[n-1].Outcome = r.pick(feFailKinds)
		c.EstimatedMs = holdMs + 300
	}
	return c
}

// cancel-queue (C06, "for all workflows and every instant of cancellation"): MANY more items than `parallelism`, every
// item runs until it is told to stop, deployments take `DeployMs` and cannot be interrupted, the sub-workflow's step has a
// small closure timeout; the caller's context is cancelled while the first items deploy / execute and all the others are
// queued.  The time to return after the cancellation is bounded by grace periods + closure timeouts + the deployments in
// flight - it must not grow with the number of queued items, and no queued item may begin (deploy) after the cancel.
// cancel-wide: as cancel-queue with MANY slots: every slot holder is deploying (600 ms, not interruptible) when the caller cancels.
// They all wind down together: the time to return is one deployment, not one deployment per slot holder (items that were
// handed a slot must have begun - nothing may make them take turns).
func feGenCancelWide(r *rng) *feCase {
	c := &feCase{ClosureMs: 100, Class: "cancel-wide", DelayMode: "hang", ParMode: "literal", DeployHard: true}
	c.Par = 26 + r.intn(6)
	c.DeployMs = 600
	n := c.Par + 8
	for j := 0; j < n; j++ {
		c.Items = append(c.Items, feItem{Key: fmt.Sprintf("w%d", j), I: int64(r.intn(1000)), Outcome: "success", DelayMs: 60000})
	}
	c.CloseAfter = 200 + r.intn(300)
	c.EstimatedMs = c.CloseAfter
	return c
}

func feGenCancelQueue(r *rng, tier string) *feCase {
	c := &feCase{ClosureMs: 100, Class: "cancel-queue", DelayMode: "hang", ParMode: "literal", DeployHard: true}
	c.Par = 1 + r.intn(3)
	n := 20*c.Par + 40 + r.intn(20)
	if tier == "thorough" && r.chance(1, 2) {
		n *= 2
	}
	c.DeployMs = 250 + r.intn(100)
	for j := 0; j < n; j++ {
		c.Items = append(c.Items, feItem{Key: fmt.Sprintf("c%d", j), I: int64(r.intn(1000)), Outcome: "success", DelayMs: 60000})
	}
	c.CloseAfter = c.DeployMs/3 + r.intn(c.DeployMs)
	c.EstimatedMs = c.CloseAfter
	return c
}

func feInput(c *feCase) map[string]any {
	conv := func(it feItem) map[string]any {
		m := map[string]any{"s": it.Key, "i": it.I}
		if it.HasIn {
			in := make([]any, len(it.Inner))
			for j, x := range it.Inner {
				in[j] = map[string]any{"s": x.Key, "i": x.I}
			}
			m["inner"] = in
		}
		return m
	}
	items := make([]any, len(c.Items))
	for j, it := range c.Items {
		items[j] = conv(it)
	}
	in := map[string]any{"items": items}
	if c.ParMode == "input" {
		in["par"] = int64(c.Par)
	}
	return in
}

func feBehaviours(c *feCase) map[string]Behaviour {
	b := map[string]Behaviour{}
	var walk func(items []feItem)
	walk = func(items []feItem) {
		for _, it := range items {
			if it.HasIn {
				walk(it.Inner)
			} else {
				b[feSrc+"#"+it.Key] = Behaviour{Outcome: it.Outcome, DelayMs: it.DelayMs}
			}
		}
	}
	walk(c.Items)
	if c.DeployMs > 0 {
		b[feSrc] = Behaviour{Outcome: "success", DeployDelayMs: c.DeployMs}
	}
	return b
}

func execForeachCase(caseID string, c *feCase) map[string]any {
	s := newScript()
	for k, v := range feBehaviours(c) {
		s.set(k, v)
	}
	currentScript.Store(s)
	itemDeployHard.Store(c.DeployHard)
	logAllOutputs = c.LogAll
	defer func() { logAllOutputs = false }()
	defer itemDeployHard.Store(false)
	base := runtime.NumGoroutine()
	reg, f, err := newItemRegistry()
	if err != nil {
		return map[string]any{"kind": "harness-error", "id": caseID, "error": err.Error()}
	}
	text := feParentYAML(c)
	files := map[string][]byte{"sub.yaml": []byte(feSubYAML(c))}
	filesOut := map[string]string{"sub.yaml": string(files["sub.yaml"])}
	if c.Nested {
		files["mid.yaml"] = []byte(feMidYAML(c))
		filesOut["mid.yaml"] = string(files["mid.yaml"])
	}
	input := feInput(c)
	out := map[string]any{"kind": "foreach", "id": caseID, "yaml": text, "files": filesOut, "nested": c.Nested,
		"n": len(c.Items), "items": c.Items, "par_mode": c.ParMode, "parallelism": c.Par,
		"inner_mode": c.InnerMode, "inner_parallelism": c.InnerPar, "decl_alt": c.DeclAlt, "decl_err": c.DeclErr,
		"decl_failed": c.DeclFailed, "delay_mode": c.DelayMode, "close_after_ms": c.CloseAfter, "cancel_on_starts": c.CancelOnStarts, "src": feSrc,
		"input": encVal(input), "class": c.Class, "deploy_ms": c.DeployMs, "deploy_hard": c.DeployHard,
		"closure_ms": c.ClosureMs}
	s.probe.Store(true)
	prepared, err := prepareYAML(reg, f, text, files)
	s.probe.Store(false)
	out["probe_balance"] = s.balance()
	if err != nil {
		out["skip"] = "prepare: " + err.Error()
		out["goroutine_delta"] = goroutineDelta(base)
		return out
	}
	ctx, cancel := context.WithCancel(context.Background())
	defer cancel()
	type res struct {
		id   string
		data any
		err  error
		pan  string
	}
	resCh := make(chan res, 1)
	t0 := time.Now()
	go func() {
		defer func() {
			if rec := recover(); rec != nil {
				resCh <- res{pan: fmt.Sprint(rec)}
			}
		}()
		id, data, err := prepared.Execute(ctx, input)
		resCh <- res{id: id, data: data, err: err}
	}()
	cancelAt := make(chan time.Time, 1)
	var tm *time.Timer
	var cancelOnce sync.Once
	doCancel := func() {
		cancelOnce.Do(func() {
			cancelAt <- time.Now()
			s.add("ctx-cancel", "", "", "", nil)
			cancel()
		})
	}
	if c.CancelOnStarts > 0 {
		k := int64(c.CancelOnStarts)
		hook := func(n int64) {
			if n == k {
				go doCancel()
			}
		}
		s.startHook.Store(&hook)
		defer s.startHook.Store(nil)
	}
	if c.CloseAfter >= 0 {
		tm = time.AfterFunc(time.Duration(c.CloseAfter)*time.Millisecond, doCancel)
	}
	result := loopResult{}
	select {
	case rr := <-resCh:
		result.Returned = true
		result.OutputID = rr.id
		result.Data = encVal(rr.data)
		if rr.err != nil {
			result.Err = rr.err.Error()
			result.ErrClass = classifyExecErr(rr.err)
		}
		if rr.pan != "" {
			out["panic"] = rr.pan
		}
	case <-time.After(60 * time.Second):
		out["dump"] = goroutineDump()
	}
	out["wall_ms"] = time.Since(t0).Milliseconds()
	if tm != nil {
		tm.Stop()
	}
	select {
	case at := <-cancelAt:
		out["cancelled"] = true
		out["after_cancel_ms"] = time.Since(at).Milliseconds()
	default:
		out["cancelled"] = false
	}
	out["result"] = result
	out["balance"] = s.balance()
	out["max_running"] = s.maxRunning
	gd := goroutineDelta(base)
	out["goroutine_delta"] = gd
	if gd > 0 {
		out["leak_dump"] = goroutineDump()
	}
	out["still_running"] = s.running
	out["log"] = s.snapshot()
	return out
}

func cmdForeach(args []string) int {
	var closeMode bool
	var nLong, longMs, nQueue int
	c, _ := parseCommon("foreach", args, func(fs *flag.FlagSet) {
		fs.BoolVar(&closeMode, "close", false, "cancel the parent context at a random instant")
		fs.IntVar(&nLong, "long", 0, "number of long-queue cases (items queued behind the parallelism limit for -longms)")
		fs.IntVar(&longMs, "longms", 6000, "how long the slot-holding items of a long-queue case run (ms)")
		fs.IntVar(&nQueue, "queue", 0, "with -close: number of cancel-queue cases (many more items than parallelism, cancelled while queued)")
	})
	w := openOut(c.out)
	defer w.close()
	r := newRng(c.seed)
	for i := 0; i < c.n; i++ {
		cr := r.fork()
		fc := feGen(cr, c.tier, closeMode)
		mode := "run"
		if closeMode {
			mode = "close"
		}
		w.emit(execForeachCase(fmt.Sprintf("foreach-%s-%d-%d", mode, c.seed, i), fc))
	}
	if !closeMode {
		nBig := 1
		if c.tier == "thorough" {
			nBig = 6
		}
		for i := 0; i < nBig; i++ {
			w.emit(execForeachCase(fmt.Sprintf("foreach-big-%d-%d", c.seed, i), feGenBigList(r.fork())))
		}
		for i := 0; i < 2*nBig; i++ {
			w.emit(execForeachCase(fmt.Sprintf("foreach-logged-%d-%d", c.seed, i), feGenLoggedList(r.fork())))
		}
		for i := 0; i < nLong; i++ {
			w.emit(execForeachCase(fmt.Sprintf("foreach-long-%d-%d", c.seed, i), feGenLongQueue(r.fork(), longMs, i+int(c.seed))))
		}
	} else {
		for i := 0; i < nQueue; i++ {
			if i%3 == 2 {
				w.emit(execForeachCase(fmt.Sprintf("foreach-wide-%d-%d", c.seed, i), feGenCancelWide(r.fork())))
				continue
			}
			w.emit(execForeachCase(fmt.Sprintf("foreach-queue-%d-%d", c.seed, i), feGenCancelQueue(r.fork(), c.tier)))
		}
	}
	return 0
}
