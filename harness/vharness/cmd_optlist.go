//go:build verif

package main

import (
	"context"
	"fmt"
	"reflect"
	"time"
)

// ---- C08 / C15: optional values as ITEMS of a list ---------------------------------------------------------------------------
//
// `!wait-optional` / `!soft-optional` may tag any value of an output or a stage input, also an item of a list.  When the source
// was not produced the value is absent; an absent FIELD is left out of its map.  For an absent ITEM the run must still return an
// output that conforms to the (inferred) schema: no internal consistency error, no nil element inside a typed list.
// Fixed matrix: tag x position x source produced / not produced.

func init() { register("optlist", cmdOptList) }

func hasNilElement(v any) bool {
	rv := reflect.ValueOf(v)
	if !rv.IsValid() {
		return false
	}
	switch rv.Kind() {
	case reflect.Slice:
		for i := 0; i < rv.Len(); i++ {
			e := rv.Index(i).Interface()
			if e == nil || hasNilElement(e) {
				return true
			}
		}
	case reflect.Map:
		for _, k := range rv.MapKeys() {
			if hasNilElement(rv.MapIndex(k).Interface()) {
				return true
			}
		}
	}
	return false
}

func cmdOptList(args []string) int {
	c, _ := parseCommon("optlist", args, nil)
	w := openOut(c.out)
	defer w.close()
	positions := map[string]string{
		"list-item":        "      - %s\n      - !expr $.steps.v.outputs.success.s\n",
		"list-item-last":   "      - !expr $.steps.v.outputs.success.s\n      - %s\n",
		"list-only-item":   "      - %s\n",
		"list-in-list":     "      - - %s\n        - !expr $.steps.v.outputs.success.s\n",
		"map-in-list":      "      - k: %s\n        j: !expr $.steps.v.outputs.success.s\n",
		"list-in-map-field": "      f:\n        - %s\n        - !expr $.steps.v.outputs.success.s\n",
	}
	order := []string{"list-item", "list-item-last", "list-only-item", "list-in-list", "map-in-list", "list-in-map-field"}
	i := 0
	for _, tag := range []string{"!wait-optional", "!soft-optional"} {
		for _, pos := range order {
			for _, on := range []bool{true, false} {
				id := fmt.Sprintf("optlist-%d", i)
				i++
				item := tag + " $.steps.w.outputs.success.s"
				text := "version: v0.2.0\ninput:\n  root: RootObject\n  objects:\n    RootObject:\n      id: RootObject\n      properties:\n        on:\n          type:\n            type_id: bool\n" +
					"steps:\n  w:\n    plugin:\n      src: w\n      deployment_type: builtin\n    step: op\n    input:\n      s: x\n    enabled: !expr $.input.on\n" +
					"  v:\n    plugin:\n      src: v\n      deployment_type: builtin\n    step: op\n    input:\n      s: y\n" +
					"outputs:\n  success:\n    r:\n" + fmt.Sprintf(positions[pos], item)
				out := map[string]any{"kind": "optlist", "id": id, "tag": tag, "position": pos, "source_produced": on, "yaml": text, "key": id}
				s := newScript()
				currentScript.Store(s)
				g := guarded(30*time.Second, func() {
					reg, f, err := newRegistry(nil)
					if err != nil {
						out["skip"] = "registry: " + err.Error()
						return
					}
					s.probe.Store(true)
					prepared, err := prepareYAML(reg, f, text, nil)
					s.probe.Store(false)
					if err != nil {
						out["prepare_err"] = err.Error()
						return
					}
					out["accepted"] = true
					ctx, cancel := context.WithTimeout(context.Background(), 20*time.Second)
					defer cancel()
					oid, data, err := prepared.Execute(ctx, map[string]any{"on": on})
					out["output_id"] = oid
					if err != nil {
						out["err"] = err.Error()
						out["err_class"] = classifyExecErr(err)
						return
					}
					out["returned"] = fmt.Sprintf("%v", data)
					out["nil_element"] = hasNilElement(data)
				})
				if g.Panic != "" {
					out["panic"] = g.Panic
				}
				if g.Timeout {
					out["timeout"] = true
				}
				w.emit(out)
			}
		}
	}
	// literal lists (no tag): the whole-engine side of the inference model (finding F17); homogeneous ones must run
	for _, lit := range []string{`[{a: 1}, {b: x}]`, `[{}, {a: 1}]`, `[[{a: 1}], [{b: 1}]]`, `[{a: 1}, {a: 2}]`, `[[a], [b, c]]`, `[]`, `{k: [{a: 1}, {a: 2, b: 3}]}`} {
		id := fmt.Sprintf("optlist-%d", i)
		i++
		text := "version: v0.2.0\ninput:\n  root: RootObject\n  objects:\n    RootObject:\n      id: RootObject\n      properties: {}\n" +
			"steps:\n  v:\n    plugin:\n      src: v\n      deployment_type: builtin\n    step: op\n    input:\n      s: y\n" +
			"outputs:\n  success:\n    r: " + lit + "\n    s: !expr $.steps.v.outputs.success.s\n"
		out := map[string]any{"kind": "optlist", "id": id, "tag": "literal", "position": lit, "source_produced": true, "yaml": text, "key": id}
		s := newScript()
		currentScript.Store(s)
		g := guarded(30*time.Second, func() {
			reg, f, err := newRegistry(nil)
			if err != nil {
				out["skip"] = "registry: " + err.Error()
				return
			}
			s.probe.Store(true)
			prepared, err := prepareYAML(reg, f, text, nil)
			s.probe.Store(false)
			if err != nil {
				out["prepare_err"] = err.Error()
				return
			}
			out["accepted"] = true
			ctx, cancel := context.WithTimeout(context.Background(), 20*time.Second)
			defer cancel()
			oid, data, err := prepared.Execute(ctx, map[string]any{})
			out["output_id"] = oid
			if err != nil {
				out["err"] = err.Error()
				out["err_class"] = classifyExecErr(err)
				return
			}
			out["returned"] = fmt.Sprintf("%v", data)
			out["nil_element"] = hasNilElement(data)
		})
		if g.Panic != "" {
			out["panic"] = g.Panic
		}
		if g.Timeout {
			out["timeout"] = true
		}
		w.emit(out)
	}
	// tagged values in corners that the SDK's schema constructors refuse: Prepare has to return an error, not panic (C11 / C10)
	corners := []struct{ name, out, stepIn string }{
		{"oneof-output-discriminator-collides-with-option-field", "    r: !oneof\n      discriminator: s\n      one_of:\n        a: !expr $.steps.v.outputs.success\n", "      s: y\n"},
		{"oneof-output-ok", "    r: !oneof\n      discriminator: kind\n      one_of:\n        a: !expr $.steps.v.outputs.success\n", "      s: y\n"},
		{"oneof-output-two-options-one-collides", "    r: !oneof\n      discriminator: s\n      one_of:\n        a: !expr $.steps.v.outputs.success\n        b: !expr $.steps.v.outputs.error\n", "      s: y\n"},
		{"oneof-in-list-output-collides", "    r:\n      - !oneof\n        discriminator: s\n        one_of:\n          a: !expr $.steps.v.outputs.success\n", "      s: y\n"},
		{"oneof-step-input-collides", "    r: !expr $.steps.u.outputs.success.s\n", "      s: !oneof\n        discriminator: s\n        one_of:\n          a: !expr $.steps.v.outputs.success\n"},
	}
	for _, cn := range corners {
		id := fmt.Sprintf("optlist-%d", i)
		i++
		text := "version: v0.2.0\ninput:\n  root: RootObject\n  objects:\n    RootObject:\n      id: RootObject\n      properties: {}\n" +
			"steps:\n  v:\n    plugin:\n      src: v\n      deployment_type: builtin\n    step: op\n    input:\n      s: y\n" +
			"  u:\n    plugin:\n      src: u\n      deployment_type: builtin\n    step: op\n    input:\n" + cn.stepIn +
			"outputs:\n  success:\n" + cn.out
		out := map[string]any{"kind": "optlist", "id": id, "tag": "corner", "position": cn.name, "source_produced": true, "yaml": text, "key": id}
		s := newScript()
		currentScript.Store(s)
		g := guarded(30*time.Second, func() {
			reg, f, err := newRegistry(nil)
			if err != nil {
				out["skip"] = "registry: " + err.Error()
				return
			}
			s.probe.Store(true)
			prepared, err := prepareYAML(reg, f, text, nil)
			s.probe.Store(false)
			if err != nil {
				out["prepare_err"] = err.Error()
				return
			}
			out["accepted"] = true
			ctx, cancel := context.WithTimeout(context.Background(), 20*time.Second)
			defer cancel()
			oid, data, err := prepared.Execute(ctx, map[string]any{})
			out["output_id"] = oid
			if err != nil {
				out["err"] = err.Error()
				out["err_class"] = classifyExecErr(err)
				return
			}
			out["returned"] = fmt.Sprintf("%v", data)
		})
		if g.Panic != "" {
			out["panic"] = g.Panic
		}
		if g.Timeout {
			out["timeout"] = true
		}
		w.emit(out)
	}
	return 0
}
