//go:build verif

package main

import (
	"fmt"
	"math"
	"reflect"
	"sort"
	"strconv"
	"strings"
)

// encVal renders a Go value of the engine's data model in the tagged JSON form shared with the Lean driver:
// null | bool | {"i":"<int>"} | {"f":"<hex bits>"} | "string" | [..] | {"m":{k:v}} | {"g":"Type","m":{..}}.
// Map keys that are ints become "#<n>".
func encVal(v any) any {
	if v == nil {
		return nil
	}
	switch t := v.(type) {
	case bool:
		return t
	case string:
		return t
	case int:
		return map[string]any{"i": strconv.FormatInt(int64(t), 10)}
	case int64:
		return map[string]any{"i": strconv.FormatInt(t, 10)}
	case int32:
		return map[string]any{"i": strconv.FormatInt(int64(t), 10)}
	case uint64:
		return map[string]any{"i": strconv.FormatUint(t, 10)}
	case float64:
		return map[string]any{"f": fmt.Sprintf("%016x", math.Float64bits(t))}
	case float32:
		return map[string]any{"f": fmt.Sprintf("%016x", math.Float64bits(float64(t)))}
	}
	rv := reflect.ValueOf(v)
	switch rv.Kind() {
	case reflect.Ptr, reflect.Interface:
		if rv.IsNil() {
			return nil
		}
		return encVal(rv.Elem().Interface())
	case reflect.Slice, reflect.Array:
		out := make([]any, rv.Len())
		for i := 0; i < rv.Len(); i++ {
			out[i] = encVal(rv.Index(i).Interface())
		}
		return out
	case reflect.Map:
		m := map[string]any{}
		for _, k := range rv.MapKeys() {
			m[keyString(k.Interface())] = encVal(rv.MapIndex(k).Interface())
		}
		return map[string]any{"m": m}
	case reflect.Struct:
		m := map[string]any{}
		rt := rv.Type()
		for i := 0; i < rt.NumField(); i++ {
			f := rt.Field(i)
			if !f.IsExported() {
				continue
			}
			name := f.Name
			if tag := f.Tag.Get("json"); tag != "" {
				name = strings.Split(tag, ",")[0]
			}
			m[name] = encVal(rv.Field(i).Interface())
		}
		return map[string]any{"g": rt.Name(), "m": m}
	case reflect.Int, reflect.Int8, reflect.Int16, reflect.Int32, reflect.Int64:
		return map[string]any{"i": strconv.FormatInt(rv.Int(), 10)}
	case reflect.Uint, reflect.Uint8, reflect.Uint16, reflect.Uint32, reflect.Uint64:
		return map[string]any{"i": strconv.FormatUint(rv.Uint(), 10)}
	case reflect.Float32, reflect.Float64:
		return map[string]any{"f": fmt.Sprintf("%016x", math.Float64bits(rv.Float()))}
	case reflect.String:
		return rv.String()
	case reflect.Bool:
		return rv.Bool()
	}
	return map[string]any{"g": fmt.Sprintf("%T", v), "m": map[string]any{}}
}

func keyString(k any) string {
	switch t := k.(type) {
	case string:
		return t
	case int:
		return "#" + strconv.Itoa(t)
	case int64:
		return "#" + strconv.FormatInt(t, 10)
	default:
		return fmt.Sprintf("?%v", k)
	}
}

// decVal is the inverse of encVal for the plain fragment (no structs): ints become int64, maps map[string]any.
func decVal(j any) any {
	switch t := j.(type) {
	case nil:
		return nil
	case bool, string:
		return t
	case []any:
		out := make([]any, len(t))
		for i, x := range t {
			out[i] = decVal(x)
		}
		return out
	case map[string]any:
		if s, ok := t["i"].(string); ok && len(t) == 1 {
			n, _ := strconv.ParseInt(s, 10, 64)
			return n
		}
		if s, ok := t["f"].(string); ok && len(t) == 1 {
			b, _ := strconv.ParseUint(s, 16, 64)
			return math.Float64frombits(b)
		}
		if m, ok := t["m"].(map[string]any); ok {
			out := map[string]any{}
			for k, v := range m {
				out[k] = decVal(v)
			}
			return out
		}
	}
	return nil
}

func sortedKeys[V any](m map[string]V) []string {
	ks := make([]string, 0, len(m))
	for k := range m {
		ks = append(ks, k)
	}
	sort.Strings(ks)
	return ks
}
