//go:build verif

package main

import (
	"context"
	"errors"
	"fmt"
	"io"
	"strings"
	"sync"
	"sync/atomic"
	"time"

	log "go.arcalot.io/log/v2"
	"go.flow.arcalot.io/deployer"
	"go.flow.arcalot.io/pluginsdk/atp"
	"go.flow.arcalot.io/pluginsdk/plugin"
	"go.flow.arcalot.io/pluginsdk/schema"
)

// ---- scripted deployer + in-process ATP plugin -------------------------------------------------------------------
//
// The deployer is registered under deployment type "builtin" / deployer_name "scripted".  The plugin "image" (the
// `src` field of a step) selects the behaviour: the script maps src -> Behaviour.  Every Deploy starts a private ATP
// server over pipes (as go.flow.arcalot.io/testdeployer does) whose steps `op` (with cancel signal) and `opns`
// (without) act according to the behaviour and log what they see into one global, sequence-numbered log.

// Behaviour describes what the plugin deployed from one `src` does.
type Behaviour struct {
	Outcome       string `json:"outcome"` // success | error | alt | crash | hang
	DelayMs       int    `json:"delay_ms"`
	DeployFail    bool   `json:"deploy_fail"`
	DeployDelayMs int    `json:"deploy_delay_ms"`
	IgnoreCancel  bool   `json:"ignore_cancel"` // a hanging step that does not react to the cancel signal
	// the deployment does not watch its context: it takes DeployDelayMs and then succeeds (or fails as scripted) even when the
	// step was closed or stopped meanwhile, as a deployer that pulls an image or waits for a scheduler would
	DeployIgnoresCtx bool `json:"deploy_ignores_ctx"`
	ProbeCloseFail   bool `json:"probe_close_fail"` // while the schema is probed, the write of the ATP "client done" message fails
	// a RUN-time deployment (not a schema probe) whose Close reports an error after it has done its work (a container that
	// was killed but could not be removed): everything is released, the caller only gets the error
	CloseFail bool `json:"close_fail,omitempty"`
	// a RUN-time deployment whose connection is broken from the first write on (as testdeployer's disable_plugin_writes): the
	// step deploys and then fails in its STARTING stage; its plugin never executes
	StartFail bool `json:"start_fail,omitempty"`
	// while the schema is probed (Prepare), the temporary deployment takes this long and does not watch its context
	ProbeDelayMs int            `json:"probe_delay_ms,omitempty"`
	Data         map[string]any `json:"data"` // overrides of the produced output fields
}

// LogEntry is one observation of the plugin side.
type LogEntry struct {
	Seq   int64  `json:"seq"`
	Ev    string `json:"ev"` // deploy | deploy-fail | close | exec-start | exec-end | cancel-signal | probe
	Src   string `json:"src"`
	RunID string `json:"run,omitempty"`
	Out   string `json:"out,omitempty"`
	Data  any    `json:"data,omitempty"`
	AtMs  int64  `json:"at_ms"`
}

// Script is the shared state between a test case and the plugins deployed for it.
type Script struct {
	mu         sync.Mutex
	behaviours map[string]Behaviour
	log        []LogEntry
	seq        int64
	t0         time.Time
	running    int64 // currently executing step handlers
	maxRunning int64
	deployed   int64                       // deploy - close balance
	probe      atomic.Bool                 // true while the workflow is being prepared (schema probes)
	starts     atomic.Int64                // number of exec-start events so far
	startHook  atomic.Pointer[func(int64)] // called (outside the lock) with the running count at every exec-start
}

func newScript() *Script {
	return &Script{behaviours: map[string]Behaviour{}, t0: time.Now()}
}

func (s *Script) set(src string, b Behaviour) {
	s.mu.Lock()
	defer s.mu.Unlock()
	s.behaviours[src] = b
}

func (s *Script) get(src string) Behaviour {
	s.mu.Lock()
	defer s.mu.Unlock()
	b, ok := s.behaviours[src]
	if !ok {
		return Behaviour{Outcome: "success"}
	}
	return b
}

func (s *Script) add(ev, src, run, out string, data any) {
	s.mu.Lock()
	defer s.mu.Unlock()
	s.seq++
	s.log = append(s.log, LogEntry{Seq: s.seq, Ev: ev, Src: src, RunID: run, Out: out, Data: data,
		AtMs: time.Since(s.t0).Milliseconds()})
	if ev == "exec-start" {
		n := s.starts.Add(1)
		if h := s.startHook.Load(); h != nil {
			defer (*h)(n)
		}
	}
}

func (s *Script) snapshot() []LogEntry {
	s.mu.Lock()
	defer s.mu.Unlock()
	out := make([]LogEntry, len(s.log))
	copy(out, s.log)
	return out
}

func (s *Script) balance() int64 { return atomic.LoadInt64(&s.deployed) }

// currentScript is what the "scripted" deployer consults. Cases run one at a time per process.
var currentScript atomic.Pointer[Script]

// ---- plugin schema -------------------------------------------------------------------------------------------------

// OpInput is the input of the scripted steps.
type OpInput struct {
	S *string  `json:"s"`
	I *int64   `json:"i"`
	B *bool    `json:"b"`
	L []string `json:"l"`
}

// OpOutput is the success/alt output.
type OpOutput struct {
	S string `json:"s"`
	I int64  `json:"i"`
	B bool   `json:"b"`
}

// OpError is the error output.
type OpError struct {
	Reason string `json:"reason"`
}

func opInputSchema() *schema.ScopeSchema {
	opt := func(t schema.Type) *schema.PropertySchema {
		return schema.NewPropertySchema(t, nil, false, nil, nil, nil, nil, nil)
	}
	return schema.NewScopeSchema(schema.NewStructMappedObjectSchema[OpInput]("op-input",
		map[string]*schema.PropertySchema{
			"s": opt(schema.NewStringSchema(nil, nil, nil)),
			"i": opt(schema.NewIntSchema(nil, nil, nil)),
			"b": opt(schema.NewBoolSchema()),
			"l": opt(schema.NewListSchema(schema.NewStringSchema(nil, nil, nil), nil, nil)),
		}))
}

func opOutputSchema() *schema.ScopeSchema {
	req := func(t schema.Type) *schema.PropertySchema {
		return schema.NewPropertySchema(t, nil, true, nil, nil, nil, nil, nil)
	}
	return schema.NewScopeSchema(schema.NewStructMappedObjectSchema[OpOutput]("op-output",
		map[string]*schema.PropertySchema{
			"s": req(schema.NewStringSchema(nil, nil, nil)),
			"i": req(schema.NewIntSchema(nil, nil, nil)),
			"b": req(schema.NewBoolSchema()),
		}))
}

func opErrorSchema() *schema.ScopeSchema {
	return schema.NewScopeSchema(schema.NewStructMappedObjectSchema[OpError]("op-error",
		map[string]*schema.PropertySchema{
			"reason": schema.NewPropertySchema(schema.NewStringSchema(nil, nil, nil), nil, true, nil, nil, nil, nil, nil),
		}))
}

type opData struct{ cancel chan bool }

func opOutputs() map[string]*schema.StepOutputSchema {
	return map[string]*schema.StepOutputSchema{
		"success":   schema.NewStepOutputSchema(opOutputSchema(), nil, false),
		"alt":       schema.NewStepOutputSchema(opOutputSchema(), nil, false),
		"cancelled": schema.NewStepOutputSchema(opOutputSchema(), nil, false),
		"error":     schema.NewStepOutputSchema(opErrorSchema(), nil, true),
	}
}

// pluginSchema builds a fresh callable schema (it carries per-run state) bound to script and src.
func pluginSchema(s *Script, src string) *schema.CallableSchema {
	handler := func(ctx context.Context, d *opData, in OpInput) (string, any) {
		b := s.get(src)
		n := atomic.AddInt64(&s.running, 1)
		for {
			m := atomic.LoadInt64(&s.maxRunning)
			if n <= m || atomic.CompareAndSwapInt64(&s.maxRunning, m, n) {
				break
			}
		}
		defer atomic.AddInt64(&s.running, -1)
		s.add("exec-start", src, "", "", encVal(in))
		out := OpOutput{S: "out-" + src, I: int64(len(src)), B: true}
		if in.S != nil {
			out.S = *in.S + "+" + src
		}
		if in.I != nil {
			out.I = *in.I + 1
		}
		if v, ok := b.Data["s"].(string); ok {
			out.S = v
		}
		if v, ok := b.Data["i"].(float64); ok {
			out.I = int64(v)
		}
		if v, ok := b.Data["b"].(bool); ok {
			out.B = v
		}
		finish := func(id string, data any) (string, any) {
			s.add("exec-end", src, "", id, encVal(data))
			return id, data
		}
		wait := time.Duration(b.DelayMs) * time.Millisecond
		if b.Outcome == "hang" {
			wait = time.Hour
		}
		var cancelCh chan bool
		if d != nil && !b.IgnoreCancel {
			cancelCh = d.cancel
		}
		select {
		case <-time.After(wait):
		case <-ctx.Done():
			return finish("cancelled", out)
		case <-cancelCh:
			return finish("cancelled", out)
		}
		switch b.Outcome {
		case "error":
			return finish("error", OpError{Reason: "scripted failure of " + src})
		case "alt":
			return finish("alt", out)
		case "crash":
			// an undeclared output id makes the ATP server report an execution error: the engine sees a crash
			s.add("exec-end", src, "", "crash", nil)
			return "undeclared-output", out
		default:
			return finish("success", out)
		}
	}
	return schema.NewCallableSchema(
		schema.NewCallableStepWithSignals[*opData, OpInput](
			"op", opInputSchema(), opOutputs(),
			map[string]schema.CallableSignal{
				plugin.CancellationSignalSchema.ID(): schema.NewCallableSignalFromSchema(plugin.CancellationSignalSchema,
					func(_ context.Context, d *opData, _ plugin.CancelInput) {
						s.add("cancel-signal", src, "", "", nil)
						d.cancel <- true
					}),
			},
			map[string]*schema.SignalSchema{}, nil,
			func() *opData { return &opData{cancel: make(chan bool, 3)} },
			handler,
		),
		schema.NewCallableStep[OpInput]("opns", opInputSchema(), opOutputs(), nil,
			func(ctx context.Context, in OpInput) (string, any) { return handler(ctx, nil, in) }),
	)
}

// ---- deployer --------------------------------------------------------------------------------------------------------

// SDConfig is the configuration a step's own `deploy:` section gives the scripted deployer.  The note is recorded with the
// deployment in the plugin-side log ("note:<text>"); a note that starts with "refuse" makes the deployment fail, so that a
// deploy-time expression has an observable effect on the run.
type SDConfig struct {
	Note string `json:"note"`
}

var sdSchema = schema.NewTypedScopeSchema[*SDConfig](schema.NewStructMappedObjectSchema[*SDConfig]("SDConfig",
	map[string]*schema.PropertySchema{
		"note": schema.NewPropertySchema(schema.NewStringSchema(nil, nil, nil), nil, false, nil, nil, nil, nil, nil),
	}))

type sdFactory struct{}

func (sdFactory) Name() string                                             { return "scripted" }
func (sdFactory) DeploymentType() deployer.DeploymentType                  { return "builtin" }
func (sdFactory) ConfigurationSchema() *schema.TypedScopeSchema[*SDConfig] { return sdSchema }
func (sdFactory) Create(cfg *SDConfig, _ log.Logger) (deployer.Connector, error) {
	c := &sdConnector{}
	if cfg != nil {
		c.note, c.own = cfg.Note, true
	}
	return c, nil
}

type sdConnector struct {
	note string
	own  bool // created from a step's own deploy section (the engine-wide one is created from the local deployer config)
}

type sdPlugin struct {
	failWriteFrom int32 // > 0: the n-th and later writes fail
	writes        int32
	reader        *io.PipeReader
	writer        *io.PipeWriter
	cancel        context.CancelFunc
	wg            *sync.WaitGroup
	src           string
	script        *Script
	once          sync.Once
	closeFail     bool
}

func (p *sdPlugin) Read(b []byte) (int, error) { return p.reader.Read(b) }
func (p *sdPlugin) Write(b []byte) (int, error) {
	if n := atomic.AddInt32(&p.writes, 1); p.failWriteFrom > 0 && n >= p.failWriteFrom {
		return 0, fmt.Errorf("scripted write failure")
	}
	return p.writer.Write(b)
}
func (p *sdPlugin) ID() string { return p.src }
func (p *sdPlugin) Close() error {
	var err error
	p.once.Do(func() {
		p.cancel()
		e1 := p.reader.Close()
		e2 := p.writer.Close()
		if e1 != nil || e2 != nil {
			err = fmt.Errorf("error while closing pipes (%w)", errors.Join(e1, e2))
		}
		p.wg.Wait()
		atomic.AddInt64(&p.script.deployed, -1)
		if p.closeFail {
			p.script.add("close", p.src, "", "close-error", nil)
			err = fmt.Errorf("scripted: the container of %s was stopped but could not be removed", p.src)
			return
		}
		p.script.add("close", p.src, "", "", nil)
	})
	return err
}

func (c *sdConnector) Deploy(ctx context.Context, image string) (deployer.Plugin, error) {
	s := currentScript.Load()
	if s == nil {
		return nil, fmt.Errorf("no script installed")
	}
	b := s.get(image)
	probing := s.probe.Load()
	if probing && b.ProbeDelayMs > 0 {
		time.Sleep(time.Duration(b.ProbeDelayMs) * time.Millisecond)
	}
	if b.DeployDelayMs > 0 && !probing && b.DeployIgnoresCtx {
		time.Sleep(time.Duration(b.DeployDelayMs) * time.Millisecond)
	} else if b.DeployDelayMs > 0 && !probing {
		select {
		case <-time.After(time.Duration(b.DeployDelayMs) * time.Millisecond):
		case <-ctx.Done():
			s.add("deploy-fail", image, "", "ctx", nil)
			return nil, fmt.Errorf("deployment of %s aborted: %w", image, ctx.Err())
		}
	}
	if b.DeployFail && !probing {
		s.add("deploy-fail", image, "", "scripted", nil)
		return nil, fmt.Errorf("scripted deployment failure of %s", image)
	}
	if strings.HasPrefix(c.note, "refuse") && !probing {
		s.add("deploy-fail", image, "", "note:"+c.note, nil)
		return nil, fmt.Errorf("deployment of %s refused by its configuration (%s)", image, c.note)
	}
	if strings.HasPrefix(image, "probefail") && probing {
		return nil, fmt.Errorf("scripted probe failure of %s", image)
	}
	stdinSub, stdinWriter := io.Pipe()
	stdoutReader, stdoutSub := io.Pipe()
	pluginCtx, cancel := context.WithCancel(context.Background())
	wg := &sync.WaitGroup{}
	wg.Add(1)
	sch := pluginSchema(s, image)
	go func() {
		defer wg.Done()
		_ = atp.RunATPServer(pluginCtx, stdinSub, stdoutSub, sch)
	}()
	atomic.AddInt64(&s.deployed, 1)
	if probing {
		s.add("probe", image, "", "", nil)
	} else {
		if c.note != "" {
			s.add("deploy", image, "", "note:"+c.note, nil)
		} else {
			s.add("deploy", image, "", "", nil)
		}
	}
	pl := &sdPlugin{reader: stdoutReader, writer: stdinWriter, cancel: cancel, wg: wg, src: image, script: s}
	pl.closeFail = b.CloseFail && !probing
	if b.StartFail && !probing {
		pl.failWriteFrom = 1
	}
	if probing && b.ProbeCloseFail {
		pl.failWriteFrom = 2 // the first write starts the session, the second is the "client done" message
	}
	return pl, nil
}
