//go:build verif

package main

import (
	"bytes"
	"context"
	"encoding/json"
	"flag"
	"fmt"
	"math"
	"os"
	"os/exec"
	"runtime"
	"sort"
	"strings"
	"sync"
	"syscall"
	"time"
)

func init() { register("evalpos", cmdEvalpos) }

// ---- C07: run-time faults of expressions at every position the engine evaluates ----------------------------------------------
//
// The property: whatever the input and whatever the steps return, a run never panics or kills the process; an expression that
// cannot be evaluated at run time ends the run with a returned error.  The stream is the product
//
//     fault (WHAT goes wrong while the expression is evaluated, and where the offending value comes from)
//   x position (WHERE the engine evaluates the expression)
//
// Faults: evaluation errors of the expression library (absent optional value, index out of range, missing map key, failing
// conversion functions), panics with a runtime.Error (integer division / modulus by zero), panics with a NON-error value
// (reflect misuse: a Go-typed map the engine built itself - the `data` (map[int]any) and `errors` (map[int]string) members of
// a failed foreach step's error output - indexed with the int64 an integer literal evaluates to), and extreme arguments of
// built-in functions / size-like step parameters that are valid for the workflow input's schema (an unbounded integer) but
// outside what the callee declares (floatToFormattedString: format x precision; foreach parallelism; closure timeout).
// The offending value comes from the workflow input, from the output of a plugin step (so the evaluation happens on the
// goroutine of that step, where a panic kills the process), from the error output of a failing foreach step, or from the
// item of a sub-workflow.
//
// Positions: top-level value of an output; nested in a map / list / map-in-list-in-map of an output; inside !oneof,
// !wait-optional, !soft-optional; plugin step: input (member, list member, whole input), wait_for, deploy, enabled, stop_if,
// closure_wait_timeout; foreach step: items, parallelism, wait_for, enabled; inside the sub-workflow of a foreach step:
// output (member and top level), step input.  `Arca.Props.C07.positions_cover_lifecycle_inputs` ties the step-level list to
// the regenerated lifecycle tables.
//
// Every case runs in a CHILD process (`evalpos -child`) with RLIMIT_AS lowered to epAddressSpaceLimit, so that an
// allocation of hundreds of GiB fails fast instead of thrashing the machine, and so that a crash (Go panic on any goroutine,
// "fatal error: out of memory") is attributed to the case: the parent generates the same case (same seed, same index), and
// when the child dies without a result line it emits the case itself - workflow text, files, input, behaviours - with the
// crash text.  The monitor (lib/props_c07.py) reports: crash, panic on the Execute goroutine, no return, and a fault that
// was certainly evaluated but did not end the run with an error.

const epAddressSpaceLimit = 16 << 30 // bytes; RLIMIT_AS of the child that runs one case
const epChildWallLimit = 90 * time.Second
const epRunLimit = 30 * time.Second

// ---- faults -------------------------------------------------------------------------------------------------------------------

type epExpr struct {
	Src string // expression text
	Ty  string // int | string | bool | float | obj (object with members s, i, b) | cobj (object {item, constant}) | raw
}

type epFault struct {
	ID    string
	Class string // error | panic-runtime-error | panic-non-error | extreme
	// build returns variant k of the faulty expression for a source (input | step | foreach | item), ok = false when the
	// fault cannot come from that source.  It may adjust the workflow input.
	Build    func(src string, in map[string]any, k int) (epExpr, bool)
	MustFail bool // evaluating the expression cannot succeed: a run that evaluated it must return an error
	// Variants > 1: the fault is a table of argument values.  Every round of the stream runs EVERY variant from every
	// source at a position that rotates with the seed and the round, and additionally at each of the Pinned positions.
	Variants int
	Pinned   []string
}

// the integer operand that is zero at run time, by source
func epZero(src string, in map[string]any) string {
	switch src {
	case "input":
		in["z"] = int64(0)
		return "$.input.z"
	case "step":
		// the scripted plugin returns i = input.i + 1 = -1.  (A NEGATIVE output is used on purpose: the plugin provider hands
		// the CBOR-decoded output to the data model as it is, so non-negative integers arrive as uint64 and `uint64 - int64`
		// is an evaluation error of its own, not a division by zero.)
		in["prei"] = int64(-2)
		return "($.steps.pre.outputs.success.i + 1)"
	case "item":
		return "$.input.i" // the failing item carries i = 0
	}
	return ""
}

func epStringSource(src string) string {
	switch src {
	case "input":
		return "$.input.name"
	case "step":
		return "$.steps.pre.outputs.success.s"
	case "item":
		return "$.input.s"
	}
	return ""
}

var epFormats = []string{"b", "e", "E", "f", "g", "G", "x", "X"}
var epPrecisions = []int64{-1 << 63, -2, 2001, 1 << 31, 1 << 40, 1 << 62}
var epExtremeFloats = []float64{1e21, -2.5e30, 9.99999e20, 1.7976931348623157e308, -1.7976931348623157e308, 5e-324, 1e-7, 123456789012345680000.0,
	math.Inf(1), math.Inf(-1), math.NaN()}
var epExtremeInts = []int64{-1 << 63, -1, 0, 1 << 31, 1 << 40, 1 << 62, 1<<63 - 1}

func epOnly(want string, e epExpr) func(string, map[string]any, int) (epExpr, bool) {
	return func(src string, _ map[string]any, _ int) (epExpr, bool) { return e, src == want }
}

var epFaults = []epFault{
	{ID: "absent-optional-value", Class: "error", MustFail: true, Build: epOnly("input", epExpr{"$.input.opt", "string"})},
	{ID: "index-out-of-range", Class: "error", MustFail: true, Build: epOnly("input", epExpr{"$.input.lst[5]", "string"})},
	{ID: "negative-index-out-of-range", Class: "error", MustFail: true, Build: epOnly("input", epExpr{"$.input.lst[-9]", "string"})},
	{ID: "index-into-empty-list", Class: "error", MustFail: true, Build: epOnly("input", epExpr{"$.input.empty[0]", "string"})},
	{ID: "missing-map-key", Class: "error", MustFail: true, Build: epOnly("input", epExpr{`$.input.mp["nokey"]`, "string"})},
	{ID: "missing-integer-map-key", Class: "error", MustFail: true, Build: epOnly("input", epExpr{"$.input.mpi[0]", "string"})},
	// an `any`-typed value passes every static check; what it holds decides at run time
	{ID: "member-of-a-non-map", Class: "error", MustFail: true, Build: epOnly("input", epExpr{"$.input.anyv.x", "any"})},
	{ID: "index-of-a-non-list", Class: "error", MustFail: true, Build: epOnly("input", epExpr{"$.input.anyv[0]", "any"})},
	{ID: "failing-conversion-to-int", Class: "error", MustFail: true,
		Build: func(src string, _ map[string]any, _ int) (epExpr, bool) {
			s := epStringSource(src)
			return epExpr{"stringToInt(" + s + ")", "int"}, s != ""
		}},
	{ID: "failing-conversion-to-float", Class: "error", MustFail: true,
		Build: func(src string, _ map[string]any, _ int) (epExpr, bool) {
			s := epStringSource(src)
			return epExpr{"stringToFloat(" + s + ")", "float"}, s != ""
		}},
	{ID: "failing-conversion-to-bool", Class: "error", MustFail: true,
		Build: func(src string, _ map[string]any, _ int) (epExpr, bool) {
			s := epStringSource(src)
			return epExpr{"stringToBool(" + s + ")", "bool"}, s != ""
		}},
	{ID: "nan-to-int", Class: "error", MustFail: true, Build: epOnly("input", epExpr{`floatToInt(stringToFloat("NaN"))`, "int"})},
	{ID: "integer-division-by-zero", Class: "panic-runtime-error", MustFail: true,
		Build: func(src string, in map[string]any, _ int) (epExpr, bool) {
			z := epZero(src, in)
			return epExpr{"10 / " + z, "int"}, z != ""
		}},
	{ID: "integer-modulus-by-zero", Class: "panic-runtime-error", MustFail: true,
		Build: func(src string, in map[string]any, _ int) (epExpr, bool) {
			z := epZero(src, in)
			return epExpr{"7 % " + z, "int"}, z != ""
		}},
	// a list used as the key of a map behind an `any`: the Go runtime panics ("hash of unhashable type []interface {}")
	{ID: "unhashable-map-key", Class: "panic-runtime-error", MustFail: true,
		Build: epOnly("input", epExpr{"$.input.anym[$.input.lst]", "any"})},
	// the engine builds these two members of the foreach error output as map[int]any / map[int]string; an integer literal
	// evaluates to int64, and reflect panics with a plain string ("value of type int64 is not assignable to type int")
	{ID: "go-typed-map-index:foreach-error-data", Class: "panic-non-error", MustFail: true,
		Build: epOnly("foreach", epExpr{"$.steps.loop.failed.error.data[0]", "obj"})},
	{ID: "go-typed-map-index:foreach-error-errors", Class: "panic-non-error", MustFail: true,
		Build: epOnly("foreach", epExpr{"$.steps.loop.failed.error.errors[1]", "string"})},
	// what a built-in hands to reflect.Value.Call must have the Go type of the parameter: splitString returns []string,
	// bindConstants takes []any, the type check accepts the combination, reflect panics with a plain string.  (Whether this
	// combination ought to work is a question for C08/C18; here only the kind of the panic value matters.)
	{ID: "go-typed-list-argument:splitString-into-bindConstants", Class: "panic-non-error",
		Build: func(src string, _ map[string]any, _ int) (epExpr, bool) {
			s := epStringSource(src)
			return epExpr{"bindConstants(splitString(" + s + `, ","), "c")[0].item`, "string"}, s != ""
		}},
	// the same for numbers: a non-negative integer output of a plugin step is a uint64 in the data model (CBOR decoding),
	// the parameter of the built-in is an int64
	{ID: "go-typed-number-argument:plugin-integer-output-into-builtin", Class: "panic-non-error",
		Build: epOnly("step", epExpr{"intToString($.steps.pre.outputs.success.i)", "string"})},
	// extreme arguments: valid for the (unbounded) integer input, outside the declared range of the parameter
	{ID: "extreme-precision", Class: "extreme", Variants: len(epFormats) * len(epPrecisions), Build: epPrecisionExpr},
	// not a fault: a `pattern`-typed input property carried through to wherever any value may go.  The data model holds inputs
	// in serialized form (text); an engine that put the unserialized form (*regexp.Regexp) there would fail its own schemas.
	{ID: "pattern-typed-input", Class: "extreme", Build: epOnly("input", epExpr{"$.input.pat", "any"})},
	// extreme FLOAT values from the workflow input through the float-to-text built-ins: their results go into outputs and step
	// inputs whose schema carries the pattern the built-in declares for its result (a result outside it is a 'bug:' error)
	{ID: "extreme-float", Class: "extreme", Variants: 2 * len(epExtremeFloats),
		Build: func(src string, in map[string]any, k int) (epExpr, bool) {
			if src != "input" {
				return epExpr{}, false
			}
			in["fv"] = epExtremeFloats[(k/2)%len(epExtremeFloats)]
			if k%2 == 0 {
				return epExpr{"floatToString($.input.fv)", "string"}, true
			}
			in["fmt"], in["prec"] = "g", int64(-1)
			return epExpr{"floatToFormattedString($.input.fv, $.input.fmt, $.input.prec)", "string"}, true
		}},
	{ID: "extreme-integer", Class: "extreme", Variants: len(epExtremeInts),
		Pinned: []string{"foreach:parallelism", "plugin:closure_wait_timeout"},
		Build: func(src string, in map[string]any, k int) (epExpr, bool) {
			if src != "input" {
				return epExpr{}, false
			}
			in["big"] = epExtremeInts[k%len(epExtremeInts)]
			return epExpr{"$.input.big", "int"}, true
		}},
}

// epPrecisionExpr: floatToFormattedString(value, format k / len, precision k % len) with format and precision from run-time data.
func epPrecisionExpr(src string, in map[string]any, k int) (epExpr, bool) {
	f := epFormats[(k/len(epPrecisions))%len(epFormats)]
	p := epPrecisions[k%len(epPrecisions)]
	in["fmt"] = f
	switch src {
	case "input":
		in["prec"] = p
		return epExpr{"floatToFormattedString($.input.fv, $.input.fmt, $.input.prec)", "string"}, true
	case "step":
		if p == -1<<63 {
			p = epPrecisions[(k+1)%len(epPrecisions)] // the scripted plugin adds one to its input
		}
		in["prei"] = p - 1
		return epExpr{"floatToFormattedString($.input.fv, $.input.fmt, $.steps.pre.outputs.success.i)", "string"}, true
	}
	return epExpr{}, false
}

// epConv wraps an expression so that it has the type a position needs; ok = false when there is no conversion.
func epConv(e epExpr, to string, list string) (string, bool) {
	if e.Ty == to || to == "any" {
		return e.Src, true
	}
	p := "(" + e.Src + ")"
	// to string first
	str := ""
	switch e.Ty {
	case "string":
		str = e.Src
	case "int":
		str = "intToString(" + e.Src + ")"
	case "float":
		str = "floatToString(" + e.Src + ")"
	case "bool":
		str = "boolToString(" + e.Src + ")"
	case "obj":
		str = e.Src + ".s" // (a parenthesised expression cannot be followed by an accessor)
	}
	switch to {
	case "string":
		return str, str != ""
	case "int":
		switch e.Ty {
		case "obj":
			return e.Src + ".i", true
		case "float":
			return "floatToInt(" + e.Src + ")", true
		}
		return "stringToInt(" + str + ")", str != ""
	case "bool":
		switch e.Ty {
		case "obj":
			return e.Src + ".b", true
		case "int":
			return p + " > 0", true
		case "float":
			return p + " > 0.5", true
		}
		return "(" + str + `) == "x"`, str != ""
	case "cobj": // an object, whatever its members: {item, constant} built by bindConstants
		if e.Ty == "obj" {
			return e.Src, true
		}
		return "bindConstants(" + list + ", " + str + ")[0]", str != ""
	case "clist": // a list of objects {item: string, constant: string}
		return "bindConstants(" + list + ", " + str + ")", str != ""
	}
	return "", false
}

// ---- positions ----------------------------------------------------------------------------------------------------------------

type epPos struct {
	ID    string
	Field string // the lifecycle input field the expression is placed in ("" for outputs)
	Ty    string // type the expression must have there
	Where string // parent | sub: in the parent workflow or inside the sub-workflow of a foreach step
	// Before: the VALUE of the expression is needed for what a successful run returns (it is part of the returned output, of
	// the input the victim step runs with, or decides whether / with what it runs), so a run that returns an output has
	// evaluated it.  false where only the dependency matters (wait_for), the value is needed later (closure timeout, stop
	// condition) or absence is a legal result (!soft-optional).
	Before bool
}

var epPositions = []epPos{
	{ID: "output:top-level", Ty: "cobj", Where: "parent", Before: true},
	{ID: "output:map-member", Ty: "any", Where: "parent", Before: true},
	{ID: "output:list-member", Ty: "any", Where: "parent", Before: true},
	{ID: "output:map-in-list-in-map", Ty: "any", Where: "parent", Before: true},
	{ID: "output:oneof-option", Ty: "any", Where: "parent", Before: true},
	{ID: "output:wait-optional", Ty: "any", Where: "parent", Before: true},
	{ID: "output:soft-optional", Ty: "any", Where: "parent", Before: false},
	{ID: "plugin:input-member", Field: "input", Ty: "string", Where: "parent", Before: true},
	{ID: "plugin:input-int-member", Field: "input", Ty: "int", Where: "parent", Before: true},
	{ID: "plugin:input-list-member", Field: "input", Ty: "string", Where: "parent", Before: true},
	{ID: "plugin:input-top-level", Field: "input", Ty: "obj", Where: "parent", Before: true},
	{ID: "plugin:wait_for", Field: "wait_for", Ty: "any", Where: "parent", Before: false},
	{ID: "plugin:deploy", Field: "deploy", Ty: "string", Where: "parent", Before: true},
	{ID: "plugin:enabled", Field: "enabled", Ty: "bool", Where: "parent", Before: true},
	{ID: "plugin:stop_if", Field: "stop_if", Ty: "bool", Where: "parent", Before: false},
	{ID: "plugin:closure_wait_timeout", Field: "closure_wait_timeout", Ty: "int", Where: "parent", Before: false},
	{ID: "foreach:items", Field: "items", Ty: "clist", Where: "parent", Before: true},
	{ID: "foreach:parallelism", Field: "parallelism", Ty: "int", Where: "parent", Before: true},
	{ID: "foreach:wait_for", Field: "wait_for", Ty: "any", Where: "parent", Before: false},
	{ID: "foreach:enabled", Field: "enabled", Ty: "bool", Where: "parent", Before: true},
	{ID: "subworkflow:output-member", Ty: "any", Where: "sub", Before: true},
	{ID: "subworkflow:output-top-level", Ty: "cobj", Where: "sub", Before: true},
	{ID: "subworkflow:step-input-member", Field: "input", Ty: "string", Where: "sub", Before: true},
	{ID: "subworkflow:step-wait_for", Field: "wait_for", Ty: "any", Where: "sub", Before: false},
}

var epSources = []string{"input", "step", "foreach", "item"}

// ---- workflow text ------------------------------------------------------------------------------------------------------------

const epItemObject = `    Item:
      id: Item
      properties:
        s:
          type: {type_id: string}
          required: true
        i:
          type: {type_id: integer}
          required: true
        one:
          type: {type_id: list, items: {type_id: string}}
          required: false
`

func epProp(name, ty string, required bool) string {
	return fmt.Sprintf("        %s:\n          type: %s\n          required: %v\n", name, ty, required)
}

const epRootProps = "name:string:true,z:integer:false,prei:integer:false,opt:string:false,lst:strings:false,empty:strings:false," +
	"one:strings:false,anyv:any:false,anym:any:false,mpi:intmap:false,mp:strmap:false,fv:float:false,fmt:string:false,prec:integer:false,big:integer:false,pat:pattern:false," +
	"items:items:false,okitems:items:false"

func epTypeYAML(t string) string {
	switch t {
	case "strings":
		return "{type_id: list, items: {type_id: string}}"
	case "strmap":
		return "{type_id: map, keys: {type_id: string}, values: {type_id: string}}"
	case "intmap":
		return "{type_id: map, keys: {type_id: integer}, values: {type_id: string}}"
	case "items":
		return "{type_id: list, items: {type_id: ref, id: Item}}"
	}
	return "{type_id: " + t + "}"
}

func epParentHeader() string {
	var b strings.Builder
	b.WriteString("version: v0.2.0\ninput:\n  root: RootObject\n  objects:\n    RootObject:\n      id: RootObject\n      properties:\n")
	for _, p := range strings.Split(epRootProps, ",") {
		f := strings.Split(p, ":")
		b.WriteString(epProp(f[0], epTypeYAML(f[1]), f[2] == "true"))
	}
	b.WriteString(epItemObject)
	return b.String()
}

// sub.yaml: one scripted step per item; the item whose behaviour is "error" makes the loop fail
const epSubYAML = "version: v0.2.0\ninput:\n  root: Item\n  objects:\n" + epItemObject +
	"steps:\n  op:\n    plugin: {src: \"item\", deployment_type: \"builtin\"}\n    step: op\n" +
	"    input: {s: !expr $.input.s, i: !expr $.input.i}\n" +
	"outputs:\n  success: {s: !expr $.steps.op.outputs.success.s, i: !expr $.steps.op.outputs.success.i, b: !expr $.steps.op.outputs.success.b}\n"

// subc.yaml: the sub-workflow of a foreach step whose items are built by bindConstants
const epSubCYAML = "version: v0.2.0\ninput:\n  root: CItem\n  objects:\n    CItem:\n      id: CItem\n      properties:\n" +
	"        item:\n          type: {type_id: string}\n          required: true\n" +
	"        constant:\n          type: {type_id: string}\n          required: true\n" +
	"steps:\n  op:\n    plugin: {src: \"citem\", deployment_type: \"builtin\"}\n    step: op\n    input: {s: !expr $.input.item}\n" +
	"outputs:\n  success: {s: !expr $.steps.op.outputs.success.s}\n"

func epExprYAML(tag, src string) string { return tag + " " + yq(src) }

type epCase struct {
	ID       string               `json:"id"`
	Index    int                  `json:"index"`
	Fault    string               `json:"fault"`
	Class    string               `json:"fault_class"`
	Source   string               `json:"source"`
	Variant  int                  `json:"variant"`
	Pos      string               `json:"position"`
	Field    string               `json:"field"`
	Expr     string               `json:"expr"`
	MustFail bool                 `json:"must_fail"`
	YAML     string               `json:"yaml"`
	Files    map[string]string    `json:"files"`
	Input    map[string]any       `json:"-"`
	Beh      map[string]Behaviour `json:"behaviours"`
	NA       string               `json:"not_applicable,omitempty"`
}

func epDefaultInput() map[string]any {
	return map[string]any{
		"name": "nm", "z": int64(3), "prei": int64(4), "lst": []any{"a", "b"}, "empty": []any{}, "one": []any{"k"},
		"pat": "^[a-z]+$", "anyv": "text", "anym": map[string]any{"a": "b"}, "mpi": map[any]any{int64(1): "b"}, "mp": map[string]any{"a": "b"}, "fv": 1.5, "fmt": "f", "prec": int64(2), "big": int64(5),
		"items":   []any{map[string]any{"s": "k0", "i": int64(1)}, map[string]any{"s": "k1", "i": int64(2)}},
		"okitems": []any{map[string]any{"s": "g0", "i": int64(1), "one": []any{"k"}}, map[string]any{"s": "g1", "i": int64(0), "one": []any{"k"}}},
	}
}

// epBuild assembles the case for (fault, source, position); NA is set when the combination does not exist.
func epBuild(r *rng, id string, index int, ft epFault, src string, pos epPos, k int) *epCase {
	c := &epCase{ID: id, Index: index, Fault: ft.ID, Class: ft.Class, Source: src, Pos: pos.ID, Field: pos.Field,
		Variant: k, Files: map[string]string{}, Input: epDefaultInput(), Beh: map[string]Behaviour{}}
	if (pos.Where == "sub") != (src == "item") {
		c.NA = "source and position are in different workflows"
		return c
	}
	e, ok := ft.Build(src, c.Input, k)
	if !ok {
		c.NA = "the fault cannot come from this source"
		return c
	}
	list := "$.input.one" // a one-element list of strings, for bindConstants
	if pos.Where == "sub" {
		list = "$.input.one"
	}
	text, ok := epConv(e, pos.Ty, list)
	if !ok {
		c.NA = "no conversion from " + e.Ty + " to " + pos.Ty
		return c
	}
	c.Expr = text
	c.MustFail = ft.MustFail && pos.Before
	x := epExprYAML("!expr", text)

	// the victim: plugin step v / foreach step fl, and what the output refers to
	vFields := map[string]string{"input": `{s: "x"}`}
	flFields := map[string]string{}
	useFl := false
	flWorkflow := "sub.yaml"
	outRef := "$.steps.v.outputs.success.s"
	outputs := ""
	subOutputs := "  success: {s: !expr $.steps.op.outputs.success.s}\n"
	subStep := map[string]string{"input": "{s: !expr $.input.s, i: !expr $.input.i}"}
	withRef := r.chance(1, 2) // the output also needs the victim step (evaluated on that step's goroutine)
	member := func(v string) string {
		if withRef {
			return "{a: !expr " + yq(outRef) + ", f: " + v + "}"
		}
		return "{f: " + v + "}"
	}
	switch pos.ID {
	case "output:top-level":
		outputs = "  success: " + x + "\n"
	case "output:map-member":
		outputs = "  success: " + member(x) + "\n"
	case "output:list-member":
		outputs = "  success: " + member("["+x+"]") + "\n"
	case "output:map-in-list-in-map":
		outputs = "  success: " + member("[{g: {h: "+x+"}}]") + "\n"
	case "output:oneof-option":
		outputs = "  success: " + member("!oneof {discriminator: \"d\", one_of: {\"ok\": {v: "+x+"}, \"bad\": {v: !expr $.steps.v.outputs.error.reason}}}") + "\n"
	case "output:wait-optional":
		outputs = "  success: " + member(epExprYAML("!wait-optional", text)) + "\n"
	case "output:soft-optional":
		outputs = "  success: " + member(epExprYAML("!soft-optional", text)) + "\n"
	case "plugin:input-member":
		vFields["input"] = "{s: " + x + "}"
	case "plugin:input-int-member":
		vFields["input"] = "{s: \"x\", i: " + x + "}"
	case "plugin:input-list-member":
		vFields["input"] = "{l: [\"x\", " + x + "]}"
	case "plugin:input-top-level":
		vFields["input"] = x
	case "plugin:wait_for":
		vFields["wait_for"] = x
	case "plugin:deploy":
		vFields["deploy"] = "{deployer_name: \"scripted-item\", note: " + x + "}"
	case "plugin:enabled":
		vFields["enabled"] = x
	case "plugin:stop_if":
		vFields["stop_if"] = x
		c.Beh["v"] = Behaviour{Outcome: "success", DelayMs: 30}
	case "plugin:closure_wait_timeout":
		vFields["closure_wait_timeout"] = x
	case "foreach:items":
		useFl, flWorkflow = true, "subc.yaml"
		flFields["items"] = x
	case "foreach:parallelism":
		useFl = true
		flFields["items"] = "!expr $.input.okitems"
		flFields["parallelism"] = x
	case "foreach:wait_for":
		useFl = true
		flFields["items"] = "!expr $.input.okitems"
		flFields["wait_for"] = x
	case "foreach:enabled":
		useFl = true
		flFields["items"] = "!expr $.input.okitems"
		flFields["enabled"] = x
	case "subworkflow:output-member":
		useFl, flWorkflow = true, "subf.yaml"
		flFields["items"] = "!expr $.input.okitems"
		subOutputs = "  success: {s: !expr $.steps.op.outputs.success.s, f: " + x + "}\n"
	case "subworkflow:output-top-level":
		useFl, flWorkflow = true, "subf.yaml"
		flFields["items"] = "!expr $.input.okitems"
		subOutputs = "  success: " + x + "\n"
	case "subworkflow:step-input-member":
		useFl, flWorkflow = true, "subf.yaml"
		flFields["items"] = "!expr $.input.okitems"
		subStep["input"] = "{s: " + x + "}"
	case "subworkflow:step-wait_for":
		useFl, flWorkflow = true, "subf.yaml"
		flFields["items"] = "!expr $.input.okitems"
		subStep["wait_for"] = x
	}
	if useFl {
		outRef = "$.steps.fl.outputs.success.data"
	}
	if outputs == "" {
		outputs = "  success: {a: !expr " + yq(outRef) + "}\n"
	}

	var b strings.Builder
	b.WriteString(epParentHeader())
	b.WriteString("steps:\n")
	b.WriteString("  pre:\n    plugin: {src: \"pre\", deployment_type: \"builtin\"}\n    step: op\n    input: {s: \"p\", i: !expr $.input.prei}\n")
	if src == "foreach" {
		b.WriteString("  loop:\n    kind: foreach\n    workflow: \"sub.yaml\"\n    items: !expr $.input.items\n")
		if r.chance(1, 2) {
			b.WriteString("    parallelism: 2\n")
		}
		c.Files["sub.yaml"] = epSubYAML
		c.Beh["item#k1"] = Behaviour{Outcome: "error", DelayMs: r.intn(8)}
		c.Beh["item#k0"] = Behaviour{Outcome: "success", DelayMs: r.intn(8)}
	}
	writeFields := func(fields map[string]string) {
		keys := make([]string, 0, len(fields))
		for k := range fields {
			keys = append(keys, k)
		}
		sort.Strings(keys)
		for _, k := range keys {
			b.WriteString("    " + k + ": " + fields[k] + "\n")
		}
	}
	if useFl {
		b.WriteString("  fl:\n    kind: foreach\n    workflow: \"" + flWorkflow + "\"\n")
		writeFields(flFields)
		switch flWorkflow {
		case "sub.yaml":
			c.Files["sub.yaml"] = epSubYAML
		case "subc.yaml":
			c.Files["subc.yaml"] = epSubCYAML
		case "subf.yaml":
			var s strings.Builder
			s.WriteString("version: v0.2.0\ninput:\n  root: Item\n  objects:\n" + epItemObject)
			s.WriteString("steps:\n  op:\n    plugin: {src: \"item\", deployment_type: \"builtin\"}\n    step: op\n")
			keys := make([]string, 0, len(subStep))
			for k := range subStep {
				keys = append(keys, k)
			}
			sort.Strings(keys)
			for _, k := range keys {
				s.WriteString("    " + k + ": " + subStep[k] + "\n")
			}
			s.WriteString("outputs:\n" + subOutputs)
			c.Files["subf.yaml"] = s.String()
		}
	} else {
		b.WriteString("  v:\n    plugin: {src: \"v\", deployment_type: \"builtin\"}\n    step: op\n")
		writeFields(vFields)
	}
	for k := r.intn(3); k > 0; k-- { // bystanders
		id := fmt.Sprintf("by%d", k)
		b.WriteString("  " + id + ":\n    plugin: {src: \"" + id + "\", deployment_type: \"builtin\"}\n    step: op\n    input: {s: \"y\"}\n")
		if r.chance(1, 2) {
			c.Beh[id] = Behaviour{Outcome: "success", DelayMs: r.intn(20)}
		}
	}
	if r.chance(1, 2) {
		c.Beh["pre"] = Behaviour{Outcome: "success", DelayMs: r.intn(15)}
	}
	b.WriteString("outputs:\n" + outputs)
	c.YAML = b.String()
	return c
}

// ---- the matrix ---------------------------------------------------------------------------------------------------------------

// one cell = one case per round.  p < 0: the position rotates (see epFault.Variants).
type epCell struct{ f, s, p, k int }

func epApplicable(ft epFault, src string, pos epPos) bool {
	return epBuild(newRng(1), "", 0, ft, src, pos, 0).NA == ""
}

func epPosIndex(id string) int {
	for i, p := range epPositions {
		if p.ID == id {
			return i
		}
	}
	return -1
}

// epCells lists the combinations that exist.
func epCells() []epCell {
	var cells []epCell
	for fi, ft := range epFaults {
		for si, src := range epSources {
			var app []int
			for pi, pos := range epPositions {
				if epApplicable(ft, src, pos) {
					app = append(app, pi)
				}
			}
			if len(app) == 0 {
				continue
			}
			if ft.Variants <= 1 {
				for _, pi := range app {
					cells = append(cells, epCell{fi, si, pi, 0})
				}
				continue
			}
			for k := 0; k < ft.Variants; k++ {
				cells = append(cells, epCell{fi, si, -1, k})
				for _, pid := range ft.Pinned {
					if pi := epPosIndex(pid); pi >= 0 && epApplicable(ft, src, epPositions[pi]) {
						cells = append(cells, epCell{fi, si, pi, k})
					}
				}
			}
		}
	}
	return cells
}

// epCaseAt: case i of the stream with the given seed.  Every window of len(cells) consecutive indexes visits every cell once
// (in a seed-dependent order).
func epCaseAt(seed uint64, i int, cells []epCell) *epCase {
	order := newRng(seed ^ 0x5eed).perm(len(cells))
	round := i / len(cells)
	ci := order[i%len(cells)]
	cell := cells[ci]
	r := newRng(seed*1000003 + uint64(i))
	ft, src := epFaults[cell.f], epSources[cell.s]
	pi := cell.p
	if pi < 0 {
		var app []int
		for x, pos := range epPositions {
			if epApplicable(ft, src, pos) {
				app = append(app, x)
			}
		}
		pi = app[(int(seed%1000003)+round*7+ci)%len(app)]
	}
	return epBuild(r, fmt.Sprintf("evalpos-%d-%d", seed, i), i, ft, src, epPositions[pi], cell.k)
}

// ---- running one case (child) -------------------------------------------------------------------------------------------------

func (c *epCase) record() map[string]any {
	b, _ := json.Marshal(c)
	out := map[string]any{}
	_ = json.Unmarshal(b, &out)
	out["kind"] = "evalpos"
	out["input"] = encVal(c.Input)
	return out
}

func epExec(c *epCase) map[string]any {
	out := c.record()
	s := newScript()
	for k, v := range c.Beh {
		s.set(k, v)
	}
	currentScript.Store(s)
	reg, f, err := newItemRegistry()
	if err != nil {
		return map[string]any{"kind": "harness-error", "id": c.ID, "error": err.Error()}
	}
	files := map[string][]byte{}
	for k, v := range c.Files {
		files[k] = []byte(v)
	}
	s.probe.Store(true)
	prepared, err := prepareYAML(reg, f, c.YAML, files)
	s.probe.Store(false)
	if err != nil {
		out["skip"] = "prepare: " + err.Error()
		return out
	}
	ctx, cancel := context.WithCancel(context.Background())
	defer cancel()
	type res struct {
		id   string
		data any
		err  error
		pan  string
	}
	resCh := make(chan res, 1)
	t0 := time.Now()
	go func() {
		defer func() {
			if rec := recover(); rec != nil {
				buf := make([]byte, 1<<14)
				buf = buf[:runtime.Stack(buf, false)]
				resCh <- res{pan: fmt.Sprintf("%v\n%s", rec, buf)}
			}
		}()
		id, data, err := prepared.Execute(ctx, c.Input)
		resCh <- res{id: id, data: data, err: err}
	}()
	result := loopResult{}
	select {
	case rr := <-resCh:
		result.Returned = rr.pan == ""
		result.OutputID = rr.id
		result.Data = encVal(rr.data)
		if rr.err != nil {
			result.Err = rr.err.Error()
			result.ErrClass = classifyExecErr(rr.err)
		}
		if rr.pan != "" {
			out["panic"] = rr.pan
		}
	case <-time.After(epRunLimit):
		out["dump"] = goroutineDump()
		cancel()
		select {
		case <-resCh:
		case <-time.After(10 * time.Second):
		}
	}
	out["wall_ms"] = time.Since(t0).Milliseconds()
	out["result"] = result
	log := s.snapshot()
	started := []string{}
	for _, e := range log {
		if e.Ev == "exec-start" {
			started = append(started, e.Src+"#"+e.RunID)
		}
	}
	out["executed"] = started
	return out
}

var epCrashHeads = []string{"fatal error:", "panic:", "runtime: out of memory", "SIGSEGV"}

// epIsGoCrash: the Go runtime reports a panic on any goroutine as "panic: ..." and an unrecoverable fault as "fatal error: ...".
func epIsGoCrash(stderr string) bool {
	return strings.Contains(stderr, "panic:") || strings.Contains(stderr, "fatal error:")
}

// epEngineFrame: the goroutine that crashed runs engine code or was created by engine code (the harness package, which is
// compiled into the engine module, does not count).
func epEngineFrame(stderr string) bool {
	first := -1
	for _, h := range epCrashHeads {
		if i := strings.Index(stderr, h); i >= 0 && (first < 0 || i < first) {
			first = i
		}
	}
	if first < 0 {
		return false
	}
	text := ""
	for _, blk := range strings.Split(stderr[first:], "\n\n") {
		text += blk + "\n\n"
		if strings.HasPrefix(blk, "goroutine ") {
			break
		}
	}
	text = strings.ReplaceAll(text, "go.flow.arcalot.io/engine/cmd/vharness", "")
	return strings.Contains(text, "go.flow.arcalot.io/engine/") || strings.Contains(text, "go.flow.arcalot.io/engine.")
}

func epCrashSummary(stderr string) string {
	first := -1
	for _, h := range epCrashHeads {
		if i := strings.Index(stderr, h); i >= 0 && (first < 0 || i < first) {
			first = i
		}
	}
	if first < 0 {
		if len(stderr) > 2500 {
			return stderr[len(stderr)-2500:]
		}
		return stderr
	}
	t := stderr[first:]
	if len(t) > 3500 {
		t = t[:3500]
	}
	return t
}

// epRunChild runs case i in a child process of this binary and returns its case line; when the child dies without one the
// parent's own copy of the case is returned with the crash attached.
func epRunChild(exe string, seed uint64, i int, tier string, cells []epCell) map[string]any {
	out := epRunChildOnce(exe, seed, i, tier, cells)
	if _, died := out["child_died"]; died {
		out = epRunChildOnce(exe, seed, i, tier, cells)
		out["retried"] = true
	}
	return out
}

func epRunChildOnce(exe string, seed uint64, i int, tier string, cells []epCell) map[string]any {
	c := epCaseAt(seed, i, cells)
	cmd := exec.Command(exe, "evalpos", "-child", "-seed", fmt.Sprint(seed), "-n", fmt.Sprint(i+1), "-skip", fmt.Sprint(i), "-tier", tier, "-out", "-")
	cmd.Env = append(os.Environ(), "GOMAXPROCS=4")
	var so, se bytes.Buffer
	cmd.Stdout, cmd.Stderr = &so, &se
	t0 := time.Now()
	if err := cmd.Start(); err != nil {
		out := c.record()
		out["skip"] = "cannot start the child process: " + err.Error()
		return out
	}
	done := make(chan error, 1)
	go func() { done <- cmd.Wait() }()
	var werr error
	timedOut := false
	select {
	case werr = <-done:
	case <-time.After(epChildWallLimit):
		_ = cmd.Process.Signal(syscall.SIGQUIT) // goroutine dump on stderr
		select {
		case werr = <-done:
		case <-time.After(5 * time.Second):
			_ = cmd.Process.Kill()
			werr = <-done
		}
		timedOut = true
	}
	var out map[string]any
	for _, line := range strings.Split(so.String(), "\n") {
		var m map[string]any
		if json.Unmarshal([]byte(line), &m) == nil && (m["kind"] == "evalpos" || m["kind"] == "harness-error") {
			out = m
		}
	}
	if out == nil {
		out = c.record()
		switch {
		case timedOut:
			out["child_timeout"] = true
			out["dump"] = epCrashSummary(se.String())
		case epIsGoCrash(se.String()) && epEngineFrame(se.String()):
			out["crash"] = epCrashSummary(se.String())
		default:
			// killed from outside (e.g. the kernel's OOM killer on a loaded machine), could not start properly (no threads /
			// no memory for the Go runtime itself), or a crash on a goroutine that neither runs nor was started by engine
			// code: not a behaviour of the engine; the case is retried once and then only noted
			out["child_died"] = epCrashSummary(se.String())
		}
		out["result"] = loopResult{}
	}
	if werr != nil {
		out["child_exit"] = werr.Error()
	}
	out["child_wall_ms"] = time.Since(t0).Milliseconds()
	out["address_space_limit"] = int64(epAddressSpaceLimit)
	return out
}

func cmdEvalpos(args []string) int {
	var child, list bool
	var workers, rounds int
	c, _ := parseCommon("evalpos", args, func(fs *flag.FlagSet) {
		fs.BoolVar(&child, "child", false, "internal: run the cases in this process (address space limited), no isolation")
		fs.BoolVar(&list, "list", false, "print the fault x source x position cells and exit")
		fs.IntVar(&workers, "workers", 4, "child processes running at the same time")
		fs.IntVar(&rounds, "rounds", 0, "run this many full rounds of the matrix (overrides -n)")
	})
	cells := epCells()
	w := openOut(c.out)
	defer w.close()
	if list {
		for _, cl := range cells {
			pos := "(rotating)"
			if cl.p >= 0 {
				pos = epPositions[cl.p].ID
			}
			w.emit(map[string]any{"fault": epFaults[cl.f].ID, "source": epSources[cl.s], "position": pos, "variant": cl.k})
		}
		return 0
	}
	n := c.n
	if n <= 0 { // one full round of the matrix
		n = len(cells)
	}
	if rounds > 0 {
		n = rounds * len(cells)
	}
	if child {
		// an allocation far beyond the machine must fail fast (and only in this process)
		lim := syscall.Rlimit{Cur: epAddressSpaceLimit, Max: epAddressSpaceLimit}
		if err := syscall.Setrlimit(syscall.RLIMIT_AS, &lim); err != nil {
			fmt.Fprintln(os.Stderr, "cannot limit the address space:", err)
		}
		for i := c.skip; i < n; i++ {
			w.emit(epExec(epCaseAt(c.seed, i, cells)))
		}
		return 0
	}
	exe, err := os.Executable()
	if err != nil {
		fmt.Fprintln(os.Stderr, "cannot find my own executable:", err)
		return 2
	}
	if c.skip == 0 {
		// what this stream covers, for the comparison with the regenerated lifecycle / built-in facts (lib/props_c07.py)
		fields := map[string][]string{"plugin": {}, "foreach": {}, "subworkflow": {}}
		for _, p := range epPositions {
			if kind := strings.SplitN(p.ID, ":", 2)[0]; p.Field != "" {
				fields[kind] = append(fields[kind], p.Field)
			}
		}
		faults := []string{}
		for _, ft := range epFaults {
			faults = append(faults, ft.ID)
		}
		w.emit(map[string]any{"kind": "evalpos-coverage", "id": fmt.Sprintf("evalpos-coverage-%d", c.seed), "fields": fields,
			"faults": faults, "cells": len(cells), "cases": n,
			"extreme_builtin_parameters": map[string][]int{"floatToFormattedString": {2}}})
	}
	if workers < 1 {
		workers = 1
	}
	// children run `workers` at a time; lines are written in index order
	results := make([]map[string]any, n)
	var wg sync.WaitGroup
	sem := make(chan struct{}, workers)
	readyCh := make([]chan struct{}, n)
	for i := c.skip; i < n; i++ {
		readyCh[i] = make(chan struct{})
		wg.Add(1)
		go func(i int) {
			defer wg.Done()
			sem <- struct{}{}
			results[i] = epRunChild(exe, c.seed, i, c.tier, cells)
			<-sem
			close(readyCh[i])
		}(i)
	}
	for i := c.skip; i < n; i++ {
		<-readyCh[i]
		w.emit(map[string]any{"kind": "begin", "index": i})
		w.emit(results[i])
	}
	wg.Wait()
	return 0
}
