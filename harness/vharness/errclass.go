//go:build verif

package main

import (
	"errors"
	"strings"

	"go.flow.arcalot.io/engine/workflow"
)

// classifyExecErr maps an error returned by Execute to a small enum; messages are never compared.
func classifyExecErr(err error) string {
	if err == nil {
		return ""
	}
	var noOut *workflow.ErrNoMorePossibleOutputs
	var noSteps *workflow.ErrNoMorePossibleSteps
	msg := err.Error()
	switch {
	case strings.HasPrefix(msg, "multiple errors:"):
		cls := []string{}
		if strings.Contains(msg, "all outputs marked as unresolvable") {
			cls = append(cls, "noMoreOutputs")
		}
		if strings.Contains(msg, "no steps running, no more executable steps") {
			cls = append(cls, "noMoreSteps")
		}
		if strings.Contains(msg, "bug:") {
			cls = append(cls, "bug")
		}
		if strings.Contains(msg, "cannot resolve expressions") {
			cls = append(cls, "evalFailed")
		}
		if strings.Contains(msg, "does not match its schema") {
			cls = append(cls, "invalidStageInput")
		}
		if len(cls) == 0 {
			return "multiple"
		}
		if len(cls) == 1 {
			// several errors of one class (distinct messages): the class is what is compared
			return cls[0]
		}
		return "multiple:" + strings.Join(cls, "+")
	case errors.As(err, &noOut):
		return "noMoreOutputs"
	case errors.As(err, &noSteps):
		return "noMoreSteps"
	case strings.HasPrefix(msg, "cannot resolve expressions"):
		return "evalFailed"
	case strings.HasPrefix(msg, "invalid workflow input"):
		return "invalidInput"
	case strings.Contains(msg, "does not match its schema") && strings.HasPrefix(msg, "the data evaluated for"):
		return "invalidStageInput"
	case strings.Contains(msg, "bug:"):
		return "bug"
	case strings.Contains(msg, "workflow execution aborted"):
		return "aborted"
	case strings.Contains(msg, "failed to launch step"):
		return "launch"
	default:
		return "other"
	}
}
