//go:build verif

package main

import (
	"fmt"
	"os"
	"os/exec"
	"path/filepath"
)

func init() { register("foreach-probe", cmdForeachProbeLaunch) }

// C13 probe launcher.  The probe needs its own binary: the foreach provider is replaced (by overlay, /repo untouched) with
// an instrumented copy made from the CURRENT tree by harness/foreach_probe_overlay.py, and cmd_foreach_probe.go is compiled
// in with the build tag `foreachprobe`.  This command builds that binary (.build/vharness-probe) and runs
// `foreach-probe-run` with the same flags.  `-n 0` does nothing (the quick tier does not pay for the second build).
func cmdForeachProbeLaunch(args []string) int {
	c, _ := parseCommon("foreach-probe", args, nil)
	if c.n <= 0 {
		w := openOut(c.out)
		w.close()
		return 0
	}
	fail := func(msg string) int {
		w := openOut(c.out)
		w.emit(map[string]any{"kind": "harness-error", "id": "foreach-probe-build", "error": msg})
		w.close()
		fmt.Fprintln(os.Stderr, msg)
		return 1
	}
	root := os.Getenv("VERIF_HOME")
	if root == "" {
		exe, err := os.Executable()
		if err != nil {
			return fail("cannot locate the framework root: " + err.Error())
		}
		root = filepath.Dir(filepath.Dir(exe)) // <root>/.build/vharness
	}
	ovDir := filepath.Join(root, ".build", "foreach-probe-overlay")
	gen := exec.Command("python3", filepath.Join(root, "harness", "foreach_probe_overlay.py"), ovDir)
	if out, err := gen.CombinedOutput(); err != nil {
		return fail("instrumented foreach provider could not be generated: " + string(out))
	}
	bin := filepath.Join(root, ".build", "vharness-probe")
	build := exec.Command(filepath.Join(root, "bin", "build-harness"), bin, "-tags", "verif,foreachprobe")
	build.Env = append(os.Environ(), "VERIF_OVERLAY_EXTRA="+filepath.Join(ovDir, "extra.json"))
	if out, err := build.CombinedOutput(); err != nil {
		return fail("probe harness does not build: " + string(out))
	}
	run := exec.Command(bin, append([]string{"foreach-probe-run"}, args...)...)
	run.Stdout, run.Stderr = os.Stdout, os.Stderr
	if err := run.Run(); err != nil {
		if ee, ok := err.(*exec.ExitError); ok {
			return ee.ExitCode()
		}
		return fail("probe harness did not run: " + err.Error())
	}
	return 0
}
