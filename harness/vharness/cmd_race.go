//go:build verif

package main

import (
	"bufio"
	"context"
	"encoding/json"
	"flag"
	"fmt"
	"os"
	"os/exec"
	"path/filepath"
	"regexp"
	"runtime"
	"runtime/debug"
	"sort"
	"strconv"
	"strings"
	"sync"
	"time"
)

func init() { register("racesuite", cmdRaceSuite) }

// ---- race suite (C17) ---------------------------------------------------------------------------------------------------
//
// Runs, in ONE process built with -race, a mixed workload over the real engine: generated engine cases (with hanging
// steps and cancellation at a random instant), overlapping Execute calls on one prepared workflow, foreach steps whose
// items finish concurrently, stop_if firing while the stopped step waits or runs, termination overlapping with late step
// callbacks.  The Go race detector only writes text reports; to collect ALL of them the command re-executes itself as a
// child with GORACE="log_path=<dir>/race halt_on_error=0 exitcode=0", copies the child's case lines, parses the report
// file(s) and emits one {"kind":"race",...} line per report and one {"kind":"racesuite-summary",...} line.
//
// A report names two accesses (operation, goroutine, stack) and where the goroutines were created.  The *site* of an access
// is the innermost frame of its stack that is engine code (module go.flow.arcalot.io/engine, not cmd/vharness); `scope`
// says whose memory is involved: engine (an engine frame touches the memory directly, or through runtime/sync code it
// called), harness, or dependency:<package>.

const engineModule = "go.flow.arcalot.io/engine/"

func raceBuild() bool {
	bi, ok := debug.ReadBuildInfo()
	if !ok {
		return false
	}
	for _, s := range bi.Settings {
		if s.Key == "-race" && s.Value == "true" {
			return true
		}
	}
	return false
}

type raceFrame struct {
	Func string `json:"func"`
	File string `json:"file"`
	Line int    `json:"line"`
}

type raceAccess struct {
	Op        string      `json:"op"` // read | write | atomic read | atomic write
	Goroutine string      `json:"goroutine"`
	Addr      string      `json:"addr"`
	Frames    []raceFrame `json:"frames"`
	Site      *raceFrame  `json:"site,omitempty"` // innermost engine frame
	SiteFunc  string      `json:"site_func"`      // normalised: plugin.runningStep.closedEarly, workflow.loopState.notifySteps$lit1
	Scope     string      `json:"scope"`          // engine | harness | dependency:<pkg> | unknown
}

type raceCreation struct {
	Goroutine string      `json:"goroutine"`
	State     string      `json:"state"`
	Frames    []raceFrame `json:"frames"`
	SiteFunc  string      `json:"site_func"`
}

var (
	reAccess  = regexp.MustCompile(`^(Previous )?([Aa]tomic )?([Rr]ead|[Ww]rite) at (0x[0-9a-f]+) by (main goroutine|goroutine (\d+)):`)
	reCreated = regexp.MustCompile(`^Goroutine (\d+) \((\w+)\) created at:`)
	reFileLn  = regexp.MustCompile(`^\s+(\S.*):(\d+)( \+0x[0-9a-f]+)?$`)
	reClosure = regexp.MustCompile(`\.func(\d+(?:\.\d+)*)$`)
)

// normFunc turns a Go symbol into the naming of the static access table:
// go.flow.arcalot.io/engine/internal/step/plugin.(*runningStep).startStage.func1 -> plugin.runningStep.startStage$lit1
func normFunc(sym string) string {
	s := strings.TrimSuffix(strings.TrimSpace(sym), "()")
	s = strings.TrimPrefix(s, engineModule)
	if i := strings.LastIndex(s, "/"); i >= 0 {
		s = s[i+1:]
	}
	s = strings.NewReplacer("(*", "", ")", "", "[...]", "").Replace(s)
	for {
		m := reClosure.FindStringSubmatchIndex(s)
		if m == nil {
			break
		}
		s = s[:m[0]] + "$lit" + s[m[2]:m[3]]
	}
	return s
}

func frameScope(fn string) string {
	switch {
	case strings.HasPrefix(fn, engineModule+"cmd/vharness") || strings.HasPrefix(fn, "main."):
		return "harness"
	case strings.HasPrefix(fn, engineModule):
		return "engine"
	}
	// standard library / runtime (sync.(*WaitGroup).Add, runtime.mapaccess1_faststr, math/rand.(*Rand).Intn): the first path
	// element of the import path carries no domain
	head := strings.SplitN(fn, "(", 2)[0]
	first := strings.SplitN(head, "/", 2)[0]
	if !strings.Contains(head, "/") {
		first = strings.SplitN(head, ".", 2)[0]
	}
	if !strings.Contains(first, ".") {
		return "std"
	}
	pkg := strings.SplitN(fn, "(", 2)[0]
	if i := strings.LastIndex(pkg, "."); i > strings.LastIndex(pkg, "/") {
		pkg = pkg[:i]
	}
	return "dependency:" + pkg
}

func (a *raceAccess) classify() {
	a.Scope = "unknown"
	for _, f := range a.Frames {
		sc := frameScope(f.Func)
		if sc == "std" {
			continue // memory reached through runtime / sync code belongs to whoever called it
		}
		a.Scope = sc
		break
	}
	for i := range a.Frames {
		if frameScope(a.Frames[i].Func) == "engine" {
			a.Site = &a.Frames[i]
			a.SiteFunc = normFunc(a.Frames[i].Func)
			return
		}
	}
	if len(a.Frames) > 0 {
		a.SiteFunc = normFunc(a.Frames[0].Func)
	}
}

func parseFrames(lines []string, i int) ([]raceFrame, int) {
	var frames []raceFrame
	for i < len(lines) {
		l := lines[i]
		if strings.TrimSpace(l) == "" || !strings.HasPrefix(l, "  ") {
			break
		}
		fr := raceFrame{Func: strings.TrimSpace(l)}
		if strings.HasPrefix(fr.Func, "[failed to restore the stack]") {
			frames = append(frames, fr)
			i++
			continue
		}
		if i+1 < len(lines) {
			if m := reFileLn.FindStringSubmatch(lines[i+1]); m != nil {
				fr.File = m[1]
				fr.Line, _ = strconv.Atoi(m[2])
				i++
			}
		}
		fr.Func = strings.TrimSuffix(fr.Func, "()")
		frames = append(frames, fr)
		i++
	}
	return frames, i
}

// parseRaceReports splits the text written by the race runtime into reports.
func parseRaceReports(text string) []map[string]any {
	var out []map[string]any
	blocks := strings.Split(text, "==================")
	for _, b := range blocks {
		if !strings.Contains(b, "WARNING: DATA RACE") {
			continue
		}
		lines := strings.Split(strings.Trim(b, "\n"), "\n")
		var accs []raceAccess
		var created []raceCreation
		for i := 0; i < len(lines); {
			l := lines[i]
			if m := reAccess.FindStringSubmatch(l); m != nil {
				op := strings.ToLower(m[3])
				if m[2] != "" {
					op = "atomic " + op
				}
				g := m[6]
				if g == "" {
					g = "main"
				}
				a := raceAccess{Op: op, Goroutine: g, Addr: m[4]}
				a.Frames, i = parseFrames(lines, i+1)
				a.classify()
				accs = append(accs, a)
				continue
			}
			if m := reCreated.FindStringSubmatch(l); m != nil {
				c := raceCreation{Goroutine: m[1], State: m[2]}
				c.Frames, i = parseFrames(lines, i+1)
				for _, f := range c.Frames {
					if sc := frameScope(f.Func); sc == "engine" || sc == "harness" {
						c.SiteFunc = normFunc(f.Func)
						break
					}
				}
				created = append(created, c)
				continue
			}
			i++
		}
		head := lines
		if len(head) > 40 {
			head = head[:40]
		}
		rec := map[string]any{"kind": "race", "report": strings.Join(head, "\n"), "created": created}
		sites := []string{}
		scope := "unknown"
		for k, a := range accs {
			key := "first"
			if k == 1 {
				key = "second"
			}
			if k < 2 {
				rec[key] = a
			}
			loc := "?"
			if a.Site != nil {
				loc = fmt.Sprintf("%s:%d", strings.TrimPrefix(a.Site.File, "/repo/"), a.Site.Line)
			} else if len(a.Frames) > 0 {
				loc = fmt.Sprintf("%s:%d", a.Frames[0].File, a.Frames[0].Line)
			}
			sites = append(sites, fmt.Sprintf("%s %s %s [%s]", a.SiteFunc, loc, a.Op, a.Scope))
			if a.Scope == "engine" {
				scope = "engine"
			} else if scope != "engine" && a.Scope != "unknown" {
				scope = a.Scope
			}
		}
		rec["sites"] = sites
		rec["scope"] = scope
		out = append(out, rec)
	}
	return out
}

// ---- workload ------------------------------------------------------------------------------------------------------------

const raceForeachMain = `version: v0.2.0
input:
  root: RootObject
  objects:
    RootObject:
      id: RootObject
      properties:
        name:
          type: {type_id: string}
          required: true
steps:
  loop:
    kind: foreach
    items: %s
    parallelism: %d
    workflow: "sub.yaml"
  side:
    plugin: {src: "side", deployment_type: "builtin"}
    step: op
    input: {"s": !expr "$.input.name"}
outputs:
  success:
    data: !expr "$.steps.loop.outputs.success.data"
    side: !expr "$.steps.side.outputs.success.s"
  failure:
    e: !expr "$.steps.loop.failed.error"
`

const raceForeachSub = `version: v0.2.0
input:
  root: SubIn
  objects:
    SubIn:
      id: SubIn
      properties:
        s:
          type: {type_id: string}
          required: true
        nick:
          type: {type_id: string}
          required: false
          default: '"x"'
steps:
  w:
    plugin: {src: "item", deployment_type: "builtin"}
    step: op
    input: {"s": !expr "$.input.s"}
  v:
    plugin: {src: "item2", deployment_type: "builtin"}
    step: opns
    input: {"s": !expr "$.steps.w.outputs.success.s"}
outputs:
  success:
    r: !expr "$.steps.v.outputs.success.s"
`

// stop_if scenarios: `a` is stopped by the outputs of `b`; `c` is slow.  variant 0: a waits for its input (from c) when
// stop_if fires and the workflow output needs only b, so termination overlaps with the stop; variant 1: a is running
// (hanging) when stop_if fires and the workflow output is a's "cancelled" output; variant 2: like 0 with the output
// depending on another quick step d, so that a is force-closed while b is still about to finish.
func raceStopIfYAML(variant int) string {
	head := `version: v0.2.0
input:
  root: RootObject
  objects:
    RootObject:
      id: RootObject
      properties:
        name:
          type: {type_id: string}
          required: true
steps:
  b:
    plugin: {src: "b", deployment_type: "builtin"}
    step: op
    input: {"s": !expr "$.input.name"}
  c:
    plugin: {src: "c", deployment_type: "builtin"}
    step: op
    input: {"s": "slow"}
  d:
    plugin: {src: "d", deployment_type: "builtin"}
    step: op
    input: {"s": "quick"}
`
	switch variant {
	case 1:
		return head + `  a:
    plugin: {src: "a", deployment_type: "builtin"}
    step: op
    input: {"s": "lit"}
    stop_if: !expr "$.steps.b.outputs"
outputs:
  success:
    x: !expr "$.steps.a.outputs.cancelled.s"
`
	case 2:
		return head + `  a:
    plugin: {src: "a", deployment_type: "builtin"}
    step: op
    input: {"s": !expr "$.steps.c.outputs.success.s"}
    stop_if: !expr "$.steps.b.outputs"
outputs:
  success:
    x: !expr "$.steps.d.outputs.success.s"
`
	default:
		return head + `  a:
    plugin: {src: "a", deployment_type: "builtin"}
    step: op
    input: {"s": !expr "$.steps.c.outputs.success.s"}
    stop_if: !expr "$.steps.b.outputs"
outputs:
  success:
    x: !expr "$.steps.b.outputs.success.s"
`
	}
}

type raceRun struct {
	ID       string         `json:"id"`
	Key      string         `json:"key"`
	Kind     string         `json:"kind"`
	Scenario string         `json:"scenario"`
	WallMs   int64          `json:"wall_ms"`
	Results  []loopResult   `json:"results"`
	Skip     string         `json:"skip,omitempty"`
	Panic    string         `json:"panic,omitempty"`
	Extra    map[string]any `json:"extra,omitempty"`
	GDelta   int            `json:"goroutine_delta"`
}

// runPrepared executes one prepared workflow from `k` goroutines at once; cancelMs[i] >= 0 cancels call i after that time.
func runPrepared(text string, files map[string][]byte, beh map[string]Behaviour, input map[string]any, k int, cancelMs []int, run *raceRun) {
	s := newScript()
	for key, v := range beh {
		s.set(key, v)
	}
	currentScript.Store(s)
	base := runtime.NumGoroutine()
	reg, f, err := newRegistry(nil)
	if err != nil {
		run.Skip = "registry: " + err.Error()
		return
	}
	s.probe.Store(true)
	prepared, err := prepareYAML(reg, f, text, files)
	s.probe.Store(false)
	if err != nil {
		run.Skip = "prepare: " + err.Error()
		return
	}
	results := make([]loopResult, k)
	var wg sync.WaitGroup
	var mu sync.Mutex
	t0 := time.Now()
	for i := 0; i < k; i++ {
		i := i
		wg.Add(1)
		go func() {
			defer wg.Done()
			ctx, cancel := context.WithCancel(context.Background())
			defer cancel()
			if i < len(cancelMs) && cancelMs[i] >= 0 {
				t := time.AfterFunc(time.Duration(cancelMs[i])*time.Millisecond, cancel)
				defer t.Stop()
			}
			done := make(chan loopResult, 1)
			go func() {
				defer func() {
					if rec := recover(); rec != nil {
						mu.Lock()
						run.Panic = fmt.Sprint(rec)
						mu.Unlock()
						done <- loopResult{}
					}
				}()
				id, data, err := prepared.Execute(ctx, input)
				r := loopResult{Returned: true, OutputID: id, Data: encVal(data)}
				if err != nil {
					r.Err = err.Error()
					r.ErrClass = classifyExecErr(err)
				}
				done <- r
			}()
			select {
			case r := <-done:
				results[i] = r
			case <-time.After(25 * time.Second):
			}
		}()
	}
	wg.Wait()
	run.WallMs = time.Since(t0).Milliseconds()
	run.Results = results
	run.GDelta = goroutineDelta(base)
}

var raceScenarios = []string{"engine", "engine-cancel", "overlap", "foreach", "stopif", "foreach-cancel", "overlap-cancel", "stopif-cancel",
	"overlap-after-run"}

// raceOverlapAfterRun: a generated input schema with optional nested objects (inline or through references, own properties
// with and without defaults); ONE prepared workflow; a completed first run whose document leaves out everything that may
// be left out, then k overlapping runs whose documents give every nested object (and leave out what may be left out inside
// them), optionally preceded by a refused document.  What the first run initialised lazily in shared objects (schemas)
// differs from what the overlapping runs touch.
func raceOverlapAfterRun(cr *rng, run *raceRun) {
	g := &inputGen{r: cr}
	root, badName := genInputRoot(cr, g)
	if len(root.Props) > 0 {
		root.Props = append(root.Props, seqNestedProp(g, "nest"))
		if cr.chance(1, 2) {
			root.Props = append(root.Props, seqNestedProp(g, "nest2"))
		}
	}
	steps := genInputSteps(cr, root)
	text := inputWorkflowYAML(root, steps)
	first := seqValidDoc(g, root, badName, "min")
	later := seqValidDoc(g, root, badName, "objs")
	invalid := seqInvalidDocs(g, root, badName, 1)
	s := newScript()
	currentScript.Store(s)
	base := runtime.NumGoroutine()
	reg, f, err := newRegistry(nil)
	if err != nil {
		run.Skip = "registry: " + err.Error()
		return
	}
	s.probe.Store(true)
	prepared, err := prepareYAML(reg, f, text, nil)
	s.probe.Store(false)
	if err != nil {
		run.Skip = "prepare: " + err.Error()
		return
	}
	t0 := time.Now()
	toLoop := func(r seqResult, hung bool) loopResult {
		return loopResult{Returned: !hung, OutputID: r.OutputID, Data: r.Data, Err: r.Err, ErrClass: r.ErrClass}
	}
	r0, h0 := seqExecute(prepared, first.raw, -1)
	run.Results = append(run.Results, toLoop(r0, h0))
	if h0 {
		return
	}
	if len(invalid) > 0 && cr.chance(1, 2) {
		ri, hi := seqExecute(prepared, invalid[0].raw, -1)
		run.Results = append(run.Results, toLoop(ri, hi))
		if hi {
			return
		}
	}
	k := 2 + cr.intn(3)
	results := make([]loopResult, k)
	gate := make(chan struct{})
	var wg sync.WaitGroup
	for i := 0; i < k; i++ {
		wg.Add(1)
		go func(i int) {
			defer wg.Done()
			<-gate
			r, h := seqExecute(prepared, later.raw, -1)
			results[i] = toLoop(r, h)
		}(i)
	}
	close(gate)
	wg.Wait()
	run.Results = append(run.Results, results...)
	run.WallMs = time.Since(t0).Milliseconds()
	run.GDelta = goroutineDelta(base)
	run.Extra = map[string]any{"workflow_yaml": text, "first": encVal(first.raw), "overlapping": encVal(later.raw), "calls": k}
}

func raceWorkload(c *common, w *lineWriter, prepareOverlap bool, only string) {
	r := newRng(c.seed)
	for i := 0; i < c.n; i++ {
		cr := r.fork()
		if i < c.skip {
			continue
		}
		w.emit(map[string]any{"kind": "begin", "index": i})
		sc := raceScenarios[i%len(raceScenarios)]
		if only != "" {
			sc = only
		}
		id := fmt.Sprintf("race-%d-%d", c.seed, i)
		run := raceRun{ID: id, Key: id + ":" + sc, Kind: "racerun", Scenario: sc}
		input := map[string]any{"name": "nm"}
		switch sc {
		case "engine", "engine-cancel":
			g := genOpts{maxSteps: 3 + cr.intn(4), tags: cr.chance(1, 2), failOutputs: true, enabled: cr.chance(1, 2),
				stopIf: cr.chance(1, 2), waitFor: cr.chance(1, 2)}
			o := engineOpts{cancelAfterMs: -1} // never-finishing steps only together with a cancellation
			if sc == "engine-cancel" {
				o.cancelAfterMs = cr.intn(40)
				if cr.chance(1, 5) {
					o.cancelAfterMs = 0 // close right after the steps were started
				}
				o.hang = true
			}
			t0 := time.Now()
			out := runEngineCase(cr, id, g, o)
			run.WallMs = time.Since(t0).Milliseconds()
			if res, ok := out["result"].(loopResult); ok {
				run.Results = []loopResult{res}
			}
			if s, ok := out["skip"].(string); ok {
				run.Skip = s
			}
			if p, ok := out["panic"].(string); ok {
				run.Panic = p
			}
			if gd, ok := out["goroutine_delta"].(int); ok {
				run.GDelta = gd
			}
			nSteps := 0
			if bm, ok := out["behaviours"].(map[string]Behaviour); ok {
				nSteps = len(bm)
			}
			run.Extra = map[string]any{"cancel_after_ms": o.cancelAfterMs, "hang": o.hang, "steps": nSteps}
		case "overlap", "overlap-cancel":
			// tagged members (one-of / or-disabled / optional expression objects live in the prepared workflow and are shared by
			// the overlapping runs) in two cases out of three
			g := genOpts{maxSteps: 2 + cr.intn(3), tags: cr.chance(2, 3), failOutputs: true, enabled: cr.chance(1, 2),
				stopIf: cr.chance(1, 3), waitFor: cr.chance(1, 2)}
			wf := genWorkflow(cr, g)
			if g.tags && cr.chance(2, 3) {
				// make sure a one-of / or-disabled expression is there
				for try := 0; try < 8 && !strings.Contains(wf.yaml(nil, nil), "!oneof") && !strings.Contains(wf.yaml(nil, nil), "!ordisabled"); try++ {
					wf = genWorkflow(cr, g)
				}
			}
			beh := genBehaviours(cr, wf, engineOpts{cancelAfterMs: -1})
			for _, fl := range wf.InputFields {
				if fl.Name == "flag" {
					input["flag"] = cr.chance(2, 3)
				}
			}
			k := 3 + cr.intn(2)
			cancels := make([]int, k)
			for j := range cancels {
				cancels[j] = -1
				if sc == "overlap-cancel" && cr.chance(1, 2) {
					cancels[j] = cr.intn(30)
				}
			}
			runPrepared(wf.yaml(nil, nil), nil, beh, input, k, cancels, &run)
			run.Extra = map[string]any{"calls": k, "cancel_ms": cancels}
		case "foreach", "foreach-cancel":
			n := 2 + cr.intn(5)
			items := make([]string, n)
			for j := range items {
				items[j] = fmt.Sprintf(`{"s": "i%d"}`, j)
			}
			par := 1 + cr.intn(4)
			text := fmt.Sprintf(raceForeachMain, "["+strings.Join(items, ", ")+"]", par)
			beh := map[string]Behaviour{
				"item":  {Outcome: "success", DelayMs: cr.intn(6)},
				"item2": {Outcome: "success", DelayMs: cr.intn(4)},
				"side":  {Outcome: "success", DelayMs: cr.intn(15)},
			}
			if cr.chance(1, 4) {
				beh["item2"] = Behaviour{Outcome: "error"}
			}
			cancels := []int{-1}
			if sc == "foreach-cancel" {
				cancels[0] = cr.intn(40)
				if cr.chance(1, 4) {
					cancels[0] = 0 // close right after the foreach step was started
				}
				if cr.chance(1, 2) {
					// closed while some items run and others are still queued: many more items than slots, items that
					// take a while, and the cancel while the first ones run (their sub-workflows then end with an error)
					n = 5 + cr.intn(6)
					items = make([]string, n)
					for j := range items {
						items[j] = fmt.Sprintf(`{"s": "i%d"}`, j)
					}
					par = 1 + cr.intn(2)
					text = fmt.Sprintf(raceForeachMain, "["+strings.Join(items, ", ")+"]", par)
					beh["item"] = Behaviour{Outcome: "success", DelayMs: 15 + cr.intn(20)}
					cancels[0] = 8 + cr.intn(15)
				}
			}
			// the items leave out a defaulted property of the sub-workflow input; half of the plain foreach cases run the
			// PARENT three times at once (the parents check the items against the sub-workflow's input schema while the
			// items' own runs use it)
			k := 1
			if sc == "foreach" && cr.chance(1, 2) {
				k = 3
				cancels = []int{-1, -1, -1}
			}
			runPrepared(text, map[string][]byte{"sub.yaml": []byte(raceForeachSub)}, beh, input, k, cancels, &run)
			run.Extra = map[string]any{"items": n, "parallelism": par, "cancel_ms": cancels, "calls": k}
		case "overlap-after-run":
			raceOverlapAfterRun(cr, &run)
		case "stopif", "stopif-cancel":
			variant := cr.intn(3)
			bDelay := 3 + cr.intn(12)
			beh := map[string]Behaviour{
				"b": {Outcome: "success", DelayMs: bDelay},
				"c": {Outcome: "success", DelayMs: 60 + cr.intn(40)},
				"d": {Outcome: "success", DelayMs: cr.intn(bDelay + 4)},
				"a": {Outcome: "success", DelayMs: 5},
			}
			if variant == 1 {
				beh["a"] = Behaviour{Outcome: "hang"}
			}
			cancels := []int{-1}
			if sc == "stopif-cancel" {
				// around the moment b finishes (deploy + ATP start take a few ms on top of the scripted delay)
				cancels[0] = bDelay + cr.intn(12)
			}
			runPrepared(raceStopIfYAML(variant), nil, beh, input, 1, cancels, &run)
			run.Extra = map[string]any{"variant": variant, "b_delay_ms": bDelay, "cancel_ms": cancels}
		}
		w.emit(run)
	}
	if prepareOverlap {
		// outside the property's quantifier (note in DESIGN.md, C17): overlapping preparations share infer.objectIDRandom
		w.emit(map[string]any{"kind": "begin", "index": c.n})
		run := raceRun{ID: fmt.Sprintf("race-%d-prepare-overlap", c.seed), Kind: "racerun", Scenario: "prepare-overlap"}
		s := newScript()
		currentScript.Store(s)
		s.probe.Store(true)
		var wg sync.WaitGroup
		for j := 0; j < 4; j++ {
			wg.Add(1)
			go func() {
				defer wg.Done()
				reg, f, err := newRegistry(nil)
				if err != nil {
					return
				}
				for k := 0; k < 3; k++ {
					_, _ = prepareYAML(reg, f, raceStopIfYAML(k), nil)
				}
			}()
		}
		wg.Wait()
		s.probe.Store(false)
		w.emit(run)
	}
}

func cmdRaceSuite(args []string) int {
	var child, prepareOverlap bool
	var only, logDir string
	c, _ := parseCommon("racesuite", args, func(fs *flag.FlagSet) {
		fs.BoolVar(&child, "child", false, "internal: run the workload (the parent collects the race reports)")
		fs.BoolVar(&prepareOverlap, "prepare-overlap", false, "additionally run overlapping Prepare calls (outside the property: note only)")
		fs.StringVar(&only, "scenario", "", "run only this scenario ("+strings.Join(raceScenarios, "|")+")")
		fs.StringVar(&logDir, "keep", "", "keep the raw race reports in this directory")
	})
	if child {
		w := openOut(c.out)
		defer w.close()
		raceWorkload(c, w, prepareOverlap, only)
		return 0
	}
	w := openOut(c.out)
	defer w.close()
	if !raceBuild() {
		w.emit(map[string]any{"kind": "racesuite-summary", "id": fmt.Sprintf("racesuite-%d", c.seed), "runs": 0, "races": 0,
			"skip": "this binary was not built with -race (bin/build-harness <out> -race)"})
		return 0
	}
	dir := logDir
	if dir == "" {
		d, err := os.MkdirTemp("", "racesuite.")
		if err != nil {
			fmt.Fprintln(os.Stderr, err)
			return 2
		}
		dir = d
		defer os.RemoveAll(d)
	} else {
		_ = os.MkdirAll(dir, 0o755)
	}
	casesPath := filepath.Join(dir, "cases.jsonl")
	childArgs := append([]string{"racesuite"}, args...)
	childArgs = append(childArgs, "-child", "-out", casesPath)
	cmd := exec.Command(os.Args[0], childArgs...)
	env := []string{}
	for _, e := range os.Environ() {
		if !strings.HasPrefix(e, "GORACE=") {
			env = append(env, e)
		}
	}
	// halt_on_error=0: keep running after a report; exitcode=0: a report is data, not a crash; history_size=7: the largest
	// per-goroutine access history, fewer "failed to restore the stack"
	cmd.Env = append(env, "GORACE=log_path="+filepath.Join(dir, "race")+" halt_on_error=0 exitcode=0 history_size=7")
	var stderr strings.Builder
	cmd.Stderr = &stderr
	cmd.Stdout = os.Stderr
	t0 := time.Now()
	err := cmd.Run()
	exit := 0
	if err != nil {
		exit = 1
		if ee, ok := err.(*exec.ExitError); ok {
			exit = ee.ExitCode()
		}
	}
	runs := 0
	byScenario := map[string]int{}
	if f, err := os.Open(casesPath); err == nil {
		sc := bufio.NewScanner(f)
		sc.Buffer(make([]byte, 1<<20), 1<<26)
		for sc.Scan() {
			line := sc.Bytes()
			var probe struct {
				Kind     string `json:"kind"`
				Scenario string `json:"scenario"`
			}
			if json.Unmarshal(line, &probe) == nil && probe.Kind == "racerun" {
				runs++
				byScenario[probe.Scenario]++
			}
			_, _ = w.w.Write(line)
			_ = w.w.WriteByte('\n')
		}
		_ = f.Close()
		_ = w.w.Flush()
	}
	// reports: <dir>/race.<pid>
	var text strings.Builder
	logs, _ := filepath.Glob(filepath.Join(dir, "race.*"))
	sort.Strings(logs)
	for _, l := range logs {
		b, err := os.ReadFile(l)
		if err == nil {
			text.Write(b)
			text.WriteString("\n")
		}
	}
	reports := parseRaceReports(text.String())
	engineRaces := 0
	for k, rec := range reports {
		rec["id"] = fmt.Sprintf("race-%d-report-%d", c.seed, k)
		rec["key"] = rec["id"]
		if rec["scope"] == "engine" {
			engineRaces++
		}
		w.emit(rec)
	}
	sum := map[string]any{"kind": "racesuite-summary", "id": fmt.Sprintf("racesuite-%d", c.seed), "runs": runs, "races": len(reports),
		"engine_races": engineRaces, "scenarios": byScenario, "wall_ms": time.Since(t0).Milliseconds(), "child_exit": exit}
	if exit != 0 {
		tail := stderr.String()
		if len(tail) > 3000 {
			tail = tail[len(tail)-3000:]
		}
		sum["child_stderr"] = tail
		w.emit(sum)
		fmt.Fprint(os.Stderr, tail)
		return exit // a crash of the engine: the caller restarts after the crashing case (-skip)
	}
	w.emit(sum)
	return 0
}
