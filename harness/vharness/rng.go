//go:build verif

package main

// splitmix64: every random choice of the harness derives from one state seeded by VERIF_SEED.
type rng struct{ s uint64 }

func newRng(seed uint64) *rng {
	// scramble the seed so that neighbouring seeds do not give shifted copies of one stream
	z := seed + 0x632BE59BD9B4E019
	z = (z ^ (z >> 32)) * 0xD6E8FEB86659FD93
	z = (z ^ (z >> 32)) * 0xD6E8FEB86659FD93
	r := &rng{s: z ^ (z >> 32)}
	r.next()
	return r
}

func (r *rng) next() uint64 {
	r.s += 0x9E3779B97F4A7C15
	z := r.s
	z = (z ^ (z >> 30)) * 0xBF58476D1CE4E5B9
	z = (z ^ (z >> 27)) * 0x94D049BB133111EB
	return z ^ (z >> 31)
}

// intn returns a value in [0, n).
func (r *rng) intn(n int) int {
	if n <= 0 {
		return 0
	}
	return int(r.next() % uint64(n))
}

func (r *rng) chance(num, den int) bool { return r.intn(den) < num }

func (r *rng) pick(xs []string) string { return xs[r.intn(len(xs))] }

func (r *rng) fork() *rng { return &rng{s: r.next()} }

func (r *rng) perm(n int) []int {
	p := make([]int, n)
	for i := range p {
		p[i] = i
	}
	for i := n - 1; i > 0; i-- {
		j := r.intn(i + 1)
		p[i], p[j] = p[j], p[i]
	}
	return p
}
