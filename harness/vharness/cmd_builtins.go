//go:build verif

package main

// `vharness builtins`: C18 — built-in expression functions are total, typed as declared and obey their laws.
//
// For every function of builtinfunctions.GetFunctions() argument lists are generated from the *declared* parameter
// schemas (fn.Parameters()), with boundary classes per type.  The real function is called (fn.Call) under recover;
// the result is checked against the declared / dynamically derived output type (fn.Output), the call is repeated to
// check determinism, and a few laws that need the real formatting code (number -> string -> number) are checked on
// the Go side.  One JSON line per call; `arcadrv builtins` compares the results with Arca.Model.Builtins.
//
// Calls that may exhaust memory (floatToFormattedString with an enormous precision: the declared parameter is an
// unbounded integer) run in a child process (`vharness builtins-child`) with a heap watchdog and a wall-clock limit.

import (
	"bytes"
	"encoding/hex"
	"encoding/json"
	"flag"
	"fmt"
	"io"
	"math"
	"os"
	"os/exec"
	"reflect"
	"regexp"
	"runtime"
	"sort"
	"strconv"
	"strings"
	"time"
	"unicode/utf8"

	"go.flow.arcalot.io/engine/internal/builtinfunctions"
	"go.flow.arcalot.io/pluginsdk/schema"
)

func init() {
	register("builtins", cmdBuiltins)
	register("builtins-child", cmdBuiltinsChild)
}

// ---- tagged encoding with a byte form for strings that are not valid UTF-8 ({"b":"<hex>"}) ---------------------------

func encB(v any) any {
	switch t := v.(type) {
	case nil:
		return nil
	case string:
		if utf8.ValidString(t) {
			return t
		}
		return map[string]any{"b": hex.EncodeToString([]byte(t))}
	case []any:
		out := make([]any, len(t))
		for i, x := range t {
			out[i] = encB(x)
		}
		return out
	case []string:
		out := make([]any, len(t))
		for i, x := range t {
			out[i] = encB(x)
		}
		return out
	case map[string]any:
		m := map[string]any{}
		for k, x := range t {
			m[k] = encB(x)
		}
		return map[string]any{"m": m}
	}
	return encVal(v)
}

func decB(j any) any {
	switch t := j.(type) {
	case []any:
		out := make([]any, len(t))
		for i, x := range t {
			out[i] = decB(x)
		}
		return out
	case map[string]any:
		if s, ok := t["b"].(string); ok && len(t) == 1 {
			b, _ := hex.DecodeString(s)
			return string(b)
		}
		if m, ok := t["m"].(map[string]any); ok {
			out := map[string]any{}
			for k, v := range m {
				out[k] = decB(v)
			}
			return out
		}
	}
	return decVal(j)
}

// ---- argument generators ---------------------------------------------------------------------------------------------------

type genArg struct {
	v     any
	class string
	typ   schema.Type // the type passed to fn.Output for this argument
}

var floatBoundary = []struct {
	bits  uint64
	class string
}{
	{0x7ff8000000000000, "nan"}, {0x7ff8000000000001, "nan"}, {0x7ff0000000000001, "nan-signalling"},
	{0xfff8000000000000, "nan-negative"}, {0x7fffffffffffffff, "nan"}, {0xfff0000000000001, "nan-signalling"},
	{0x7ff0000000000000, "+inf"}, {0xfff0000000000000, "-inf"},
	{0x0000000000000000, "+0"}, {0x8000000000000000, "-0"},
	{0x0000000000000001, "subnormal"}, {0x8000000000000001, "subnormal"}, {0x000fffffffffffff, "subnormal"},
	{0x800fffffffffffff, "subnormal"}, {0x0008000000000000, "subnormal"}, {0x0010000000000000, "min-normal"},
	{0x8010000000000000, "min-normal"},
	{0x43e0000000000000, "2^63"}, {0x43dfffffffffffff, "2^63-ulp"}, {0x43e0000000000001, "2^63+ulp"},
	{0xc3e0000000000000, "-2^63"}, {0xc3dfffffffffffff, "-2^63+ulp"}, {0xc3e0000000000001, "-2^63-ulp"},
	{0x43d0000000000000, "2^62"}, {0xc3d0000000000000, "-2^62"}, {0x43f0000000000000, "2^64"},
	{0x4340000000000000, "2^53"}, {0x433fffffffffffff, "2^53-1"}, {0x4340000000000001, "2^53+2"},
	{0xc340000000000000, "-2^53"}, {0xc33fffffffffffff, "-2^53+1"}, {0xc340000000000001, "-2^53-2"},
	{0x4330000000000000, "2^52"}, {0x432fffffffffffff, "2^52-0.5"}, {0x4330000000000001, "2^52+1"},
	{0xc330000000000000, "-2^52"}, {0xc32fffffffffffff, "-2^52+0.5"}, {0x4320000000000001, "2^51+0.5"},
	{0x431fffffffffffff, "2^51-0.25"}, {0xc320000000000001, "-2^51-0.5"},
	{0x3fe0000000000000, "0.5"}, {0x3fdfffffffffffff, "0.5-ulp"}, {0x3fe0000000000001, "0.5+ulp"},
	{0xbfe0000000000000, "-0.5"}, {0xbfdfffffffffffff, "-0.5+ulp"}, {0xbfe0000000000001, "-0.5-ulp"},
	{0x3ff0000000000000, "1"}, {0xbff0000000000000, "-1"}, {0x3fefffffffffffff, "1-ulp"}, {0x3ff0000000000001, "1+ulp"},
	{0x3ff8000000000000, "1.5"}, {0xbff8000000000000, "-1.5"}, {0x4004000000000000, "2.5"}, {0xc004000000000000, "-2.5"},
	{0x400c000000000000, "3.5"}, {0x4016000000000000, "5.5"}, {0xbffe666666666666, "-1.9"}, {0x3ffe666666666666, "1.9"},
	{0x43e158e460913d00, "1e19"}, {0xc3e158e460913d00, "-1e19"}, {0x7e37e43c8800759c, "1e300"}, {0xfe37e43c8800759c, "-1e300"},
	{0x7fefffffffffffff, "max-float"}, {0xffefffffffffffff, "-max-float"}, {0x01a56e1fc2f8f359, "1e-300"},
	{0x41e0000000000000, "2^31"}, {0x41f0000000000000, "2^32"}, {0x40b3880000000000, "5000"}, {0x40b3888000000000, "5000.5"},
	{0x3fb999999999999a, "0.1"}, {0x444b1ae4d6e2ef50, "1e21"}, {0x3eb0c6f7a0b5ed8d, "1e-6"}, {0x3ee4f8b588e368f1, "1e-5"},
	{0x4415af1d78b58c40, "1e20"}, {0x3f1a36e2eb1c432d, "1e-4"},
}

// exact powers of two at which conversions change behaviour (float32 / int32 / float64 mantissa / int64 limits), with the
// nearest floats below and above, both signs; intToFloat(MaxInt64) = 2^63 and intToFloat(MinInt64) = -2^63 are among them
func init() {
	have := map[uint64]bool{}
	for _, b := range floatBoundary {
		have[b.bits] = true
	}
	add := func(v float64, class string) {
		if bits := math.Float64bits(v); !have[bits] {
			have[bits] = true
			floatBoundary = append(floatBoundary, struct {
				bits  uint64
				class string
			}{bits, class})
		}
	}
	for _, p := range []int{24, 31, 32, 53, 62, 63, 64} {
		for _, sign := range []float64{1, -1} {
			v := sign * math.Ldexp(1, p)
			name := fmt.Sprintf("%s2^%d", map[float64]string{1: "", -1: "-"}[sign], p)
			add(v, name)
			add(math.Nextafter(v, math.Inf(1)), name+":next-above")
			add(math.Nextafter(v, math.Inf(-1)), name+":next-below")
		}
	}
	add(float64(math.MaxInt64), "intToFloat(MaxInt64)")
	add(float64(math.MinInt64), "intToFloat(MinInt64)")
	add(math.MaxFloat64, "max-float")
	add(-math.MaxFloat64, "-max-float")
	add(math.SmallestNonzeroFloat64, "smallest-nonzero")
	add(-math.SmallestNonzeroFloat64, "-smallest-nonzero")
	haveI := map[int64]bool{}
	for _, b := range intBoundary {
		haveI[b.v] = true
	}
	addI := func(v int64, class string) {
		if !haveI[v] {
			haveI[v] = true
			intBoundary = append(intBoundary, struct {
				v     int64
				class string
			}{v, class})
		}
	}
	for _, p := range []uint{24, 31, 32, 53, 62} {
		for _, d := range []int64{-1, 0, 1} {
			addI(int64(1)<<p+d, fmt.Sprintf("2^%d%+d", p, d))
			addI(-(int64(1)<<p)+d, fmt.Sprintf("-2^%d%+d", p, d))
		}
	}
}

func genFloat(r *rng) (float64, string) {
	switch k := r.intn(10); {
	case k < 5:
		b := floatBoundary[r.intn(len(floatBoundary))]
		return math.Float64frombits(b.bits), b.class
	case k < 7:
		return math.Float64frombits(r.next()), "random-bits"
	case k == 7:
		// random mantissa, exponent in the neighbourhood where fractions disappear / the int64 range ends
		e := uint64(1023 - 3 + r.intn(70))
		bits := (r.next() & 0x800fffffffffffff) | e<<52
		return math.Float64frombits(bits), "random-exp-1020..1089"
	case k == 8:
		// k + 0.5 and neighbours for a random integer k below 2^51
		n := float64(r.next()>>uint(13+r.intn(50))) + 0.5
		if r.chance(1, 2) {
			n = -n
		}
		switch r.intn(3) {
		case 0:
			n = math.Nextafter(n, math.Inf(1))
		case 1:
			n = math.Nextafter(n, math.Inf(-1))
		}
		return n, "half-neighbourhood"
	default:
		e := uint64(r.intn(2047))
		bits := (r.next() & 0x800fffffffffffff) | e<<52
		return math.Float64frombits(bits), "random-exp"
	}
}

var intBoundary = []struct {
	v     int64
	class string
}{
	{0, "0"}, {1, "1"}, {-1, "-1"}, {math.MaxInt64, "max"}, {math.MinInt64, "min"}, {math.MaxInt64 - 1, "max-1"},
	{math.MinInt64 + 1, "min+1"}, {1 << 53, "2^53"}, {1<<53 + 1, "2^53+1"}, {1<<53 + 2, "2^53+2"}, {1<<53 + 3, "2^53+3"},
	{-(1 << 53), "-2^53"}, {-(1<<53 + 1), "-2^53-1"}, {-(1<<53 + 3), "-2^53-3"}, {1<<54 + 2, "2^54+2(tie)"}, {1<<54 + 6, "2^54+6(tie)"},
	{1<<54 + 1, "2^54+1"}, {1<<54 + 3, "2^54+3"}, {1 << 62, "2^62"}, {math.MaxInt64 - 511, "max-511"}, {math.MaxInt64 - 512, "max-512"},
	{math.MaxInt64 - 1023, "max-1023"}, {math.MinInt64 + 512, "min+512"}, {math.MinInt64 + 513, "min+513"}, {1 << 31, "2^31"},
	{1 << 32, "2^32"}, {-(1 << 31), "-2^31"}, {10, "10"}, {-10, "-10"}, {9, "9"}, {99, "99"}, {100, "100"},
	{1000000000000000000, "1e18"}, {-1000000000000000000, "-1e18"}, {9007199254740993, "2^53+1"},
}

func genInt(r *rng) (int64, string) {
	switch k := r.intn(10); {
	case k < 3:
		b := intBoundary[r.intn(len(intBoundary))]
		return b.v, b.class
	case k < 6:
		return int64(r.intn(101)) - 50, "small"
	case k < 8:
		return int64(r.next()), "random-64"
	case k == 8:
		// uniformly random bit length
		v := int64(r.next() >> uint(1+r.intn(63)))
		if r.chance(1, 2) {
			v = -v
		}
		return v, "random-bitlen"
	default:
		v := int64(1) << uint(r.intn(63))
		v += int64(r.intn(5)) - 2
		if r.chance(1, 2) {
			v = -v
		}
		return v, "pow2-neighbourhood"
	}
}

// the pool strings are drawn from; pattern-constrained parameters take the members that match (in-schema) and, with
// lower probability, members that do not (out of schema: recorded, not subject to the property)
var stringPool = []struct {
	s     string
	class string
}{
	{"", "empty"}, {" ", "space"}, {"a", "ascii"}, {"abc", "ascii"}, {"Hello, World", "ascii"}, {"MiXeD cAsE 123", "ascii"},
	{"a,b,c", "ascii-sep"}, {",a,,b,", "ascii-sep"}, {",,,", "ascii-sep"}, {"aaa", "ascii-rep"}, {"aaaa", "ascii-rep"},
	{"abababa", "ascii-rep"}, {"a\nb\tc", "ascii-ctl"}, {"\x00", "ascii-ctl"}, {"[]^_`{}@Zz", "ascii-punct"},
	{"é", "non-ascii"}, {"ÀÉÎõü", "non-ascii"}, {"straße", "non-ascii"}, {"İıſK", "non-ascii-special-case"}, {"ǅǆǄ", "non-ascii-titlecase"},
	{"日本語", "non-ascii"}, {"日本,語", "non-ascii"}, {"😀a😀", "non-ascii-astral"}, {"ΣΑΣ σας", "non-ascii"}, {"e\u0301", "non-ascii-combining"},
	{"\xff", "invalid-utf8"}, {"a\xffb", "invalid-utf8"}, {"\xc3", "invalid-utf8"}, {"\xed\xa0\x80", "invalid-utf8"}, {"a\xc3,\xa9b", "invalid-utf8"},
	{"0", "numeric"}, {"1", "numeric"}, {"-1", "numeric"}, {"+1", "numeric-plus"}, {"-0", "numeric"}, {"007", "numeric-leading-zeros"},
	{"-007", "numeric-leading-zeros"}, {"+007", "numeric-plus"}, {" 1", "numeric-space"}, {"1 ", "numeric-space"}, {"1_000", "numeric-underscore"},
	{"-", "sign-only"}, {"+", "sign-only"}, {"--1", "numeric-double-sign"}, {"+-1", "numeric-double-sign"},
	{"9223372036854775807", "numeric-max"}, {"9223372036854775808", "numeric-max+1"}, {"-9223372036854775808", "numeric-min"},
	{"-9223372036854775809", "numeric-min-1"}, {"+9223372036854775807", "numeric-plus"}, {"00000000000000000000009223372036854775807", "numeric-leading-zeros"},
	{"18446744073709551616", "numeric-overflow"}, {"123456789012345678901234567890", "numeric-overflow"}, {"-123456789012345678901234567890", "numeric-overflow"},
	{strings.Repeat("9", 400), "numeric-overflow-long"}, {"-" + strings.Repeat("9", 400), "numeric-overflow-long"}, {strings.Repeat("0", 300) + "5", "numeric-leading-zeros"},
	{"١٢٣", "numeric-non-ascii-digits"}, {"１２", "numeric-non-ascii-digits"}, {"0x10", "numeric-hex"}, {"1e3", "numeric-exp"},
	{"1.5", "float"}, {"-1.5", "float"}, {".5", "float"}, {"5.", "float"}, {"1e400", "float-overflow"}, {"-1e400", "float-overflow"}, {"1e-400", "float-underflow"},
	{"NaN", "float-special"}, {"nan", "float-special"}, {"+Inf", "float-special"}, {"-Inf", "float-special"}, {"inf", "float-special"}, {"Infinity", "float-special"},
	{"0x1p-2", "float-hex"}, {"0x1.8p1", "float-hex"}, {"1_0.5", "float-underscore"}, {"1e", "float-bad"}, {"e1", "float-bad"}, {"1.2.3", "float-bad"},
	{"4.9e-324", "float"}, {"2.4703282292062327e-324", "float-underflow-tie"}, {"1.7976931348623157e308", "float"}, {"1.7976931348623159e308", "float-overflow"},
	{"0.1", "float"}, {"0.30000000000000004", "float"}, {"9007199254740993", "float-tie"}, {"-0.0", "float"},
	{"true", "bool"}, {"false", "bool"}, {"True", "bool"}, {"TRUE", "bool"}, {"False", "bool"}, {"FALSE", "bool"}, {"tRuE", "bool"}, {"fAlSe", "bool"},
	{"t", "bool"}, {"T", "bool"}, {"f", "bool"}, {"F", "bool"}, {"yes", "bool-bad"}, {"no", "bool-bad"}, {"truefalse", "bool-bad"}, {"2", "bool-bad"}, {"tr", "bool-bad"},
	{"true ", "bool-bad"}, {"ｔ", "bool-bad"}, {"TRUE\n", "bool-bad"}, {"ſalse", "bool-bad"}, {"falſe", "bool-long-s"}, {"FALſE", "bool-long-s"}, {"İ", "non-ascii-special-case"}, {"K", "non-ascii-special-case"},
	{"b", "fmt"}, {"e", "fmt"}, {"E", "fmt"}, {"g", "fmt"}, {"G", "fmt"}, {"x", "fmt"}, {"X", "fmt"},
	{"q", "fmt-bad"}, {"ff", "fmt-bad"}, {"d", "fmt-bad"}, {"%", "fmt-bad"}, {"é", "fmt-bad"},
}

func randomString(r *rng) (string, string) {
	alphabets := [][]rune{
		[]rune("abcXYZ019 ,-_"),
		[]rune("aA,é日😀ßİ"),
		[]rune("ab"),
	}
	al := alphabets[r.intn(len(alphabets))]
	n := r.intn(12)
	var b strings.Builder
	for i := 0; i < n; i++ {
		b.WriteRune(al[r.intn(len(al))])
	}
	return b.String(), "random"
}

func randomDigits(r *rng) (string, string) {
	n := 1 + r.intn(24)
	var b strings.Builder
	if r.chance(1, 3) {
		b.WriteByte('-')
	}
	for i := 0; i < n; i++ {
		b.WriteByte(byte('0' + r.intn(10)))
	}
	return b.String(), "numeric-random"
}

func genString(r *rng, pattern *regexp.Regexp) (string, string, bool) {
	if pattern == nil {
		switch k := r.intn(10); {
		case k < 6:
			p := stringPool[r.intn(len(stringPool))]
			return p.s, p.class, true
		case k < 8:
			s, c := randomString(r)
			return s, c, true
		default:
			s, c := randomDigits(r)
			return s, c, true
		}
	}
	var match, other []int
	for i, p := range stringPool {
		if pattern.MatchString(p.s) {
			match = append(match, i)
		} else {
			other = append(other, i)
		}
	}
	if len(match) == 0 {
		return "", "", false
	}
	if r.chance(1, 5) {
		// out of schema on purpose
		if r.chance(1, 4) {
			s, c := randomString(r)
			if !pattern.MatchString(s) {
				return s, "nomatch:" + c, true
			}
		}
		p := stringPool[other[r.intn(len(other))]]
		return p.s, "nomatch:" + p.class, true
	}
	if r.chance(1, 4) {
		if s, c := randomDigits(r); pattern.MatchString(s) {
			return s, "match:" + c, true
		}
	}
	p := stringPool[match[r.intn(len(match))]]
	return p.s, "match:" + p.class, true
}

// shapes of `any` values
type anyShape struct {
	kind string // int float string bool list map
	elem *anyShape
}

func genShape(r *rng, depth int) *anyShape {
	k := r.intn(8)
	if depth >= 3 && k >= 4 {
		k = r.intn(4)
	}
	switch {
	case k == 0:
		return &anyShape{kind: "int"}
	case k == 1:
		return &anyShape{kind: "float"}
	case k == 2:
		return &anyShape{kind: "string"}
	case k == 3:
		return &anyShape{kind: "bool"}
	case k < 6:
		return &anyShape{kind: "list", elem: genShape(r, depth+1)}
	default:
		return &anyShape{kind: "map", elem: genShape(r, depth+1)}
	}
}

func (s *anyShape) String() string {
	switch s.kind {
	case "list":
		return "list<" + s.elem.String() + ">"
	case "map":
		return "map<string," + s.elem.String() + ">"
	}
	return s.kind
}

func (s *anyShape) schema() schema.Type {
	switch s.kind {
	case "int":
		return schema.NewIntSchema(nil, nil, nil)
	case "float":
		return schema.NewFloatSchema(nil, nil, nil)
	case "string":
		return schema.NewStringSchema(nil, nil, nil)
	case "bool":
		return schema.NewBoolSchema()
	case "list":
		return schema.NewListSchema(s.elem.schema(), nil, nil)
	default:
		return schema.NewMapSchema(schema.NewStringSchema(nil, nil, nil), s.elem.schema(), nil, nil)
	}
}

func (s *anyShape) gen(r *rng) any {
	switch s.kind {
	case "int":
		v, _ := genInt(r)
		return v
	case "float":
		v, _ := genFloat(r)
		return v
	case "string":
		v, _, _ := genString(r, nil)
		return v
	case "bool":
		return r.chance(1, 2)
	case "list":
		n := r.intn(4)
		out := make([]any, n)
		for i := range out {
			out[i] = s.elem.gen(r)
		}
		return out
	default:
		n := r.intn(3)
		out := map[string]any{}
		for i := 0; i < n; i++ {
			out[r.pick([]string{"a", "b", "item", "constant", "é", ""})] = s.elem.gen(r)
		}
		return out
	}
}

// genFor draws one argument for a declared parameter type. ok=false: the harness does not know the schema shape.
func genFor(r *rng, p schema.Type) (genArg, bool) {
	switch p.TypeID() {
	case schema.TypeIDInt:
		v, c := genInt(r)
		return genArg{v, "int:" + c, p}, true
	case schema.TypeIDFloat:
		v, c := genFloat(r)
		return genArg{v, "float:" + c, p}, true
	case schema.TypeIDBool:
		v := r.chance(1, 2)
		return genArg{v, "bool:" + strconv.FormatBool(v), p}, true
	case schema.TypeIDString:
		ss, isStr := p.(*schema.StringSchema)
		if !isStr {
			return genArg{}, false
		}
		var pat *regexp.Regexp
		if ss.Pattern() != nil {
			pat = ss.Pattern()
		}
		s, c, ok := genString(r, pat)
		return genArg{s, "string:" + c, p}, ok
	case schema.TypeIDAny:
		sh := genShape(r, 0)
		return genArg{sh.gen(r), "any:" + sh.String(), sh.schema()}, true
	case schema.TypeIDList:
		ls, isList := p.(*schema.ListSchema)
		if !isList {
			return genArg{}, false
		}
		if ls.ItemsValue.TypeID() != schema.TypeIDAny {
			// list of a concrete declared item type
			n := r.intn(4)
			out := make([]any, n)
			for i := range out {
				a, ok := genFor(r, ls.ItemsValue)
				if !ok {
					return genArg{}, false
				}
				out[i] = a.v
			}
			return genArg{out, "list:declared-items", p}, true
		}
		switch k := r.intn(10); {
		case k == 0:
			return genArg{[]any{}, "list:empty", schema.NewListSchema(genShape(r, 1).schema(), nil, nil)}, true
		case k == 1:
			// heterogeneous list: still a list<any>
			out := []any{}
			for i, n := 0, 1+r.intn(4); i < n; i++ {
				out = append(out, genShape(r, 2).gen(r))
			}
			return genArg{out, "list:mixed", schema.NewListSchema(schema.NewAnySchema(), nil, nil)}, true
		case k < 5:
			sh := &anyShape{kind: "list", elem: genShape(r, 1)}
			n := 1 + r.intn(4)
			out := make([]any, n)
			for i := range out {
				out[i] = sh.gen(r)
			}
			return genArg{out, "list:nested:" + sh.String(), schema.NewListSchema(sh.schema(), nil, nil)}, true
		default:
			sh := genShape(r, 1)
			n := 1 + r.intn(5)
			out := make([]any, n)
			for i := range out {
				out[i] = sh.gen(r)
			}
			return genArg{out, "list:" + sh.String(), schema.NewListSchema(sh.schema(), nil, nil)}, true
		}
	}
	return genArg{}, false
}

// ---- one call -----------------------------------------------------------------------------------------------------------------

type callOutcome struct {
	kind string // ok | err | panic
	v    any
	text string
}

func callGuarded(fn schema.CallableFunction, args []any) (out callOutcome) {
	defer func() {
		if p := recover(); p != nil {
			out = callOutcome{kind: "panic", text: fmt.Sprint(p)}
		}
	}()
	v, err := fn.Call(args)
	if err != nil {
		return callOutcome{kind: "err", text: err.Error()}
	}
	return callOutcome{kind: "ok", v: v}
}

func (o callOutcome) enc() any {
	switch o.kind {
	case "ok":
		return map[string]any{"ok": encB(o.v)}
	case "err":
		return map[string]any{"err": true}
	}
	return map[string]any{"panic": o.text}
}

func sameOutcome(a, b callOutcome) bool {
	if a.kind != b.kind {
		return false
	}
	if a.kind != "ok" {
		return true // error / panic texts are classes, not compared
	}
	return reflect.DeepEqual(encB(a.v), encB(b.v))
}

// typedCheck: is `v` a value of the declared (or dynamically derived) output type?
func typedCheck(fn schema.CallableFunction, argTypes []schema.Type, o callOutcome) (typed bool, detail string) {
	defer func() {
		if p := recover(); p != nil {
			typed, detail = false, fmt.Sprint("panic while checking the output type: ", p)
		}
	}()
	outType, mayErr, err := fn.Output(argTypes)
	if err != nil {
		return false, "Output(argTypes) failed: " + err.Error()
	}
	switch o.kind {
	case "panic":
		return false, "panic"
	case "err":
		if !mayErr {
			return false, "error returned by a function that does not declare one"
		}
		return true, ""
	}
	if outType == nil {
		if o.v != nil {
			return false, "value returned by a void function"
		}
		return true, ""
	}
	_, static := fn.(*schema.CallableFunctionSchema)
	if static && fn.(*schema.CallableFunctionSchema).DynamicTypeHandler == nil {
		if rt := reflect.TypeOf(o.v); rt != outType.ReflectedType() {
			return false, fmt.Sprintf("Go type %v, declared %v", rt, outType.ReflectedType())
		}
		if err := outType.Validate(o.v); err != nil {
			return false, "Validate: " + err.Error()
		}
	}
	if _, err := outType.Unserialize(o.v); err != nil {
		return false, "Unserialize: " + err.Error()
	}
	return true, ""
}

// Go-side laws that need the real formatting / parsing code (not modelled value-exactly in Lean).
func lawCheck(fns map[string]schema.CallableFunction, id string, args []any, o callOutcome) (name string, ok bool, detail string) {
	if o.kind != "ok" {
		return "", true, ""
	}
	switch id {
	case "floatToString":
		x := args[0].(float64)
		back := callGuarded(fns["stringToFloat"], []any{o.v})
		name = "stringToFloat(floatToString(x)) = x (x not NaN); NaN formats as NaN"
		if math.IsNaN(x) {
			return name, o.v == "NaN", fmt.Sprint(o.v)
		}
		if back.kind != "ok" {
			return name, false, "stringToFloat failed on " + fmt.Sprint(o.v)
		}
		return name, math.Float64bits(back.v.(float64)) == math.Float64bits(x), fmt.Sprint(o.v)
	case "floatToFormattedString":
		x := args[0].(float64)
		prec := args[2].(int64)
		f, _ := args[1].(string)
		if prec >= 0 || math.IsNaN(x) || len(f) != 1 || !strings.Contains("beEfgGxX", f) || f == "b" {
			return "", true, ""
		}
		// shortest formatting of every declared verb parses back to the same number
		name = "stringToFloat(floatToFormattedString(x, verb, -1)) = x"
		back := callGuarded(fns["stringToFloat"], []any{o.v})
		if back.kind != "ok" {
			return name, false, "stringToFloat failed on " + fmt.Sprint(o.v)
		}
		return name, math.Float64bits(back.v.(float64)) == math.Float64bits(x), fmt.Sprint(o.v)
	case "stringToFloat":
		// parsing is sign-symmetric and the result is never a NaN unless the text says so
		s := args[0].(string)
		name = "stringToFloat is sign-symmetric"
		if strings.HasPrefix(s, "-") || strings.HasPrefix(s, "+") || s == "" || math.IsNaN(o.v.(float64)) {
			return "", true, "" // "NaN" has no signed spelling
		}
		neg := callGuarded(fns["stringToFloat"], []any{"-" + s})
		if neg.kind != "ok" {
			return name, false, "-" + s + " rejected"
		}
		return name, math.Float64bits(neg.v.(float64)) == math.Float64bits(o.v.(float64))^(1<<63), ""
	case "floatToInt":
		// truncates toward zero, saturates at the int64 limits, is monotonic (checked against the two neighbouring floats)
		x := args[0].(float64)
		got, isInt := o.v.(int64)
		name = "floatToInt truncates toward zero, is monotonic and saturates"
		if !isInt || math.IsNaN(x) {
			return "", true, ""
		}
		limit := math.Ldexp(1, 63)
		switch {
		case x >= limit:
			if got != math.MaxInt64 {
				return name, false, fmt.Sprintf("floatToInt(%v) = %d, expected saturation to %d", x, got, int64(math.MaxInt64))
			}
		case x <= -limit:
			if got != math.MinInt64 {
				return name, false, fmt.Sprintf("floatToInt(%v) = %d, expected saturation to %d", x, got, int64(math.MinInt64))
			}
		default:
			if want := int64(math.Trunc(x)); got != want { // |x| < 2^63: the conversion of the truncated value is exact
				return name, false, fmt.Sprintf("floatToInt(%v) = %d, truncation toward zero gives %d", x, got, want)
			}
		}
		for _, dir := range []float64{math.Inf(-1), math.Inf(1)} {
			y := math.Nextafter(x, dir)
			if y == x {
				continue
			}
			oy := callGuarded(fns["floatToInt"], []any{y})
			gy, ok := oy.v.(int64)
			if oy.kind != "ok" || !ok {
				continue
			}
			if (y < x && gy > got) || (y > x && gy < got) {
				return name, false, fmt.Sprintf("not monotonic: floatToInt(%v) = %d, floatToInt(%v) = %d", y, gy, x, got)
			}
		}
		return name, true, ""
	case "intToFloat":
		// the conversion is the correctly rounded one: |float - int| is at most half an ulp (checked with big arithmetic in the model)
		return "", true, ""
	}
	return "", true, ""
}

func inSchema(params []schema.Type, args []any) (ok bool) {
	defer func() {
		if recover() != nil {
			ok = false
		}
	}()
	for i, p := range params {
		if err := p.Validate(args[i]); err != nil {
			return false
		}
	}
	return true
}

func runCase(fns map[string]schema.CallableFunction, id string, fnID string, args []any, classes []string, argTypes []schema.Type) map[string]any {
	fn := fns[fnID]
	encArgs := make([]any, len(args))
	for i, a := range args {
		encArgs[i] = encB(a)
	}
	o1 := callGuarded(fn, args)
	o2 := callGuarded(fn, args)
	typed, typedErr := typedCheck(fn, argTypes, o1)
	line := map[string]any{
		"kind": "builtin", "id": id, "fn": fnID, "args": encArgs, "arg_class": classes,
		"in_schema": inSchema(fn.Parameters(), args),
		"result":    o1.enc(), "typed": typed, "deterministic": sameOutcome(o1, o2),
		"key": []any{fnID, encArgs},
	}
	if !typed {
		line["typed_err"] = typedErr
	}
	if name, ok, detail := lawCheck(fns, fnID, args, o1); name != "" {
		line["law"] = name
		line["law_ok"] = ok
		if !ok {
			line["law_detail"] = detail
		}
	}
	return line
}

// environment-dependent functions: called for the panic / type / determinism checks with harmless arguments only
func harmlessArgs(r *rng, fnID string, tmpFile string) ([]any, []string) {
	switch fnID {
	case "readFile":
		opts := []struct {
			p, c string
		}{
			{tmpFile, "existing-file"}, {tmpFile + ".missing", "missing-file"}, {"", "empty-path"}, {os.TempDir(), "directory"},
			{"/nonexistent-dir-verif/x", "missing-dir"}, {"a\x00b", "nul-in-path"}, {strings.Repeat("x", 5000), "overlong-name"},
			{"relative-missing-file-verif", "relative-missing"},
		}
		o := opts[r.intn(len(opts))]
		if r.chance(1, 2) {
			o = opts[0] // half of the calls read a file that is there (the only calls that return content)
		}
		return []any{o.p}, []string{"string:" + o.c}
	case "getEnvVar":
		name := r.pick([]string{"VERIF_C18_SET", "VERIF_C18_UNSET", "", "A=B", "é", "a\x00b"})
		def, c, _ := genString(r, nil)
		return []any{name, def}, []string{"string:env-name", "string:" + c}
	}
	return nil, nil
}

var envDependent = map[string]bool{"readFile": true, "getEnvVar": true}

// hazard: may allocate without bound (see file comment)
func hazardous(fnID string, args []any) bool {
	if fnID != "floatToFormattedString" || len(args) != 3 {
		return false
	}
	p, ok := args[2].(int64)
	return ok && p > 5000
}

const childHeapLimit = 1 << 30

func runInChild(id, fnID string, args []any, classes []string) map[string]any {
	encArgs := make([]any, len(args))
	for i, a := range args {
		encArgs[i] = encB(a)
	}
	req, _ := json.Marshal(map[string]any{"id": id, "fn": fnID, "args": encArgs, "arg_class": classes})
	cmd := exec.Command(os.Args[0], "builtins-child")
	cmd.Stdin = bytes.NewReader(req)
	var stdout, stderr bytes.Buffer
	cmd.Stdout = &stdout
	cmd.Stderr = &stderr
	cmd.Env = append(os.Environ(), "GOMEMLIMIT=off")
	done := make(chan error, 1)
	if err := cmd.Start(); err != nil {
		return map[string]any{"kind": "builtin", "id": id, "fn": fnID, "skip": "cannot start child: " + err.Error()}
	}
	go func() { done <- cmd.Wait() }()
	timedOut := false
	select {
	case <-done:
	case <-time.After(60 * time.Second):
		timedOut = true
		_ = cmd.Process.Kill()
		<-done
	}
	var line map[string]any
	if out := bytes.TrimSpace(stdout.Bytes()); len(out) > 0 {
		if json.Unmarshal(out, &line) == nil && line != nil {
			line["child"] = true
			return line
		}
	}
	text := "fatal: child process died without a result"
	if timedOut {
		text = "fatal: no result within 60s (child killed)"
	} else if first := strings.SplitN(strings.TrimSpace(stderr.String()), "\n", 2)[0]; first != "" {
		text = "fatal: " + first
	}
	return map[string]any{"kind": "builtin", "id": id, "fn": fnID, "args": encArgs, "arg_class": classes,
		"in_schema": inSchema(builtinfunctions.GetFunctions()[fnID].Parameters(), args),
		"result":    map[string]any{"panic": text}, "typed": false, "typed_err": "no result", "deterministic": true, "child": true,
		"key": []any{fnID, encArgs}}
}

func cmdBuiltinsChild(_ []string) int {
	raw, _ := io.ReadAll(os.Stdin)
	var req map[string]any
	if err := json.Unmarshal(raw, &req); err != nil {
		fmt.Fprintln(os.Stderr, "bad request:", err)
		return 2
	}
	fns := builtinfunctions.GetFunctions()
	fnID, _ := req["fn"].(string)
	id, _ := req["id"].(string)
	fn, ok := fns[fnID]
	if !ok {
		fmt.Fprintln(os.Stderr, "unknown function", fnID)
		return 2
	}
	var args []any
	encArgs, _ := req["args"].([]any)
	for _, a := range encArgs {
		args = append(args, decB(a))
	}
	var classes []string
	if cs, ok := req["arg_class"].([]any); ok {
		for _, c := range cs {
			classes = append(classes, fmt.Sprint(c))
		}
	}
	w := openOut("-")
	argsInSchema := inSchema(fn.Parameters(), args)
	// heap watchdog: an allocation that grows without bound is reported as a crash of the call instead of taking the
	// machine down
	go func() {
		var ms runtime.MemStats
		for {
			runtime.ReadMemStats(&ms)
			if ms.HeapAlloc > childHeapLimit {
				w.emit(map[string]any{"kind": "builtin", "id": id, "fn": fnID, "args": encArgs, "arg_class": classes, "in_schema": argsInSchema,
					"result": map[string]any{"panic": fmt.Sprintf("fatal: unbounded allocation (heap above %d MiB, still growing); the process would die with 'out of memory'", childHeapLimit>>20)},
					"typed":  false, "typed_err": "no result", "deterministic": true, "key": []any{fnID, encArgs}})
				os.Exit(0)
			}
			time.Sleep(2 * time.Millisecond)
		}
	}()
	line := runCase(fns, id, fnID, args, classes, fn.Parameters())
	// results of this size are not worth shipping
	if b, _ := json.Marshal(line["result"]); len(b) > 1<<16 {
		line["result"] = map[string]any{"ok_large": len(b)}
		line["skip_model"] = "result too large to ship"
	}
	w.emit(line)
	return 0
}

func cmdBuiltins(args []string) int {
	var only string
	var maxHazard int
	c, _ := parseCommon("builtins", args, func(fs *flag.FlagSet) {
		fs.StringVar(&only, "fn", "", "restrict to one function id")
		fs.IntVar(&maxHazard, "hazard", -1, "number of possibly memory-exhausting calls run in a child process (default 4 quick, 16 thorough)")
	})
	if maxHazard < 0 {
		maxHazard = 4
		if c.tier == "thorough" {
			maxHazard = 16
		}
	}
	w := openOut(c.out)
	defer w.close()
	_ = os.Setenv("VERIF_C18_SET", "value-of-the-variable")
	_ = os.Unsetenv("VERIF_C18_UNSET")
	tmp, err := os.CreateTemp("", "verif-c18-*.txt")
	tmpName := ""
	if err == nil {
		_, _ = tmp.WriteString("file content\nsecond line é\n")
		_ = tmp.Close()
		tmpName = tmp.Name()
		defer os.Remove(tmpName)
	}
	fns := builtinfunctions.GetFunctions()
	ids := make([]string, 0, len(fns))
	for id := range fns {
		ids = append(ids, id)
	}
	sort.Strings(ids)
	root := newRng(c.seed)
	hazards := 0
	for _, fnID := range ids {
		r := root.fork()
		if only != "" && only != fnID {
			continue
		}
		fn := fns[fnID]
		if fn.ID() != fnID {
			w.emit(map[string]any{"kind": "harness-error", "error": "function registered as " + fnID + " has ID " + fn.ID()})
		}
		params := fn.Parameters()
		n := c.n
		if envDependent[fnID] {
			n = minInt(n, 24)
		}
		for i := 0; i < n; i++ {
			id := fmt.Sprintf("s%d-%s-%d", c.seed, fnID, i)
			if envDependent[fnID] {
				a, cl := harmlessArgs(r, fnID, tmpName)
				line := runCase(fns, id, fnID, a, cl, params)
				line["skip_model"] = "environment-dependent"
				w.emit(line)
				continue
			}
			callArgs := make([]any, len(params))
			classes := make([]string, len(params))
			argTypes := make([]schema.Type, len(params))
			known := true
			for j, p := range params {
				a, ok := genFor(r, p)
				if !ok {
					known = false
					w.emit(map[string]any{"kind": "harness-error",
						"error": fmt.Sprintf("%s: parameter %d has a schema shape the generator does not know (%T)", fnID, j, p)})
					break
				}
				// sweep: every boundary value of a numeric parameter is used at least once per function and run (the random
				// draw above stays in the stream, so the later cases do not depend on the sweep)
				switch p.TypeID() {
				case schema.TypeIDFloat:
					if i < len(floatBoundary) {
						b := floatBoundary[(i+7*j)%len(floatBoundary)]
						a = genArg{math.Float64frombits(b.bits), "float:" + b.class, p}
					}
				case schema.TypeIDInt:
					if i < len(intBoundary) {
						b := intBoundary[(i+5*j)%len(intBoundary)]
						a = genArg{b.v, "int:" + b.class, p}
					}
				}
				callArgs[j], classes[j], argTypes[j] = a.v, a.class, a.typ
			}
			if !known {
				break
			}
			if hazardous(fnID, callArgs) {
				if hazards >= maxHazard {
					// keep the stream fast: re-draw a small precision
					callArgs[2], classes[2] = int64(r.intn(60))-5, "int:small(redrawn)"
				} else {
					hazards++
					w.emit(runInChild(id, fnID, callArgs, classes))
					continue
				}
			}
			w.emit(runCase(fns, id, fnID, callArgs, classes, argTypes))
		}
	}
	return 0
}

func minInt(a, b int) int {
	if a < b {
		return a
	}
	return b
}

// ---- concurrency leg: `vharness builtins-conc` ---------------------------------------------------------------------------------
//
// "Deterministic" and "a pure function of its arguments" must also hold when the ONE function table of
// builtinfunctions.GetFunctions() is used by several goroutines at the same time (independent steps, outputs and foreach
// items evaluate their expressions on different goroutines).  One case = one function: G goroutines, each with its own
// fixed in-schema argument list, call the function M times while the others do the same; every result must equal the
// result of the same call made alone beforehand.  Argument lists are drawn by the generator of the sequential leg; of a
// few candidates per goroutine the slowest call is kept (longer calls overlap more).  A last group of cases mixes
// DIFFERENT functions on the goroutines.  Under the race-detector build (`-child <race binary>`: one child process per
// case) the data race reports of the child are attached in the format of `racesuite` ({"kind":"race",...}).

type concTarget struct {
	fnID     string
	args     []any
	classes  []string
	expected callOutcome
}

// concDraw draws an in-schema argument list for fnID whose call is deterministic when made alone; ok=false if none was found.
func concDraw(r *rng, fns map[string]schema.CallableFunction, fnID string, tmpFile string) (concTarget, bool) {
	fn := fns[fnID]
	params := fn.Parameters()
	best := concTarget{}
	var bestDur time.Duration = -1
	for try, kept := 0, 0; try < 24 && kept < 5; try++ {
		var args []any
		var classes []string
		if envDependent[fnID] {
			args, classes = harmlessArgs(r, fnID, tmpFile)
		} else {
			args = make([]any, len(params))
			classes = make([]string, len(params))
			known := true
			for j, p := range params {
				a, ok := genFor(r, p)
				if !ok {
					known = false
					break
				}
				args[j], classes[j] = a.v, a.class
			}
			if !known {
				return concTarget{}, false
			}
		}
		if hazardous(fnID, args) || !inSchema(params, args) {
			continue
		}
		t0 := time.Now()
		o1 := callGuarded(fn, args)
		dur := time.Since(t0)
		if o1.kind == "panic" || !sameOutcome(o1, callGuarded(fn, args)) {
			continue // panics and sequential nondeterminism are the sequential leg's business
		}
		kept++
		if dur > bestDur {
			bestDur = dur
			best = concTarget{fnID: fnID, args: args, classes: classes, expected: o1}
		}
	}
	return best, bestDur >= 0
}

func concEncArgs(args []any) []any {
	out := make([]any, len(args))
	for i, a := range args {
		out[i] = encB(a)
	}
	return out
}

func concTrim(v any) any {
	b, _ := json.Marshal(v)
	if len(b) > 600 {
		return string(b[:600]) + fmt.Sprintf("...(%d bytes)", len(b))
	}
	return v
}

// runConcCase: the targets' calls, all at the same time, `iters` times each.
func runConcCase(fns map[string]schema.CallableFunction, id, label string, targets []concTarget, iters int) map[string]any {
	type miss struct {
		goroutine, iteration int
		got                  callOutcome
	}
	// a FRESH function table for the concurrent phase: whatever a function sets up on first use (the expected outcomes were
	// computed on `fns`) is set up while the other goroutines are calling it too, as in the first parallel items of a loop
	fns = builtinfunctions.GetFunctions()
	misses := make([][]miss, len(targets))
	counts := make([]int, len(targets))
	gate := make(chan struct{})
	done := make(chan int, len(targets))
	for g := range targets {
		go func(g int) {
			t := targets[g]
			fn := fns[t.fnID]
			<-gate
			for i := 0; i < iters; i++ {
				o := callGuarded(fn, t.args)
				if !sameOutcome(o, t.expected) {
					counts[g]++
					if len(misses[g]) < 2 {
						misses[g] = append(misses[g], miss{g, i, o})
					}
				}
			}
			done <- g
		}(g)
	}
	t0 := time.Now()
	close(gate)
	for range targets {
		<-done
	}
	gs := []any{}
	total := 0
	var first any
	for g, t := range targets {
		gs = append(gs, map[string]any{"fn": t.fnID, "args": concEncArgs(t.args), "arg_class": t.classes, "alone": concTrim(t.expected.enc()),
			"mismatches": counts[g]})
		total += counts[g]
		if first == nil && len(misses[g]) > 0 {
			m := misses[g][0]
			first = map[string]any{"goroutine": g, "iteration": m.iteration, "fn": t.fnID, "args": concEncArgs(t.args),
				"alone": concTrim(t.expected.enc()), "concurrent": concTrim(m.got.enc())}
		}
	}
	keyArgs := []any{}
	for _, t := range targets {
		keyArgs = append(keyArgs, []any{t.fnID, concEncArgs(t.args)})
	}
	return map[string]any{"kind": "builtin-conc", "id": id, "fn": label, "goroutines": gs, "iterations": iters, "calls": iters * len(targets),
		"mismatches": total, "first_mismatch": first, "wall_ms": time.Since(t0).Milliseconds(), "key": keyArgs}
}

func concChildCase(bin string, c *common, i int, extra []string) []map[string]any {
	id := fmt.Sprintf("conc-%d-%d", c.seed, i)
	args := append([]string{"builtins-conc", "-n", fmt.Sprint(i + 1), "-skip", fmt.Sprint(i), "-seed", fmt.Sprint(c.seed), "-tier", c.tier, "-out", "-"}, extra...)
	cmd := exec.Command(bin, args...)
	env := []string{}
	for _, e := range os.Environ() {
		if !strings.HasPrefix(e, "GORACE=") {
			env = append(env, e)
		}
	}
	cmd.Env = append(env, "GORACE=halt_on_error=0 history_size=7")
	var so, se bytes.Buffer
	cmd.Stdout, cmd.Stderr = &so, &se
	done := make(chan error, 1)
	if err := cmd.Start(); err != nil {
		return []map[string]any{{"kind": "harness-error", "id": id, "error": err.Error()}}
	}
	go func() { done <- cmd.Wait() }()
	var werr error
	select {
	case werr = <-done:
	case <-time.After(5 * time.Minute):
		_ = cmd.Process.Kill()
		werr = fmt.Errorf("child timed out")
		<-done
	}
	out := []map[string]any{}
	var main map[string]any
	for _, line := range strings.Split(so.String(), "\n") {
		var m map[string]any
		if json.Unmarshal([]byte(line), &m) == nil && m["kind"] == "builtin-conc" {
			main = m
		}
	}
	stderr := se.String()
	if main == nil {
		main = map[string]any{"kind": "builtin-conc", "id": id, "crash": rerunCrashSummary(stderr)}
		if werr != nil {
			main["child_exit"] = werr.Error()
		}
	}
	main["child"] = bin
	out = append(out, main)
	if strings.Contains(stderr, "WARNING: DATA RACE") {
		reps := parseRaceReports(stderr)
		if len(reps) > 6 {
			reps = reps[:6]
		}
		for k, rec := range reps {
			rec["id"] = fmt.Sprintf("%s-report-%d", id, k)
			rec["key"] = rec["id"]
			// the concrete input of the report: the calls that were running
			rec["case"] = map[string]any{"id": main["id"], "fn": main["fn"], "goroutines": main["goroutines"], "iterations": main["iterations"]}
			rec["replay_harness"] = append([]string{"builtins-conc", "-n", fmt.Sprint(i + 1), "-skip", fmt.Sprint(i), "-seed", fmt.Sprint(c.seed), "-child", "self"}, extra...)
			out = append(out, rec)
		}
	}
	return out
}

func cmdBuiltinsConc(args []string) int {
	var child string
	var goroutines, iters int
	c, _ := parseCommon("builtins-conc", args, func(fs *flag.FlagSet) {
		fs.StringVar(&child, "child", "", "run every case in a child process of this binary (`self` or the -race build) and attach its race reports")
		fs.IntVar(&goroutines, "g", 8, "goroutines per case")
		fs.IntVar(&iters, "iters", 0, "calls per goroutine (default 3000 quick, 20000 thorough)")
	})
	if iters <= 0 {
		iters = 3000
		if c.tier == "thorough" {
			iters = 20000
		}
	}
	if child == "self" {
		if exe, err := os.Executable(); err == nil {
			child = exe
		}
	}
	w := openOut(c.out)
	defer w.close()
	_ = os.Setenv("VERIF_C18_SET", "value-of-the-variable")
	_ = os.Unsetenv("VERIF_C18_UNSET")
	tmpName := ""
	if tmp, err := os.CreateTemp("", "verif-c18-*.txt"); err == nil {
		_, _ = tmp.WriteString("file content\nsecond line é\n")
		_ = tmp.Close()
		tmpName = tmp.Name()
		defer os.Remove(tmpName)
	}
	fns := builtinfunctions.GetFunctions()
	ids := make([]string, 0, len(fns))
	for id := range fns {
		ids = append(ids, id)
	}
	sort.Strings(ids)
	// case i: rounds over the functions in sorted order; after every full round one case that mixes functions.  -n counts cases.
	per := len(ids) + 1
	root := newRng(c.seed)
	extra := []string{"-g", fmt.Sprint(goroutines), "-iters", fmt.Sprint(iters)}
	for i := 0; i < c.n; i++ {
		r := root.fork()
		if i < c.skip {
			continue
		}
		w.emit(map[string]any{"kind": "begin", "index": i})
		if child != "" {
			for _, l := range concChildCase(child, c, i, extra) {
				w.emit(l)
			}
			continue
		}
		id := fmt.Sprintf("conc-%d-%d", c.seed, i)
		targets := []concTarget{}
		label := "(mixed functions)"
		if k := i % per; k < len(ids) {
			label = ids[k]
			for g := 0; g < goroutines; g++ {
				if t, ok := concDraw(r, fns, ids[k], tmpName); ok {
					targets = append(targets, t)
				}
			}
		} else {
			for g := 0; g < goroutines; g++ {
				if t, ok := concDraw(r, fns, ids[r.intn(len(ids))], tmpName); ok {
					targets = append(targets, t)
				}
			}
		}
		if len(targets) < 2 {
			w.emit(map[string]any{"kind": "builtin-conc", "id": id, "fn": label, "skip": "no two in-schema argument lists with a deterministic sequential result"})
			continue
		}
		w.emit(runConcCase(fns, id, label, targets, iters))
	}
	return 0
}

func init() { register("builtins-conc", cmdBuiltinsConc) }
