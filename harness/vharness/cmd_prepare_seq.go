//go:build verif

package main

import "fmt"

// ---- C10 / C16: sequences of different workflows on ONE executor ---------------------------------------------------------------
//
// C10: "a workflow is accepted only if ... every stage input is type-compatible with the step's schema"; C16: "preparing
// the same workflow text repeatedly gives the same verdict and ... the same dependency graph, output schemas and
// namespaces".  Both speak about the workflow TEXT: what an executor prepared before is not part of it.  A sequence is
// 2-4 DIFFERENT generated workflows over the same names - the same step ids (s0, s1, ...; `op` in one workflow, `opns` in
// another), the same input field names with DIFFERENT types (`$.input.a` is an int in one workflow, a string or a bool in
// the next, fed into the typed plugin fields i / s / b) - some of them ill-typed (expr-type, lit-type) or dangling,
// prepared one after another on ONE workflow.Executor.  Every element is a full prepare case: its first preparation is the
// one on the shared executor (compared with the Lean model and subject to the must-reject oracle), its repetitions run
// on fresh executors and must agree with it (verdict, DAG, output schemas, namespaces).

// plan (optional) fixes the length of the sequence and the corruption mode of every element ("" = random).
func runPrepareSeq(r *rng, seqID string, tier string, plan []string) []map[string]any {
	n := 2 + r.intn(3)
	if plan != nil {
		n = len(plan)
	}
	types := []string{"int", "string", "bool"}
	off := r.intn(3)
	stride := 1 + r.intn(2)
	cases := make([]*prepCase, n)
	texts := make([]string, n)
	modes := make([]string, n)
	loopSeq := plan == nil && r.chance(1, 2) // every element has loop steps over the sub-workflow files
	for k := 0; k < n; k++ {
		g := prepGen{tier: "quick", seq: true, typed: types[(off+k*stride)%3], hidden: -1}
		if loopSeq {
			g.forceShape = "loops:" + r.pick([]string{"different", "equal", "mixed"})
			g.forceMode = "none"
		}
		if tier == "thorough" && r.chance(1, 2) {
			g.tier = tier
		}
		if k == 0 && r.chance(2, 3) {
			g.forceMode = "none" // most sequences start with a workflow that is accepted
		}
		if plan != nil {
			g.forceMode = plan[k]
		}
		cases[k] = genPrepareCase(r.fork(), g)
		texts[k] = cases[k].text
		modes[k] = cases[k].mode
	}
	// the same sub-workflow file NAME with another content in a later element: sub_a.yaml gets the text of sub_c.yaml
	// (same required input, one more optional input, more output fields), so loops over sub_a.yaml stay valid and are typed
	// by the text this element's context has, not by what the executor loaded under that name before
	for k := 1; k < n; k++ {
		uses := false
		for _, s := range cases[k].wf.Steps {
			if s.Kind == "foreach" && s.Workflow == "sub_a.yaml" {
				uses = true
			}
		}
		if !uses || len(cases[k].files) == 0 || !r.chance(2, 3) {
			continue
		}
		files := map[string][]byte{}
		for f, t := range cases[k].files {
			files[f] = t
		}
		files["sub_a.yaml"] = []byte(subSpecByFile("sub_c.yaml").Text)
		cases[k].files = files
		for j := range cases[k].loops {
			if cases[k].loops[j].File == "sub_a.yaml" {
				cases[k].loops[j].Fields = append([]string{}, subSpecByFile("sub_c.yaml").OutFields...)
			}
		}
		cases[k].shapes = append(cases[k].shapes, "seq:same-file-name-other-content")
	}
	ps, err := newPrepSession()
	if err != nil {
		return []map[string]any{{"kind": "harness-error", "id": seqID, "error": err.Error()}}
	}
	filesPer := make([]map[string][]byte, n)
	for k := 0; k < n; k++ {
		filesPer[k] = cases[k].files
	}
	out := []map[string]any{}
	for k := 0; k < n; k++ {
		out = append(out, execPrepareCase(cases[k], fmt.Sprintf("%s-q%d", seqID, k), r.fork(), ps,
			&seqInfo{id: seqID, index: k, texts: texts, modes: modes, files: filesPer}))
	}
	return out
}
