//go:build verif

package main

import (
	"encoding/json"
	"flag"
	"fmt"
	"os"
	"reflect"
	"regexp"
	"runtime/debug"
	"sort"
	"strings"

	"go.flow.arcalot.io/engine/internal/step"
	"go.flow.arcalot.io/engine/workflow"
	"go.flow.arcalot.io/pluginsdk/schema"
)

func init() { register("prepare", cmdPrepare) }

// ---- C10 / C16: preparation differential -----------------------------------------------------------------------------------
//
// Every case is a generated workflow (abstract form `wf` + rendered text `yaml`), optionally with ONE corruption applied to
// the abstract form, prepared by the REAL executor.  `arcadrv prepare` runs Arca.Model.prepare on `wf` and compares verdict
// class and the DAG.  For C16 every text is prepared several times (Go map order is random), and accepted uncorrupted
// workflows are additionally rendered with permuted steps / map keys / outputs and with consistently renamed steps.
//
// Shapes beyond the shared generator (cmd_prepare_shapes.go): expressions with several references next to another reference
// of the same node to the same producer, differently tagged fields on one source in one object, optional expressions with
// several sources, 2-3 loop steps over different and equal sub-workflow files (with the expectation which sub-workflow
// types which output: `loop_types`), a typed workflow input; corruptions `backedge-hidden` and `expr-type`.  The first
// cases of every run are one targeted case per shape (prepTargetedCases).  Sequences of different workflows on ONE
// executor: cmd_prepare_seq.go (`seq`, `seq_texts`, `seq_diff`, `seq_shared`, `seq_fresh`).

const subWorkflowFile = "sub.yaml"

const subWorkflowText = `version: v0.2.0
input:
  root: SubRoot
  objects:
    SubRoot:
      id: SubRoot
      properties:
        name:
          type: {type_id: string}
          required: true
steps:
  inner:
    plugin: {src: "inner", deployment_type: "builtin"}
    step: op
    input: {s: !expr $.input.name}
outputs:
  success:
    r: !expr $.steps.inner.outputs.success.s
`

// ---- traversal helpers over abstract input data ---------------------------------------------------------------------------

func isRefLeaf(a AIn) bool { return a.K == "expr" || a.K == "optional" || a.K == "ordisabled" }

// rewriteAIn applies f to every reference leaf (pre-order, keys in recorded order); f returns the replacement.
func rewriteAIn(a AIn, f func(AIn) AIn) AIn {
	switch a.K {
	case "expr", "optional", "ordisabled":
		return f(a)
	case "list":
		out := a
		out.List = make([]AIn, len(a.List))
		for i, x := range a.List {
			out.List[i] = rewriteAIn(x, f)
		}
		return out
	case "map", "oneof":
		out := a
		out.Map = map[string]AIn{}
		out.Keys = append([]string{}, a.Keys...)
		for _, k := range a.Keys {
			out.Map[k] = rewriteAIn(a.Map[k], f)
		}
		return out
	}
	return a
}

func cloneWf(w *AWf) *AWf {
	id := func(a AIn) AIn { return a }
	c := &AWf{InputFields: append([]AField{}, w.InputFields...), OutputIDs: append([]string{}, w.OutputIDs...),
		Outputs: map[string]AIn{}}
	for _, s := range w.Steps {
		ns := s
		ns.Fields = map[string]AIn{}
		for k, v := range s.Fields {
			ns.Fields[k] = rewriteAIn(v, id)
		}
		c.Steps = append(c.Steps, ns)
	}
	for k, v := range w.Outputs {
		c.Outputs[k] = rewriteAIn(v, id)
	}
	return c
}

// rewriteWf applies f to every reference leaf of the workflow in a fixed order (steps in order, fields sorted, outputs
// in id order).
func rewriteWf(w *AWf, f func(AIn) AIn) {
	for i := range w.Steps {
		for _, k := range sortedKeys(w.Steps[i].Fields) {
			w.Steps[i].Fields[k] = rewriteAIn(w.Steps[i].Fields[k], f)
		}
	}
	for _, o := range w.OutputIDs {
		w.Outputs[o] = rewriteAIn(w.Outputs[o], f)
	}
}

// rewriteNth rewrites the n-th (0-based) reference leaf accepted by `want`; returns false if there are not that many.
func rewriteNth(w *AWf, want func(AIn) bool, n int, f func(AIn) AIn) bool {
	i := 0
	done := false
	rewriteWf(w, func(a AIn) AIn {
		if !want(a) {
			return a
		}
		if i == n && !done {
			done = true
			i++
			return f(a)
		}
		i++
		return a
	})
	return done
}

func countLeaves(w *AWf, want func(AIn) bool) int {
	n := 0
	rewriteWf(w, func(a AIn) AIn {
		if want(a) {
			n++
		}
		return a
	})
	return n
}

var stepRefRe = regexp.MustCompile(`^\$\.steps\.([A-Za-z0-9_-]+)((?:\.[A-Za-z0-9_-]+)*)$`)

// refParts splits `$.steps.S.G.O.f` into [S G O f]; nil if it is not a plain step reference.
func refParts(src string) []string {
	m := stepRefRe.FindStringSubmatch(src)
	if m == nil {
		return nil
	}
	parts := []string{m[1]}
	if m[2] != "" {
		parts = append(parts, strings.Split(m[2][1:], ".")...)
	}
	return parts
}

func joinRef(parts []string) string { return "$.steps." + strings.Join(parts, ".") }

// ---- corruptions --------------------------------------------------------------------------------------------------------------

var corruptionModes = []string{
	"none", "none", "none", "none", "none", "none",
	"backedge", "backedge", "selfloop",
	"rename-step", "rename-step",
	"bad-stage", "nooutput-stage",
	"bad-output", "bad-output",
	"bad-input-field", "bad-input-field",
	"bad-field",
	"lit-type", "lit-type",
	"missing-plugin", "missing-step", "missing-input",
	"short-ref", "root-ref", "self-stage-ref", "collision", "unknown-root", "self-enabling-ref",
	"expr-type", "expr-type", "backedge-hidden", "backedge-hidden",
}

// mustReject: corruption classes after which an accepted workflow is a violation of C10.
var mustReject = map[string]bool{
	"backedge": true, "selfloop": true, "rename-step": true, "bad-stage": true, "nooutput-stage": true, "bad-output": true,
	"bad-input-field": true, "bad-field": true, "lit-type": true, "missing-plugin": true, "missing-input": true,
	"short-ref": true, "root-ref": true, "self-stage-ref": true, "unknown-root": true,
	"expr-type": true, "backedge-hidden": true,
}

func pluginStepIdx(w *AWf, r *rng) int {
	idx := []int{}
	for i, s := range w.Steps {
		if s.Kind == "plugin" {
			idx = append(idx, i)
		}
	}
	if len(idx) == 0 {
		return -1
	}
	return idx[r.intn(len(idx))]
}

func inputMap(s *AStep) AIn {
	in, ok := s.Fields["input"]
	if !ok || in.K != "map" {
		in = AIn{K: "map"}
	}
	return rewriteAIn(in, func(a AIn) AIn { return a })
}

// corrupt applies one corruption of the given mode; returns the mode actually applied ("none" when not applicable) and
// a detail string.
func corrupt(w *AWf, mode string, r *rng) (string, string) {
	isStepRef := func(minParts int) func(AIn) bool {
		return func(a AIn) bool { p := refParts(a.Src); return p != nil && len(p) >= minParts }
	}
	editRef := func(minParts int, edit func(parts []string) []string) (bool, string) {
		n := countLeaves(w, isStepRef(minParts))
		if n == 0 {
			return false, ""
		}
		detail := ""
		ok := rewriteNth(w, isStepRef(minParts), r.intn(n), func(a AIn) AIn {
			na := a
			na.Src = joinRef(edit(refParts(a.Src)))
			detail = a.Src + " -> " + na.Src
			return na
		})
		return ok, detail
	}
	switch mode {
	case "none":
		return "none", ""
	case "backedge":
		// a later step j is made to depend on an earlier step i, and i on j
		var plug []int
		for i, s := range w.Steps {
			if s.Kind == "plugin" {
				plug = append(plug, i)
			}
		}
		if len(plug) < 2 {
			return corrupt(w, "selfloop", r)
		}
		a := r.intn(len(plug) - 1)
		b := a + 1 + r.intn(len(plug)-a-1)
		i, j := plug[a], plug[b]
		inj := inputMap(&w.Steps[j])
		inj.put("s", expr(fmt.Sprintf("$.steps.%s.outputs.success.s", w.Steps[i].ID)))
		w.Steps[j].Fields["input"] = inj
		back := fmt.Sprintf("$.steps.%s.outputs", w.Steps[j].ID)
		variant := r.intn(6)
		if variant == 2 && w.Steps[i].PlugStep != "op" {
			variant = 0
		}
		switch variant {
		case 0:
			ini := inputMap(&w.Steps[i])
			ini.put("s", expr(back+".success.s"))
			w.Steps[i].Fields["input"] = ini
			return "backedge", "input"
		case 1:
			w.Steps[i].Fields["wait_for"] = expr(back)
			return "backedge", "wait_for"
		case 2:
			w.Steps[i].Fields["stop_if"] = expr(back + ".success.b")
			return "backedge", "stop_if"
		case 3:
			w.Steps[i].Fields["enabled"] = expr(back + ".success.b")
			return "backedge", "enabled"
		case 4:
			ini := inputMap(&w.Steps[i])
			ini.put("s", AIn{K: "optional", Wait: r.chance(1, 2), Src: back + ".success.s"})
			w.Steps[i].Fields["input"] = ini
			return "backedge", "optional"
		default:
			w.Steps[i].Fields["wait_for"] = expr(fmt.Sprintf("$.steps.%s.starting.started", w.Steps[j].ID))
			return "backedge", "wait_for-started"
		}
	case "backedge-hidden":
		// the back-edge is a later reference of a multi-reference expression (cmd_prepare_shapes.go)
		if d, ok := hiddenBackedge(w, r, hiddenVariant); ok {
			return mode, d
		}
		return corrupt(w, "backedge", r)
	case "expr-type":
		if d, ok := exprTypeCorruption(w, r); ok {
			return mode, d
		}
		return "none", ""
	case "selfloop":
		i := pluginStepIdx(w, r)
		if i < 0 {
			return "none", ""
		}
		self := fmt.Sprintf("$.steps.%s.outputs", w.Steps[i].ID)
		if r.chance(1, 2) {
			ini := inputMap(&w.Steps[i])
			ini.put("s", expr(self+".success.s"))
			w.Steps[i].Fields["input"] = ini
			return "selfloop", "input"
		}
		w.Steps[i].Fields["wait_for"] = expr(self)
		return "selfloop", "wait_for"
	case "rename-step":
		ok, d := editRef(1, func(p []string) []string { p[0] = "ghost"; return p })
		if !ok {
			return "none", ""
		}
		return mode, d
	case "bad-stage":
		ok, d := editRef(2, func(p []string) []string { p[1] = "nostage"; return p })
		if !ok {
			return "none", ""
		}
		return mode, d
	case "nooutput-stage":
		// an existing stage that declares no outputs: the node exists in the DAG but not in the data model
		ok, d := editRef(2, func(p []string) []string {
			return []string{p[0], []string{"deploy", "running", "cancelled"}[r.intn(3)]}
		})
		if !ok {
			return "none", ""
		}
		return mode, d
	case "bad-output":
		ok, d := editRef(3, func(p []string) []string { p[2] = "nooutput"; return p })
		if !ok {
			return "none", ""
		}
		return mode, d
	case "bad-field":
		ok, d := editRef(3, func(p []string) []string { return append(p[:3:3], "zzz") })
		if !ok {
			return "none", ""
		}
		return mode, d
	case "bad-input-field":
		isIn := func(a AIn) bool { return strings.HasPrefix(a.Src, "$.input.") }
		n := countLeaves(w, isIn)
		if n > 0 && r.chance(1, 2) {
			rewriteNth(w, isIn, r.intn(n), func(a AIn) AIn { a.Src = "$.input.ghost"; return a })
			return mode, "replaced"
		}
		i := pluginStepIdx(w, r)
		if i < 0 {
			return "none", ""
		}
		ini := inputMap(&w.Steps[i])
		ini.put("s", expr("$.input.ghost"))
		w.Steps[i].Fields["input"] = ini
		return mode, "added"
	case "lit-type":
		i := pluginStepIdx(w, r)
		if i < 0 {
			return "none", ""
		}
		ini := inputMap(&w.Steps[i])
		switch r.intn(5) {
		case 0:
			ini.put("i", lit("abc"))
			w.Steps[i].Fields["input"] = ini
			return mode, "i:abc"
		case 1:
			ini.put("b", lit("maybe"))
			w.Steps[i].Fields["input"] = ini
			return mode, "b:maybe"
		case 2:
			ini.put("l", lit("notalist"))
			w.Steps[i].Fields["input"] = ini
			return mode, "l:scalar"
		case 3:
			w.Steps[i].Fields["enabled"] = lit("perhaps")
			return mode, "enabled:perhaps"
		default:
			w.Steps[i].Fields["input"] = lit("notamap")
			return mode, "input:scalar"
		}
	case "missing-input":
		i := pluginStepIdx(w, r)
		if i < 0 {
			return "none", ""
		}
		delete(w.Steps[i].Fields, "input")
		return mode, w.Steps[i].ID
	case "missing-plugin", "missing-step":
		i := pluginStepIdx(w, r)
		if i < 0 {
			return "none", ""
		}
		return mode, w.Steps[i].ID // applied to the text, see dropLine
	case "short-ref":
		ok, d := editRef(1, func(p []string) []string { return p[:1] })
		if !ok {
			return "none", ""
		}
		return mode, d
	case "root-ref":
		i := pluginStepIdx(w, r)
		if i < 0 {
			return "none", ""
		}
		w.Steps[i].Fields["wait_for"] = expr("$")
		return mode, w.Steps[i].ID
	case "unknown-root":
		n := countLeaves(w, isStepRef(1))
		if n == 0 {
			return "none", ""
		}
		rewriteNth(w, isStepRef(1), r.intn(n), func(a AIn) AIn { a.Src = "$.stepz.s0.outputs"; return a })
		return mode, ""
	case "self-stage-ref":
		i := pluginStepIdx(w, r)
		if i < 0 {
			return "none", ""
		}
		w.Steps[i].Fields["wait_for"] = expr(fmt.Sprintf("$.steps.%s.starting", w.Steps[i].ID))
		return mode, w.Steps[i].ID
	case "self-enabling-ref":
		// a reference to the step's own `enabling` stage duplicates a lifecycle connection: tolerated when the lifecycle
		// edge is connected first (plugin: accepted), an error when it is connected second (foreach: "bug: cannot connect")
		i := r.intn(len(w.Steps))
		w.Steps[i].Fields["wait_for"] = expr(fmt.Sprintf("$.steps.%s.enabling", w.Steps[i].ID))
		return mode, w.Steps[i].Kind
	case "collision":
		// two tagged values at the same path of two input fields of one stage: both group nodes get the same id
		if len(w.Steps) < 2 {
			return "none", ""
		}
		j := 1 + r.intn(len(w.Steps)-1)
		if w.Steps[j].Kind != "plugin" {
			return "none", ""
		}
		ref := fmt.Sprintf("$.steps.%s.outputs.success", w.Steps[0].ID)
		w.Steps[j].Fields["wait_for"] = AIn{K: "optional", Wait: true, Src: ref}
		w.Steps[j].Fields["closure_wait_timeout"] = AIn{K: "optional", Wait: false, Src: ref + ".i"}
		return mode, w.Steps[j].ID
	}
	return "none", ""
}

// dropLine removes the `plugin:` or `step:` line of the given step from the rendered text.
func dropLine(text, stepID, key string) string {
	lines := strings.Split(text, "\n")
	out := []string{}
	in := false
	for _, l := range lines {
		if strings.HasPrefix(l, "  ") && !strings.HasPrefix(l, "   ") {
			in = l == "  "+stepID+":"
		}
		if in && strings.HasPrefix(l, "    "+key+":") {
			in = false
			continue
		}
		out = append(out, l)
	}
	return strings.Join(out, "\n")
}

// ---- error classes ----------------------------------------------------------------------------------------------------------

var noPropRe = regexp.MustCompile(`object (\S+) does not have a property named`)

// classifyPrepareErr derives a small enum from the error of FromYAML / Prepare; messages are never compared.
func classifyPrepareErr(err error, stepIDs map[string]bool) string {
	if err == nil {
		return ""
	}
	msg := err.Error()
	switch {
	case strings.Contains(msg, "your workflow has a cycle"):
		return "cycle"
	case strings.Contains(msg, "does not have a property named"):
		m := noPropRe.FindStringSubmatch(msg)
		obj := ""
		if m != nil {
			obj = m[1]
		}
		if obj == "workflow" || obj == "steps" || obj == "RootObject" || stepIDs[obj] || strings.HasPrefix(obj, "steps.") {
			return "dangling"
		}
		return "type" // a field of a typed step output
	case strings.Contains(msg, "unable to parse expression in !ordisabled"):
		return "yaml"
	case strings.Contains(msg, "invalid dependency"), strings.Contains(msg, "failed to find depending node"):
		return "dangling"
	case strings.Contains(msg, "failed to connect DAG node"), strings.Contains(msg, "cannot connect nodes"):
		return "connect"
	case strings.Contains(msg, "already exists"):
		return "collision"
	case strings.Contains(msg, "for binary operation"), strings.Contains(msg, "types do not match for binary expression"):
		return "type" // an operator applied to operands of the wrong / of different types
	case strings.Contains(msg, "input validation failed"), strings.Contains(msg, "required input"),
		strings.Contains(msg, "cannot evaluate expression identifier"), strings.Contains(msg, "unable to infer output schema"),
		strings.Contains(msg, "cannot read/infer workflow output schema"):
		return "type"
	case strings.Contains(msg, "invalid step configuration"), strings.Contains(msg, "failed to load schema"),
		strings.Contains(msg, "is invalid ("):
		return "schema"
	default:
		return "other"
	}
}

// ---- canonical renderings ---------------------------------------------------------------------------------------------------

var inferredIDRe = regexp.MustCompile(`inferred_schema_[a-z0-9]{32}`)

func maskIDs(s string) string { return inferredIDRe.ReplaceAllString(s, "inferred_schema_X") }

// typeSig renders a schema type as plain data: property names, type ids, required flags, object ids (masked).
func typeSig(t schema.Type, depth int) any {
	if t == nil || (reflect.ValueOf(t).Kind() == reflect.Ptr && reflect.ValueOf(t).IsNil()) {
		return nil
	}
	if depth > 10 {
		return "..."
	}
	switch t.TypeID() {
	case schema.TypeIDScope:
		sc := t.(schema.Scope)
		return map[string]any{"scope": maskIDs(sc.Root()), "root": typeSig(sc.RootObject(), depth+1)}
	case schema.TypeIDObject:
		o := t.(schema.Object)
		props := map[string]any{}
		for k, p := range o.Properties() {
			props[k] = map[string]any{"t": typeSig(p.Type(), depth+1), "req": p.Required()}
		}
		return map[string]any{"object": maskIDs(o.ID()), "props": props}
	case schema.TypeIDRef:
		rf := t.(schema.Ref)
		var obj any
		func() {
			defer func() { _ = recover() }()
			obj = typeSig(rf.GetObject(), depth+1)
		}()
		return map[string]any{"ref": maskIDs(rf.ID()), "ns": rf.Namespace(), "to": obj}
	case schema.TypeIDList:
		return map[string]any{"list": typeSig(t.(schema.UntypedList).Items(), depth+1)}
	case schema.TypeIDMap:
		m := t.(schema.UntypedMap)
		return map[string]any{"map": []any{typeSig(m.Keys(), depth+1), typeSig(m.Values(), depth+1)}}
	case schema.TypeIDOneOfString:
		o := t.(schema.OneOf[string])
		opts := map[string]any{}
		for k, v := range o.Types() {
			opts[k] = typeSig(v, depth+1)
		}
		return map[string]any{"oneof": o.DiscriminatorFieldName(), "opts": opts}
	default:
		return string(t.TypeID())
	}
}

func outputSchemaSig(p workflow.ExecutableWorkflow) any {
	out := map[string]any{}
	for id, s := range p.OutputSchema() {
		out[id] = map[string]any{"error": s.Error(), "schema": typeSig(s.Schema(), 0)}
	}
	return out
}

func namespacesSig(p workflow.ExecutableWorkflow) any {
	out := map[string]any{}
	for ns, objs := range p.Namespaces() {
		ids := []string{}
		for id := range objs {
			ids = append(ids, maskIDs(id))
		}
		sort.Strings(ids)
		out[ns] = ids
	}
	return out
}

// canonDump re-sorts a DAG dump (after ids may have been renamed) and renders it as JSON text.
func canonDump(d any) string {
	b, _ := json.Marshal(d)
	var g map[string]any
	_ = json.Unmarshal(b, &g)
	if nodes, ok := g["nodes"].([]any); ok {
		for _, n := range nodes {
			if nm, ok := n.(map[string]any); ok {
				if out, ok := nm["out"].([]any); ok {
					sort.Slice(out, func(i, j int) bool { return fmt.Sprint(out[i]) < fmt.Sprint(out[j]) })
				}
			}
		}
		sort.Slice(nodes, func(i, j int) bool {
			return nodes[i].(map[string]any)["id"].(string) < nodes[j].(map[string]any)["id"].(string)
		})
	}
	if edges, ok := g["edges"].([]any); ok {
		sort.Slice(edges, func(i, j int) bool { return fmt.Sprint(edges[i]) < fmt.Sprint(edges[j]) })
	}
	b, _ = json.Marshal(g)
	return string(b)
}

type prepResult struct {
	Verdict  string
	Err      string
	ErrClass string
	Panic    string
	Dag      map[string]any
	Transl   bool
	DagSig   string
	Schemas  string
	NS       string
}

func (p prepResult) sigDiff(q prepResult) string {
	switch {
	case p.Verdict != q.Verdict:
		return "verdict"
	case p.Verdict != "accepted":
		return ""
	case p.DagSig != q.DagSig:
		return "dag"
	case p.Schemas != q.Schemas:
		return "schema"
	case p.NS != q.NS:
		return "namespaces"
	}
	return ""
}

// prepSession is ONE executor (with its registry) on which several workflows are prepared one after another.
type prepSession struct {
	reg step.Registry
	f   *wfFactory
	ex  workflow.Executor
}

func newPrepSession() (*prepSession, error) {
	reg, f, err := newRegistry(nil)
	if err != nil {
		return nil, err
	}
	ex, err := f.exec(quietLogger())
	if err != nil {
		return nil, err
	}
	return &prepSession{reg: reg, f: f, ex: ex}, nil
}

func (ps *prepSession) prepare(text string, files map[string][]byte) (workflow.ExecutableWorkflow, error) {
	wf, err := workflow.NewYAMLConverter(ps.reg).FromYAML([]byte(text))
	if err != nil {
		return nil, err
	}
	if files == nil {
		files = map[string][]byte{}
	}
	return ps.ex.Prepare(wf, files)
}

// realPrepare runs FromYAML + Prepare of the real engine under recover, on a fresh executor.
func realPrepare(text string, files map[string][]byte, stepIDs map[string]bool, back func(string) string) prepResult {
	return realPrepareOn(nil, text, files, stepIDs, back)
}

// realPrepareOn: ps == nil = a fresh registry and executor for this one preparation; otherwise the executor of ps.
func realPrepareOn(ps *prepSession, text string, files map[string][]byte, stepIDs map[string]bool, back func(string) string) (res prepResult) {
	s := newScript()
	currentScript.Store(s)
	defer func() {
		s.probe.Store(false)
		if r := recover(); r != nil {
			res = prepResult{Verdict: "panic", Panic: fmt.Sprintf("%v\n%s", r, debug.Stack()), ErrClass: "panic"}
			res.Err = firstLine(res.Panic)
		}
	}()
	if ps == nil {
		var err error
		ps, err = newPrepSession()
		if err != nil {
			return prepResult{Verdict: "harness-error", Err: err.Error()}
		}
	}
	s.probe.Store(true)
	prepared, err := ps.prepare(text, files)
	s.probe.Store(false)
	if err != nil {
		return prepResult{Verdict: "rejected", Err: err.Error(), ErrClass: classifyPrepareErr(err, stepIDs)}
	}
	dag, _ := dumpDAG(prepared.DAG())
	// expressions with operators: same parser as on the generator side
	_, transl := fixExprs(dag["items"])
	res = prepResult{Verdict: "accepted", Dag: dag, Transl: transl}
	ds := canonDump(dag)
	sb, _ := json.Marshal(outputSchemaSig(prepared))
	nb, _ := json.Marshal(namespacesSig(prepared))
	res.DagSig, res.Schemas, res.NS = ds, string(sb), string(nb)
	if back != nil {
		var g any
		_ = json.Unmarshal([]byte(back(ds)), &g)
		res.DagSig = canonDump(g)
		res.Schemas = back(res.Schemas)
		var nsm map[string]any
		_ = json.Unmarshal([]byte(back(res.NS)), &nsm)
		nb, _ = json.Marshal(nsm)
		res.NS = string(nb)
	}
	return res
}

// renameWf renames step ids by an injective map, consistently in ids, plugin sources and expression texts.
func renameWf(w *AWf, m map[string]string) *AWf {
	c := cloneWf(w)
	re := regexp.MustCompile(`steps\.([A-Za-z0-9_-]+)`)
	ren := func(a AIn) AIn {
		a.Src = re.ReplaceAllStringFunc(a.Src, func(s string) string {
			id := strings.TrimPrefix(s, "steps.")
			if n, ok := m[id]; ok {
				return "steps." + n
			}
			return s
		})
		return a
	}
	for i := range c.Steps {
		if n, ok := m[c.Steps[i].ID]; ok {
			if c.Steps[i].Src == c.Steps[i].ID {
				c.Steps[i].Src = n
			}
			c.Steps[i].ID = n
		}
	}
	rewriteWf(c, ren)
	return c
}

func addForeach(w *AWf, r *rng) {
	n := len(w.Steps)
	id := fmt.Sprintf("fe%d", n)
	items := AIn{K: "list"}
	k := 1 + r.intn(2)
	for x := 0; x < k; x++ {
		switch r.intn(3) {
		case 0:
			items.List = append(items.List, amap("name", lit(fmt.Sprintf("item%d", x))))
		case 1:
			items.List = append(items.List, amap("name", expr("$.input.name")))
		default:
			items.List = append(items.List, amap("name", expr(fmt.Sprintf("$.steps.%s.outputs.success.s", w.Steps[r.intn(n)].ID))))
		}
	}
	s := AStep{ID: id, Kind: "foreach", Workflow: subWorkflowFile, Fields: map[string]AIn{"items": items}}
	if r.chance(1, 3) {
		s.Fields["parallelism"] = lit(fmt.Sprintf("%d", 1+r.intn(3)))
	}
	if r.chance(1, 3) {
		s.Fields["wait_for"] = expr(fmt.Sprintf("$.steps.%s.outputs", w.Steps[r.intn(n)].ID))
	}
	if r.chance(1, 4) {
		for _, f := range w.InputFields {
			if f.Name == "flag" {
				s.Fields["enabled"] = expr("$.input.flag")
			}
		}
	}
	w.Steps = append(w.Steps, s)
	// reference the loop from an output
	succ := w.Outputs["success"]
	switch r.intn(3) {
	case 0:
		succ.put("loop", expr(fmt.Sprintf("$.steps.%s.outputs.success.data", id)))
	case 1:
		succ.put("loop", AIn{K: "optional", Wait: true, Src: fmt.Sprintf("$.steps.%s.outputs.success.data", id)})
	default:
		if _, ok := w.Outputs["failure"]; !ok {
			w.OutputIDs = append(w.OutputIDs, "failure")
			w.Outputs["failure"] = amap("e", expr(fmt.Sprintf("$.steps.%s.failed.error", id)))
		} else {
			succ.put("loop", expr(fmt.Sprintf("$.steps.%s.outputs.success", id)))
		}
	}
	w.Outputs["success"] = succ
}

// enrich adds nested tagged values (lists, maps, a oneof inside a oneof option) so that group-node paths with list
// indexes, nested keys and the path reset below an option node are exercised.
func enrich(w *AWf, r *rng) {
	n := len(w.Steps)
	ref := func() string { return fmt.Sprintf("$.steps.%s.outputs.success", w.Steps[r.intn(n)].ID) }
	oneof := func(depth int) AIn {
		one := AIn{K: "oneof", Disc: "d", Map: map[string]AIn{}}
		one.put("p", amap("v", expr(ref()+".s")))
		if depth > 0 && r.chance(1, 2) {
			inner := AIn{K: "oneof", Disc: "e", Map: map[string]AIn{}}
			inner.put("x", amap("w", expr(ref()+".i")))
			inner.put("y", amap("w", AIn{K: "optional", Wait: r.chance(1, 2), Src: ref() + ".i"}))
			one.put("q", amap("v", lit("const"), "n", inner))
		} else {
			one.put("q", amap("v", expr("$.input.name")))
		}
		return one
	}
	if r.chance(1, 2) {
		// a nested structure in the success output
		succ := w.Outputs["success"]
		deep := AIn{K: "list"}
		k := 1 + r.intn(3)
		for x := 0; x < k; x++ {
			switch r.intn(4) {
			case 0:
				deep.List = append(deep.List, amap("a", AIn{K: "optional", Wait: r.chance(1, 2), Src: ref() + ".s"}))
			case 1:
				deep.List = append(deep.List, amap("a", expr(ref()+".s")))
			case 2:
				deep.List = append(deep.List, amap("a", lit("c"), "o", oneof(1)))
			default:
				deep.List = append(deep.List, amap("a", lit("c")))
			}
		}
		succ.put("extra", amap("deep", deep))
		w.Outputs["success"] = succ
	}
	if n > 1 && r.chance(1, 3) {
		// tagged values inside the (untyped) wait_for of a later step
		j := 1 + r.intn(n-1)
		if w.Steps[j].Kind == "plugin" {
			prev := func() string { return fmt.Sprintf("$.steps.%s.outputs", w.Steps[r.intn(j)].ID) }
			wf := AIn{K: "map"}
			wf.put("a", AIn{K: "optional", Wait: r.chance(1, 2), Src: prev()})
			l := AIn{K: "list", List: []AIn{expr(prev() + ".success.s"), lit("x")}}
			if r.chance(1, 2) {
				one := AIn{K: "oneof", Disc: "d", Map: map[string]AIn{}}
				one.put("p", amap("v", expr(prev()+".success.s")))
				one.put("q", amap("v", expr(prev()+".error.reason")))
				wf.put("c", one)
			}
			wf.put("b", l)
			w.Steps[j].Fields["wait_for"] = wf
		}
	}
}

// usesTags reports which tagged constructs the workflow contains.
func usesTags(w *AWf) map[string]int {
	out := map[string]int{}
	var walk func(a AIn)
	walk = func(a AIn) {
		switch a.K {
		case "optional":
			if a.Wait {
				out["wait-optional"]++
			} else {
				out["soft-optional"]++
			}
		case "ordisabled":
			out["ordisabled"]++
		case "oneof":
			out["oneof"]++
			for _, k := range a.Keys {
				walk(a.Map[k])
			}
		case "map":
			for _, k := range a.Keys {
				walk(a.Map[k])
			}
		case "list":
			for _, x := range a.List {
				walk(x)
			}
		}
	}
	for _, s := range w.Steps {
		for _, f := range s.Fields {
			walk(f)
		}
	}
	for _, o := range w.Outputs {
		walk(o)
	}
	return out
}

// prepGen are the knobs of one generated case.
type prepGen struct {
	tier       string
	forceMode  string   // corruption mode ("" = random)
	forceShape string   // "" = random; "multiref:<placement>" | "mixedopt:<placement>" | "loops:<style>" | "plain"
	typed      string   // type of the extra workflow input field `a` ("" = random choice whether and which)
	seq        bool     // element of a sequence: corruption modes that make sense on a shared executor
	hidden     int      // variant of the backedge-hidden corruption (-1 = random)
	seqPlan    []string // forceShape "seq": corruption mode per element (nil = random length and modes)
}

// prepCase is a generated (and possibly corrupted) workflow ready to be prepared.
type prepCase struct {
	wf     *AWf
	text   string
	files  map[string][]byte
	mode   string
	detail string
	shapes []string
	loops  []loopExpect
}

// seqModes: corruptions used inside sequences (types and references; the executor-history dependence C10 excludes is
// about what a text means in ITS workflow)
var seqModes = []string{"none", "none", "none", "none", "expr-type", "expr-type", "expr-type", "lit-type", "bad-output",
	"bad-input-field", "bad-field", "backedge"}

func genPrepareCase(r *rng, g prepGen) *prepCase {
	o := genOpts{maxSteps: 2 + r.intn(5), tags: true, failOutputs: true, enabled: true, stopIf: true, waitFor: true}
	if g.tier == "thorough" {
		o.maxSteps = 2 + r.intn(13)
	}
	if g.seq {
		// `opns` steps (no cancellation) appear only without stop_if: the same step id is an `op` in one workflow of the
		// sequence and an `opns` in another
		o.stopIf = r.chance(1, 2)
	}
	needThree := g.forceShape != "" && g.forceShape != "plain" || g.forceMode == "backedge-hidden"
	if needThree && o.maxSteps < 4 {
		o.maxSteps = 4
	}
	base := genWorkflow(r, o)
	for tries := 0; needThree && len(base.Steps) < 3 && tries < 40; tries++ {
		base = genWorkflow(r.fork(), o)
	}
	pc := &prepCase{files: map[string][]byte{}}
	shape := func(name, what string) {
		if what != "" {
			pc.shapes = append(pc.shapes, name+":"+what)
		}
	}
	kind, arg := g.forceShape, ""
	if k := strings.IndexByte(kind, ':'); k >= 0 {
		kind, arg = kind[:k], kind[k+1:]
	}
	if r.chance(1, 2) && kind != "plain" {
		enrich(base, r.fork())
	}
	sr := r.fork()
	if kind == "multiref" || (kind == "" && sr.chance(1, 4)) {
		shape("multiref", addMultiRef(base, sr, arg))
	}
	if kind == "mixedopt" || (kind == "" && sr.chance(1, 5)) {
		shape("mixedopt", addMixedOptional(base, sr, arg))
	}
	if g.typed != "" || (kind == "" && sr.chance(1, 4)) {
		shape("typed", addTypedInput(base, sr, g.typed))
	}
	switch c := sr.intn(6); {
	case kind == "loops" || (kind == "" && c == 2):
		pc.loops = addForeachMulti(base, sr, arg)
		shape("loops", fmt.Sprintf("%d", len(pc.loops)))
	case kind == "" && c < 2:
		addForeach(base, sr)
		shape("loops", "1")
	}
	for _, s := range base.Steps {
		if s.Kind == "foreach" {
			pc.files = allSubFiles()
		}
	}
	wf := cloneWf(base)
	mode := corruptionModes[r.intn(len(corruptionModes))]
	if g.seq {
		mode = seqModes[r.intn(len(seqModes))]
	}
	if g.forceMode != "" {
		mode = g.forceMode
	}
	cr := r.fork()
	hiddenVariant = g.hidden
	pc.mode, pc.detail = corrupt(wf, mode, cr)
	hiddenVariant = -1
	pc.text = wf.yaml(nil, nil)
	switch pc.mode {
	case "missing-plugin":
		pc.text = dropLine(pc.text, pc.detail, "plugin")
	case "missing-step":
		pc.text = dropLine(pc.text, pc.detail, "step")
	}
	pc.wf = wf
	return pc
}

// hiddenVariant forces the variant of the backedge-hidden corruption for the targeted cases (-1 = random).
var hiddenVariant = -1

// seqInfo places a case inside a sequence of workflows prepared on ONE executor.
type seqInfo struct {
	id    string
	index int
	texts []string
	modes []string
	files []map[string][]byte // the context of every element (nil: the default sub-workflow files)
}

// execPrepareCase prepares the case with the real engine and records everything the monitors and `arcadrv prepare`
// look at.  With ps != nil the FIRST preparation (the one compared with the model and by the must-reject oracle) runs on
// the shared executor of the sequence; all repetitions run on fresh executors.
func execPrepareCase(pc *prepCase, caseID string, r *rng, ps *prepSession, seq *seqInfo) map[string]any {
	wf, text, files, mode, detail := pc.wf, pc.text, pc.files, pc.mode, pc.detail
	stepIDs := map[string]bool{}
	for _, s := range wf.Steps {
		stepIDs[s.ID] = true
	}
	first := realPrepareOn(ps, text, files, stepIDs, nil)
	wfJSON, _ := fixExprs(wf.json())
	out := map[string]any{"kind": "prepare", "id": caseID, "yaml": text, "wf": wfJSON, "corruption": mode,
		"corruption_detail": detail, "verdict": first.Verdict, "err": first.Err, "err_class": first.ErrClass,
		"n_steps": len(wf.Steps), "tags": usesTags(wf), "must_reject": mustReject[mode],
		"plugin_outputs": sortedKeys(opOutputs()), "has_foreach": len(files) > 0, "shapes": pc.shapes,
		// picked up by the generic case tagging of the orchestrator (input distribution histogram of the evidence)
		"result": map[string]any{"err_class": mode + ":" + first.Verdict + ":" + first.ErrClass}}
	if len(files) > 0 {
		ft := map[string]string{}
		for _, s := range wf.Steps {
			if s.Kind == "foreach" {
				ft[s.Workflow] = string(files[s.Workflow])
			}
		}
		out["files"] = ft
	}
	if first.Verdict == "harness-error" {
		return map[string]any{"kind": "harness-error", "id": caseID, "error": first.Err}
	}
	if first.Verdict == "panic" {
		out["panic_text"] = first.Panic
	}
	if first.Verdict == "accepted" {
		out["dag"] = first.Dag
		out["translatable"] = first.Transl
		out["n_nodes"] = len(first.Dag["nodes"].([]any))
		out["n_edges"] = len(first.Dag["edges"].([][]string))
		var sj, nj any
		_ = json.Unmarshal([]byte(first.Schemas), &sj)
		_ = json.Unmarshal([]byte(first.NS), &nj)
		out["output_schemas"] = sj
		out["namespaces"] = nj
		// C10 / C16: every loop step is typed by its own sub-workflow
		if len(pc.loops) > 0 && mode == "none" {
			lt := []any{}
			for _, e := range pc.loops {
				lt = append(lt, map[string]any{"output": e.Output, "key": e.Key, "step": e.Step, "file": e.File, "whole": e.Whole,
					"expect_fields": e.Fields, "got_fields": loopObserved(sj, e)})
			}
			out["loop_types"] = lt
		}
	}

	// ---- C16: repeat, permute, rename ----
	variants := []string{}
	diffs := []string{}
	classes := map[string]bool{first.ErrClass: true}
	// side renders what one preparation gave, with the component named by d in full
	side := func(p prepResult, d string) map[string]any {
		m := map[string]any{"verdict": p.Verdict, "err": p.Err, "err_class": p.ErrClass}
		var v any
		switch d {
		case "dag":
			_ = json.Unmarshal([]byte(p.DagSig), &v)
			m["dag"] = v
		case "schema":
			_ = json.Unmarshal([]byte(p.Schemas), &v)
			m["output_schemas"] = v
		case "namespaces":
			_ = json.Unmarshal([]byte(p.NS), &v)
			m["namespaces"] = v
		}
		return m
	}
	note := func(name string, res prepResult) {
		variants = append(variants, name+":"+res.Verdict)
		classes[res.ErrClass] = true
		if d := first.sigDiff(res); d != "" {
			if len(diffs) == 0 {
				out["c16_observed"] = map[string]any{"variant": name, "what": d, "first": side(first, d), "other": side(res, d)}
			}
			diffs = append(diffs, name+":"+d)
		}
	}
	repeats := 3
	if first.Verdict == "panic" {
		repeats = 0
	}
	repName := "repeat"
	if ps != nil {
		repName = "fresh"
	}
	fresh := []prepResult{}
	for k := 0; k < repeats; k++ {
		res := realPrepareOn(nil, text, files, stepIDs, nil)
		fresh = append(fresh, res)
		note(fmt.Sprintf("%s%d", repName, k), res)
	}
	if ps != nil && len(fresh) > 0 {
		// C10: Prepare is a function of the workflow text and its context, not of what the executor prepared before.  The
		// difference is attributed to the executor's history only when the fresh executors agree among themselves (a
		// preparation that is not even deterministic on fresh executors is C16's finding, and the DAG differential's).
		d := first.sigDiff(fresh[0])
		stable := true
		for _, f := range fresh[1:] {
			if fresh[0].sigDiff(f) != "" {
				stable = false
			}
		}
		if d != "" && stable && seq != nil {
			// ... and when it reproduces: the same prefix of the sequence on another new executor gives the shared result again
			again := prepResult{Verdict: "harness-error"}
			if ps2, err := newPrepSession(); err == nil {
				for j, t := range seq.texts[:seq.index] {
					ctx := allSubFiles()
					if seq.files != nil && len(seq.files[j]) > 0 {
						ctx = seq.files[j]
					}
					_ = realPrepareOn(ps2, t, ctx, stepIDs, nil)
				}
				again = realPrepareOn(ps2, text, files, stepIDs, nil)
			}
			if first.sigDiff(again) == "" {
				out["seq_diff"] = d
				out["seq_shared"] = side(first, d)
				out["seq_fresh"] = side(fresh[0], d)
			} else {
				out["seq_not_reproduced"] = d
			}
		}
		out["seq_fresh_stable"] = stable
		out["seq_class_differs"] = first.Verdict == "rejected" && fresh[0].Verdict == "rejected" && first.ErrClass != fresh[0].ErrClass
	}
	if seq != nil {
		out["seq"] = map[string]any{"id": seq.id, "index": seq.index, "n": len(seq.texts)}
		out["seq_texts"] = seq.texts
		out["seq_corruptions"] = seq.modes
	}
	if first.Verdict == "accepted" && mode == "none" {
		pr := r.fork()
		for k := 0; k < 2; k++ {
			keyPerm := func(keys []string) []string {
				p := pr.perm(len(keys))
				out := make([]string, len(keys))
				for i, j := range p {
					out[i] = keys[j]
				}
				return out
			}
			ptext := wf.yaml(pr.perm(len(wf.Steps)), keyPerm)
			note(fmt.Sprintf("perm%d", k), realPrepareOn(nil, ptext, files, stepIDs, nil))
		}
		// consistent renaming
		m := map[string]string{}
		inv := map[string]string{}
		order := pr.perm(len(wf.Steps))
		for i, s := range wf.Steps {
			n := fmt.Sprintf("Rn%dq%d", order[i], pr.intn(1000))
			if pr.chance(1, 2) {
				// names that end in, or contain, words the engine's own path handling looks for
				n += []string{"_substeps", "steps", "_steps_x", "_outputs", ".input"}[pr.intn(4)]
			}
			m[s.ID] = n
			inv[n] = s.ID
		}
		rwf := renameWf(wf, m)
		rids := map[string]bool{}
		for _, s := range rwf.Steps {
			rids[s.ID] = true
		}
		names := sortedKeys(inv)
		sort.Slice(names, func(i, j int) bool { return len(names[i]) > len(names[j]) })
		back := func(s string) string {
			for _, n := range names {
				s = strings.ReplaceAll(s, n, inv[n])
			}
			return s
		}
		note("rename", realPrepareOn(nil, rwf.yaml(pr.perm(len(rwf.Steps)), nil), files, rids, back))
		out["rename_map"] = m
	}
	out["c16_variants"] = variants
	out["c16_equal"] = len(diffs) == 0
	out["c16_diff"] = strings.Join(diffs, ",")
	cl := []string{}
	for c := range classes {
		cl = append(cl, c)
	}
	sort.Strings(cl)
	out["err_classes_seen"] = cl
	return out
}

// targetedCases: the deterministic head of every run, so that every tier contains every shape the statements of C10 / C15 /
// C16 quantify over and the shared generator lacks (one entry = one case, or one sequence for "seq").
func prepTargetedCases() []prepGen {
	t := []prepGen{}
	for _, p := range multiRefPlacements {
		t = append(t, prepGen{forceShape: "multiref:" + p, forceMode: "none", hidden: -1})
	}
	for v := 0; v < 5; v++ {
		t = append(t, prepGen{forceShape: "plain", forceMode: "backedge-hidden", hidden: v})
	}
	for k := 0; k < 2; k++ {
		for _, p := range mixedOptionalPlacements {
			t = append(t, prepGen{forceShape: "mixedopt:" + p, forceMode: "none", hidden: -1})
		}
	}
	for _, s := range []string{"different", "different", "different", "mixed", "mixed", "equal", "compatible", "compatible"} {
		t = append(t, prepGen{forceShape: "loops:" + s, forceMode: "none", hidden: -1})
	}
	for k := 0; k < 3; k++ {
		t = append(t, prepGen{forceShape: "plain", forceMode: "expr-type", typed: []string{"string", "int", "bool"}[k], hidden: -1})
	}
	for _, plan := range [][]string{{"none", "expr-type"}, {"none", "none", "expr-type"}, {"none", "lit-type", "none"},
		{"none", "expr-type", "none", "expr-type"}, nil, nil} {
		t = append(t, prepGen{forceShape: "seq", hidden: -1, seqPlan: plan})
	}
	return t
}

func cmdPrepare(args []string) int {
	var mode, file, shape string
	c, _ := parseCommon("prepare", args, func(fs *flag.FlagSet) {
		fs.StringVar(&mode, "mode", "", "force one corruption mode")
		fs.StringVar(&shape, "shape", "", "force one shape (multiref:<placement> | mixedopt:<placement> | loops:<style> | plain | seq)")
		fs.StringVar(&file, "file", "", "prepare this workflow file (replay of a reported text) instead of generating cases")
	})
	w := openOut(c.out)
	defer w.close()
	if file != "" {
		text, err := os.ReadFile(file)
		if err != nil {
			fmt.Fprintln(os.Stderr, err)
			return 2
		}
		res := realPrepare(string(text), allSubFiles(), map[string]bool{}, nil)
		w.emit(map[string]any{"kind": "prepare-file", "id": file, "verdict": res.Verdict, "err": res.Err,
			"err_class": res.ErrClass, "panic_text": res.Panic})
		return 0
	}
	r := newRng(c.seed)
	targets := prepTargetedCases()
	if mode != "" || shape != "" {
		targets = nil
	}
	emitted := 0
	for i := 0; emitted < c.n; i++ {
		cr := r.fork()
		g := prepGen{tier: c.tier, forceMode: mode, forceShape: shape, hidden: -1}
		if i < len(targets) {
			g = targets[i]
			g.tier = c.tier
		}
		id := fmt.Sprintf("prepare-%d-%d", c.seed, i)
		if g.forceShape == "seq" || (g.forceShape == "" && g.forceMode == "" && cr.chance(1, 12)) {
			for _, out := range runPrepareSeq(cr, id, c.tier, g.seqPlan) {
				w.emit(out)
				emitted++
			}
			continue
		}
		w.emit(execPrepareCase(genPrepareCase(cr, g), id, cr, nil, nil))
		emitted++
	}
	return 0
}

var _ step.Provider
