//go:build verif

package main

import (
	"fmt"
	"reflect"
	"sort"
	"strconv"
	"strings"
	"unicode"

	"go.arcalot.io/dgraph"
	"go.flow.arcalot.io/engine/internal/infer"
	"go.flow.arcalot.io/engine/internal/step"
	"go.flow.arcalot.io/engine/workflow"
	"go.flow.arcalot.io/expressions"
)

// ---- expression fragment parser (for the text of expressions the generators produce) ----------------------------------

type exprParser struct {
	s   string
	pos int
}

func parseExpr(src string) (out any, ok bool) {
	defer func() {
		if r := recover(); r != nil {
			out, ok = map[string]any{"x": "unknown", "src": src}, false
		}
	}()
	p := &exprParser{s: strings.TrimSpace(src)}
	e := p.expr()
	p.ws()
	if p.pos != len(p.s) {
		panic("trailing")
	}
	return e, true
}

func (p *exprParser) ws() {
	for p.pos < len(p.s) && (p.s[p.pos] == ' ' || p.s[p.pos] == '\t') {
		p.pos++
	}
}

func (p *exprParser) peek() byte {
	if p.pos < len(p.s) {
		return p.s[p.pos]
	}
	return 0
}

func (p *exprParser) ident() string {
	start := p.pos
	for p.pos < len(p.s) {
		c := rune(p.s[p.pos])
		if unicode.IsLetter(c) || unicode.IsDigit(c) || c == '_' || c == '-' || c == '@' {
			p.pos++
		} else {
			break
		}
	}
	if start == p.pos {
		panic("ident")
	}
	return p.s[start:p.pos]
}

func (p *exprParser) expr() any {
	p.ws()
	var cur any
	c := p.peek()
	switch {
	case c == '$':
		p.pos++
		cur = map[string]any{"x": "root"}
	case c == '"' || c == '\'':
		q := c
		p.pos++
		start := p.pos
		for p.pos < len(p.s) && p.s[p.pos] != q {
			if p.s[p.pos] == '\\' {
				panic("escape")
			}
			p.pos++
		}
		if p.pos >= len(p.s) {
			panic("unterminated")
		}
		v := p.s[start:p.pos]
		p.pos++
		return map[string]any{"x": "lit", "v": v}
	case c == '-' || (c >= '0' && c <= '9'):
		start := p.pos
		p.pos++
		for p.pos < len(p.s) && p.s[p.pos] >= '0' && p.s[p.pos] <= '9' {
			p.pos++
		}
		if p.peek() == '.' || p.peek() == 'e' {
			panic("float literal")
		}
		n, err := strconv.ParseInt(p.s[start:p.pos], 10, 64)
		if err != nil {
			panic(err)
		}
		return map[string]any{"x": "lit", "v": encVal(n)}
	default:
		id := p.ident()
		p.ws()
		switch {
		case p.peek() == '(':
			p.pos++
			args := []any{}
			p.ws()
			if p.peek() == ')' {
				p.pos++
			} else {
				for {
					args = append(args, p.expr())
					p.ws()
					if p.peek() == ',' {
						p.pos++
						continue
					}
					if p.peek() == ')' {
						p.pos++
						break
					}
					panic("args")
				}
			}
			return map[string]any{"x": "call", "fn": id, "args": args}
		case id == "true":
			return map[string]any{"x": "lit", "v": true}
		case id == "false":
			return map[string]any{"x": "lit", "v": false}
		default:
			// a bare identifier at the root is `$.id`
			cur = map[string]any{"x": "dot", "e": map[string]any{"x": "root"}, "k": id}
		}
	}
	for {
		switch p.peek() {
		case '.':
			p.pos++
			k := p.ident()
			cur = map[string]any{"x": "dot", "e": cur, "k": k}
		case '[':
			p.pos++
			start := p.pos
			for p.pos < len(p.s) && p.s[p.pos] != ']' {
				p.pos++
			}
			inner := p.s[start:p.pos]
			p.pos++
			if n, err := strconv.Atoi(inner); err == nil && n >= 0 {
				cur = map[string]any{"x": "idx", "e": cur, "i": n}
			} else if len(inner) >= 2 && (inner[0] == '"' || inner[0] == '\'') {
				cur = map[string]any{"x": "dot", "e": cur, "k": inner[1 : len(inner)-1]}
			} else {
				panic("bracket")
			}
		default:
			p.ws()
			if p.pos < len(p.s) && strings.ContainsRune("+-*/%^<>=!&|", rune(p.s[p.pos])) {
				panic("operator")
			}
			return cur
		}
	}
}

// ---- InVal / DAG dump -------------------------------------------------------------------------------------------------

// encInVal renders DAGItem.Data. translatable=false when an expression is outside the modelled fragment.
func encInVal(v any, translatable *bool) any {
	if v == nil {
		return map[string]any{"k": "lit", "v": nil}
	}
	switch t := v.(type) {
	case expressions.Expression:
		e, ok := parseExpr(t.String())
		if !ok {
			*translatable = false
		}
		return map[string]any{"k": "expr", "e": e}
	case *infer.OneOfExpression:
		opts := map[string]any{}
		for k, o := range t.Options {
			opts[k] = encInVal(o, translatable)
		}
		return map[string]any{"k": "oneof", "disc": t.Discriminator, "node": t.NodePath, "opts": opts}
	case *infer.OptionalExpression:
		e, ok := parseExpr(t.Expr.String())
		if !ok {
			*translatable = false
		}
		return map[string]any{"k": "optional", "wait": t.WaitForCompletion, "group": t.GroupNodePath,
			"parent": t.ParentNodePath, "e": e}
	}
	rv := reflect.ValueOf(v)
	switch rv.Kind() {
	case reflect.Slice:
		l := make([]any, rv.Len())
		for i := range l {
			l[i] = encInVal(rv.Index(i).Interface(), translatable)
		}
		return map[string]any{"k": "list", "l": l}
	case reflect.Map:
		m := map[string]any{}
		for _, k := range rv.MapKeys() {
			m[keyString(k.Interface())] = encInVal(rv.MapIndex(k).Interface(), translatable)
		}
		return map[string]any{"k": "map", "m": m}
	default:
		return map[string]any{"k": "lit", "v": encVal(v)}
	}
}

func depName(d dgraph.DependencyType) string {
	switch d {
	case dgraph.AndDependency:
		return "and"
	case dgraph.OrDependency:
		return "or"
	case dgraph.CompletionAndDependency:
		return "cand"
	case dgraph.OptionalDependency:
		return "opt"
	case dgraph.ObviatedDependency:
		return "obv"
	}
	return "?" + string(d)
}

func kindName(k workflow.DAGItemKind) string {
	switch k {
	case workflow.DAGItemKindInput:
		return "input"
	case workflow.DAGItemKindStepStage:
		return "stage"
	case workflow.DAGItemKindStepStageOutput:
		return "stageOutput"
	case workflow.DAGItemKindOutput:
		return "output"
	case workflow.DagItemKindDependencyGroup:
		return "group"
	}
	return "?" + string(k)
}

// dumpDAG renders nodes (sorted), edges (sorted) and items of a prepared workflow's DAG.
func dumpDAG(dag dgraph.DirectedGraph[*workflow.DAGItem]) (map[string]any, bool) {
	nodes := dag.ListNodes()
	ids := make([]string, 0, len(nodes))
	for id := range nodes {
		ids = append(ids, id)
	}
	sort.Strings(ids)
	translatable := true
	outNodes := []any{}
	edges := [][]string{}
	items := map[string]any{}
	for _, id := range ids {
		n := nodes[id]
		deps := n.OutstandingDependencies()
		dl := [][]string{}
		for _, src := range sortedKeys(deps) {
			dl = append(dl, []string{src, depName(deps[src])})
		}
		outNodes = append(outNodes, map[string]any{"id": id, "out": dl})
		outb, _ := n.ListOutboundConnections()
		for _, to := range sortedKeys(outb) {
			edges = append(edges, []string{id, to})
		}
		it := n.Item()
		item := map[string]any{"kind": kindName(it.Kind), "step": it.StepID, "stage": it.StageID, "output": it.OutputID,
			"hasSchema": it.DataSchema != nil}
		if it.Data != nil {
			item["data"] = encInVal(it.Data, &translatable)
		}
		items[id] = item
	}
	return map[string]any{"nodes": outNodes, "edges": edges, "items": items}, translatable
}

// dumpStages renders step -> stage -> declared output ids of the lifecycles.
func dumpStages(lc map[string]step.Lifecycle[step.LifecycleStageWithSchema]) map[string]any {
	out := map[string]any{}
	for stepID, l := range lc {
		st := map[string]any{}
		for _, s := range l.Stages {
			st[s.ID] = sortedKeys(s.Outputs)
		}
		out[stepID] = st
	}
	return out
}

var _ = fmt.Sprintf
