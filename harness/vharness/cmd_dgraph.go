//go:build verif

package main

// `vharness dgraph`: the correspondence check of Arca.Model.Dgraph (lean/Arca/Model/Dgraph.lean, DgraphExt.lean) against the
// REAL go.arcalot.io/dgraph the engine is built with (the version go.mod selects; nothing of the library is copied).
//
// One case = one random operation sequence on up to four graphs (the first one made by dgraph.New, the others by Clone):
// AddNode, Connect / ConnectDependency with every dependency type (also `obviated`), duplicates, self loops, connections that
// close cycles, connections from / to nodes that already have a status, PushStartingNodes, ResolveNode with every status in
// every order (re-resolution, resolving nodes that are not ready, resolving nodes whose dependencies failed), PopReadyNodes,
// HasReadyNodes, HasCycles, GetNodeByID, Clone (the sequence continues on the clone AND on the original) and - in a quarter of
// the sequences, the engine never calls them - Remove / DisconnectInbound / DisconnectOutbound.
//
// After every operation the line records what the library returned (`ret`: ok | err:<class by Go type> | panic:<class>) and an
// observation of the whole graph the operation ran on (`obs`, one canonical string; maps are rendered sorted by key because Go's
// map order is not part of the library's contract):
//
//	n=<id>:<status>;o=<dep id>/<type>,..;r=<dep id>/<type>,..;i=<inbound ids>;t=<outbound ids>|<next node>...
//	#d=<removed nodes whose handle the harness still holds: id:status;o=..;r=..>
//	#rdy=<id>:<status>,..      the ready set, exactly what PopReadyNodes would return now
//	#noin=<ids>                ListNodesWithoutInboundConnections
//	#cyc=<0|1>#has=<0|1>       HasCycles, HasReadyNodes
//
// Everything but the status and the ready set comes from the public API (OutstandingDependencies, ResolvedDependencies,
// ListInboundConnections, ListOutboundConnections, ListNodes, ...).  The library has no accessor for a node's status nor for the
// ready set without emptying it; the harness reads the unexported fields `status` and `readyForProcessing` by reflection
// (read-only).  If those fields do not exist (another library version) every case is emitted with "skip".
//
// Two situations leave the real graph in a state that is not a function of the operation sequence; the harness labels the
// operation ("poison") and never uses that graph again, `arcadrv dgraph` checks that the label is justified in the model and
// compares the returned class but not the observation:
//   - "propagation-error": ResolveNode on a waiting node fails while it notifies the dependents.  The library aborts the
//     notification loop at the first error, which successors were notified before depends on Go's map order.  (The run loop
//     abandons the graph after every such error: Arca.Model.RunLoop `die` / `doCancel`.)
//   - "removed-node-in-ready-set": Remove leaves the removed node's pointer in readyForProcessing.  The engine never removes.

import (
	"fmt"
	"reflect"
	"sort"
	"strings"

	"go.arcalot.io/dgraph"
)

func init() { register("dgraph", cmdDgraph) }

// ---- error classes (by Go type, value and pointer forms: the library returns both) -------------------------------------------

func dgErrClass(err any) string {
	switch err.(type) {
	case nil:
		return "ok"
	case dgraph.ErrNodeDeleted, *dgraph.ErrNodeDeleted:
		return "deleted"
	case dgraph.ErrCannotConnectToSelf, *dgraph.ErrCannotConnectToSelf:
		return "connectSelf"
	case dgraph.ErrNodeNotFound, *dgraph.ErrNodeNotFound:
		return "notFound"
	case dgraph.ErrNodeAlreadyExists, *dgraph.ErrNodeAlreadyExists:
		return "alreadyExists"
	case dgraph.ErrConnectionWouldCreateACycle, *dgraph.ErrConnectionWouldCreateACycle:
		return "wouldCycle"
	case dgraph.ErrConnectionAlreadyExists, *dgraph.ErrConnectionAlreadyExists:
		return "connectionExists"
	case dgraph.ErrConnectionDoesNotExist, *dgraph.ErrConnectionDoesNotExist:
		return "noConnection"
	case dgraph.ErrNodeResolutionAlreadySet, *dgraph.ErrNodeResolutionAlreadySet:
		return "alreadySet"
	case dgraph.ErrNodeResolutionUnknown, *dgraph.ErrNodeResolutionUnknown:
		return "resolutionUnknown"
	case dgraph.ErrDuplicateDependencyResolution, *dgraph.ErrDuplicateDependencyResolution:
		return "dupResolution"
	case dgraph.ErrNotifiedOfWaiting, *dgraph.ErrNotifiedOfWaiting:
		return "notifiedOfWaiting"
	}
	return fmt.Sprintf("other(%T)", err)
}

// dgCall runs one library call; a panic of the library is an outcome.
func dgCall(f func() error) (ret string) {
	defer func() {
		if r := recover(); r != nil {
			ret = "panic:" + dgErrClass(r)
		}
	}()
	if err := f(); err != nil {
		return "err:" + dgErrClass(err)
	}
	return "ok"
}

func dgStatusCode(s string) string {
	switch dgraph.ResolutionStatus(s) {
	case dgraph.Waiting:
		return "w"
	case dgraph.Resolved:
		return "r"
	case dgraph.Unresolvable:
		return "u"
	}
	return "?" + s
}

var dgStatusOf = map[string]dgraph.ResolutionStatus{"w": dgraph.Waiting, "r": dgraph.Resolved, "u": dgraph.Unresolvable}

var dgDepOf = map[string]dgraph.DependencyType{"and": dgraph.AndDependency, "or": dgraph.OrDependency,
	"cand": dgraph.CompletionAndDependency, "opt": dgraph.OptionalDependency, "obv": dgraph.ObviatedDependency}

// ---- reading the two unexported fields ---------------------------------------------------------------------------------------

// dgPeekStatus reads node.status of a handle ("" if the field does not exist).
func dgPeekStatus(h dgraph.Node[string]) (s string) {
	defer func() {
		if recover() != nil {
			s = ""
		}
	}()
	v := reflect.ValueOf(h)
	if v.Kind() != reflect.Pointer {
		return ""
	}
	f := v.Elem().FieldByName("status")
	if !f.IsValid() || f.Kind() != reflect.String {
		return ""
	}
	return f.String()
}

// dgPeekReady reads readyForProcessing: id -> status of the node the entry points to (what PopReadyNodes would report).
func dgPeekReady(g dgraph.DirectedGraph[string]) (m map[string]string, ok bool) {
	defer func() {
		if recover() != nil {
			m, ok = nil, false
		}
	}()
	v := reflect.ValueOf(g)
	if v.Kind() != reflect.Pointer {
		return nil, false
	}
	f := v.Elem().FieldByName("readyForProcessing")
	if !f.IsValid() || f.Kind() != reflect.Map {
		return nil, false
	}
	m = map[string]string{}
	it := f.MapRange()
	for it.Next() {
		st := it.Value().Elem().FieldByName("status")
		if !st.IsValid() || st.Kind() != reflect.String {
			return nil, false
		}
		m[it.Key().String()] = st.String()
	}
	return m, true
}

func dgInternalsReadable() bool {
	g := dgraph.New[string]()
	n, err := g.AddNode("probe", "")
	if err != nil {
		return false
	}
	if dgPeekStatus(n) != string(dgraph.Waiting) {
		return false
	}
	_ = g.PushStartingNodes()
	m, ok := dgPeekReady(g)
	return ok && len(m) == 1 && m["probe"] == string(dgraph.Waiting)
}

// ---- one graph under test ----------------------------------------------------------------------------------------------------

type dgUnder struct {
	g        dgraph.DirectedGraph[string]
	h        map[string]dgraph.Node[string] // the latest handle per id: of a live node or of a removed one ("stale")
	stale    map[string]bool
	poisoned string
	todo     []string // popped and not yet resolved (engine-like runs)
	pushed   bool
	extUsed  bool // Remove / Disconnect* was called on this graph or an ancestor
}

func dgDepList(m map[string]dgraph.DependencyType) string {
	ks := make([]string, 0, len(m))
	for k := range m {
		ks = append(ks, k)
	}
	sort.Strings(ks)
	parts := make([]string, len(ks))
	for i, k := range ks {
		parts[i] = k + "/" + depName(m[k])
	}
	return strings.Join(parts, ",")
}

func dgConnList(m map[string]dgraph.Node[string], err error) string {
	if err != nil {
		return "err:" + dgErrClass(err)
	}
	ks := make([]string, 0, len(m))
	for k := range m {
		ks = append(ks, k)
	}
	sort.Strings(ks)
	return strings.Join(ks, ",")
}

// observe renders the whole graph (see the head of the file).
func (u *dgUnder) observe() (obs string) {
	defer func() {
		if r := recover(); r != nil {
			obs = "panic:" + dgErrClass(r)
		}
	}()
	nodes := u.g.ListNodes()
	ids := make([]string, 0, len(nodes))
	for id := range nodes {
		ids = append(ids, id)
	}
	sort.Strings(ids)
	var b strings.Builder
	b.WriteString("n=")
	for i, id := range ids {
		n := nodes[id]
		if i > 0 {
			b.WriteByte('|')
		}
		b.WriteString(id + ":" + dgStatusCode(dgPeekStatus(n)))
		b.WriteString(";o=" + dgDepList(n.OutstandingDependencies()))
		b.WriteString(";r=" + dgDepList(n.ResolvedDependencies()))
		b.WriteString(";i=" + dgConnList(n.ListInboundConnections()))
		b.WriteString(";t=" + dgConnList(n.ListOutboundConnections()))
	}
	b.WriteString("#d=")
	dead := make([]string, 0, len(u.stale))
	for id := range u.stale {
		dead = append(dead, id)
	}
	sort.Strings(dead)
	for i, id := range dead {
		n := u.h[id]
		if i > 0 {
			b.WriteByte('|')
		}
		_, e1 := n.ListInboundConnections()
		_, e2 := n.ListOutboundConnections()
		b.WriteString(id + ":" + dgStatusCode(dgPeekStatus(n)))
		b.WriteString(";o=" + dgDepList(n.OutstandingDependencies()))
		b.WriteString(";r=" + dgDepList(n.ResolvedDependencies()))
		b.WriteString(";i=" + dgErrClass(e1) + ";t=" + dgErrClass(e2))
	}
	rdy, _ := dgPeekReady(u.g)
	rs := make([]string, 0, len(rdy))
	for id, st := range rdy {
		rs = append(rs, id+":"+dgStatusCode(st))
	}
	sort.Strings(rs)
	b.WriteString("#rdy=" + strings.Join(rs, ","))
	noin := u.g.ListNodesWithoutInboundConnections()
	ns := make([]string, 0, len(noin))
	for id := range noin {
		ns = append(ns, id)
	}
	sort.Strings(ns)
	b.WriteString("#noin=" + strings.Join(ns, ","))
	b.WriteString("#cyc=" + dgBit(u.g.HasCycles()) + "#has=" + dgBit(u.g.HasReadyNodes()))
	return b.String()
}

func dgBit(b bool) string {
	if b {
		return "1"
	}
	return "0"
}

// ---- the sequence generator --------------------------------------------------------------------------------------------------

type dgSeq struct {
	r        *rng
	graphs   []*dgUnder
	ops      []map[string]any
	maxOps   int
	maxNodes int
	pool     []string // ids this sequence draws from
	ext      bool     // may call Remove / Disconnect*
	last     int      // graph of the previous operation
	nProp    int      // successful resolutions of a waiting node that has dependents
	panics   int
}

func (s *dgSeq) full() bool { return len(s.ops) >= s.maxOps }

func (s *dgSeq) liveGraphs() []int {
	out := []int{}
	for i, u := range s.graphs {
		if u.poisoned == "" {
			out = append(out, i)
		}
	}
	return out
}

// record appends the operation with what the library returned and the observations.
func (s *dgSeq) record(gi int, op map[string]any, ret string, poison string) {
	u := s.graphs[gi]
	op["g"] = gi
	op["ret"] = ret
	if strings.HasPrefix(ret, "panic:") {
		s.panics++
		// the engine never calls Remove / Disconnect*: a panic on a graph that was built without them is one the engine could reach
		op["engine_reachable"] = !u.extUsed
	}
	if poison != "" {
		op["poison"] = poison
		u.poisoned = poison
	} else {
		op["obs"] = u.observe()
		// one more graph: operations on one graph must not change another (Clone independence); after Clone the new graph,
		// otherwise round robin
		if to, isClone := op["to"].(int); isClone && op["o"] == "clone" && to >= 0 {
			op["obs2"] = map[string]any{"g": to, "s": s.graphs[to].observe()}
		} else if lg := s.liveGraphs(); len(lg) > 1 {
			o := lg[len(s.ops)%len(lg)]
			if o != gi {
				op["obs2"] = map[string]any{"g": o, "s": s.graphs[o].observe()}
			}
		}
	}
	s.ops = append(s.ops, op)
	s.last = gi
}

// handle returns the harness' handle for id (live or stale); without one it asks GetNodeByID, which is then the recorded
// operation (notFound) and the caller gives up.
func (s *dgSeq) handle(gi int, id string) dgraph.Node[string] {
	u := s.graphs[gi]
	if h, ok := u.h[id]; ok {
		return h
	}
	s.opGet(gi, id)
	return u.h[id]
}

func (s *dgSeq) opGet(gi int, id string) {
	u := s.graphs[gi]
	var n dgraph.Node[string]
	ret := dgCall(func() error {
		var err error
		n, err = u.g.GetNodeByID(id)
		return err
	})
	if ret == "ok" && n != nil {
		// a live node: the handle the harness already holds is the same object; a stale handle is never replaced here
		if _, held := u.h[id]; !held {
			u.h[id] = n
		}
	}
	s.record(gi, map[string]any{"o": "get", "id": id}, ret, "")
}

func (s *dgSeq) opAdd(gi int, id string) {
	u := s.graphs[gi]
	var n dgraph.Node[string]
	ret := dgCall(func() error {
		var err error
		n, err = u.g.AddNode(id, "item-"+id)
		return err
	})
	if ret == "ok" {
		u.h[id] = n
		delete(u.stale, id)
	}
	s.record(gi, map[string]any{"o": "add", "id": id}, ret, "")
}

// opConnect: via "dep" = to.ConnectDependency(from, d); via "fwd" = from.Connect(to) (always an AND dependency).
func (s *dgSeq) opConnect(gi int, from, to, dep, via string) {
	var caller dgraph.Node[string]
	if via == "fwd" {
		dep = "and"
		caller = s.handle(gi, from)
	} else {
		caller = s.handle(gi, to)
	}
	if caller == nil || s.full() {
		return
	}
	ret := dgCall(func() error {
		if via == "fwd" {
			return caller.Connect(to)
		}
		return caller.ConnectDependency(from, dgDepOf[dep])
	})
	s.record(gi, map[string]any{"o": "con", "from": from, "to": to, "d": dep, "via": via}, ret, "")
}

func (s *dgSeq) opPush(gi int) {
	u := s.graphs[gi]
	ret := dgCall(func() error { return u.g.PushStartingNodes() })
	u.pushed = true
	s.record(gi, map[string]any{"o": "push"}, ret, "")
}

func (s *dgSeq) opPop(gi int) {
	u := s.graphs[gi]
	var popped map[string]dgraph.ResolutionStatus
	ret := dgCall(func() error { popped = u.g.PopReadyNodes(); return nil })
	ps := make([]string, 0, len(popped))
	for id, st := range popped {
		ps = append(ps, id+":"+dgStatusCode(string(st)))
	}
	sort.Strings(ps) // the ready set is a map: compared as a set
	for _, p := range ps {
		id := p[:strings.LastIndex(p, ":")]
		if strings.HasSuffix(p, ":w") {
			u.todo = append(u.todo, id)
		}
	}
	s.record(gi, map[string]any{"o": "pop", "popped": strings.Join(ps, ",")}, ret, "")
}

func (s *dgSeq) opResolve(gi int, id, st string) {
	u := s.graphs[gi]
	h := s.handle(gi, id)
	if h == nil || s.full() {
		return
	}
	pre := dgPeekStatus(h)
	outb, _ := h.ListOutboundConnections()
	ret := dgCall(func() error { return h.ResolveNode(dgStatusOf[st]) })
	poison := ""
	if ret != "ok" && pre == string(dgraph.Waiting) && !u.stale[id] {
		poison = "propagation-error"
	}
	if ret == "ok" && pre == string(dgraph.Waiting) && st != "w" && len(outb) > 0 {
		s.nProp++
	}
	for i, t := range u.todo {
		if t == id {
			u.todo = append(u.todo[:i:i], u.todo[i+1:]...)
			break
		}
	}
	s.record(gi, map[string]any{"o": "res", "id": id, "st": st}, ret, poison)
}

func (s *dgSeq) opBool(gi int, what string) {
	u := s.graphs[gi]
	var v bool
	ret := dgCall(func() error {
		if what == "cyc" {
			v = u.g.HasCycles()
		} else {
			v = u.g.HasReadyNodes()
		}
		return nil
	})
	s.record(gi, map[string]any{"o": what, "val": v}, ret, "")
}

func (s *dgSeq) opClone(gi int) {
	u := s.graphs[gi]
	var c dgraph.DirectedGraph[string]
	ret := dgCall(func() error { c = u.g.Clone(); return nil })
	if ret != "ok" || c == nil {
		s.record(gi, map[string]any{"o": "clone", "to": -1}, ret, "")
		return
	}
	nu := &dgUnder{g: c, h: map[string]dgraph.Node[string]{}, stale: map[string]bool{}, extUsed: u.extUsed}
	for id, n := range c.ListNodes() {
		nu.h[id] = n
	}
	s.graphs = append(s.graphs, nu)
	s.record(gi, map[string]any{"o": "clone", "to": len(s.graphs) - 1}, ret, "")
}

func (s *dgSeq) opRemove(gi int, id string) {
	u := s.graphs[gi]
	h := s.handle(gi, id)
	if h == nil || s.full() {
		return
	}
	rdy, _ := dgPeekReady(u.g)
	_, inReady := rdy[id]
	ret := dgCall(func() error { return h.Remove() })
	u.extUsed = true
	poison := ""
	if ret == "ok" {
		u.stale[id] = true
		if inReady {
			poison = "removed-node-in-ready-set"
		}
	}
	s.record(gi, map[string]any{"o": "rm", "id": id}, ret, poison)
}

// opDisconnect: via "in" = to.DisconnectInbound(from); via "out" = from.DisconnectOutbound(to).
func (s *dgSeq) opDisconnect(gi int, from, to, via string) {
	u := s.graphs[gi]
	var caller dgraph.Node[string]
	if via == "in" {
		caller = s.handle(gi, to)
	} else {
		caller = s.handle(gi, from)
	}
	if caller == nil || s.full() {
		return
	}
	ret := dgCall(func() error {
		if via == "in" {
			return caller.DisconnectInbound(from)
		}
		return caller.DisconnectOutbound(to)
	})
	u.extUsed = true
	s.record(gi, map[string]any{"o": "dis", "from": from, "to": to, "via": via}, ret, "")
}

// ---- shapes ------------------------------------------------------------------------------------------------------------------

type dgEdge struct{ from, to, dep string }

var dgAllDeps = []string{"and", "or", "cand", "opt", "obv"}

// dgEngineGraph: the shapes the engine's Prepare builds.  input -> per step a chain of stage nodes (AND), per stage output
// nodes (AND on the stage), the first stage of a step waits for the data it refers to: directly (AND), through a oneof group
// (the group has an OR dependency per option, the option an AND on its source), through an optional group (the group depends
// on the source with `optional` or `completion-and`, the consumer on the group with AND), through wait_for (completion-and);
// the workflow outputs depend on step outputs (AND) or on a group.
func dgEngineGraph(r *rng, maxNodes int) ([]string, []dgEdge) {
	nodes := []string{"input"}
	edges := []dgEdge{}
	produced := []string{"input"} // nodes later ones may refer to
	groups := 0
	consume := func(consumer string) {
		if len(produced) == 0 {
			return
		}
		src := func() string { return produced[r.intn(len(produced))] }
		switch r.intn(6) {
		case 0, 1: // plain references
			for k := 0; k <= r.intn(2); k++ {
				edges = append(edges, dgEdge{src(), consumer, "and"})
			}
		case 2: // oneof: group with OR dependencies on option nodes
			g := fmt.Sprintf("%s.oneof%d", consumer, groups)
			groups++
			nodes = append(nodes, g)
			for k := 0; k < 2+r.intn(2); k++ {
				opt := fmt.Sprintf("%s.o%d", g, k)
				nodes = append(nodes, opt)
				edges = append(edges, dgEdge{src(), opt, "and"}, dgEdge{opt, g, "or"})
			}
			edges = append(edges, dgEdge{g, consumer, "and"})
		case 3: // optional group: soft-optional (optional) or wait-optional (completion-and)
			g := fmt.Sprintf("%s.opt%d", consumer, groups)
			groups++
			nodes = append(nodes, g)
			d := "opt"
			if r.chance(1, 2) {
				d = "cand"
			}
			edges = append(edges, dgEdge{src(), g, d})
			if r.chance(1, 2) {
				edges = append(edges, dgEdge{src(), g, "and"})
			}
			edges = append(edges, dgEdge{g, consumer, "and"})
		case 4: // wait_for
			edges = append(edges, dgEdge{src(), consumer, "cand"}, dgEdge{"input", consumer, "and"})
		default: // or-disabled: OR over two outputs of the same step, directly on the consumer
			edges = append(edges, dgEdge{src(), consumer, "or"}, dgEdge{src(), consumer, "or"})
		}
	}
	nSteps := 1 + r.intn(3)
	for st := 0; st < nSteps && len(nodes) < maxNodes-3; st++ {
		name := fmt.Sprintf("s%d", st)
		stages := []string{"deploy", "run"}
		if r.chance(1, 2) {
			stages = []string{"run"}
		}
		prev := ""
		for _, stage := range stages {
			id := name + "." + stage
			nodes = append(nodes, id)
			if prev == "" {
				consume(id)
			} else {
				edges = append(edges, dgEdge{prev, id, "and"})
			}
			prev = id
			outs := []string{"ok", "err"}[:1+r.intn(2)]
			for _, o := range outs {
				oid := id + "." + o
				nodes = append(nodes, oid)
				edges = append(edges, dgEdge{id, oid, "and"})
				produced = append(produced, oid)
			}
		}
	}
	for k := 0; k < 1+r.intn(2); k++ {
		out := fmt.Sprintf("out%d", k)
		nodes = append(nodes, out)
		consume(out)
	}
	return nodes, edges
}

// dgRandomGraph: fully random nodes and dependencies; `cyclic` allows back edges.
func dgRandomGraph(r *rng, maxNodes int, cyclic bool) ([]string, []dgEdge) {
	n := 2 + r.intn(maxNodes-1)
	nodes := make([]string, n)
	for i := range nodes {
		nodes[i] = fmt.Sprintf("n%02d", i)
	}
	edges := []dgEdge{}
	for i := 1; i < n; i++ {
		// the role of node i decides the mix of its dependency types
		role := r.intn(6)
		k := 1 + r.intn(3)
		if role == 0 {
			k = 1
		}
		for j := 0; j < k; j++ {
			from := nodes[r.intn(i)]
			if cyclic && r.chance(1, 5) {
				from = nodes[r.intn(n)]
			}
			dep := "and"
			switch role {
			case 2:
				dep = "or"
			case 3:
				dep = []string{"opt", "and", "cand"}[r.intn(3)]
			case 4:
				dep = []string{"cand", "or", "cand"}[r.intn(3)]
			case 5:
				dep = dgAllDeps[r.intn(len(dgAllDeps))]
			}
			edges = append(edges, dgEdge{from, nodes[i], dep})
		}
	}
	return nodes, edges
}

func (s *dgSeq) anyID(gi int) string {
	// mostly an id of the pool, rarely one that never exists
	if s.r.chance(1, 25) {
		return "ghost"
	}
	return s.pool[s.r.intn(len(s.pool))]
}

// waitingID: a live node that has no status yet, preferably one with dependents (its resolution propagates).
func (s *dgSeq) waitingID(gi int) string {
	u := s.graphs[gi]
	ids := []string{}
	for id, h := range u.h {
		if !u.stale[id] && dgPeekStatus(h) == string(dgraph.Waiting) {
			ids = append(ids, id)
		}
	}
	if len(ids) == 0 {
		return s.anyID(gi)
	}
	sort.Strings(ids)
	best := ids[s.r.intn(len(ids))]
	for k := 0; k < 2; k++ {
		if m, err := u.h[best].ListOutboundConnections(); err == nil && len(m) > 0 {
			break
		}
		best = ids[s.r.intn(len(ids))]
	}
	return best
}

func (s *dgSeq) pickGraph() int {
	lg := s.liveGraphs()
	if len(lg) == 0 {
		return -1
	}
	for _, g := range lg {
		if g == s.last && s.r.chance(7, 10) {
			return g
		}
	}
	return lg[s.r.intn(len(lg))]
}

// build: nodes first, then the connections in random order, with the irregular operations mixed in.
func (s *dgSeq) build(gi int, nodes []string, edges []dgEdge, noise bool) {
	for _, id := range nodes {
		if s.full() {
			return
		}
		s.opAdd(gi, id)
		if noise && s.r.chance(1, 12) && !s.full() {
			s.opAdd(gi, s.anyID(gi)) // mostly a duplicate
		}
	}
	for _, i := range s.r.perm(len(edges)) {
		if s.full() {
			return
		}
		e := edges[i]
		via := "dep"
		if e.dep == "and" && s.r.chance(1, 4) {
			via = "fwd"
		}
		s.opConnect(gi, e.from, e.to, e.dep, via)
		if noise && s.r.chance(1, 8) && !s.full() {
			switch s.r.intn(4) {
			case 0: // duplicate, possibly with another type
				s.opConnect(gi, e.from, e.to, dgAllDeps[s.r.intn(len(dgAllDeps))], "dep")
			case 1: // self loop
				s.opConnect(gi, e.to, e.to, dgAllDeps[s.r.intn(len(dgAllDeps))], []string{"dep", "fwd"}[s.r.intn(2)])
			case 2: // the reverse connection closes a cycle
				s.opConnect(gi, e.to, e.from, dgAllDeps[s.r.intn(len(dgAllDeps))], "dep")
			default: // unknown node on one side
				if s.r.chance(1, 2) {
					s.opConnect(gi, "ghost", e.to, "and", "dep")
				} else {
					s.opConnect(gi, e.from, "ghost", "and", "fwd")
				}
			}
		}
	}
}

// engineStep: one step of a run the way the run loop drives the graph: pop the ready nodes, resolve the popped ones (mostly
// Resolved, sometimes Unresolvable), now and then mark a node that is not ready Unresolvable (markOutputsUnresolvable /
// markStageNodeUnresolvable) or resolve one that is not ready (a stage that finished), or resolve something again.
func (s *dgSeq) engineStep(gi int) {
	u := s.graphs[gi]
	if !u.pushed {
		s.opPush(gi)
		if _, ok := u.h["input"]; ok && !s.full() {
			s.opResolve(gi, "input", "r")
		}
		return
	}
	switch x := s.r.intn(20); {
	case len(u.todo) > 0 && x < 12:
		id := u.todo[s.r.intn(len(u.todo))]
		st := "r"
		if s.r.chance(1, 5) {
			st = "u"
		}
		s.opResolve(gi, id, st)
	case x < 15:
		s.opPop(gi)
	case x < 17:
		id := s.anyID(gi)
		if s.r.chance(1, 2) {
			id = s.waitingID(gi)
		}
		s.opResolve(gi, id, "u")
	case x < 18:
		s.opResolve(gi, s.anyID(gi), "r")
	case x < 19:
		s.opBool(gi, "has")
	default:
		s.opPop(gi)
	}
}

// chaosStep: any operation on any node.
func (s *dgSeq) chaosStep(gi int) {
	u := s.graphs[gi]
	x := s.r.intn(100)
	if s.ext && s.r.chance(1, 8) {
		x = 99
	}
	switch {
	case x < 34:
		st := []string{"r", "r", "r", "u", "u", "w"}[s.r.intn(6)]
		id := s.anyID(gi)
		if len(u.todo) > 0 && s.r.chance(1, 3) {
			id = u.todo[s.r.intn(len(u.todo))]
		} else if s.r.chance(1, 2) {
			id = s.waitingID(gi)
		}
		s.opResolve(gi, id, st)
	case x < 46:
		s.opPop(gi)
	case x < 52:
		s.opPush(gi)
	case x < 64:
		a, b := s.anyID(gi), s.anyID(gi)
		via := "dep"
		if s.r.chance(1, 4) {
			via = "fwd"
		}
		s.opConnect(gi, a, b, dgAllDeps[s.r.intn(len(dgAllDeps))], via)
	case x < 70:
		s.opAdd(gi, s.anyID(gi))
	case x < 74:
		s.opBool(gi, "cyc")
	case x < 78:
		s.opBool(gi, "has")
	case x < 82:
		s.opGet(gi, s.anyID(gi))
	case x < 88:
		if len(s.graphs) < 4 {
			s.opClone(gi)
		} else {
			s.opPop(gi)
		}
	default:
		if !s.ext {
			s.opResolve(gi, s.anyID(gi), []string{"r", "u"}[s.r.intn(2)])
			return
		}
		switch s.r.intn(3) {
		case 0:
			if s.r.chance(1, 2) && !s.full() {
				s.opPop(gi) // often with an empty ready set, so that the sequence can go on
			}
			if !s.full() {
				s.opRemove(gi, s.anyID(gi))
			}
		default:
			a, b := s.anyID(gi), s.anyID(gi)
			if ob, held := u.h[a]; held && ob != nil && s.r.chance(3, 4) {
				// mostly an existing connection
				if m, e := ob.ListOutboundConnections(); e == nil && len(m) > 0 {
					ks := make([]string, 0, len(m))
					for k := range m {
						ks = append(ks, k)
					}
					sort.Strings(ks)
					b = ks[s.r.intn(len(ks))]
				}
			}
			s.opDisconnect(gi, a, b, []string{"in", "out"}[s.r.intn(2)])
		}
	}
}

func dgGenCase(r *rng, id string, tier string) map[string]any {
	maxOps, maxNodes := 60, 12
	if tier == "thorough" {
		maxOps, maxNodes = 110, 18
	}
	s := &dgSeq{r: r, maxOps: 12 + r.intn(maxOps-11), maxNodes: 4 + r.intn(maxNodes-3)}
	s.graphs = []*dgUnder{{g: dgraph.New[string](), h: map[string]dgraph.Node[string]{}, stale: map[string]bool{}}}
	shape := []string{"engine", "engine", "engine-chaos", "random", "random-cyclic", "random-interleaved"}[r.intn(6)]
	s.ext = r.chance(1, 4)
	var nodes []string
	var edges []dgEdge
	switch shape {
	case "engine", "engine-chaos":
		nodes, edges = dgEngineGraph(r, s.maxNodes)
	case "random-cyclic":
		nodes, edges = dgRandomGraph(r, s.maxNodes, true)
	default:
		nodes, edges = dgRandomGraph(r, s.maxNodes, false)
	}
	s.pool = nodes
	switch shape {
	case "engine":
		// Prepare builds the graph and asks HasCycles; every Execute works on a Clone
		s.build(0, nodes, edges, r.chance(1, 3))
		if !s.full() {
			s.opBool(0, "cyc")
		}
		if !s.full() {
			s.opClone(0)
		}
		for !s.full() {
			gi := s.pickGraph()
			if gi < 0 {
				break
			}
			if gi == 0 && len(s.graphs) < 4 && s.r.chance(1, 6) {
				s.opClone(0) // the next Execute
				continue
			}
			if s.ext && s.r.chance(1, 10) {
				s.chaosStep(gi)
			} else {
				s.engineStep(gi)
			}
		}
	case "random-interleaved":
		// no build phase: additions, connections and resolutions in any order (connections from / to nodes that have a status)
		for !s.full() {
			gi := s.pickGraph()
			if gi < 0 {
				break
			}
			if r.chance(1, 3) {
				k := r.intn(len(nodes))
				if r.chance(1, 2) || len(edges) == 0 {
					s.opAdd(gi, nodes[k])
				} else {
					e := edges[r.intn(len(edges))]
					s.opConnect(gi, e.from, e.to, e.dep, "dep")
				}
			} else {
				s.chaosStep(gi)
			}
		}
	default:
		s.build(0, nodes, edges, true)
		for !s.full() {
			gi := s.pickGraph()
			if gi < 0 {
				break
			}
			if shape == "engine-chaos" && r.chance(1, 2) {
				s.engineStep(gi)
			} else {
				s.chaosStep(gi)
			}
		}
	}
	key := make([]string, len(s.ops))
	extUsed := false
	for i, op := range s.ops {
		k := fmt.Sprint(op["o"], op["g"])
		for _, f := range []string{"id", "from", "to", "d", "via", "st"} {
			if v, ok := op[f]; ok {
				k += fmt.Sprint(",", v)
			}
		}
		key[i] = k
		if op["o"] == "rm" || op["o"] == "dis" {
			extUsed = true
		}
	}
	return map[string]any{"kind": "dgraph", "id": id, "shape": shape, "ext": s.ext, "ext_used": extUsed, "ops": s.ops,
		"n_graphs": len(s.graphs), "n_nodes": len(nodes), "n_prop": s.nProp, "n_panics": s.panics,
		"key": strings.Join(key, ";")}
}

func cmdDgraph(args []string) int {
	c, _ := parseCommon("dgraph", args, nil)
	w := openOut(c.out)
	defer w.close()
	readable := dgInternalsReadable()
	root := newRng(c.seed)
	for i := 0; i < c.n; i++ {
		r := root.fork()
		if i < c.skip {
			continue
		}
		w.emit(map[string]any{"kind": "begin", "index": i})
		id := fmt.Sprintf("dgraph-%d-%d", c.seed, i)
		if !readable {
			w.emit(map[string]any{"kind": "dgraph", "id": id,
				"skip": "the fields `status` / `readyForProcessing` of go.arcalot.io/dgraph are not readable (another library version?)"})
			continue
		}
		w.emit(dgGenCase(r, id, c.tier))
	}
	return 0
}
