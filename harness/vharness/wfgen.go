//go:build verif

package main

import (
	"fmt"
	"sort"
	"strings"
)

// ---- abstract workflows ------------------------------------------------------------------------------------------------
//
// AIn is unresolved input data as written in the workflow text. The JSON form is shared with the Lean model
// (`Arca.Model.Prepare`): {"k":"lit","v":..} | {"k":"expr","src":..,"e":..} | {"k":"list","l":[..]} |
// {"k":"map","m":{..}} | {"k":"oneof","disc":..,"opts":{..}} | {"k":"optional","wait":b,"src":..,"e":..} |
// {"k":"ordisabled","src":..,"e":..}

type AIn struct {
	K    string
	Lit  string // literal scalars are strings in the engine's YAML layer
	Src  string // expression text
	List []AIn
	Keys []string // ordered keys for Map / Opts
	Map  map[string]AIn
	Disc string
	Wait bool
	Raw  bool // lit only: written as a plain (unquoted) YAML scalar exactly as given, e.g. false / no / 0
}

func lit(s string) AIn  { return AIn{K: "lit", Lit: s} }
func expr(s string) AIn { return AIn{K: "expr", Src: s} }
func amap(kv ...any) AIn {
	m := AIn{K: "map", Map: map[string]AIn{}}
	for i := 0; i+1 < len(kv); i += 2 {
		k := kv[i].(string)
		m.Keys = append(m.Keys, k)
		m.Map[k] = kv[i+1].(AIn)
	}
	return m
}
func (a *AIn) put(k string, v AIn) {
	if a.Map == nil {
		a.Map = map[string]AIn{}
	}
	if _, ok := a.Map[k]; !ok {
		a.Keys = append(a.Keys, k)
	}
	a.Map[k] = v
}

func (a AIn) json() any {
	switch a.K {
	case "lit":
		return map[string]any{"k": "lit", "v": a.Lit}
	case "expr":
		e, _ := parseExpr(a.Src)
		return map[string]any{"k": "expr", "src": a.Src, "e": e}
	case "optional":
		e, _ := parseExpr(a.Src)
		return map[string]any{"k": "optional", "wait": a.Wait, "src": a.Src, "e": e}
	case "ordisabled":
		e, _ := parseExpr(a.Src)
		return map[string]any{"k": "ordisabled", "src": a.Src, "e": e}
	case "list":
		l := make([]any, len(a.List))
		for i, x := range a.List {
			l[i] = x.json()
		}
		return map[string]any{"k": "list", "l": l}
	case "map":
		m := map[string]any{}
		for _, k := range a.Keys {
			m[k] = a.Map[k].json()
		}
		return map[string]any{"k": "map", "m": m}
	case "oneof":
		m := map[string]any{}
		for _, k := range a.Keys {
			m[k] = a.Map[k].json()
		}
		return map[string]any{"k": "oneof", "disc": a.Disc, "opts": m}
	}
	return nil
}

func yq(s string) string {
	return `"` + strings.NewReplacer(`\`, `\\`, `"`, `\"`).Replace(s) + `"`
}

// yaml renders in flow style; keyOrder lets callers permute map keys (C16).
func (a AIn) yaml(perm func(keys []string) []string) string {
	keys := func() []string {
		ks := append([]string{}, a.Keys...)
		if perm != nil {
			ks = perm(ks)
		}
		return ks
	}
	switch a.K {
	case "lit":
		if a.Raw {
			return a.Lit
		}
		return yq(a.Lit)
	case "expr":
		return "!expr " + yq(a.Src)
	case "optional":
		if a.Wait {
			return "!wait-optional " + yq(a.Src)
		}
		return "!soft-optional " + yq(a.Src)
	case "ordisabled":
		return "!ordisabled " + yq(a.Src)
	case "list":
		parts := make([]string, len(a.List))
		for i, x := range a.List {
			parts[i] = x.yaml(perm)
		}
		return "[" + strings.Join(parts, ", ") + "]"
	case "map":
		parts := []string{}
		for _, k := range keys() {
			parts = append(parts, yq(k)+": "+a.Map[k].yaml(perm))
		}
		return "{" + strings.Join(parts, ", ") + "}"
	case "oneof":
		parts := []string{}
		for _, k := range keys() {
			parts = append(parts, yq(k)+": "+a.Map[k].yaml(perm))
		}
		return "!oneof {discriminator: " + yq(a.Disc) + ", one_of: {" + strings.Join(parts, ", ") + "}}"
	}
	return "~"
}

// AStep is one step of an abstract workflow.
type AStep struct {
	ID       string
	Kind     string // plugin | foreach
	PlugStep string // op | opns
	Src      string // plugin source (= behaviour key)
	Workflow string // foreach: sub-workflow file
	Fields   map[string]AIn
}

// AWf is an abstract workflow.
type AWf struct {
	InputFields []AField
	Steps       []AStep
	OutputIDs   []string
	Outputs     map[string]AIn
}

type AField struct {
	Name     string
	Type     string // string | int | bool | liststring
	Required bool
	Default  string // JSON-encoded default, "" if none
}

func (w *AWf) json() any {
	steps := []any{}
	for _, s := range w.Steps {
		f := map[string]any{}
		for k, v := range s.Fields {
			f[k] = v.json()
		}
		steps = append(steps, map[string]any{"id": s.ID, "kind": s.Kind, "step": s.PlugStep, "src": s.Src,
			"workflow": s.Workflow, "fields": f})
	}
	outs := map[string]any{}
	for k, v := range w.Outputs {
		outs[k] = v.json()
	}
	fields := []any{}
	for _, f := range w.InputFields {
		fields = append(fields, map[string]any{"name": f.Name, "type": f.Type, "required": f.Required, "default": f.Default})
	}
	return map[string]any{"input_fields": fields, "steps": steps, "outputs": outs}
}

func typeYAML(t string) string {
	switch t {
	case "int":
		return "{type_id: integer}"
	case "bool":
		return "{type_id: bool}"
	case "liststring":
		return "{type_id: list, items: {type_id: string}}"
	default:
		return "{type_id: string}"
	}
}

// yaml renders the workflow text. stepOrder/outOrder/keyPerm permute (nil = as is); rename maps step ids.
func (w *AWf) yaml(stepOrder []int, keyPerm func([]string) []string) string {
	var b strings.Builder
	b.WriteString("version: v0.2.0\ninput:\n  root: RootObject\n  objects:\n    RootObject:\n      id: RootObject\n      properties:")
	if len(w.InputFields) == 0 {
		b.WriteString(" {}\n")
	} else {
		b.WriteString("\n")
		for _, f := range w.InputFields {
			fmt.Fprintf(&b, "        %s:\n          type: %s\n          required: %v\n", f.Name, typeYAML(f.Type), f.Required)
			if f.Default != "" {
				fmt.Fprintf(&b, "          default: %s\n", yq(f.Default))
			}
		}
	}
	b.WriteString("steps:\n")
	order := stepOrder
	if order == nil {
		order = make([]int, len(w.Steps))
		for i := range order {
			order[i] = i
		}
	}
	for _, i := range order {
		s := w.Steps[i]
		fmt.Fprintf(&b, "  %s:\n", s.ID)
		if s.Kind == "foreach" {
			fmt.Fprintf(&b, "    kind: foreach\n    workflow: %s\n", yq(s.Workflow))
		} else {
			fmt.Fprintf(&b, "    plugin: {src: %s, deployment_type: \"builtin\"}\n    step: %s\n", yq(s.Src), s.PlugStep)
		}
		fk := make([]string, 0, len(s.Fields))
		for k := range s.Fields {
			fk = append(fk, k)
		}
		sort.Strings(fk)
		if keyPerm != nil {
			fk = keyPerm(fk)
		}
		for _, k := range fk {
			fmt.Fprintf(&b, "    %s: %s\n", k, s.Fields[k].yaml(keyPerm))
		}
	}
	b.WriteString("outputs:\n")
	oids := append([]string{}, w.OutputIDs...)
	if keyPerm != nil {
		oids = keyPerm(oids)
	}
	for _, o := range oids {
		fmt.Fprintf(&b, "  %s: %s\n", o, w.Outputs[o].yaml(keyPerm))
	}
	return b.String()
}

// ---- generator -----------------------------------------------------------------------------------------------------------

type genOpts struct {
	maxSteps    int
	tags        bool // use !oneof / optional / !ordisabled
	failOutputs bool // outputs that reference crashed / deploy_failed / closed / disabled / error outputs
	enabled     bool
	stopIf      bool
	waitFor     bool
	evalFail    bool // expressions that can fail at run time (absent optional input, failing conversion, division by zero)
	closureMs   int  // > 0: every step gets this closure_wait_timeout (keeps cancelled runs short)
	closureZero bool // with closureMs: some steps get the valid minimum 0 instead (a step that ignores its cancel signal is force-closed at once)
	litGates    bool // some steps get a LITERAL `enabled` (a spelling of the bool schema: the provider receives a string)
	// multiRef: single expressions with SEVERAL step references, one of them already referenced by another expression of the
	// same stage (input field, wait_for), optional members with several sources, and a !wait-optional next to a !soft-optional
	// member on the same source (extra random draws happen only when the option is set: other streams keep their cases)
	multiRef bool
	// deployExpr: some steps get their own `deploy:` section whose note is an expression over the workflow input; the scripted
	// deployer refuses a deployment whose note starts with "refuse" and records the note otherwise
	deployExpr bool
}

func stepName(i int) string { return fmt.Sprintf("s%d", i) }

// genWorkflow builds an acyclic workflow of plugin steps over the scripted plugin.
func genWorkflow(r *rng, o genOpts) *AWf {
	w := &AWf{Outputs: map[string]AIn{}}
	w.InputFields = []AField{{Name: "name", Type: "string", Required: true}}
	if r.chance(1, 2) {
		w.InputFields = append(w.InputFields, AField{Name: "n", Type: "int", Required: false, Default: "7"})
	}
	if o.enabled || r.chance(1, 3) {
		w.InputFields = append(w.InputFields, AField{Name: "flag", Type: "bool", Required: true})
	}
	if o.evalFail {
		w.InputFields = append(w.InputFields, AField{Name: "opt", Type: "string", Required: false},
			AField{Name: "z", Type: "int", Required: false, Default: "0"}, AField{Name: "lst", Type: "liststring", Required: false})
		if r.chance(1, 25) {
			// a default that is not JSON: the workflow has to be refused when it is prepared (the SDK decodes defaults on
			// first use and panics on this one - a run that omits the field would die)
			w.InputFields[len(w.InputFields)-2].Default = r.pick([]string{"{", "[1,", "1 2", "nul"})
		}
	}
	hasField := func(n string) bool {
		for _, f := range w.InputFields {
			if f.Name == n {
				return true
			}
		}
		return false
	}
	n := 1 + r.intn(o.maxSteps)
	for i := 0; i < n; i++ {
		s := AStep{ID: stepName(i), Kind: "plugin", PlugStep: "op", Src: stepName(i), Fields: map[string]AIn{}}
		if !o.stopIf && r.chance(1, 5) {
			s.PlugStep = "opns"
		}
		in := AIn{K: "map"}
		// string field
		switch c := r.intn(5); {
		case c == 0:
			in.put("s", lit("lit-"+s.ID))
		case c == 1:
			in.put("s", expr("$.input.name"))
		case c >= 2 && i > 0:
			j := r.intn(i)
			ref := fmt.Sprintf("$.steps.%s.outputs.success.s", stepName(j))
			if o.tags && r.chance(1, 4) {
				in.put("s", AIn{K: "optional", Wait: r.chance(1, 2), Src: ref})
			} else {
				in.put("s", expr(ref))
			}
		}
		// int field
		switch c := r.intn(5); {
		case c == 0:
			in.put("i", lit(fmt.Sprintf("%d", r.intn(100))))
		case c == 1 && hasField("n"):
			in.put("i", expr("$.input.n"))
		case c >= 3 && i > 0:
			j := r.intn(i)
			in.put("i", expr(fmt.Sprintf("$.steps.%s.outputs.success.i", stepName(j))))
		}
		if r.chance(1, 6) {
			in.put("l", AIn{K: "list", List: []AIn{lit("x"), expr("$.input.name")}})
		}
		if o.evalFail && r.chance(1, 3) {
			switch r.intn(5) {
			case 0:
				in.put("s", expr("$.input.opt"))
			case 1:
				in.put("i", expr("10 / $.input.z"))
			case 2:
				in.put("i", expr("7 % $.input.z"))
			case 3:
				in.put("i", expr("stringToInt($.input.name)"))
			default:
				in.put("s", expr("$.input.lst[2]"))
			}
		}
		if o.multiRef && i >= 2 && r.chance(1, 2) {
			j := r.intn(i)
			k := (j + 1 + r.intn(i-1)) % i
			a := fmt.Sprintf("$.steps.%s.outputs.success.s", stepName(j))
			b := fmt.Sprintf("$.steps.%s.outputs.success.s", stepName(k))
			two := fmt.Sprintf("splitString(%s, %s)", a, b)
			switch r.intn(4) {
			case 0: // `s` connects j first, then one expression needs j (already connected) and k
				in.put("s", expr(a))
				in.put("l", expr(two))
			case 1: // the same through wait_for (a list: processed in order)
				in.put("s", expr(a))
				s.Fields["wait_for"] = AIn{K: "list", List: []AIn{expr(fmt.Sprintf("splitString(%s, \"-\")", a)), expr(two)}}
			case 2: // an optional member with two sources
				if o.tags {
					in.put("l", AIn{K: "optional", Wait: r.chance(1, 2), Src: two})
				} else {
					in.put("l", expr(two))
				}
			default: // the reference that is already connected comes second
				in.put("s", expr(b))
				in.put("l", expr(two))
			}
		}
		s.Fields["input"] = in
		if o.waitFor && i > 0 && r.chance(1, 3) {
			j := r.intn(i)
			switch r.intn(3) {
			case 0:
				s.Fields["wait_for"] = expr(fmt.Sprintf("$.steps.%s.outputs", stepName(j)))
			case 1:
				s.Fields["wait_for"] = expr(fmt.Sprintf("$.steps.%s.outputs.success", stepName(j)))
			default:
				s.Fields["wait_for"] = expr(fmt.Sprintf("$.steps.%s.starting.started", stepName(j)))
			}
		}
		if o.enabled && r.chance(1, 3) {
			if i > 0 && r.chance(1, 2) {
				s.Fields["enabled"] = expr(fmt.Sprintf("$.steps.%s.outputs.success.b", stepName(r.intn(i))))
			} else if hasField("flag") {
				s.Fields["enabled"] = expr("$.input.flag")
			}
		}
		if o.litGates && r.chance(1, 4) {
			sp := []string{"true", "false", "yes", "no", "on", "off", "1", "0", "True", "FALSE"}
			s.Fields["enabled"] = AIn{K: "lit", Lit: sp[r.intn(len(sp))], Raw: r.chance(1, 2)}
		}
		if o.stopIf && s.PlugStep == "op" && i > 0 && r.chance(1, 4) {
			s.Fields["stop_if"] = expr(fmt.Sprintf("$.steps.%s.outputs", stepName(r.intn(i))))
		}
		if o.closureMs > 0 {
			s.Fields["closure_wait_timeout"] = lit(fmt.Sprintf("%d", o.closureMs))
			if o.closureZero && r.chance(1, 3) {
				s.Fields["closure_wait_timeout"] = lit("0")
			}
		}
		if o.deployExpr && r.chance(1, 2) {
			s.Fields["deploy"] = amap("deployer_name", lit("scripted"), "note", expr("$.input.name"))
		}
		w.Steps = append(w.Steps, s)
	}
	// outputs
	succ := AIn{K: "map"}
	k := 1 + r.intn(3)
	for x := 0; x < k; x++ {
		j := r.intn(n)
		key := fmt.Sprintf("f%d", x)
		ref := fmt.Sprintf("$.steps.%s.outputs.success", stepName(j))
		switch c := r.intn(6); {
		case c == 0:
			succ.put(key, expr(ref+".s"))
		case c == 1:
			succ.put(key, expr(ref))
		case c == 2 && o.tags:
			succ.put(key, AIn{K: "optional", Wait: true, Src: ref + ".s"})
		case c == 3 && o.tags:
			succ.put(key, AIn{K: "optional", Wait: false, Src: ref + ".i"})
		case c == 4 && o.tags:
			if _, en := w.Steps[j].Fields["enabled"]; en {
				succ.put(key, AIn{K: "ordisabled", Src: ref})
			} else {
				one := AIn{K: "oneof", Disc: "which", Map: map[string]AIn{}}
				okID, badID := "ok", "bad"
				if o.multiRef && r.chance(1, 2) {
					// option ids are arbitrary YAML keys: dots, dashes, a shared suffix
					okID, badID = []string{"ran.v1", "report.json", "a.b.c"}[r.intn(3)], []string{"failed.v1", "bad-1", "x.c"}[r.intn(3)]
				}
				one.put(okID, amap("v", expr(ref+".s")))
				one.put(badID, amap("v", expr(fmt.Sprintf("$.steps.%s.outputs.error.reason", stepName(j)))))
				succ.put(key, one)
			}
		default:
			succ.put(key, expr(ref+".i"))
		}
	}
	if o.multiRef && o.tags && r.chance(1, 2) {
		// one object holding a !wait-optional and a !soft-optional member on the SAME source, and an optional with two sources
		j := r.intn(n)
		ref := fmt.Sprintf("$.steps.%s.outputs.success", stepName(j))
		succ.put("w0", AIn{K: "optional", Wait: true, Src: ref + ".s"})
		succ.put("w1", AIn{K: "optional", Wait: false, Src: ref + ".i"})
		if n >= 2 {
			k := (j + 1 + r.intn(n-1)) % n
			succ.put("w2", AIn{K: "optional", Wait: true, Src: fmt.Sprintf("splitString(%s.s, $.steps.%s.outputs.success.s)", ref, stepName(k))})
		}
	}
	w.OutputIDs = append(w.OutputIDs, "success")
	w.Outputs["success"] = succ
	if o.failOutputs && r.chance(2, 3) {
		j := r.intn(n)
		f := AIn{K: "map"}
		switch r.intn(5) {
		case 0:
			f.put("e", expr(fmt.Sprintf("$.steps.%s.outputs.error", stepName(j))))
		case 1:
			f.put("e", expr(fmt.Sprintf("$.steps.%s.crashed.error", stepName(j))))
		case 2:
			f.put("e", expr(fmt.Sprintf("$.steps.%s.deploy_failed.error", stepName(j))))
		case 3:
			f.put("e", expr(fmt.Sprintf("$.steps.%s.outputs.alt.s", stepName(j))))
		default:
			f.put("e", expr(fmt.Sprintf("$.steps.%s.disabled.output", stepName(j))))
		}
		w.OutputIDs = append(w.OutputIDs, "failure")
		w.Outputs["failure"] = f
	}
	if r.chance(1, 5) {
		w.OutputIDs = append(w.OutputIDs, "error")
		w.Outputs["error"] = amap("m", expr(fmt.Sprintf("$.steps.%s.outputs.error.reason", stepName(r.intn(n)))))
	}
	return w
}
