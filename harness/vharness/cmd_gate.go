//go:build verif

package main

import (
	"fmt"
	"strings"

	"go.flow.arcalot.io/pluginsdk/schema"
)

func init() { register("gate", cmdGate) }

// ---- gate differential (C04, provider level) -------------------------------------------------------------------------------
//
// The REAL plugin provider is driven directly (runProviderCase of cmd_provider.go: recording handler, scripted deployer and
// plugin) with stage inputs whose `enabled` / `stop_if` values are NOT Go bools: the strings, ints and nil that reach the
// provider when the workflow author writes a literal.  `arcadrv gate` runs the same script through Arca.Model.Gate with the
// decisions extracted from the source and checks that the observed end (executed / disabled / closed / deploy failed) is one
// the model admits.  A script entry that is preceded by a pause of >= gateSettleMs is "settled": run() had the time to reach
// its next blocking point, which is what makes "the stop arrived while the step was waiting for its enabled value" a
// deterministic scenario.

const gateSettleMs = 120

var gateValues = []any{true, false, nil, "true", "false", "TRUE", "False", "yes", "no", "on", "off", "1", "0", "y", "n",
	"enabled", "disabled", "maybe", "", int64(0), int64(1), int64(2)}

func gateVal(r *rng) any { return gateValues[r.intn(len(gateValues))] }

func genGateCase(r *rng, id string) *pvCase {
	c := &pvCase{ID: id, Provider: "plugin", Step: "op", TimeoutMs: 30}
	if r.chance(1, 5) {
		c.Step = "opns"
	}
	c.Behaviour = Behaviour{Outcome: "success", DeployDelayMs: []int{0, 0, 20}[r.intn(3)]}
	if r.chance(1, 12) {
		c.Behaviour.DeployFail = true
	}
	c.Env = pvEnv{StartMode: "ok", DeployCfg: "local"}
	acts := []pvAction{{Op: "deploy"}}
	settle := func() int {
		if r.chance(2, 3) {
			return gateSettleMs
		}
		return []int{0, 0, 1, 5}[r.intn(4)]
	}
	switch r.intn(5) {
	case 4:
		// two stop inputs: the stop condition is accepted once, whatever the first one said
		acts = append(acts, pvAction{Op: "cancelled", Arg: gateVal(r), DelayMs: settle()},
			pvAction{Op: "cancelled", Arg: gateVal(r), DelayMs: settle()},
			pvAction{Op: "enabling", Arg: gateVal(r), DelayMs: settle()}, pvAction{Op: "starting", Arg: "valid"})
	case 0:
		// the three inputs, enabled value arbitrary
		rest := []pvAction{{Op: "enabling", Arg: gateVal(r)}, {Op: "starting", Arg: "valid"}}
		if r.chance(1, 2) {
			rest[0], rest[1] = rest[1], rest[0]
		}
		acts = append(acts, rest...)
	case 1:
		// a stop request while the step waits for its enabled value, which arrives later
		acts = append(acts, pvAction{Op: "cancelled", Arg: gateVal(r), DelayMs: settle()},
			pvAction{Op: "enabling", Arg: gateVal(r), DelayMs: settle()}, pvAction{Op: "starting", Arg: "valid"})
	case 2:
		// a stop request while the step waits for its input (enabled known)
		acts = append(acts, pvAction{Op: "enabling", Arg: gateVal(r)}, pvAction{Op: "cancelled", Arg: gateVal(r), DelayMs: settle()},
			pvAction{Op: "starting", Arg: "valid", DelayMs: settle()})
	default:
		// everything there before the deployment finishes, stop request somewhere
		acts = []pvAction{{Op: "enabling", Arg: gateVal(r)}, {Op: "starting", Arg: "valid"}, {Op: "deploy"}}
		k := r.intn(4)
		stop := pvAction{Op: "cancelled", Arg: gateVal(r)}
		if k == 3 {
			stop.DelayMs = settle()
		}
		acts = append(acts[:k], append([]pvAction{stop}, acts[k:]...)...)
	}
	// a no-op input after a pause: gives the step the time to get where it is going before the final ForceClose
	acts = append(acts, pvAction{Op: "running", DelayMs: gateSettleMs + 30})
	c.Actions = acts
	return c
}

// gateBoolSpellings: every value the generators of the c04 / gate / loop streams write for a bool gate, in the case
// variants they use and a few more, plus values the schema must reject.
func gateBoolSpellings(r *rng) []any {
	out := []any{}
	seen := map[string]bool{}
	add := func(v any) {
		k := fmt.Sprintf("%T:%v", v, v)
		if !seen[k] {
			seen[k] = true
			out = append(out, v)
		}
	}
	for _, v := range gateValues {
		add(v)
	}
	words := append(append([]string{}, c04True...), c04False...)
	for _, w := range words {
		add(w)
		add(strings.ToUpper(w))
		add(strings.ToLower(w))
		if len(w) > 1 {
			add(strings.ToUpper(w[:1]) + strings.ToLower(w[1:]))
			// a random mix of cases
			b := []byte(strings.ToLower(w))
			for i := range b {
				if r.chance(1, 2) && b[i] >= 'a' && b[i] <= 'z' {
					b[i] -= 32
				}
			}
			add(string(b))
		}
	}
	for _, w := range []string{"maybe", "", " true", "true ", "2", "-1", "01", "t", "f", "nope", "truee", "null", "~"} {
		add(w)
	}
	for _, n := range []int64{-1, 0, 1, 2, 10} {
		add(n)
	}
	return out
}

func cmdGate(args []string) int {
	c, _ := parseCommon("gate", args, nil)
	w := openOut(c.out)
	defer w.close()
	r := newRng(c.seed)
	if c.skip == 0 {
		// the bool schema itself: the engine's decision on `enabled` goes through it, the model's boolRead must agree
		for i, v := range gateBoolSpellings(r.fork()) {
			res, err := schema.NewBoolSchema().Unserialize(v)
			line := map[string]any{"kind": "boolread", "id": fmt.Sprintf("boolread-%d-%d", c.seed, i), "arg": v, "ok": err == nil}
			if err == nil {
				line["value"] = res.(bool)
			}
			w.emit(line)
		}
	} else {
		r.fork()
	}
	for i := 0; i < c.n; i++ {
		cr := r.fork()
		if i < c.skip {
			continue
		}
		w.emit(map[string]any{"kind": "begin", "index": i})
		pc := genGateCase(cr, fmt.Sprintf("gate-%d-%d", c.seed, i))
		out := runProviderCase(pc)
		out["kind"] = "gate"
		out["settle_ms"] = gateSettleMs
		w.emit(out)
	}
	return 0
}
