//go:build verif

package main

import (
	"context"
	"encoding/json"
	"fmt"
	"math"
	"runtime"
	"sort"
	"strings"
	"time"

	engineyaml "go.flow.arcalot.io/engine/internal/yaml"
)

func init() { register("input", cmdInput) }

// ---- C19: workflow input schemas x input documents -----------------------------------------------------------------------
//
// A schema is generated from the small type language `ITy` (mirrored by `Arca.Model.Ty`), rendered as the `input:`
// section of a workflow whose plugin steps reference input fields, and run through the real `Prepare` + `Execute` with a
// generated document that is valid, or invalid in exactly one way.  Recorded: the result of Execute, the number of
// deployments at the time Execute returned (and after the dust settled), what every plugin received, and the returned
// `$.input`.  The generator's own verdict (expect_valid / violation_kind) is recorded next to the observations.

// ITy is one type of the input-schema fragment.
type ITy struct {
	T       string // str | int | bool | float | list | map | obj
	Min     *int64 // str: bytes, int: value, list: items
	Max     *int64
	Pat     *IPat
	Item    *ITy // list item / map value
	Props   []IProp
	ID      string // obj: object id
	StepRef string // obj: the op-input object of that step, rendered as a namespaced reference
}

// IProp is one property of an object type.
type IProp struct {
	Name       string
	Req        bool
	HasDefault bool
	Default    any // typed Go value (int64 / float64 / string / bool / []any / map[string]any)
	BadDefault bool
	Ty         *ITy
	ViaRef     bool // rendered as `type_id: ref` to an entry of the scope's `objects`
}

// IPat is the small pattern language: all characters from a class (`^[cls]+$` / `^[cls]*$`) or a literal prefix (`^p`).
type IPat struct {
	K   string // all | pre
	Cls string // lower | digit | alnum | word
	NE  bool
	P   string
}

var inputPatClasses = map[string][2]string{
	"lower": {"a-z", "abcdefghijklmnopqrstuvwxyz"},
	"digit": {"0-9", "0123456789"},
	"alnum": {"a-zA-Z0-9", "abcxyzABCXYZ0189"},
	"word":  {"a-zA-Z0-9_-", "abcxyzABCXYZ0189_-"},
}

func (p *IPat) regex() string {
	if p.K == "pre" {
		return "^" + p.P
	}
	q := "*"
	if p.NE {
		q = "+"
	}
	return "^[" + inputPatClasses[p.Cls][0] + "]" + q + "$"
}

func inputOptInt(p *int64) any {
	if p == nil {
		return nil
	}
	return encVal(*p)
}

func (t *ITy) json() any {
	switch t.T {
	case "str":
		var pat any
		if t.Pat != nil {
			pat = map[string]any{"k": t.Pat.K, "cls": t.Pat.Cls, "ne": t.Pat.NE, "p": t.Pat.P}
		}
		return map[string]any{"t": "str", "min": inputOptInt(t.Min), "max": inputOptInt(t.Max), "pat": pat}
	case "int":
		return map[string]any{"t": "int", "min": inputOptInt(t.Min), "max": inputOptInt(t.Max)}
	case "list":
		return map[string]any{"t": "list", "item": t.Item.json(), "min": inputOptInt(t.Min), "max": inputOptInt(t.Max)}
	case "map":
		return map[string]any{"t": "map", "val": t.Item.json()}
	case "obj":
		ps := []any{}
		for _, p := range t.Props {
			m := map[string]any{"name": p.Name, "req": p.Req, "has_default": p.HasDefault, "ty": p.Ty.json(),
				"via_ref": p.ViaRef, "bad_default": p.BadDefault}
			if p.HasDefault {
				m["default"] = encVal(p.Default)
			}
			ps = append(ps, m)
		}
		return map[string]any{"t": "obj", "props": ps, "step_ref": t.StepRef}
	}
	return map[string]any{"t": t.T}
}

// shape tags for the histogram
func (t *ITy) shapes(depth int, out map[string]bool) {
	tag := t.T
	switch t.T {
	case "str":
		if t.Min != nil || t.Max != nil {
			out["str:len"] = true
		}
		if t.Pat != nil {
			out["str:pattern:"+t.Pat.K] = true
		}
	case "int":
		if t.Min != nil || t.Max != nil {
			out["int:range"] = true
		}
	case "list":
		if t.Min != nil || t.Max != nil {
			out["list:bounds"] = true
		}
		out["list-of-"+t.Item.T] = true
		t.Item.shapes(depth+1, out)
	case "map":
		out["map-of-"+t.Item.T] = true
		t.Item.shapes(depth+1, out)
	case "obj":
		if t.StepRef != "" {
			tag = "obj:step-input-ref"
		}
		if len(t.Props) == 1 {
			out["obj:single-property"] = true
		}
		for _, p := range t.Props {
			switch {
			case p.Req && p.HasDefault:
				out["prop:required+default"] = true
			case p.Req:
				out["prop:required"] = true
			case p.HasDefault:
				out["prop:optional+default"] = true
			default:
				out["prop:optional"] = true
			}
			if p.ViaRef {
				out["prop:via-ref"] = true
			}
			if p.BadDefault {
				out["prop:bad-default"] = true
			}
			p.Ty.shapes(depth+1, out)
		}
	}
	out[tag] = true
	out[fmt.Sprintf("depth>=%d", depth)] = true
}

// ---- schema generator ----------------------------------------------------------------------------------------------------

type inputGen struct {
	r      *rng
	objSeq int
}

func inputI64(v int) *int64 { x := int64(v); return &x }

func (g *inputGen) scalar() *ITy {
	r := g.r
	switch r.intn(7) {
	case 0, 1, 2:
		t := &ITy{T: "str"}
		lo := 0
		if r.chance(1, 3) {
			switch r.intn(3) {
			case 0:
				t.Pat = &IPat{K: "pre", P: r.pick([]string{"a", "ab", "x9"})}
				lo = len(t.Pat.P)
			default:
				t.Pat = &IPat{K: "all", Cls: r.pick([]string{"lower", "digit", "alnum", "word"}), NE: r.chance(1, 2)}
				if t.Pat.NE {
					lo = 1
				}
			}
		}
		if r.chance(1, 3) {
			m := r.intn(4)
			t.Min = inputI64(m)
			if m > lo {
				lo = m
			}
		}
		if r.chance(1, 3) {
			t.Max = inputI64(lo + r.intn(6))
		}
		return t
	case 3, 4:
		t := &ITy{T: "int"}
		if r.chance(1, 2) {
			lo := r.intn(21) // a serialized int schema cannot carry negative bounds (schema of schemas: min, max >= 0)
			if r.chance(2, 3) {
				t.Min = inputI64(lo)
			}
			if r.chance(2, 3) {
				t.Max = inputI64(lo + r.intn(40))
			}
		}
		return t
	case 5:
		return &ITy{T: "bool"}
	default:
		return &ITy{T: "float"}
	}
}

func (g *inputGen) ty(depth int) *ITy {
	r := g.r
	if depth >= 3 {
		return g.scalar()
	}
	switch c := r.intn(20); {
	case c < 11:
		return g.scalar()
	case c < 14:
		t := &ITy{T: "list", Item: g.ty(depth + 1)}
		if r.chance(1, 5) {
			t.Item = &ITy{T: "str"}
		}
		lo := 0
		if r.chance(1, 2) {
			lo = r.intn(3)
			t.Min = inputI64(lo)
		}
		if r.chance(1, 2) {
			t.Max = inputI64(lo + r.intn(4))
		}
		return t
	case c < 16:
		return &ITy{T: "map", Item: g.ty(depth + 1)}
	default:
		return g.obj(depth, 1+r.intn(4))
	}
}

var inputPropPrefix = map[string]string{"str": "str", "int": "num", "bool": "flg", "float": "flt", "list": "lst", "map": "map", "obj": "obj"}

func (g *inputGen) obj(depth, n int) *ITy { return g.objWith(depth, n, false) }

// objWith: optOnly = no property is required (each is optional, with or without a default): the empty map is a valid
// document and nothing is guaranteed to be present unless defaulted.
func (g *inputGen) objWith(depth, n int, optOnly bool) *ITy {
	r := g.r
	g.objSeq++
	t := &ITy{T: "obj", ID: fmt.Sprintf("Obj%d", g.objSeq)}
	for i := 0; i < n; i++ {
		var pt *ITy
		if depth == 0 && i == 0 {
			pt = g.scalar() // at least one scalar at the root for the steps to refer to
			for pt.T == "float" {
				pt = g.scalar()
			}
		} else {
			pt = g.ty(depth + 1)
		}
		p := IProp{Name: fmt.Sprintf("%s%d", inputPropPrefix[pt.T], i), Ty: pt}
		switch c := r.intn(10); {
		case c < 5:
			p.Req = true
			if r.chance(1, 8) {
				p.HasDefault = true
			}
		case c < 8:
			p.HasDefault = true
		}
		if depth == 0 && i == 0 && !p.Req && !p.HasDefault && !optOnly {
			p.Req = true
		}
		if optOnly {
			p.Req = false
		}
		if p.HasDefault {
			p.Default = g.typed(pt)
		}
		if pt.T == "obj" && r.chance(1, 2) {
			p.ViaRef = true
		}
		t.Props = append(t.Props, p)
	}
	return t
}

// inputStepInputTy is the input object of the scripted plugin step as the engine sees it over ATP.
func inputStepInputTy(step string) *ITy {
	opt := func(n string, t *ITy) IProp { return IProp{Name: n, Ty: t} }
	return &ITy{T: "obj", ID: "op-input", StepRef: step, Props: []IProp{
		opt("s", &ITy{T: "str"}), opt("i", &ITy{T: "int"}), opt("b", &ITy{T: "bool"}),
		opt("l", &ITy{T: "list", Item: &ITy{T: "str"}}),
	}}
}

// ---- values ----------------------------------------------------------------------------------------------------------------

func (g *inputGen) strLenRange(t *ITy) (int, int) {
	lo := 0
	if t.Pat != nil && t.Pat.K == "pre" {
		lo = len(t.Pat.P)
	}
	if t.Pat != nil && t.Pat.K == "all" && t.Pat.NE {
		lo = 1
	}
	if t.Min != nil && int(*t.Min) > lo {
		lo = int(*t.Min)
	}
	hi := lo + 4
	if t.Max != nil {
		hi = int(*t.Max)
	}
	return lo, hi
}

// validStr builds a string of the given byte length that satisfies the pattern of t.
func (g *inputGen) validStr(t *ITy, n int, ascii bool) string {
	r := g.r
	alpha := "abcXYZ 09_-.:"
	prefix := ""
	if t.Pat != nil {
		if t.Pat.K == "pre" {
			prefix = t.Pat.P
			alpha = "abcxyz019"
		} else {
			alpha = inputPatClasses[t.Pat.Cls][1]
		}
	}
	var b strings.Builder
	b.WriteString(prefix)
	for b.Len() < n {
		if t.Pat == nil && !ascii && n-b.Len() >= 2 && r.chance(1, 6) {
			b.WriteString("é") // two bytes: the schema counts bytes
			continue
		}
		b.WriteByte(alpha[r.intn(len(alpha))])
	}
	return b.String()
}

func (g *inputGen) intRange(t *ITy) (int64, int64) {
	lo, hi := int64(-50), int64(50)
	if t.Min != nil {
		lo = *t.Min
		if t.Max == nil {
			hi = lo + 60
		}
	}
	if t.Max != nil {
		hi = *t.Max
		if t.Min == nil {
			lo = hi - 60
		}
	}
	return lo, hi
}

var inputDyadicFloats = []float64{0, 1, -1, 2.5, -0.25, 0.75, 3, 100, -12.5, 1024, 0.5}

// typed generates a valid value in canonical typed form (used for defaults and list padding).
func (g *inputGen) typed(t *ITy) any {
	r := g.r
	switch t.T {
	case "str":
		lo, hi := g.strLenRange(t)
		return g.validStr(t, lo+r.intn(hi-lo+1), true)
	case "int":
		lo, hi := g.intRange(t)
		return lo + int64(r.intn(int(hi-lo+1)))
	case "bool":
		return r.chance(1, 2)
	case "float":
		return inputDyadicFloats[r.intn(len(inputDyadicFloats))]
	case "list":
		lo := 0
		if t.Min != nil {
			lo = int(*t.Min)
		}
		hi := lo + 2
		if t.Max != nil {
			hi = int(*t.Max)
		}
		n := lo + r.intn(hi-lo+1)
		out := make([]any, n)
		for i := range out {
			out[i] = g.typed(t.Item)
		}
		return out
	case "map":
		out := map[string]any{}
		for i, n := 0, r.intn(3); i < n; i++ {
			out[fmt.Sprintf("k%d", i)] = g.typed(t.Item)
		}
		return out
	case "obj":
		out := map[string]any{}
		for _, p := range t.Props {
			if p.Req && !p.HasDefault || r.chance(1, 2) {
				out[p.Name] = g.typed(p.Ty)
			}
		}
		return out
	}
	return nil
}

type inputDocSite struct {
	path  []any
	ty    *ITy
	isMap bool // obj sites: the document spells the object as a map (not inline)
	// the value at this site is the bare value of the single property of an object spelled inline: a MAP put here would be
	// read as the object itself, not as a value of the property
	inlined bool
}

type inputDocGen struct {
	g        *inputGen
	mode     string // typed | strings | mixed
	sites    []inputDocSite
	spelling map[string]bool
	// omit: "" = random; "min" = every property that may be left out is left out; "objs" = every object-typed property is
	// given and every other property that may be left out is left out (the nested objects are reached, their own
	// optional properties are not given)
	omit string
}

func inputPathPlus(p []any, x any) []any {
	q := make([]any, len(p)+1)
	copy(q, p)
	q[len(p)] = x
	return q
}

func inputFmtFloat(f float64) string { return strings.TrimSuffix(strings.TrimSuffix(fmt.Sprintf("%.2f", f), "0"), ".0") }

// doc generates a valid document for t; scalars are spelled according to the mode.
func (d *inputDocGen) doc(t *ITy, path []any) any {
	r := d.g.r
	asString := d.mode == "strings" || (d.mode == "mixed" && r.chance(1, 3))
	cross := d.mode == "mixed" && !asString && r.chance(1, 4)
	switch t.T {
	case "str":
		d.sites = append(d.sites, inputDocSite{path: path, ty: t})
		if cross && t.Min == nil && t.Max == nil && t.Pat == nil {
			d.spelling["str<-int"] = true
			return int64(r.intn(2000) - 1000)
		}
		lo, hi := d.g.strLenRange(t)
		s := d.g.validStr(t, lo+r.intn(hi-lo+1), false)
		if strings.Contains(s, "é") {
			d.spelling["str:non-ascii"] = true
		}
		return s
	case "int":
		d.sites = append(d.sites, inputDocSite{path: path, ty: t})
		lo, hi := d.g.intRange(t)
		v := lo + int64(r.intn(int(hi-lo+1)))
		if cross && lo <= 1 && hi >= 0 {
			d.spelling["int<-bool"] = true
			if lo <= 0 && (hi < 1 || r.chance(1, 2)) {
				return false
			}
			return true
		}
		if asString {
			switch c := r.intn(6); {
			case c == 0 && v >= 0:
				d.spelling["int<-string:+"] = true
				return fmt.Sprintf("+%d", v)
			case c == 1 && v >= 0:
				d.spelling["int<-string:leading-zeros"] = true
				return fmt.Sprintf("00%d", v)
			case c == 1:
				d.spelling["int<-string:leading-zeros"] = true
				return fmt.Sprintf("-0%d", -v)
			default:
				d.spelling["int<-string"] = true
				return fmt.Sprintf("%d", v)
			}
		}
		return v
	case "bool":
		d.sites = append(d.sites, inputDocSite{path: path, ty: t})
		v := r.chance(1, 2)
		if cross {
			d.spelling["bool<-int"] = true
			if v {
				return int64(1)
			}
			return int64(0)
		}
		if asString {
			words := []string{"0", "no", "n", "off", "false", "disable", "disabled", "FALSE", "Off", "dİsable"}
			if v {
				words = []string{"1", "yes", "y", "on", "true", "enable", "enabled", "TRUE", "Yes", "oN"}
			}
			w := r.pick(words)
			d.spelling["bool<-string:"+strings.ToLower(w)] = true
			return w
		}
		return v
	case "float":
		d.sites = append(d.sites, inputDocSite{path: path, ty: t})
		f := inputDyadicFloats[r.intn(len(inputDyadicFloats))]
		if cross {
			if r.chance(1, 2) {
				d.spelling["float<-int"] = true
				return int64(r.intn(4001) - 2000)
			}
			d.spelling["float<-bool"] = true
			return r.chance(1, 2)
		}
		if asString {
			d.spelling["float<-string"] = true
			s := inputFmtFloat(f)
			if f >= 0 && r.chance(1, 5) {
				s = "+" + s
			}
			return s
		}
		if d.mode != "strings" && r.chance(1, 12) {
			d.spelling["float:special"] = true
			return []float64{math.Inf(1), math.Inf(-1), 5e-324, math.MaxFloat64, math.NaN(), math.Copysign(0, -1)}[r.intn(6)]
		}
		return f
	case "list":
		d.sites = append(d.sites, inputDocSite{path: path, ty: t})
		lo := 0
		if t.Min != nil {
			lo = int(*t.Min)
		}
		hi := lo + 3
		if t.Max != nil {
			hi = int(*t.Max)
		}
		n := lo + r.intn(hi-lo+1)
		if lo == 0 && r.chance(1, 4) {
			n = 0 // the empty list: a value, not an absence
			d.spelling["list:empty"] = true
		}
		out := make([]any, n)
		for i := range out {
			out[i] = d.doc(t.Item, inputPathPlus(path, i))
		}
		return out
	case "map":
		d.sites = append(d.sites, inputDocSite{path: path, ty: t})
		out := map[string]any{}
		for i, n := 0, r.intn(4); i < n; i++ {
			k := fmt.Sprintf("k%d", i)
			out[k] = d.doc(t.Item, inputPathPlus(path, k))
		}
		return out
	case "obj":
		// a single-property object may be spelled as the bare value of that property
		if len(t.Props) == 1 && d.omit == "" && r.chance(1, 3) {
			save := len(d.sites)
			inner := d.doc(t.Props[0].Ty, path)
			switch inner.(type) {
			case map[string]any:
				d.sites = d.sites[:save] // a map would be read as the object itself: spell it normally
			default:
				d.spelling["obj:inline-single-property"] = true
				for k := save; k < len(d.sites); k++ {
					if len(d.sites[k].path) == len(path) {
						d.sites[k].inlined = true
					}
				}
				d.sites = append(d.sites, inputDocSite{path: path, ty: t, isMap: false})
				return inner
			}
		}
		d.sites = append(d.sites, inputDocSite{path: path, ty: t, isMap: true})
		out := map[string]any{}
		for _, p := range t.Props {
			omit := false
			switch {
			case d.omit != "":
				omittable := !(p.Req && !p.HasDefault) && !p.BadDefault
				omit = omittable && (d.omit == "min" || p.Ty.T != "obj")
				if omit {
					d.spelling["omit:policy-"+d.omit] = true
				}
			case p.Req && !p.HasDefault:
			case p.Req:
				omit = r.chance(1, 3)
				if omit {
					d.spelling["omit:required+default"] = true
				}
			case p.HasDefault:
				omit = r.chance(1, 2)
				if omit {
					d.spelling["omit:optional+default"] = true
				}
			default:
				omit = r.chance(1, 2)
				if omit {
					d.spelling["omit:optional"] = true
				}
			}
			if !omit {
				out[p.Name] = d.doc(p.Ty, inputPathPlus(path, p.Name))
			}
		}
		return out
	}
	return nil
}

func inputReplaceAt(doc any, path []any, f func(old any) any) any {
	if len(path) == 0 {
		return f(doc)
	}
	switch k := path[0].(type) {
	case string:
		m, ok := doc.(map[string]any)
		if !ok {
			return doc
		}
		m[k] = inputReplaceAt(m[k], path[1:], f)
		return m
	case int:
		l, ok := doc.([]any)
		if !ok || k >= len(l) {
			return doc
		}
		l[k] = inputReplaceAt(l[k], path[1:], f)
		return l
	}
	return doc
}

func inputPathString(p []any) string {
	s := "$"
	for _, x := range p {
		switch k := x.(type) {
		case string:
			s += "." + k
		case int:
			s += fmt.Sprintf("[%d]", k)
		}
	}
	return s
}

type inputViolation struct {
	kind  string
	apply func(old any) any
}

// violationsAt lists the single-fault mutations applicable to a site.
func (d *inputDocGen) violationsAt(s inputDocSite) []inputViolation {
	r := d.g.r
	t := s.ty
	vs := []inputViolation{{"null", func(any) any { return nil }}}
	konst := func(kind string, vals ...any) {
		v := vals[r.intn(len(vals))]
		if _, isMap := v.(map[string]any); isMap && s.inlined {
			// not a fault of this site: the map would be the (differently spelled) enclosing object; take a non-map constant
			for _, w := range vals {
				if _, m := w.(map[string]any); !m {
					v = w
					break
				}
			}
			if _, still := v.(map[string]any); still {
				return
			}
		}
		vs = append(vs, inputViolation{kind, func(any) any { return v }})
	}
	switch t.T {
	case "str":
		konst("wrong-type", true, []any{"x"}, map[string]any{"k": "v"})
		if t.Min != nil && *t.Min > 0 {
			n := int(*t.Min) - 1
			vs = append(vs, inputViolation{"too-short", func(any) any { return d.g.validStr(&ITy{T: "str", Pat: inputAllOnly(t.Pat)}, n, true) }})
		}
		if t.Max != nil {
			n := int(*t.Max) + 1 + r.intn(2)
			vs = append(vs, inputViolation{"too-long", func(any) any { return d.g.validStr(t, n, true) }})
		}
		if t.Pat != nil {
			lo, hi := d.g.strLenRange(t)
			if hi >= 1 {
				n := lo
				if n == 0 {
					n = 1
				}
				vs = append(vs, inputViolation{"pattern-mismatch", func(any) any {
					b := []byte(d.g.validStr(t, n, true))
					if t.Pat.K == "pre" {
						b[0] = '!'
					} else {
						b[r.intn(len(b))] = '!'
					}
					return string(b)
				}})
			}
		}
	case "int":
		konst("wrong-type", "abc", "1.5", "", " 5", "5 ", "0x10", "1_000", "٣", []any{}, map[string]any{})
		konst("int-overflow", "9223372036854775808", "-9223372036854775809", "99999999999999999999999")
		spell := func(v int64) any {
			if r.chance(1, 2) {
				return fmt.Sprintf("%d", v)
			}
			return v
		}
		if t.Min != nil {
			v := *t.Min - 1 - int64(r.intn(3))
			vs = append(vs, inputViolation{"below-min", func(any) any { return spell(v) }})
		}
		if t.Max != nil {
			v := *t.Max + 1 + int64(r.intn(3))
			vs = append(vs, inputViolation{"above-max", func(any) any { return spell(v) }})
		}
	case "bool":
		konst("wrong-type", "maybe", "2", "", "tru", "yes ", int64(2), int64(-1), []any{true})
	case "float":
		konst("wrong-type", "zz", "", "1,5", "two", []any{}, map[string]any{})
	case "list":
		konst("wrong-type", "notalist", map[string]any{"a": "b"})
		if t.Min != nil && *t.Min > 0 {
			n := int(*t.Min) - 1
			vs = append(vs, inputViolation{"too-few-items", func(old any) any {
				l, _ := old.([]any)
				if len(l) >= n {
					return l[:n]
				}
				return []any{}
			}})
		}
		if t.Max != nil {
			n := int(*t.Max) + 1
			vs = append(vs, inputViolation{"too-many-items", func(old any) any {
				l, _ := old.([]any)
				for len(l) < n {
					l = append(l, d.g.typed(t.Item))
				}
				return l
			}})
		}
	case "map":
		konst("wrong-type", "notamap", []any{"a"})
	case "obj":
		if s.isMap {
			if len(t.Props) != 1 {
				// anything that is not a map (an object with exactly one property reads a non-map as that property)
				konst("wrong-type", "notanobject", []any{}, []any{"a", "b"}, int64(7), true, 2.5, "")
			}
			vs = append(vs, inputViolation{"unknown-field", func(old any) any {
				m, _ := old.(map[string]any)
				m["zz_unknown"] = "x"
				return m
			}})
			req := []string{}
			for _, p := range t.Props {
				if p.Req && !p.HasDefault {
					req = append(req, p.Name)
				}
			}
			if len(req) > 0 {
				name := r.pick(req)
				vs = append(vs, inputViolation{"missing-required", func(old any) any {
					m, _ := old.(map[string]any)
					delete(m, name)
					return m
				}})
			}
		}
	}
	return vs
}

func inputAllOnly(p *IPat) *IPat {
	if p != nil && p.K == "all" {
		return p
	}
	return nil
}

func inputOnlyStrings(v any) bool {
	switch t := v.(type) {
	case string:
		return true
	case []any:
		for _, x := range t {
			if !inputOnlyStrings(x) {
				return false
			}
		}
		return true
	case map[string]any:
		for _, x := range t {
			if !inputOnlyStrings(x) {
				return false
			}
		}
		return true
	}
	return false
}

// ---- YAML rendering ------------------------------------------------------------------------------------------------------------

type inputScopeRender struct {
	objects map[string]string // id -> rendered object (for refs)
	order   []string
}

func (sr *inputScopeRender) objectYAML(t *ITy) string {
	parts := []string{}
	for _, p := range t.Props {
		s := yq(p.Name) + ": {type: " + sr.typeYAML(p.Ty, p.ViaRef) + fmt.Sprintf(", required: %v", p.Req)
		if p.HasDefault {
			b, _ := json.Marshal(p.Default)
			s += ", default: " + yq(string(b))
		}
		parts = append(parts, s+"}")
	}
	return "{id: " + yq(t.ID) + ", properties: {" + strings.Join(parts, ", ") + "}}"
}

func (sr *inputScopeRender) typeYAML(t *ITy, viaRef bool) string {
	bounds := func() string {
		s := ""
		if t.Min != nil {
			s += fmt.Sprintf(", min: %d", *t.Min)
		}
		if t.Max != nil {
			s += fmt.Sprintf(", max: %d", *t.Max)
		}
		return s
	}
	switch t.T {
	case "str":
		s := "{type_id: string" + bounds()
		if t.Pat != nil {
			s += ", pattern: " + yq(t.Pat.regex())
		}
		return s + "}"
	case "int":
		return "{type_id: integer" + bounds() + "}"
	case "bool":
		return "{type_id: bool}"
	case "float":
		return "{type_id: float}"
	case "list":
		return "{type_id: list, items: " + sr.typeYAML(t.Item, false) + bounds() + "}"
	case "map":
		return "{type_id: map, keys: {type_id: string}, values: " + sr.typeYAML(t.Item, false) + "}"
	case "obj":
		if t.StepRef != "" {
			return "{type_id: ref, id: " + yq(t.ID) + ", namespace: " + yq("$.steps."+t.StepRef+".starting.inputs.input") + "}"
		}
		if viaRef {
			if _, ok := sr.objects[t.ID]; !ok {
				sr.objects[t.ID] = "" // reserve (no recursion in this fragment, but keep the order stable)
				sr.order = append(sr.order, t.ID)
				sr.objects[t.ID] = sr.objectYAML(t)
			}
			return "{type_id: ref, id: " + yq(t.ID) + "}"
		}
		o := sr.objectYAML(t)
		return "{type_id: object, " + o[1:]
	}
	return "{type_id: string}"
}

type inputStep struct {
	ID    string
	Refs  map[string][]string // plugin field -> path below $.input
	Whole []string            // non-nil: `input: !expr $.input.<path>`
}

func inputWorkflowYAML(root *ITy, steps []inputStep) string {
	sr := &inputScopeRender{objects: map[string]string{}}
	rootObj := sr.objectYAML(root)
	var b strings.Builder
	b.WriteString("version: v0.2.0\ninput:\n  root: " + yq(root.ID) + "\n  objects:\n")
	fmt.Fprintf(&b, "    %s: %s\n", yq(root.ID), rootObj)
	for _, id := range sr.order {
		fmt.Fprintf(&b, "    %s: %s\n", yq(id), sr.objects[id])
	}
	b.WriteString("steps:\n")
	for _, s := range steps {
		fmt.Fprintf(&b, "  %s:\n    plugin: {src: %s, deployment_type: \"builtin\"}\n    step: op\n", s.ID, yq(s.ID))
		if s.Whole != nil {
			fmt.Fprintf(&b, "    input: !expr %s\n", yq("$.input."+strings.Join(s.Whole, ".")))
			continue
		}
		parts := []string{}
		for _, k := range sortedKeys(s.Refs) {
			parts = append(parts, k+": !expr "+yq("$.input."+strings.Join(s.Refs[k], ".")))
		}
		fmt.Fprintf(&b, "    input: {%s}\n", strings.Join(parts, ", "))
	}
	b.WriteString("outputs:\n  success:\n    input: !expr $.input\n")
	if lists := inputListRefs(root); len(lists) > 0 {
		// every list-typed field that is always present, referred to directly inside a map: an EMPTY list is a value too
		parts := []string{}
		for _, k := range sortedKeys(lists) {
			parts = append(parts, k+": !expr "+yq("$.input."+strings.Join(lists[k], ".")))
		}
		fmt.Fprintf(&b, "    lists: {%s}\n", strings.Join(parts, ", "))
	}
	for _, s := range steps {
		fmt.Fprintf(&b, "    %s: !expr $.steps.%s.outputs.success\n", s.ID, s.ID)
	}
	return b.String()
}

// inputListRefs: l0, l1, ... -> path of a list-typed field that is present in every normalised input
func inputListRefs(root *ITy) map[string][]string {
	av := map[string][][]string{}
	inputGuaranteed(root, nil, av)
	out := map[string][]string{}
	for i, p := range av["l"] {
		out[fmt.Sprintf("l%d", i)] = p
	}
	return out
}

// inputGuaranteed collects the paths of fields that are present in every normalised input (required or defaulted, below
// required objects only), by the plugin field they can feed.
func inputGuaranteed(t *ITy, path []string, out map[string][][]string) {
	for _, p := range t.Props {
		if !(p.Req || p.HasDefault) || p.BadDefault {
			continue
		}
		pp := append(append([]string{}, path...), p.Name)
		switch p.Ty.T {
		case "str":
			out["s"] = append(out["s"], pp)
		case "int":
			out["i"] = append(out["i"], pp)
		case "bool":
			out["b"] = append(out["b"], pp)
		case "list":
			if p.Ty.Item.T == "str" {
				out["l"] = append(out["l"], pp)
			}
		case "obj":
			if p.Ty.StepRef != "" {
				out["whole"] = append(out["whole"], pp)
			} else if p.Req && !p.HasDefault {
				inputGuaranteed(p.Ty, pp, out)
			}
		}
	}
}

func genInputSteps(r *rng, root *ITy) []inputStep {
	av := map[string][][]string{}
	inputGuaranteed(root, nil, av)
	n := 1 + r.intn(3)
	steps := []inputStep{}
	for k := 0; k < n; k++ {
		s := inputStep{ID: stepName(k), Refs: map[string][]string{}}
		if len(av["whole"]) > 0 && r.chance(1, 2) {
			s.Whole = av["whole"][r.intn(len(av["whole"]))]
			steps = append(steps, s)
			continue
		}
		for _, f := range []string{"s", "i", "b", "l"} {
			if len(av[f]) > 0 && r.chance(2, 3) {
				s.Refs[f] = av[f][r.intn(len(av[f]))]
			}
		}
		if k > 0 && steps[0].Whole == nil && r.chance(2, 3) {
			// several steps refer to the same field
			for _, f := range sortedKeys(steps[0].Refs) {
				s.Refs[f] = steps[0].Refs[f]
				break
			}
		}
		if len(s.Refs) == 0 {
			for _, f := range []string{"s", "i", "b", "l"} {
				if len(av[f]) > 0 {
					s.Refs[f] = av[f][0]
					break
				}
			}
		}
		steps = append(steps, s)
	}
	return steps
}

// ---- one case ------------------------------------------------------------------------------------------------------------------

// genInputRoot draws the root object of an input schema.  Besides the general shape (1-5 properties, the first one a
// scalar that is always present) two degenerate shapes are drawn on purpose: an object WITHOUT properties (the only valid
// document is the empty map) and an object whose properties are all optional (the empty map is valid, nothing is
// guaranteed to be there).  The second result names the root property whose default violates its own type, if any.
func genInputRoot(r *rng, g *inputGen) (*ITy, string) {
	var root *ITy
	switch c := r.intn(20); {
	case c < 2:
		g.objSeq++
		root = &ITy{T: "obj"}
	case c < 5:
		root = g.objWith(0, 1+r.intn(4), true)
	default:
		root = g.obj(0, 1+r.intn(5))
	}
	root.ID = "RootObject"
	if len(root.Props) > 0 && r.chance(1, 4) {
		// a required reference to the input object of step s0 ("references to step-input objects")
		root.Props = append(root.Props, IProp{Name: "cfg", Req: true, Ty: inputStepInputTy("s0")})
	}
	// at most one root property gets a default that violates its own type (invalid exactly when the field is omitted)
	badName := ""
	if r.chance(1, 10) {
		for i := range root.Props {
			p := &root.Props[i]
			if i > 0 && p.HasDefault && p.Ty.T == "int" && p.Ty.Max != nil {
				p.Default = *p.Ty.Max + 5
				p.BadDefault = true
				badName = p.Name
				break
			}
			if i > 0 && p.HasDefault && p.Ty.T == "str" && p.Ty.Max != nil {
				p.Default = strings.Repeat("a", int(*p.Ty.Max)+2)
				if p.Ty.Pat != nil && p.Ty.Pat.K == "pre" {
					p.Default = p.Ty.Pat.P + p.Default.(string)
				}
				p.BadDefault = true
				badName = p.Name
				break
			}
		}
	}
	return root, badName
}

// inputDeepCopy copies a document (maps, lists; scalars are values) so that no two uses share memory.
func inputDeepCopy(v any) any {
	switch t := v.(type) {
	case map[string]any:
		out := make(map[string]any, len(t))
		for k, x := range t {
			out[k] = inputDeepCopy(x)
		}
		return out
	case map[any]any:
		out := make(map[any]any, len(t))
		for k, x := range t {
			out[k] = inputDeepCopy(x)
		}
		return out
	case []any:
		out := make([]any, len(t))
		for i, x := range t {
			out[i] = inputDeepCopy(x)
		}
		return out
	}
	return v
}

// inputSDKOracle asks the real pluginsdk schema for its verdict on a document, on a FRESH copy of the workflow's input
// schema: the input scope of a fresh Prepare (own registry) of the same workflow text, which no Execute has touched.
// Returns nil when no fresh schema could be made.  Keys: valid, err (text, for the replay), norm (the tagged form of
// Serialize(Unserialize(doc)), valid documents only).
func inputSDKOracle(text string, doc any) map[string]any {
	var out map[string]any
	gr := guarded(20*time.Second, func() {
		reg, f, err := newRegistry(nil)
		if err != nil {
			return
		}
		fresh, err := prepareYAML(reg, f, text, nil)
		if err != nil {
			return
		}
		sch := fresh.Input()
		un, err := sch.Unserialize(inputDeepCopy(doc))
		if err != nil {
			msg := err.Error()
			if len(msg) > 300 {
				msg = msg[:300]
			}
			out = map[string]any{"valid": false, "err": msg}
			return
		}
		out = map[string]any{"valid": true}
		if ser, err := sch.Serialize(un); err == nil {
			out["norm"] = encVal(ser)
		} else {
			out["serialize_err"] = err.Error()
		}
	})
	if gr.Panic != "" {
		return map[string]any{"panic": gr.Panic}
	}
	return out
}

func runInputCase(r *rng, caseID string) map[string]any {
	g := &inputGen{r: r}
	root, badName := genInputRoot(r, g)
	steps := genInputSteps(r, root)
	text := inputWorkflowYAML(root, steps)

	mode := r.pick([]string{"typed", "strings", "mixed", "mixed"})
	d := &inputDocGen{g: g, mode: mode, spelling: map[string]bool{"mode:" + mode: true}}
	doc := d.doc(root, nil)
	expectValid := true
	kind, vpath := "", ""
	if r.chance(1, 2) {
		s := d.sites[r.intn(len(d.sites))]
		vs := d.violationsAt(s)
		// constraint violations are rarer sites than type errors: weight them up
		weighted := []inputViolation{}
		for _, v := range vs {
			w := 1
			if v.kind != "null" && v.kind != "wrong-type" {
				w = 3
			} else if v.kind == "wrong-type" && s.ty.T == "obj" {
				w = 2 // a list or a scalar where an object is declared
			}
			for k := 0; k < w; k++ {
				weighted = append(weighted, v)
			}
		}
		v := weighted[r.intn(len(weighted))]
		doc = inputReplaceAt(doc, s.path, v.apply)
		expectValid = false
		kind = s.ty.T + ":" + v.kind
		vpath = inputPathString(s.path)
	}
	if badName != "" {
		if m, ok := doc.(map[string]any); ok {
			if _, present := m[badName]; !present && expectValid {
				expectValid = false
				kind = "default-violates-type"
				vpath = "$." + badName
			}
		}
	}
	viaYAML := false
	var passed any = doc
	if inputOnlyStrings(doc) && r.chance(1, 2) {
		// the engine front end: the document is YAML text decoded by the engine's parser (all scalars are strings)
		b, _ := json.Marshal(doc)
		if n, err := engineyaml.New().Parse(b); err == nil {
			passed = n.Raw()
			viaYAML = true
			d.spelling["via-engine-yaml"] = true
		}
	}
	shapes := map[string]bool{}
	root.shapes(0, shapes)
	stepsJ := []any{}
	for _, s := range steps {
		stepsJ = append(stepsJ, map[string]any{"id": s.ID, "refs": s.Refs, "whole": s.Whole})
	}
	out := map[string]any{"kind": "input", "id": caseID, "yaml": text, "ty": root.json(), "doc": encVal(passed),
		"via_yaml": viaYAML, "expect_valid": expectValid, "violation_kind": kind, "violation_path": vpath,
		"spelling": sortedKeys(d.spelling), "shape": sortedKeys(shapes), "steps": stepsJ, "list_refs": inputListRefs(root)}
	if kb, err := json.Marshal(out["doc"]); err == nil {
		out["key"] = string(kb) // distinct = workflow text + document
	}

	s := newScript()
	currentScript.Store(s)
	// the real schema's verdict on a fresh copy of the schema (own registry, own Prepare, never executed)
	s.probe.Store(true)
	if sdk := inputSDKOracle(text, passed); sdk != nil {
		out["sdk"] = sdk
	}
	s.probe.Store(false)
	base := runtime.NumGoroutine()
	reg, f, err := newRegistry(nil)
	if err != nil {
		return map[string]any{"kind": "harness-error", "id": caseID, "error": err.Error()}
	}
	s.probe.Store(true)
	var prepErr error
	var prepared interface {
		Execute(ctx context.Context, input any) (string, any, error)
	}
	gr := guarded(20*time.Second, func() {
		p, e := prepareYAML(reg, f, text, nil)
		prepErr = e
		if e == nil {
			prepared = p
		}
	})
	s.probe.Store(false)
	if gr.Panic != "" || gr.Timeout {
		out["skip"] = "prepare panicked or timed out: " + gr.Panic
		return out
	}
	if prepErr != nil {
		out["skip"] = "prepare: " + prepErr.Error()
		return out
	}
	ctx, cancel := context.WithCancel(context.Background())
	defer cancel()
	type res struct {
		id   string
		data any
		err  error
		pan  string
	}
	resCh := make(chan res, 1)
	go func() {
		defer func() {
			if rec := recover(); rec != nil {
				resCh <- res{pan: fmt.Sprint(rec)}
			}
		}()
		id, data, err := prepared.Execute(ctx, passed)
		resCh <- res{id: id, data: data, err: err}
	}()
	result := loopResult{}
	deploysAtReturn := -1
	select {
	case rr := <-resCh:
		deploysAtReturn = inputCountDeploys(s.snapshot())
		result.Returned = true
		result.OutputID = rr.id
		result.Data = encVal(rr.data)
		if rr.err != nil {
			result.Err = rr.err.Error()
			result.ErrClass = classifyExecErr(rr.err)
		}
		if rr.pan != "" {
			out["panic"] = rr.pan
		}
	case <-time.After(25 * time.Second):
		out["dump"] = goroutineDump()
	}
	out["result"] = result
	out["deploys_at_return"] = deploysAtReturn
	out["goroutine_delta"] = goroutineDelta(base)
	log := s.snapshot()
	out["deploys_settled"] = inputCountDeploys(log)
	out["balance"] = s.balance()
	seen := []any{}
	for _, e := range log {
		if e.Ev == "exec-start" {
			seen = append(seen, map[string]any{"src": e.Src, "data": e.Data})
		}
	}
	sort.Slice(seen, func(i, j int) bool { return seen[i].(map[string]any)["src"].(string) < seen[j].(map[string]any)["src"].(string) })
	out["seen"] = seen
	out["log"] = log
	if leg := inputRunLeg(r, text, doc); leg != nil {
		out["run_leg"] = leg
	}
	return out
}

func inputCountDeploys(log []LogEntry) int {
	n := 0
	for _, e := range log {
		if e.Ev == "deploy" || e.Ev == "deploy-fail" {
			n++
		}
	}
	return n
}

func cmdInput(args []string) int {
	c, _ := parseCommon("input", args, nil)
	w := openOut(c.out)
	defer w.close()
	r := newRng(c.seed)
	for i := 0; i < c.n; i++ {
		cr := r.fork()
		if i < c.skip {
			continue
		}
		w.emit(map[string]any{"kind": "begin", "index": i})
		w.emit(runInputCase(cr, fmt.Sprintf("input-%d-%d", c.seed, i)))
	}
	return 0
}
