//go:build verif && vsched

package main

import (
	"context"
	"fmt"
	"runtime"
	"sort"
	"time"
)

// ---- schedule sweeps (C09): workflows with foreach steps, late items, slow goroutine starts -----------------------------------
//
// The plugin-only workflows of cmd_sched.go run with zero durations, so nothing ever takes longer than the deadlock
// detector's re-check window (3 retries x 10 ms).  The cases here have REAL durations where the property needs them:
//
//   * foreach steps whose items come from the workflow input and/or from an earlier plugin step (item values taken from
//     that step's output, or wait_for on it).  The earlier step takes 10-30 ms, so the items are handed to the loop later,
//     from that step's goroutine, while the loop is parked waiting for them; the sub-workflows take 0-80 ms per item, so
//     some loops work for longer than the detector's window while nothing else in the parent workflow is running.
//   * targeted shapes (all tiers): `first` (20 ms) -> `loop` (wait_for first / item from first's output, one item of
//     80 ms); `main` (0 ms, feeds the output) next to `side` (unused by the output, done at once): whichever of their
//     goroutines is held at its very start, the other finishes meanwhile and the detector looks at a workflow whose only
//     live step has not executed a single statement yet.
//
// Every case is swept by sweepCaseRun (cmd_sched.go): two delay-free baseline runs, then one run per held point.

type schedCase struct {
	shape string
	wf    *AWf
	subs  map[string]*AWf // sub-workflow file -> workflow
	beh   map[string]Behaviour
	input map[string]any
}

func plug(id string, in AIn) AStep {
	return AStep{ID: id, Kind: "plugin", PlugStep: "op", Src: id, Fields: map[string]AIn{"input": in}}
}

// schedSubWf: a sub-workflow over {name: string}: one plugin step (or two in sequence) whose output echoes the item.
func schedSubWf(src string, chained bool) *AWf {
	w := &AWf{Outputs: map[string]AIn{}, InputFields: []AField{{Name: "name", Type: "string", Required: true}}}
	w.Steps = []AStep{{ID: "inner", Kind: "plugin", PlugStep: "op", Src: src,
		Fields: map[string]AIn{"input": amap("s", expr("$.input.name"))}}}
	last := "inner"
	if chained {
		w.Steps = append(w.Steps, AStep{ID: "inner2", Kind: "plugin", PlugStep: "op", Src: src + "_2",
			Fields: map[string]AIn{"input": amap("s", expr("$.steps.inner.outputs.success.s"))}})
		last = "inner2"
	}
	w.OutputIDs = []string{"success"}
	w.Outputs["success"] = amap("r", expr(fmt.Sprintf("$.steps.%s.outputs.success.s", last)))
	return w
}

func (sc *schedCase) addLoop(id string, items AIn, innerMs int, chained bool) *AStep {
	file := "sub_" + id + ".yaml"
	src := "in_" + id
	sc.subs[file] = schedSubWf(src, chained)
	sc.beh[src] = Behaviour{Outcome: "success", DelayMs: innerMs}
	if chained {
		sc.beh[src+"_2"] = Behaviour{Outcome: "success", DelayMs: innerMs / 3}
	}
	sc.wf.Steps = append(sc.wf.Steps, AStep{ID: id, Kind: "foreach", Workflow: file, Fields: map[string]AIn{"items": items}})
	return &sc.wf.Steps[len(sc.wf.Steps)-1]
}

func newSchedCase(shape string) *schedCase {
	return &schedCase{shape: shape, subs: map[string]*AWf{}, beh: map[string]Behaviour{}, input: map[string]any{"name": "nm"},
		wf: &AWf{Outputs: map[string]AIn{}, OutputIDs: []string{"success"},
			InputFields: []AField{{Name: "name", Type: "string", Required: true}}}}
}

// targeted shape: the items of `loop` are handed over by the goroutine of `first` 20 ms into the run; then the loop is the
// only thing that works, for longer than the detector's window.
func schedLateItems(viaItems bool, innerMs int) *schedCase {
	sc := newSchedCase("late-items-wait_for")
	sc.wf.Steps = []AStep{plug("first", amap("s", expr("$.input.name")))}
	sc.beh["first"] = Behaviour{Outcome: "success", DelayMs: 20}
	if viaItems {
		sc.shape = "late-items-from-step-output"
		sc.addLoop("loop", AIn{K: "list", List: []AIn{amap("name", expr("$.steps.first.outputs.success.s"))}}, innerMs, false)
	} else {
		l := sc.addLoop("loop", AIn{K: "list", List: []AIn{amap("name", lit("it0"))}}, innerMs, false)
		l.Fields["wait_for"] = expr("$.steps.first.outputs.success")
	}
	sc.wf.Outputs["success"] = amap("l", expr("$.steps.loop.outputs.success.data"))
	return sc
}

// targeted shape: `main` feeds the output; `side` is unused by it and is over at once (variant: succeeds / fails /
// cannot be deployed).  Neither depends on the other, so whichever goroutine is slow the result is main's output.
func schedSideMain(variant int) *schedCase {
	sc := newSchedCase([]string{"side-main:side-succeeds", "side-main:side-deploy-fails", "side-main:side-fails"}[variant%3])
	sc.wf.Steps = []AStep{plug("main", amap("s", expr("$.input.name"))), plug("side", amap("s", lit("x")))}
	sc.beh["main"] = Behaviour{Outcome: "success"}
	switch variant % 3 {
	case 0:
		sc.beh["side"] = Behaviour{Outcome: "success"}
	case 1:
		sc.beh["side"] = Behaviour{Outcome: "success", DeployFail: true}
	default:
		sc.beh["side"] = Behaviour{Outcome: "error"}
	}
	sc.wf.Outputs["success"] = amap("v", expr("$.steps.main.outputs.success.s"))
	return sc
}

// genSchedForeach: 1-2 plugin steps with small real durations, 1-2 loops over 1-3 items built from literals, the
// workflow input and the outputs of earlier steps, parallelism 1-2, sub-workflow steps of 0-80 ms, optionally a plugin
// step behind a loop.  Three cases out of four script every step to succeed (the meaning is then the `success` output).
func genSchedForeach(r *rng) *schedCase {
	sc := newSchedCase("generated-foreach")
	np := 1 + r.intn(2)
	for i := 0; i < np; i++ {
		id := fmt.Sprintf("p%d", i)
		in := amap("s", expr("$.input.name"))
		if i > 0 && r.chance(1, 2) {
			in = amap("s", expr("$.steps.p0.outputs.success.s"))
		}
		sc.wf.Steps = append(sc.wf.Steps, plug(id, in))
		sc.beh[id] = Behaviour{Outcome: "success", DelayMs: 10 + r.intn(21)}
	}
	succ := AIn{K: "map"}
	nl := 1
	if r.chance(1, 3) {
		nl = 2
	}
	for li := 0; li < nl; li++ {
		id := fmt.Sprintf("loop%d", li)
		items := AIn{K: "list"}
		dep := false
		for k := 1 + r.intn(3); k > 0; k-- {
			switch c := r.intn(5); {
			case c == 0:
				items.List = append(items.List, amap("name", lit(fmt.Sprintf("lit%d", k))))
			case c == 1:
				items.List = append(items.List, amap("name", expr("$.input.name")))
			case c == 2 && li > 0:
				items.List = append(items.List, amap("name", expr("$.steps.loop0.outputs.success.data[0].r")))
				dep = true
			default:
				items.List = append(items.List, amap("name", expr(fmt.Sprintf("$.steps.p%d.outputs.success.s", r.intn(np)))))
				dep = true
			}
		}
		l := sc.addLoop(id, items, r.intn(81), r.chance(1, 4))
		if !dep && r.chance(3, 4) || r.chance(1, 5) {
			if r.chance(1, 2) {
				l.Fields["wait_for"] = expr(fmt.Sprintf("$.steps.p%d.outputs.success", r.intn(np)))
			} else {
				l.Fields["wait_for"] = expr(fmt.Sprintf("$.steps.p%d.outputs", r.intn(np)))
			}
		}
		switch r.intn(3) {
		case 0:
			l.Fields["parallelism"] = lit("1")
		case 1:
			l.Fields["parallelism"] = lit("2")
		}
		succ.put("l"+fmt.Sprint(li), expr(fmt.Sprintf("$.steps.%s.outputs.success.data", id)))
	}
	if r.chance(1, 3) { // a plugin step that consumes a loop result
		sc.wf.Steps = append(sc.wf.Steps, plug("q", amap("s", expr("$.steps.loop0.outputs.success.data[0].r"))))
		sc.beh["q"] = Behaviour{Outcome: "success", DelayMs: r.intn(40)}
		succ.put("q", expr("$.steps.q.outputs.success.s"))
	}
	if r.chance(1, 2) {
		succ.put("p", expr(fmt.Sprintf("$.steps.p%d.outputs.success.s", r.intn(np))))
	}
	sc.wf.Outputs["success"] = succ
	if r.chance(1, 3) {
		sc.wf.OutputIDs = append(sc.wf.OutputIDs, "failure")
		sc.wf.Outputs["failure"] = amap("m", expr("$.steps.p0.outputs.error.reason"))
	}
	if r.chance(1, 4) { // one scripted failure somewhere (parent step or sub-workflow step)
		srcs := make([]string, 0, len(sc.beh))
		for k := range sc.beh {
			srcs = append(srcs, k)
		}
		sort.Strings(srcs)
		k := srcs[r.intn(len(srcs))]
		b := sc.beh[k]
		switch r.intn(3) {
		case 0:
			b.Outcome = "error"
		case 1:
			b.Outcome = "crash"
		default:
			b.DeployFail = true
		}
		sc.beh[k] = b
		sc.shape = "generated-foreach:one-failure"
	}
	return sc
}

// execSchedCase = execEngineCaseTimeout (cmd_engine.go) for a workflow with sub-workflow files.
func execSchedCase(caseID string, sc *schedCase) map[string]any {
	s := newScript()
	for k, v := range sc.beh {
		s.set(k, v)
	}
	currentScript.Store(s)
	base := runtime.NumGoroutine()
	reg, f, err := newRegistry(nil)
	if err != nil {
		return map[string]any{"kind": "harness-error", "id": caseID, "error": err.Error()}
	}
	text := sc.wf.yaml(nil, nil)
	files := map[string][]byte{}
	filesOut := map[string]string{}
	filesWf := map[string]any{}
	for name, sw := range sc.subs {
		t := sw.yaml(nil, nil)
		files[name] = []byte(t)
		filesOut[name] = t
		filesWf[name] = sw.json()
	}
	out := map[string]any{"kind": "engine", "id": caseID, "shape": sc.shape, "yaml": text, "wf": sc.wf.json(), "files": filesOut,
		"files_wf": filesWf, "input": encVal(sc.input), "behaviours": sc.beh}
	s.probe.Store(true)
	prepared, err := prepareYAML(reg, f, text, files)
	s.probe.Store(false)
	out["probe_balance"] = s.balance()
	if err != nil {
		out["skip"] = "prepare: " + err.Error()
		out["goroutine_delta"] = goroutineDelta(base)
		return out
	}
	ctx, cancel := context.WithCancel(context.Background())
	defer cancel()
	type res struct {
		id   string
		data any
		err  error
		pan  string
	}
	resCh := make(chan res, 1)
	t0 := time.Now()
	go func() {
		defer func() {
			if rec := recover(); rec != nil {
				resCh <- res{pan: fmt.Sprint(rec)}
			}
		}()
		id, data, err := prepared.Execute(ctx, sc.input)
		resCh <- res{id: id, data: data, err: err}
	}()
	result := loopResult{}
	select {
	case rr := <-resCh:
		result.Returned = true
		result.OutputID = rr.id
		result.Data = encVal(rr.data)
		if rr.err != nil {
			result.Err = rr.err.Error()
			result.ErrClass = classifyExecErr(rr.err)
		}
		if rr.pan != "" {
			out["panic"] = rr.pan
		}
	case <-time.After(25 * time.Second):
		out["dump"] = goroutineDump()
		cancel()
		select {
		case <-resCh:
		case <-time.After(15 * time.Second):
		}
	}
	out["wall_ms"] = time.Since(t0).Milliseconds()
	out["result"] = result
	out["balance"] = s.balance()
	out["max_running"] = s.maxRunning
	gd := goroutineDelta(base)
	out["goroutine_delta"] = gd
	if gd > 0 {
		out["leak_dump"] = goroutineDump()
	}
	out["log"] = s.snapshot()
	out["cancel_after_ms"] = -1
	return out
}

// schedForeachCases appends the targeted shapes and the generated foreach workflows to the sched stream; `first` is the
// stream index of the first of them (continuation after a crash: -skip).
func schedForeachCases(w *lineWriter, r *rng, c *common, first, hold, maxPoints int) {
	type job struct {
		name string
		sc   *schedCase
		max  int // points sampled (0 = all)
	}
	jobs := []job{}
	vr := r.fork()
	if c.tier == "thorough" {
		for v := 0; v < 3; v++ {
			jobs = append(jobs, job{fmt.Sprintf("sched-side-%d", v), schedSideMain(v), 0})
		}
		jobs = append(jobs, job{"sched-late-wait", schedLateItems(false, 80), 0}, job{"sched-late-items", schedLateItems(true, 80), 0})
	} else {
		// the runs of the side/main shape are short: all its points are swept in the quick tier as well
		jobs = append(jobs, job{"sched-side", schedSideMain(vr.intn(3)), 0},
			job{"sched-late-wait", schedLateItems(false, 80), maxPoints}, job{"sched-late-items", schedLateItems(true, 80), maxPoints})
	}
	nGen := 2
	if c.tier == "thorough" {
		nGen = 10
	}
	for i := 0; i < nGen; i++ {
		jobs = append(jobs, job{fmt.Sprintf("sched-fe-%d", i), genSchedForeach(r.fork()), maxPoints})
	}
	for i, j := range jobs {
		cr := r.fork()
		if first+i < c.skip {
			continue
		}
		w.emit(map[string]any{"kind": "begin", "index": first + i})
		sc := j.sc
		sweepCaseRun(w, cr, fmt.Sprintf("%s-%d", j.name, c.seed), hold, j.max, len(sc.subs) > 0, func(caseID string) map[string]any {
			return execSchedCase(caseID, sc)
		})
	}
}
