//go:build verif

package main

import (
	"context"
	"fmt"
	"io"
	"sync"
	"sync/atomic"
	"time"

	log "go.arcalot.io/log/v2"
	"go.flow.arcalot.io/deployer"
	deployerregistry "go.flow.arcalot.io/deployer/registry"
	"go.flow.arcalot.io/engine/internal/step"
	"go.flow.arcalot.io/engine/internal/step/foreach"
	"go.flow.arcalot.io/engine/internal/step/plugin"
	stepregistry "go.flow.arcalot.io/engine/internal/step/registry"
	"go.flow.arcalot.io/pluginsdk/atp"
	sdkplugin "go.flow.arcalot.io/pluginsdk/plugin"
	"go.flow.arcalot.io/pluginsdk/schema"
)

// ---- item-keyed scripted plugin -----------------------------------------------------------------------------------------
//
// The scripted plugin of sdeploy.go selects its behaviour by `src` only.  Inside a foreach sub-workflow every item runs
// the SAME step (same src), so the per-item behaviour has to depend on the item data.  This file adds a second deployer
// ("scripted-item") whose step `op` looks its behaviour up under  src + "#" + input.s  (falling back to src), shares the
// Script (log, sequence numbers, running / maxRunning high-water mark, deploy balance) and the input/output schemas with
// sdeploy.go, and tags every exec-start / exec-end log entry with the item key (LogEntry.RunID = input.s).  sdeploy.go is
// untouched.

func (s *Script) getItem(src string, key *string) Behaviour {
	s.mu.Lock()
	defer s.mu.Unlock()
	if key != nil {
		if b, ok := s.behaviours[src+"#"+*key]; ok {
			return b
		}
	}
	if b, ok := s.behaviours[src]; ok {
		return b
	}
	return Behaviour{Outcome: "success"}
}

func itemPluginSchema(s *Script, src string) *schema.CallableSchema {
	handler := func(ctx context.Context, d *opData, in OpInput) (string, any) {
		b := s.getItem(src, in.S)
		key := ""
		if in.S != nil {
			key = *in.S
		}
		n := atomic.AddInt64(&s.running, 1)
		for {
			m := atomic.LoadInt64(&s.maxRunning)
			if n <= m || atomic.CompareAndSwapInt64(&s.maxRunning, m, n) {
				break
			}
		}
		s.add("exec-start", src, key, "", encVal(in))
		out := OpOutput{S: key + "+" + src, I: int64(len(src)), B: true}
		if in.I != nil {
			out.I = *in.I + 1
		}
		finish := func(id string, data any) (string, any) {
			// the running counter drops BEFORE exec-end is logged, so the log order never understates the overlap
			atomic.AddInt64(&s.running, -1)
			s.add("exec-end", src, key, id, encVal(data))
			return id, data
		}
		wait := time.Duration(b.DelayMs) * time.Millisecond
		if b.Outcome == "hang" {
			wait = time.Hour
		}
		var cancelCh chan bool
		if d != nil && !b.IgnoreCancel {
			cancelCh = d.cancel
		}
		select {
		case <-time.After(wait):
		case <-ctx.Done():
			return finish("cancelled", out)
		case <-cancelCh:
			s.add("cancel-signal", src, key, "", nil)
			return finish("cancelled", out)
		}
		switch b.Outcome {
		case "error":
			return finish("error", OpError{Reason: "scripted failure of " + src + "#" + key})
		case "alt":
			return finish("alt", out)
		case "crash":
			atomic.AddInt64(&s.running, -1)
			s.add("exec-end", src, key, "crash", nil)
			return "undeclared-output", out
		default:
			return finish("success", out)
		}
	}
	return schema.NewCallableSchema(
		schema.NewCallableStepWithSignals[*opData, OpInput](
			"op", opInputSchema(), opOutputs(),
			map[string]schema.CallableSignal{
				sdkplugin.CancellationSignalSchema.ID(): schema.NewCallableSignalFromSchema(sdkplugin.CancellationSignalSchema,
					func(_ context.Context, d *opData, _ sdkplugin.CancelInput) { d.cancel <- true }),
			},
			map[string]*schema.SignalSchema{}, nil,
			func() *opData { return &opData{cancel: make(chan bool, 3)} },
			handler,
		),
	)
}

type sdItemFactory struct{}

func (sdItemFactory) Name() string                                               { return "scripted-item" }
func (sdItemFactory) DeploymentType() deployer.DeploymentType                    { return "builtin" }
func (sdItemFactory) ConfigurationSchema() *schema.TypedScopeSchema[*SDConfig]   { return sdSchema }
func (sdItemFactory) Create(_ *SDConfig, _ log.Logger) (deployer.Connector, error) { return &sdItemConnector{}, nil }

type sdItemConnector struct{}

// itemDeployHard: the deployments of the current case do not watch their context while they work (set per case by
// execForeachCase).  A deployment that cannot be interrupted is what the in-tree test deployer does and what pulling an
// image amounts to; it still returns after a bounded time, so it stays within the environment assumption E1.
var itemDeployHard atomic.Bool

func (c *sdItemConnector) Deploy(ctx context.Context, image string) (deployer.Plugin, error) {
	s := currentScript.Load()
	if s == nil {
		return nil, fmt.Errorf("no script installed")
	}
	b := s.get(image)
	probing := s.probe.Load()
	if !probing {
		// the instant a deployment BEGINS (the "deploy" entry below is written when it is complete)
		s.add("deploy-begin", image, "", "", nil)
	}
	if b.DeployDelayMs > 0 && !probing {
		var done <-chan struct{}
		if !itemDeployHard.Load() {
			done = ctx.Done()
		}
		select {
		case <-time.After(time.Duration(b.DeployDelayMs) * time.Millisecond):
		case <-done:
			s.add("deploy-fail", image, "", "ctx", nil)
			return nil, fmt.Errorf("deployment of %s aborted: %w", image, ctx.Err())
		}
	}
	stdinSub, stdinWriter := io.Pipe()
	stdoutReader, stdoutSub := io.Pipe()
	pluginCtx, cancel := context.WithCancel(context.Background())
	wg := &sync.WaitGroup{}
	wg.Add(1)
	sch := itemPluginSchema(s, image)
	go func() {
		defer wg.Done()
		_ = atp.RunATPServer(pluginCtx, stdinSub, stdoutSub, sch)
	}()
	atomic.AddInt64(&s.deployed, 1)
	if probing {
		s.add("probe", image, "", "", nil)
	} else {
		s.add("deploy", image, "", "", nil)
	}
	return &sdPlugin{reader: stdoutReader, writer: stdinWriter, cancel: cancel, wg: wg, src: image, script: s}, nil
}

var itemLocalDeployers = map[string]any{
	"builtin": map[string]any{"deployer_name": "scripted-item"},
}

// newItemRegistry = newRegistry of env.go over the item-keyed deployer.
func newItemRegistry() (step.Registry, *wfFactory, error) {
	logger := quietLogger()
	cfg := engineConfig()
	cfg.LocalDeployers = itemLocalDeployers
	pp, err := plugin.New(logger, deployerregistry.New(deployer.Any(sdItemFactory{})), itemLocalDeployers)
	if err != nil {
		return nil, nil, err
	}
	f := &wfFactory{cfg: cfg}
	fp, err := foreach.New(logger, f.yaml, f.exec)
	if err != nil {
		return nil, nil, err
	}
	reg, err := stepregistry.New(pp, fp)
	if err != nil {
		return nil, nil, err
	}
	f.reg = reg
	return reg, f, nil
}
