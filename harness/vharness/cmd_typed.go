//go:build verif

package main

import (
	"context"
	"encoding/json"
	"flag"
	"fmt"
	"os"
	"reflect"
	"runtime"
	"sort"
	"strings"
	"sync"
	"time"

	"go.flow.arcalot.io/engine/internal/step"
	"go.flow.arcalot.io/pluginsdk/schema"
)

func init() { register("typed", cmdTyped) }

// ---- C08: every value matches its declared schema (dynamic validation) ---------------------------------------------
//
// Whole-engine runs in which BOTH real providers are wrapped.  The wrapper changes nothing: every call is delegated to
// the real runnable / running step.  It records the typed lifecycle `RunnableStep.Lifecycle(runData)` returned while
// the workflow was prepared, and
//   * wraps the StageChangeHandler handed to `Start`, so that EVERY output a provider reports (OnStageChange /
//     OnStepComplete with an output id) is validated with the REAL declared schema
//     `lifecycle.Stages[previousStage].Outputs[id].Unserialize(serialized data)`, where `serialized` is exactly what
//     `workflow.serializedOutput` stores in the data model (struct -> JSON -> map);
//   * validates EVERY `ProvideStageInput(stage, input)` with `schema.NewObjectSchema("input", Stages[stage].InputSchema)`.
// A stage or an output id the lifecycle does not declare is a violation of its own.  Steps of sub-workflows run through
// the same registry and are validated in the same way.  The returned workflow output is validated against
// `prepared.OutputSchema()[id]`.  The generated workflows reference every engine-generated output from a workflow
// output, so the values also flow through expression evaluation and the run loop's own re-validation ("bug:" errors).

type typedFailure struct {
	Kind     string `json:"kind"` // output-violates-schema | stage-input-violates-schema | undeclared-stage | undeclared-output | undeclared-input-stage
	Provider string `json:"provider"`
	Step     string `json:"step"`
	Stage    string `json:"stage"`
	Output   string `json:"output,omitempty"`
	Via      string `json:"via"`
	Err      string `json:"err"`
	Data     any    `json:"data"`
}

type typedRec struct {
	mu          sync.Mutex
	validations int
	triples     map[string]int // "<provider>.<stage>.<output>" -> validated outputs
	inputs      map[string]int // "<provider>.<stage>" -> validated stage inputs
	structs     map[string]int // outputs that arrived as Go structs (the serialization step mattered)
	rawFails    map[string]int // outputs whose UNserialized form would not validate
	failures    []typedFailure
}

func newTypedRec() *typedRec {
	return &typedRec{triples: map[string]int{}, inputs: map[string]int{}, structs: map[string]int{}, rawFails: map[string]int{}}
}

func (t *typedRec) fail(f typedFailure) {
	// also to stderr at once: if the run loop panics later on, the process dies before the case is written
	if b, err := json.Marshal(f); err == nil {
		fmt.Fprintln(os.Stderr, "C08-VALIDATION-FAILURE "+string(b))
	}
	t.mu.Lock()
	defer t.mu.Unlock()
	if len(t.failures) < 50 {
		t.failures = append(t.failures, f)
	}
}

// typedSerialized is a copy of workflow.serializedOutput (unexported there; its skeleton is pinned by
// Arca.Pins.workflow_workflow__serializedOutput): the form in which an output enters the data model.
func typedSerialized(output any) any {
	value := reflect.ValueOf(output)
	if !value.IsValid() || value.Kind() != reflect.Struct {
		return output
	}
	encoded, err := json.Marshal(output)
	if err != nil {
		return output
	}
	var result map[string]any
	if err := json.Unmarshal(encoded, &result); err != nil {
		return output
	}
	return result
}

type typedProvider struct {
	step.Provider
	rec *typedRec
}

func (p typedProvider) LoadSchema(inputs map[string]any, ctx map[string][]byte) (step.RunnableStep, error) {
	rs, err := p.Provider.LoadSchema(inputs, ctx)
	if err != nil {
		return nil, err
	}
	return &typedRunnable{RunnableStep: rs, rec: p.rec, kind: p.Provider.Kind()}, nil
}

type typedRunnable struct {
	step.RunnableStep
	rec  *typedRec
	kind string
	mu   sync.Mutex
	lc   *step.Lifecycle[step.LifecycleStageWithSchema]
}

func (r *typedRunnable) Lifecycle(input map[string]any) (step.Lifecycle[step.LifecycleStageWithSchema], error) {
	lc, err := r.RunnableStep.Lifecycle(input)
	if err == nil {
		r.mu.Lock()
		r.lc = &lc
		r.mu.Unlock()
	}
	return lc, err
}

func (r *typedRunnable) Start(input map[string]any, runID string, handler step.StageChangeHandler) (step.RunningStep, error) {
	r.mu.Lock()
	lc := r.lc
	r.mu.Unlock()
	if lc == nil {
		// not prepared through the executor: ask the real step now
		l, err := r.RunnableStep.Lifecycle(input)
		if err != nil {
			return nil, err
		}
		lc = &l
	}
	stages := map[string]step.LifecycleStageWithSchema{}
	for _, s := range lc.Stages {
		stages[s.ID] = s
	}
	th := &typedHandler{inner: handler, rec: r.rec, kind: r.kind, id: runID, stages: stages}
	real, err := r.RunnableStep.Start(input, runID, th)
	if err != nil {
		return nil, err
	}
	return &typedStep{RunningStep: real, rec: r.rec, kind: r.kind, id: runID, stages: stages}, nil
}

type typedHandler struct {
	inner  step.StageChangeHandler
	rec    *typedRec
	kind   string
	id     string
	stages map[string]step.LifecycleStageWithSchema
}

func (h *typedHandler) check(via string, prev string, outID *string, out *any) {
	if outID == nil {
		return
	}
	var data any
	if out != nil {
		data = *out
	}
	triple := h.kind + "." + prev + "." + *outID
	st, ok := h.stages[prev]
	if !ok {
		h.rec.fail(typedFailure{Kind: "undeclared-stage", Provider: h.kind, Step: h.id, Stage: prev, Output: *outID, Via: via,
			Err: "the lifecycle has no stage " + prev, Data: encVal(data)})
		return
	}
	sch, ok := st.Outputs[*outID]
	if !ok || sch == nil {
		h.rec.fail(typedFailure{Kind: "undeclared-output", Provider: h.kind, Step: h.id, Stage: prev, Output: *outID, Via: via,
			Err: fmt.Sprintf("stage %s declares outputs %v", prev, sortedKeys(st.Outputs)), Data: encVal(data)})
		return
	}
	serialized := typedSerialized(data)
	_, err := sch.Unserialize(serialized)
	h.rec.mu.Lock()
	h.rec.validations++
	h.rec.triples[triple]++
	if rv := reflect.ValueOf(data); rv.IsValid() && rv.Kind() == reflect.Struct {
		h.rec.structs[triple]++
		if _, rawErr := sch.Unserialize(data); rawErr != nil {
			h.rec.rawFails[triple]++
		}
	}
	h.rec.mu.Unlock()
	if err != nil {
		h.rec.fail(typedFailure{Kind: "output-violates-schema", Provider: h.kind, Step: h.id, Stage: prev, Output: *outID, Via: via,
			Err: err.Error(), Data: encVal(data)})
	}
}

func (h *typedHandler) OnStageChange(s step.RunningStep, previousStage *string, previousStageOutputID *string,
	previousStageOutput *any, newStage string, inputAvailable bool, wg *sync.WaitGroup) {
	if previousStage != nil {
		h.check("OnStageChange", *previousStage, previousStageOutputID, previousStageOutput)
	} else if previousStageOutputID != nil {
		h.rec.fail(typedFailure{Kind: "undeclared-stage", Provider: h.kind, Step: h.id, Stage: "<nil>", Output: *previousStageOutputID,
			Via: "OnStageChange", Err: "an output without a previous stage"})
	}
	if _, ok := h.stages[newStage]; !ok {
		h.rec.fail(typedFailure{Kind: "undeclared-stage", Provider: h.kind, Step: h.id, Stage: newStage, Via: "OnStageChange",
			Err: "transition into a stage the lifecycle does not have"})
	}
	h.inner.OnStageChange(s, previousStage, previousStageOutputID, previousStageOutput, newStage, inputAvailable, wg)
}

func (h *typedHandler) OnStepComplete(s step.RunningStep, previousStage string, previousStageOutputID *string,
	previousStageOutput *any, wg *sync.WaitGroup) {
	h.check("OnStepComplete", previousStage, previousStageOutputID, previousStageOutput)
	h.inner.OnStepComplete(s, previousStage, previousStageOutputID, previousStageOutput, wg)
}

func (h *typedHandler) OnStepStageFailure(s step.RunningStep, stage string, wg *sync.WaitGroup, err error) {
	h.inner.OnStepStageFailure(s, stage, wg, err)
}

type typedStep struct {
	step.RunningStep
	rec    *typedRec
	kind   string
	id     string
	stages map[string]step.LifecycleStageWithSchema
}

func (s *typedStep) ProvideStageInput(stage string, input map[string]any) error {
	st, ok := s.stages[stage]
	if !ok {
		s.rec.fail(typedFailure{Kind: "undeclared-input-stage", Provider: s.kind, Step: s.id, Stage: stage, Via: "ProvideStageInput",
			Err: "input for a stage the lifecycle does not have", Data: encVal(input)})
	} else {
		props := st.InputSchema
		if props == nil {
			props = map[string]*schema.PropertySchema{}
		}
		_, err := schema.NewObjectSchema("input", props).Unserialize(input)
		s.rec.mu.Lock()
		s.rec.validations++
		s.rec.inputs[s.kind+"."+stage]++
		s.rec.mu.Unlock()
		if err != nil {
			s.rec.fail(typedFailure{Kind: "stage-input-violates-schema", Provider: s.kind, Step: s.id, Stage: stage, Via: "ProvideStageInput",
				Err: err.Error(), Data: encVal(input)})
		}
	}
	return s.RunningStep.ProvideStageInput(stage, input)
}

// ---- workflows ---------------------------------------------------------------------------------------------------------

type typedCase struct {
	mode        string
	text        string
	files       map[string][]byte
	input       map[string]any
	beh         map[string]Behaviour
	cancelAfter int // ms, < 0 = never
	wf          *AWf
}

const typedHeader = `version: v0.2.0
input:
  root: RootObject
  objects:
    RootObject:
      id: RootObject
      properties:
        name:
          type: {type_id: string}
          required: true
        flag:
          type: {type_id: bool}
          required: true
        en:
          type: {type_id: bool}
          required: true
`

func typedPluginStep(id, src, stepName string, fields map[string]string) string {
	var b strings.Builder
	fmt.Fprintf(&b, "  %s:\n    plugin: {src: %s, deployment_type: \"builtin\"}\n    step: %s\n", id, yq(src), stepName)
	for _, k := range sortedKeys(fields) {
		fmt.Fprintf(&b, "    %s: %s\n", k, fields[k])
	}
	return b.String()
}

// typedFocus: a small workflow in which step s0 is driven into one engine-generated output, which a workflow output
// references (whole object and members), next to a `success` output that needs s0 to succeed.
func typedFocus(r *rng, mode string) *typedCase {
	c := &typedCase{mode: mode, cancelAfter: -1, beh: map[string]Behaviour{}, files: map[string][]byte{},
		input: map[string]any{"name": "nm", "flag": true, "en": true}}
	s0 := map[string]string{"input": `{s: !expr $.input.name}`}
	extra := ""
	outputs := "  success: {v: !expr $.steps.s0.outputs.success.s}\n"
	delay := r.intn(10)
	switch mode {
	case "crashed":
		c.beh["s0"] = Behaviour{Outcome: "crash", DelayMs: delay}
		outputs += "  crashed: {c: !expr $.steps.s0.crashed.error.output, whole: !expr $.steps.s0.crashed.error}\n"
	case "deploy_failed":
		c.beh["s0"] = Behaviour{Outcome: "success", DeployFail: true, DeployDelayMs: delay}
		outputs += "  depfail: {d: !expr $.steps.s0.deploy_failed.error.error, whole: !expr $.steps.s0.deploy_failed.error}\n"
	case "disabled":
		s0["enabled"] = `!expr $.input.flag`
		c.input["flag"] = false
		outputs += "  off: {m: !expr $.steps.s0.disabled.output.message, e: !expr $.steps.s0.enabling.resolved.enabled, whole: !expr $.steps.s0.disabled.output}\n"
	case "enabling":
		s0["enabled"] = `!expr $.input.flag`
		c.input["flag"] = r.chance(1, 2)
		c.beh["s0"] = Behaviour{Outcome: "success", DelayMs: 5 + delay}
		outputs = "  enab: {e: !expr $.steps.s0.enabling.resolved.enabled, whole: !expr $.steps.s0.enabling.resolved}\n"
	case "starting":
		c.beh["s0"] = Behaviour{Outcome: "success", DelayMs: 5 + delay}
		outputs = "  started: {s: !expr $.steps.s0.starting.started}\n"
	case "closed_stop_if":
		// s1 waits for the slow s2 (its input) while its stop condition, fed by the fast s0, fires: closed before running
		c.beh["s0"] = Behaviour{Outcome: "success"}
		c.beh["s2"] = Behaviour{Outcome: "success", DelayMs: 60 + delay}
		extra += typedPluginStep("s1", "s1", "op", map[string]string{
			"input":   `{s: !expr $.steps.s2.outputs.success.s}`,
			"stop_if": `!expr $.steps.s0.outputs`,
		})
		extra += typedPluginStep("s2", "s2", "op", map[string]string{"input": `{s: "slow"}`})
		outputs = "  success: {v: !expr $.steps.s1.outputs.success.s}\n" +
			"  stopped: {x: !expr $.steps.s1.closed.result, c: !expr $.steps.s1.closed.result.cancelled, q: !expr $.steps.s1.closed.result.close_requested}\n"
	case "closed_cancel":
		// the caller cancels while s0 hangs and s1 waits for it: s1 is closed early, s0 is told to stop
		c.beh["s0"] = Behaviour{Outcome: "hang", IgnoreCancel: r.chance(1, 3)}
		s0["closure_wait_timeout"] = `"120"`
		extra += typedPluginStep("s1", "s1", "op", map[string]string{"input": `{s: !expr $.steps.s0.outputs.success.s}`})
		outputs = "  success: {v: !expr $.steps.s1.outputs.success.s}\n" +
			"  closed: {x: !expr $.steps.s1.closed.result, y: !expr $.steps.s0.closed.result.close_requested}\n" +
			"  crashed: {c: !expr $.steps.s0.crashed.error.output}\n"
		c.cancelAfter = 5 + r.intn(30)
	case "plugin_outputs":
		oc := []string{"success", "error", "alt"}[r.intn(3)]
		c.beh["s0"] = Behaviour{Outcome: oc, DelayMs: delay}
		outputs += "  err: {m: !expr $.steps.s0.outputs.error.reason, whole: !expr $.steps.s0.outputs.error}\n" +
			"  alt: {a: !expr $.steps.s0.outputs.alt}\n"
	}
	c.text = typedHeader + "steps:\n" + typedPluginStep("s0", "s0", "op", s0) + extra + "outputs:\n" + outputs
	return c
}

const typedSubHeader = `version: v0.2.0
input:
  root: RootObject
  objects:
    RootObject:
      id: RootObject
      properties:
        on:
          type: {type_id: bool}
          required: true
        s:
          type: {type_id: string}
          required: true
`

// typedForeach: a parent workflow with a foreach step over a sub-workflow whose items partly fail (an item with
// `on: false` disables the sub-workflow's only step, so its `success` output cannot be produced).
func typedForeach(r *rng, mode string) *typedCase {
	c := &typedCase{mode: mode, cancelAfter: -1, beh: map[string]Behaviour{}, files: map[string][]byte{},
		input: map[string]any{"name": "nm", "flag": true, "en": true}}
	sub := typedSubHeader + "steps:\n" + typedPluginStep("a", "suba", "op", map[string]string{
		"input": `{s: !expr $.input.s}`, "enabled": `!expr $.input.on`}) + "outputs:\n" +
		"  success: {v: !expr $.steps.a.outputs.success.s, n: !expr $.steps.a.outputs.success.i}\n"
	if r.chance(1, 3) {
		// a second, non-success output: the item ends with output "off" instead of an error
		sub += "  off: {m: !expr $.steps.a.disabled.output.message}\n"
	}
	c.files["sub.yaml"] = []byte(sub)
	c.beh["suba"] = Behaviour{Outcome: "success", DelayMs: r.intn(8)}
	c.beh["pre"] = Behaviour{Outcome: "success", DelayMs: r.intn(8)}
	n := 1 + r.intn(4)
	items := []string{}
	allOn := true
	for i := 0; i < n; i++ {
		on := `"true"`
		switch {
		case mode == "foreach_failed" && i == 0:
			on = `"false"`
			allOn = false
		case mode == "foreach_failed" && r.chance(1, 3):
			on = `!expr $.input.flag`
		case mode == "foreach_mixed" && r.chance(1, 2):
			on = `!expr $.input.flag`
		}
		s := fmt.Sprintf(`"item%d"`, i)
		if r.chance(1, 3) {
			s = `!expr $.steps.pre.outputs.success.s`
		}
		items = append(items, fmt.Sprintf("{on: %s, s: %s}", on, s))
	}
	_ = allOn
	loop := map[string]string{"items": "[" + strings.Join(items, ", ") + "]"}
	if r.chance(1, 2) {
		loop["parallelism"] = fmt.Sprintf(`"%d"`, 1+r.intn(3))
	}
	switch mode {
	case "foreach_failed":
		c.input["flag"] = r.chance(1, 2)
	case "foreach_mixed":
		c.input["flag"] = r.chance(1, 2)
		if r.chance(1, 4) {
			c.beh["suba"] = Behaviour{Outcome: []string{"error", "crash", "alt"}[r.intn(3)]}
		}
	case "foreach_disabled":
		loop["enabled"] = `!expr $.input.en`
		c.input["en"] = false
	case "foreach_enabled":
		loop["enabled"] = `!expr $.input.en`
	case "foreach_closed":
		// the items never arrive: they depend on a hanging step; the caller cancels
		c.beh["pre"] = Behaviour{Outcome: "hang"}
		loop["items"] = `[{on: "true", s: !expr $.steps.pre.outputs.success.s}]`
		c.cancelAfter = 5 + r.intn(25)
	}
	var b strings.Builder
	b.WriteString(typedHeader + "steps:\n")
	pre := map[string]string{"input": `{s: !expr $.input.name}`}
	if mode == "foreach_closed" {
		pre["closure_wait_timeout"] = `"100"`
	}
	b.WriteString(typedPluginStep("pre", "pre", "op", pre))
	b.WriteString("  loop:\n    kind: foreach\n    workflow: \"sub.yaml\"\n")
	for _, k := range sortedKeys(loop) {
		fmt.Fprintf(&b, "    %s: %s\n", k, loop[k])
	}
	b.WriteString("outputs:\n")
	b.WriteString("  success: {d: !expr $.steps.loop.outputs.success.data, whole: !expr $.steps.loop.outputs.success}\n")
	b.WriteString("  failed: {e: !expr $.steps.loop.failed.error.errors, d: !expr $.steps.loop.failed.error.data, whole: !expr $.steps.loop.failed.error}\n")
	if _, ok := loop["enabled"]; ok {
		b.WriteString("  off: {m: !expr $.steps.loop.disabled.output.message, e: !expr $.steps.loop.enabling.resolved.enabled}\n")
	}
	if mode == "foreach_closed" {
		b.WriteString("  closed: {x: !expr $.steps.loop.closed.result, q: !expr $.steps.loop.closed.result.close_requested}\n")
	}
	c.text = b.String()
	return c
}

// typedRandom: the generator of the `engine` stream plus outputs that reference engine-generated outputs of random steps.
func typedRandom(r *rng, tier string, cancel bool) *typedCase {
	g := genOpts{maxSteps: 3 + r.intn(4), tags: r.chance(1, 2), failOutputs: true, enabled: r.chance(2, 3),
		stopIf: r.chance(1, 3), waitFor: r.chance(1, 2)}
	if tier == "thorough" {
		g.maxSteps = 3 + r.intn(10)
	}
	o := engineOpts{cancelAfterMs: -1}
	if cancel {
		o.cancelAfterMs = r.intn(60)
		o.hang = true
		g.closureMs = 100 + 50*r.intn(3)
	}
	wf := genWorkflow(r, g)
	n := len(wf.Steps)
	add := func(id string, in AIn) {
		if _, ok := wf.Outputs[id]; ok {
			return
		}
		wf.OutputIDs = append(wf.OutputIDs, id)
		wf.Outputs[id] = in
	}
	pick := func() string { return stepName(r.intn(n)) }
	if r.chance(1, 2) {
		add("xcrashed", amap("c", expr(fmt.Sprintf("$.steps.%s.crashed.error.output", pick()))))
	}
	if r.chance(1, 2) {
		add("xdepfail", amap("d", expr(fmt.Sprintf("$.steps.%s.deploy_failed.error.error", pick()))))
	}
	if r.chance(1, 2) {
		s := pick()
		add("xdisabled", amap("m", expr(fmt.Sprintf("$.steps.%s.disabled.output.message", s)),
			"e", expr(fmt.Sprintf("$.steps.%s.enabling.resolved.enabled", s))))
	}
	if r.chance(1, 3) {
		add("xclosed", amap("x", expr(fmt.Sprintf("$.steps.%s.closed.result", pick()))))
	}
	c := &typedCase{mode: "random", cancelAfter: o.cancelAfterMs, wf: wf, files: map[string][]byte{}}
	if cancel {
		c.mode = "random_cancel"
	}
	c.text = wf.yaml(nil, nil)
	c.beh = genBehaviours(r, wf, o)
	c.input = map[string]any{"name": "nm"}
	for _, fl := range wf.InputFields {
		if fl.Name == "flag" {
			c.input["flag"] = r.chance(1, 2)
		}
		if fl.Name == "n" && r.chance(1, 2) {
			c.input["n"] = int64(r.intn(50))
		}
	}
	return c
}

var typedModes = []string{"random", "random", "random", "random_cancel", "crashed", "deploy_failed", "disabled", "enabling",
	"starting", "closed_stop_if", "closed_cancel", "plugin_outputs", "foreach_failed", "foreach_failed", "foreach_mixed",
	"foreach_mixed", "foreach_disabled", "foreach_enabled", "foreach_closed"}

func genTypedCase(r *rng, tier string, i int) *typedCase {
	mode := typedModes[i%len(typedModes)]
	switch {
	case mode == "random":
		return typedRandom(r, tier, false)
	case mode == "random_cancel":
		return typedRandom(r, tier, true)
	case strings.HasPrefix(mode, "foreach"):
		return typedForeach(r, mode)
	}
	return typedFocus(r, mode)
}

func execTypedCase(caseID string, c *typedCase) map[string]any {
	s := newScript()
	for k, v := range c.beh {
		s.set(k, v)
	}
	currentScript.Store(s)
	rec := newTypedRec()
	base := runtime.NumGoroutine()
	reg, f, err := newRegistry(func(p step.Provider) step.Provider { return typedProvider{Provider: p, rec: rec} })
	if err != nil {
		return map[string]any{"kind": "harness-error", "id": caseID, "error": err.Error()}
	}
	files := map[string]string{}
	for k, v := range c.files {
		files[k] = string(v)
	}
	out := map[string]any{"kind": "typed", "id": caseID, "mode": c.mode, "yaml": c.text, "files": files, "input": encVal(c.input),
		"behaviours": c.beh, "cancel_after_ms": c.cancelAfter}
	if kb, err := json.Marshal([]any{files, c.beh, c.cancelAfter >= 0}); err == nil {
		out["key"] = string(kb)
	}
	if c.wf != nil {
		out["wf"] = c.wf.json()
	}
	s.probe.Store(true)
	prepared, err := prepareYAML(reg, f, c.text, c.files)
	s.probe.Store(false)
	if err != nil {
		out["skip"] = "prepare: " + err.Error()
		return out
	}
	ctx, cancel := context.WithCancel(context.Background())
	defer cancel()
	type res struct {
		id   string
		data any
		err  error
		pan  string
	}
	resCh := make(chan res, 1)
	t0 := time.Now()
	go func() {
		defer func() {
			if rec := recover(); rec != nil {
				resCh <- res{pan: fmt.Sprint(rec)}
			}
		}()
		id, data, err := prepared.Execute(ctx, c.input)
		resCh <- res{id: id, data: data, err: err}
	}()
	if c.cancelAfter >= 0 {
		time.AfterFunc(time.Duration(c.cancelAfter)*time.Millisecond, cancel)
	}
	result := loopResult{}
	outputChecked := false
	select {
	case rr := <-resCh:
		result.Returned = true
		result.OutputID = rr.id
		result.Data = encVal(rr.data)
		if rr.err != nil {
			result.Err = rr.err.Error()
			result.ErrClass = classifyExecErr(rr.err)
		}
		if rr.pan != "" {
			out["panic"] = rr.pan
		}
		if rr.err == nil && rr.pan == "" {
			outputChecked = true
			sch, ok := prepared.OutputSchema()[rr.id]
			switch {
			case !ok:
				out["output_valid"] = false
				out["output_err"] = fmt.Sprintf("output id %q is not in the output schema %v", rr.id, sortedKeys(prepared.OutputSchema()))
			default:
				if _, err := sch.Unserialize(rr.data); err != nil {
					out["output_valid"] = false
					out["output_err"] = err.Error()
				} else {
					out["output_valid"] = true
				}
			}
		}
	case <-time.After(25 * time.Second):
		out["dump"] = goroutineDump()
	}
	out["output_checked"] = outputChecked
	out["wall_ms"] = time.Since(t0).Milliseconds()
	out["result"] = result
	// late notifications of steps that are being closed: wait for the goroutines of the run to go away
	out["goroutine_delta"] = goroutineDelta(base)
	rec.mu.Lock()
	out["validations"] = rec.validations
	out["triples"] = copyCounts(rec.triples)
	out["inputs"] = copyCounts(rec.inputs)
	out["structs"] = copyCounts(rec.structs)
	out["raw_would_fail"] = copyCounts(rec.rawFails)
	fails := make([]typedFailure, len(rec.failures))
	copy(fails, rec.failures)
	rec.mu.Unlock()
	out["failures"] = fails
	out["log"] = s.snapshot()
	return out
}

func copyCounts(m map[string]int) map[string]int {
	out := map[string]int{}
	for k, v := range m {
		out[k] = v
	}
	return out
}

func cmdTyped(args []string) int {
	var hist bool
	var only string
	c, _ := parseCommon("typed", args, func(fs *flag.FlagSet) {
		fs.BoolVar(&hist, "hist", false, "print a histogram of the validated (provider, stage, output) triples to stderr")
		fs.StringVar(&only, "mode", "", "run only cases of this mode")
	})
	w := openOut(c.out)
	defer w.close()
	r := newRng(c.seed)
	triples, inputs, modes, results := map[string]int{}, map[string]int{}, map[string]int{}, map[string]int{}
	structs, rawFails := map[string]int{}, map[string]int{}
	validations, failures, outputsChecked, outputsBad := 0, 0, 0, 0
	failKinds := map[string]int{}
	for i := 0; i < c.n; i++ {
		cr := r.fork()
		tc := genTypedCase(cr, c.tier, i)
		if i < c.skip || (only != "" && tc.mode != only) {
			continue
		}
		w.emit(map[string]any{"kind": "begin", "index": i})
		out := execTypedCase(fmt.Sprintf("typed-%d-%d", c.seed, i), tc)
		w.emit(out)
		modes[tc.mode]++
		if m, ok := out["triples"].(map[string]int); ok {
			for k, v := range m {
				triples[k] += v
			}
		}
		if m, ok := out["inputs"].(map[string]int); ok {
			for k, v := range m {
				inputs[k] += v
			}
		}
		if m, ok := out["structs"].(map[string]int); ok {
			for k, v := range m {
				structs[k] += v
			}
		}
		if m, ok := out["raw_would_fail"].(map[string]int); ok {
			for k, v := range m {
				rawFails[k] += v
			}
		}
		if v, ok := out["validations"].(int); ok {
			validations += v
		}
		if fs, ok := out["failures"].([]typedFailure); ok {
			failures += len(fs)
			for _, f := range fs {
				failKinds[f.Kind+":"+f.Provider+"."+f.Stage+"."+f.Output]++
			}
		}
		if out["output_checked"] == true {
			outputsChecked++
			if out["output_valid"] != true {
				outputsBad++
			}
		}
		if res, ok := out["result"].(loopResult); ok {
			switch {
			case out["skip"] != nil:
				results["skip"]++
			case out["panic"] != nil:
				results["panic"]++
			case !res.Returned:
				results["no-return"]++
			case res.Err != "":
				k := "err:" + res.ErrClass
				if strings.Contains(res.Err, "bug:") {
					k = "err:BUG"
				}
				results[k]++
			default:
				results["output:"+tc.mode+":"+res.OutputID]++
			}
		} else if out["skip"] != nil {
			results["skip"]++
		}
	}
	// the last line: what was validated in this invocation (after a crash and a `-skip` continuation: in the rest)
	summary := map[string]any{"kind": "typed-summary", "id": fmt.Sprintf("typed-summary-%d-%d", c.seed, c.skip), "seed": c.seed,
		"cases": c.n, "skipped": c.skip, "modes": modes, "validations": validations,
		"failures": failures, "failure_kinds": failKinds, "triples": triples, "inputs": inputs, "struct_outputs": structs,
		"unserialized_struct_would_fail": rawFails, "results": results, "outputs_checked": outputsChecked, "outputs_invalid": outputsBad}
	w.emit(summary)
	if hist {
		b, _ := json.MarshalIndent(summary, "", " ")
		fmt.Fprintln(os.Stderr, string(b))
	}
	return 0
}

var _ = sort.Strings
