//go:build verif

package main

// `vharness parse -mode tree|fs|bytes`: the implementation side of property C11 ("parsing any files yields a workflow
// or an error, never a crash or endless loop").
//
//   tree   generated abstract YAML node trees (YN) rendered to text, and structural corruptions of valid workflow
//          texts; the real internal/yaml parser (+Raw) and workflow.FromYAML run under recover + watchdog. Every case
//          also carries `ynode`: the node tree gopkg.in/yaml.v3 really produced for the text (yaml.v3 is the trusted
//          byte -> node function; the Lean model starts at that alphabet), and the oracle tables for the two abstract
//          parameters of the model (does expressions.New accept a text; what does stepPathRegex capture).
//   fs     small file systems of workflows whose foreach steps reference each other (chains, diamonds, self and mutual
//          references, missing / invalid files, malformed foreach steps) through engine.Parse and engine.SubworkflowCache.
//   bytes  byte-level mutations of valid texts. This stream is a fuzz TEST: its only oracle is ok|err vs panic|timeout
//          (when yaml.v3 happens to accept the bytes the model comparison is done as well).

import (
	"encoding/base64"
	"errors"
	"flag"
	"fmt"
	"os"
	"path/filepath"
	"reflect"
	"regexp"
	"sort"
	"strings"
	"time"

	engine "go.flow.arcalot.io/engine"
	iyaml "go.flow.arcalot.io/engine/internal/yaml"
	"go.flow.arcalot.io/engine/loadfile"
	"go.flow.arcalot.io/engine/workflow"
	"go.flow.arcalot.io/expressions"
	yamlv3 "gopkg.in/yaml.v3"
)

func init() { register("parse", cmdParse) }

// ---- abstract YAML trees ------------------------------------------------------------------------------------------------

// YN is the abstract node tree: {"t":"scalar","tag":..,"v":..} | {"t":"seq","tag":..,"items":[..]} |
// {"t":"map","tag":..,"entries":[[k,v],..]} | {"t":"alias","v":anchor} | {"t":"docs","docs":[..]} | {"t":"empty"} |
// {"t":"doc","items":[..]} (only in dumps of what yaml.v3 produced). "anchor" optionally names an anchor on the node.
type YN struct {
	T       string   `json:"t"`
	Tag     string   `json:"tag"`
	V       string   `json:"v"`
	Anchor  string   `json:"anchor,omitempty"`
	Items   []*YN    `json:"items,omitempty"`
	Entries [][2]*YN `json:"entries,omitempty"`
	Docs    []*YN    `json:"docs,omitempty"`
}

func ysc(tag, v string) *YN { return &YN{T: "scalar", Tag: tag, V: v} }
func yseq(tag string, items ...*YN) *YN {
	return &YN{T: "seq", Tag: tag, Items: items}
}
func ymap(tag string, kv ...*YN) *YN {
	m := &YN{T: "map", Tag: tag}
	for i := 0; i+1 < len(kv); i += 2 {
		m.Entries = append(m.Entries, [2]*YN{kv[i], kv[i+1]})
	}
	return m
}

var plainRe = regexp.MustCompile(`^[A-Za-z0-9_$][A-Za-z0-9_.$-]*$`)

func yquote(s string) string {
	var b strings.Builder
	b.WriteByte('"')
	for _, r := range s {
		switch {
		case r == '"':
			b.WriteString(`\"`)
		case r == '\\':
			b.WriteString(`\\`)
		case r == '\n':
			b.WriteString(`\n`)
		case r == '\t':
			b.WriteString(`\t`)
		case r < 0x20 || r == 0x7f:
			fmt.Fprintf(&b, `\x%02x`, r)
		default:
			b.WriteRune(r)
		}
	}
	b.WriteByte('"')
	return b.String()
}

type renderer struct {
	r *rng // style choices (plain vs quoted, block vs flow)
}

func (rd *renderer) props(n *YN) string {
	p := ""
	if n.Anchor != "" {
		p += "&" + n.Anchor + " "
	}
	if n.Tag != "" {
		p += n.Tag + " "
	}
	return p
}

func (rd *renderer) scalarText(n *YN) string {
	if n.V == "~" || (plainRe.MatchString(n.V) && rd.r.chance(1, 2)) {
		return n.V
	}
	if !strings.ContainsAny(n.V, "'\n\t\\") && n.V != "" && rd.r.chance(1, 5) {
		ok := true
		for _, c := range n.V {
			if c < 0x20 || c == 0x7f {
				ok = false
			}
		}
		if ok {
			return "'" + n.V + "'"
		}
	}
	return yquote(n.V)
}

// flow renders a node in flow style (complete for every tree shape, including complex keys).
func (rd *renderer) flow(n *YN) string {
	switch n.T {
	case "scalar":
		return rd.props(n) + rd.scalarText(n)
	case "alias":
		return "*" + n.V
	case "seq":
		parts := make([]string, len(n.Items))
		for i, x := range n.Items {
			parts[i] = rd.flow(x)
		}
		return rd.props(n) + "[" + strings.Join(parts, ", ") + "]"
	case "map":
		parts := make([]string, len(n.Entries))
		for i, e := range n.Entries {
			if e[0].T == "scalar" && rd.r.chance(3, 4) {
				parts[i] = rd.props(e[0]) + yquote(e[0].V) + ": " + rd.flow(e[1])
			} else {
				parts[i] = "? " + rd.flow(e[0]) + " : " + rd.flow(e[1])
			}
		}
		return rd.props(n) + "{" + strings.Join(parts, ", ") + "}"
	}
	return "~"
}

func (rd *renderer) blockOK(n *YN) bool {
	switch n.T {
	case "seq":
		return len(n.Items) > 0
	case "map":
		if len(n.Entries) == 0 {
			return false
		}
		for _, e := range n.Entries {
			if e[0].T != "scalar" {
				return false
			}
		}
		return true
	}
	return false
}

func (rd *renderer) block(b *strings.Builder, n *YN, indent int) {
	pad := strings.Repeat(" ", indent)
	child := func(head string, v *YN) {
		if rd.blockOK(v) && rd.r.chance(2, 3) {
			b.WriteString(pad + head + " " + strings.TrimRight(rd.props(v), " ") + "\n")
			rd.block(b, v, indent+2)
		} else {
			b.WriteString(pad + head + " " + rd.flow(v) + "\n")
		}
	}
	switch n.T {
	case "map":
		for _, e := range n.Entries {
			child(rd.props(e[0])+yquote(e[0].V)+":", e[1])
		}
	case "seq":
		for _, x := range n.Items {
			child("-", x)
		}
	}
}

// doc renders one document (without the `---` marker unless needed for properties of a block collection).
func (rd *renderer) doc(n *YN, forceMarker bool) string {
	if rd.blockOK(n) && rd.r.chance(1, 2) {
		var b strings.Builder
		p := strings.TrimRight(rd.props(n), " ")
		if p != "" || forceMarker {
			b.WriteString(strings.TrimRight("--- "+p, " ") + "\n")
		}
		rd.block(&b, n, 0)
		return b.String()
	}
	if forceMarker {
		return "--- " + rd.flow(n) + "\n"
	}
	return rd.flow(n) + "\n"
}

func (rd *renderer) render(n *YN) string {
	switch n.T {
	case "empty":
		return rd.r.pick([]string{"", "# only a comment\n", "   \n\n", "\n"})
	case "docs":
		var b strings.Builder
		for _, d := range n.Docs {
			b.WriteString(rd.doc(d, true))
		}
		if rd.r.chance(1, 4) {
			b.WriteString("...\n")
		}
		return b.String()
	}
	return rd.doc(n, rd.r.chance(1, 6))
}

// ---- generator ---------------------------------------------------------------------------------------------------------------

var specialTags = []string{"!expr", "!oneof", "!ordisabled", "!wait-optional", "!soft-optional"}
var otherTags = []string{"!!str", "!!int", "!custom", "!!map", "!!seq", "!!null"}

var scalarPool = []string{
	"x", "abc", "a b", "7", "-3", "0x1f", "1.5", "true", "null", "~", "", " ", "<<",
	"$.input.name", "$.input", "$.steps.s0.outputs.success.s", "$.steps.s0.outputs", "$.steps.s0.outputs.success",
	"steps.s1.outputs.error.reason", "$.steps.a.b", "$.steps..x", "$.steps.s0", "$.[", "((", "$.input.name[", "1 + ", "\"q\"",
	"key: value", "# not a comment", "line1\nline2", "tab\there", "quote\"s", "back\\slash", "it's", "é✓", "- dash", "[x]", "{y}",
	"$.steps.x + 1.5", "($.steps.a).x", "$.input.name ==", "1 +", "$.input.a && ", "f(", "a[", "\"unterminated", "$.steps.s0.outputs.success == ",
	"discriminator", "one_of", "kind", "foreach", "workflow", "*star", "&amp", "!bang", "%pct", "@at", "`tick",
}

type treeGen struct {
	r       *rng
	anchors []string
	nAnchor int
}

func (g *treeGen) tag(specialNum, den int) string {
	switch c := g.r.intn(den); {
	case c < specialNum:
		return g.r.pick(specialTags)
	case c == specialNum:
		return g.r.pick(otherTags)
	}
	return ""
}

func (g *treeGen) maybeAnchor(n *YN) *YN {
	if g.r.chance(1, 14) {
		g.nAnchor++
		n.Anchor = fmt.Sprintf("a%d", g.nAnchor)
		g.anchors = append(g.anchors, n.Anchor)
	}
	return n
}

// exprPool: texts that matter to the expression builders (compile / do not compile / make the parser panic; match /
// do not match stepPathRegex; match but give a disabled path that does not compile)
var exprPool = []string{
	"$.input.name", "$.steps.s0.outputs.success.s", "$.steps.s0.outputs.success", "$.steps.s0.outputs", "steps.a[0].b",
	"$.steps.x + 1.5", "$.steps.s0", "$.input", "$.[", "", "1 +", "$.input.name ==", "($.steps.a).x", "\"lit\"", "7",
}

func (g *treeGen) scalar() *YN {
	tag := g.tag(3, 10)
	v := g.r.pick(scalarPool)
	for _, t := range specialTags {
		if t == tag && g.r.chance(2, 3) {
			v = g.r.pick(exprPool)
		}
	}
	return g.maybeAnchor(ysc(tag, v))
}

func (g *treeGen) node(depth int) *YN {
	c := g.r.intn(20)
	if depth <= 0 && c >= 10 {
		c = g.r.intn(10)
	}
	switch {
	case c < 9:
		return g.scalar()
	case c == 9:
		if len(g.anchors) > 0 && g.r.chance(4, 5) {
			return &YN{T: "alias", V: g.r.pick(g.anchors)}
		}
		if g.r.chance(1, 4) {
			return &YN{T: "alias", V: "nope"} // unknown anchor: yaml.v3 reports an error
		}
		return g.scalar()
	case c < 14:
		n := &YN{T: "seq", Tag: g.tag(2, 12)}
		g.maybeAnchor(n) // registered before the children (yaml.v3 does the same), so a child may alias its parent
		k := g.r.intn(4)
		for i := 0; i < k; i++ {
			n.Items = append(n.Items, g.node(depth-1))
		}
		return n
	case c < 16 && g.r.chance(2, 3):
		return g.oneOf(depth - 1)
	default:
		n := &YN{T: "map", Tag: g.tag(2, 12)}
		g.maybeAnchor(n)
		k := g.r.intn(4)
		for i := 0; i < k; i++ {
			var key *YN
			switch kc := g.r.intn(12); {
			case kc == 0:
				key = yseq("", ysc("", "k1"), ysc("", "k2")) // complex key: sequence
			case kc == 1:
				key = ymap("", ysc("", "kk"), ysc("", "kv")) // complex key: mapping
			case kc == 2 && len(g.anchors) > 0:
				key = &YN{T: "alias", V: g.r.pick(g.anchors)}
			case kc == 3 && len(n.Entries) > 0:
				key = ysc("", n.Entries[0][0].V) // duplicate key
			case kc == 4:
				key = ysc(g.r.pick(specialTags), fmt.Sprintf("k%d", i)) // tag on a key
			case kc == 5:
				key = g.scalar()
			default:
				key = ysc("", g.r.pick([]string{"a", "b", "c", "kind", "workflow", "discriminator", "one_of", "7", "true", "null", ""}))
			}
			n.Entries = append(n.Entries, [2]*YN{key, g.node(depth - 1)})
		}
		return n
	}
}

// oneOf builds a !oneof section that is well formed with good probability, otherwise broken in one specific way.
func (g *treeGen) oneOf(depth int) *YN {
	disc := ysc("", g.r.pick([]string{"which", "d", "result"}))
	opts := &YN{T: "map"}
	k := 1 + g.r.intn(3)
	for i := 0; i < k; i++ {
		opts.Entries = append(opts.Entries, [2]*YN{ysc("", fmt.Sprintf("o%d", i)), g.node(depth)})
	}
	var one *YN = opts
	n := &YN{T: "map", Tag: "!oneof"}
	discKey, oneKey := "discriminator", "one_of"
	switch g.r.intn(14) {
	case 0:
		discKey = "discriminatr"
	case 1:
		oneKey = "oneof"
	case 2:
		disc = ysc("", "")
	case 3:
		disc = yseq("", ysc("", "which"))
	case 4:
		disc = ymap("", ysc("", "a"), ysc("", "b"))
	case 5:
		one = yseq("", ysc("", "a"))
	case 6:
		one = ysc("", "scalar")
	case 7:
		n.Tag = "" // tag forgotten: plain map
	case 8:
		one.Tag = "!oneof" // tag misplaced onto the options map
	case 9:
		disc.Tag = "!expr"
	}
	entries := [][2]*YN{{ysc("", discKey), disc}, {ysc("", oneKey), one}}
	if g.r.chance(1, 2) {
		entries[0], entries[1] = entries[1], entries[0]
	}
	if g.r.chance(1, 6) {
		entries = append(entries, [2]*YN{ysc("", "extra"), g.scalar()})
	}
	n.Entries = entries
	return n
}

func (g *treeGen) top() *YN {
	switch c := g.r.intn(24); {
	case c == 0:
		return &YN{T: "empty"}
	case c <= 2:
		d := &YN{T: "docs"}
		k := g.r.intn(4)
		for i := 0; i < k; i++ {
			d.Docs = append(d.Docs, g.node(2))
		}
		if k == 0 {
			return &YN{T: "empty"}
		}
		return d
	case c == 3:
		return ysc("", "") // a document holding only a null
	case c <= 6:
		// a workflow-looking map, so that deeper stages of FromYAML are reached with odd shapes
		return ymap("", ysc("", "version"), ysc("", "v0.2.0"), ysc("", "input"), g.node(2), ysc("", "steps"), g.node(3),
			ysc("", "outputs"), g.node(3))
	}
	return g.node(3 + g.r.intn(2))
}

// ---- what yaml.v3 really produced ------------------------------------------------------------------------------------------

func dumpNode(n *yamlv3.Node, depth int) *YN {
	if n == nil {
		return &YN{T: "nil"}
	}
	if depth > 20000 {
		return &YN{T: "too-deep"}
	}
	switch n.Kind {
	case 0:
		return &YN{T: "empty"}
	case yamlv3.DocumentNode:
		d := &YN{T: "doc", Tag: n.Tag, V: n.Value}
		for _, c := range n.Content {
			d.Items = append(d.Items, dumpNode(c, depth+1))
		}
		return d
	case yamlv3.SequenceNode:
		d := &YN{T: "seq", Tag: n.Tag, V: n.Value, Anchor: n.Anchor}
		for _, c := range n.Content {
			d.Items = append(d.Items, dumpNode(c, depth+1))
		}
		return d
	case yamlv3.MappingNode:
		d := &YN{T: "map", Tag: n.Tag, V: n.Value, Anchor: n.Anchor}
		for i := 0; i+1 < len(n.Content); i += 2 {
			d.Entries = append(d.Entries, [2]*YN{dumpNode(n.Content[i], depth+1), dumpNode(n.Content[i+1], depth+1)})
		}
		if len(n.Content)%2 == 1 {
			d.T = "map-odd" // never produced by yaml.v3; the model has no such node and the driver reports it
		}
		return d
	case yamlv3.ScalarNode:
		return &YN{T: "scalar", Tag: n.Tag, V: n.Value, Anchor: n.Anchor}
	case yamlv3.AliasNode:
		return &YN{T: "alias", V: n.Value}
	}
	return &YN{T: fmt.Sprintf("kind-%d", n.Kind)}
}

const maxDumpDepth = 120

func treeDepth(n *YN) int {
	if n == nil {
		return 0
	}
	d := 0
	for _, c := range n.Items {
		if x := treeDepth(c); x > d {
			d = x
		}
	}
	for _, e := range n.Entries {
		if x := treeDepth(e[0]); x > d {
			d = x
		}
		if x := treeDepth(e[1]); x > d {
			d = x
		}
	}
	return d + 1
}

func shortTagOf(t string) string {
	if strings.HasPrefix(t, "!!") {
		return t
	}
	return t
}

// sameTree: is the dumped yaml.v3 tree the abstract tree the text was rendered from? (renderer self-check)
func sameTree(a, y *YN) bool {
	if a == nil || y == nil {
		return a == y
	}
	if a.T != y.T {
		return false
	}
	if a.Tag != "" && shortTagOf(a.Tag) != y.Tag {
		return false
	}
	switch a.T {
	case "scalar":
		return a.V == y.V && a.Anchor == y.Anchor
	case "alias":
		return a.V == y.V
	case "seq":
		if len(a.Items) != len(y.Items) {
			return false
		}
		for i := range a.Items {
			if !sameTree(a.Items[i], y.Items[i]) {
				return false
			}
		}
		return true
	case "map":
		if len(a.Entries) != len(y.Entries) {
			return false
		}
		for i := range a.Entries {
			if !sameTree(a.Entries[i][0], y.Entries[i][0]) || !sameTree(a.Entries[i][1], y.Entries[i][1]) {
				return false
			}
		}
		return true
	}
	return true
}

func sameTop(a, y *YN) bool {
	first := a
	switch a.T {
	case "empty":
		return y.T == "empty"
	case "docs":
		if len(a.Docs) == 0 {
			return y.T == "empty"
		}
		first = a.Docs[0]
	}
	return y.T == "doc" && len(y.Items) == 1 && sameTree(first, y.Items[0])
}

func collectScalars(n *YN, into map[string]bool, depth int) {
	if n == nil || depth > 20000 {
		return
	}
	if n.T == "scalar" {
		into[n.V] = true
	}
	for _, c := range n.Items {
		collectScalars(c, into, depth+1)
	}
	for _, e := range n.Entries {
		collectScalars(e[0], into, depth+1)
		collectScalars(e[1], into, depth+1)
	}
	for _, d := range n.Docs {
		collectScalars(d, into, depth+1)
	}
}

// the regular expression of workflow/yaml.go buildResultOrDisabledExpression (kept equal by the pin of that function's
// skeleton plus the constant table; the model treats it as a parameter whose values are supplied here)
var stepPathRegexCopy = regexp.MustCompile(`((?:\$.)?steps\.[^.]+)(\..+)`)

func exprCompiles(s string) (ok bool, pan string) {
	g := guarded(5*time.Second, func() {
		_, err := expressions.New(s)
		ok = err == nil
	})
	if g.Panic != "" {
		return false, firstLine(g.Panic)
	}
	if g.Timeout {
		return false, "timeout"
	}
	return ok, ""
}

// panicSite names where a panic surfaced: the first frame of the engine module below the panic (the engine function
// that let it through), else the first non-runtime frame. Used for fingerprints.
func panicSite(stack string) string {
	lines := strings.Split(stack, "\n")
	seenPanic := false
	first := ""
	for _, l := range lines {
		t := strings.TrimSpace(l)
		if strings.HasPrefix(t, "panic(") {
			seenPanic = true
			continue
		}
		if !seenPanic || t == "" || strings.HasPrefix(t, "runtime.") || strings.HasPrefix(t, "/") {
			continue
		}
		if i := strings.LastIndex(t, "("); i > 0 {
			t = t[:i]
		}
		if first == "" {
			first = t
		}
		if strings.HasPrefix(t, "go.flow.arcalot.io/engine") && !strings.Contains(t, "cmd/vharness") {
			return strings.TrimPrefix(t, "go.flow.arcalot.io/engine/")
		}
	}
	if first == "" {
		return "unknown"
	}
	return first
}

// ---- running the real parse path ------------------------------------------------------------------------------------------

const parseWatchdog = 5 * time.Second

type parseObs struct {
	Parse    string `json:"parse"`                  // ok | err | panic | timeout
	Raw      string `json:"raw"`                    // ok | panic | timeout | n/a
	FromYAML string `json:"fromyaml"`               // ok | err | panic | timeout
	ErrType  string `json:"fromyaml_err,omitempty"` // empty | yaml | invalid | other
	Panic    string `json:"panic,omitempty"`
	Site     string `json:"panic_site,omitempty"`
	ParseErr string `json:"parse_err,omitempty"`
	FromErr  string `json:"fromyaml_errtext,omitempty"`
}

func classOf(g guardResult, err error) string {
	switch {
	case g.Timeout:
		return "timeout"
	case g.Panic != "":
		return "panic"
	case err != nil:
		return "err"
	}
	return "ok"
}

func clip(s string, n int) string {
	if len(s) > n {
		return s[:n] + "…"
	}
	return s
}

func observeParse(conv workflow.YAMLConverter, data []byte) (parseObs, any) {
	var o parseObs
	var node iyaml.Node
	var err error
	var rawVal any
	g := guarded(parseWatchdog, func() { node, err = iyaml.New().Parse(data) })
	o.Parse = classOf(g, err)
	if g.Panic != "" {
		o.Panic, o.Site = clip(g.Panic, 1500), "parse:"+panicSite(g.Panic)
	}
	if err != nil {
		o.ParseErr = clip(err.Error(), 200)
	}
	o.Raw = "n/a"
	if o.Parse == "ok" {
		g = guarded(parseWatchdog, func() { rawVal = node.Raw() })
		o.Raw = classOf(g, nil)
		if g.Panic != "" {
			o.Panic, o.Site = clip(g.Panic, 1500), "raw:"+panicSite(g.Panic)
		}
	}
	var ferr error
	g = guarded(parseWatchdog, func() { _, ferr = conv.FromYAML(data) })
	o.FromYAML = classOf(g, ferr)
	if g.Panic != "" {
		o.Panic, o.Site = clip(g.Panic, 1500), "fromyaml:"+panicSite(g.Panic)
	}
	if ferr != nil && o.FromYAML == "err" {
		var e1 *workflow.ErrInvalidWorkflowYAML
		var e2 *workflow.ErrInvalidWorkflow
		switch {
		case errors.Is(ferr, workflow.ErrEmptyWorkflowFile):
			o.ErrType = "empty"
		case errors.As(ferr, &e1):
			o.ErrType = "yaml"
		case errors.As(ferr, &e2):
			o.ErrType = "invalid"
		default:
			o.ErrType = "other"
		}
		o.FromErr = clip(ferr.Error(), 200)
	}
	if o.Raw == "ok" {
		return o, encVal(rawVal)
	}
	return o, nil
}

// oracleTables: values of the model's abstract parameters for every scalar of the case.
func oracleTables(trees ...*YN) (map[string]bool, map[string]string, []string, []string) {
	scalars := map[string]bool{}
	for _, t := range trees {
		collectScalars(t, scalars, 0)
	}
	exprs := map[string]bool{}
	stepPath := map[string]string{}
	var notes []string
	panics := []string{}
	add := func(s string) {
		if _, done := exprs[s]; done {
			return
		}
		ok, pan := exprCompiles(s)
		exprs[s] = ok
		if pan != "" {
			// the expression parser itself crashed on this text: third outcome of the model's parameter
			panics = append(panics, s)
			notes = append(notes, "expressions.New("+clip(s, 60)+"): "+pan)
		}
	}
	for s := range scalars {
		add(s)
		if m := stepPathRegexCopy.FindStringSubmatch(s); len(m) == 3 {
			stepPath[s] = m[1]
			add(m[1] + ".disabled.output")
		}
	}
	sort.Strings(panics)
	return exprs, stepPath, notes, panics
}

func runParseCase(conv workflow.YAMLConverter, id, origin string, tree *YN, data []byte, extra map[string]any) map[string]any {
	out := map[string]any{"kind": "parse-tree", "id": id, "origin": origin, "tree": tree}
	if isUTF8(data) {
		out["yaml"] = string(data)
	} else {
		out["bytes_b64"] = base64.StdEncoding.EncodeToString(data)
	}
	out["len"] = len(data)
	out["key"] = base64.StdEncoding.EncodeToString(data)
	if len(data) > 4096 {
		out["key"] = fmt.Sprintf("%s/%d/%x", id, len(data), data[:64])
	}
	for k, v := range extra {
		out[k] = v
	}
	// what yaml.v3 makes of the bytes (trusted byte -> node function)
	var yn yamlv3.Node
	var yerr error
	g := guarded(parseWatchdog, func() { yerr = yamlv3.Unmarshal(data, &yn) })
	var dumped *YN
	switch {
	case g.Panic != "":
		out["yamlv3"] = "panic"
		out["yamlv3_panic"] = clip(g.Panic, 800)
	case g.Timeout:
		out["yamlv3"] = "timeout"
	case yerr != nil:
		out["yamlv3"] = "err"
	default:
		out["yamlv3"] = "ok"
		dumped = dumpNode(&yn, 0)
		if d := treeDepth(dumped); d > maxDumpDepth {
			// the JSON codecs on the other side are recursive: very deep trees are not shipped (the case is still run)
			out["ynode_omitted"] = fmt.Sprintf("depth %d", d)
			dumped = nil
		} else {
			out["ynode"] = dumped
		}
	}
	if tree != nil && dumped != nil {
		out["render_ok"] = sameTop(tree, dumped)
	}
	exprs, stepPath, notes, exprPanics := oracleTables(tree, dumped)
	out["exprs"] = exprs
	out["steppath"] = stepPath
	out["expr_panics"] = exprPanics
	if len(notes) > 0 {
		out["oracle_notes"] = notes
	}
	obs, rawVal := observeParse(conv, data)
	out["observed"] = obs
	if rawVal != nil && dumped != nil {
		out["raw_value"] = rawVal
	}
	return out
}

func isUTF8(b []byte) bool {
	for _, r := range string(b) {
		if r == 0xFFFD {
			return false
		}
	}
	return true
}

// ---- structural corruptions of a valid workflow text -----------------------------------------------------------------

type yPath struct {
	parent *yamlv3.Node // mapping node
	idx    int          // index of the key in parent.Content
	path   string
}

func keyPaths(n *yamlv3.Node, prefix string, out *[]yPath) {
	switch n.Kind {
	case yamlv3.DocumentNode:
		for _, c := range n.Content {
			keyPaths(c, prefix, out)
		}
	case yamlv3.MappingNode:
		for i := 0; i+1 < len(n.Content); i += 2 {
			p := prefix + "/" + n.Content[i].Value
			*out = append(*out, yPath{n, i, p})
			keyPaths(n.Content[i+1], p, out)
		}
	case yamlv3.SequenceNode:
		for i, c := range n.Content {
			keyPaths(c, fmt.Sprintf("%s/%d", prefix, i), out)
		}
	}
}

func vScalar(tag, v string) *yamlv3.Node {
	n := &yamlv3.Node{Kind: yamlv3.ScalarNode, Value: v}
	if tag != "" {
		n.Tag = tag
		n.Style = yamlv3.TaggedStyle | yamlv3.DoubleQuotedStyle
	}
	return n
}
func vSeq(tag string, items ...*yamlv3.Node) *yamlv3.Node {
	n := &yamlv3.Node{Kind: yamlv3.SequenceNode, Content: items, Style: yamlv3.FlowStyle}
	if tag != "" {
		n.Tag = tag
		n.Style |= yamlv3.TaggedStyle
	}
	return n
}
func vMap(tag string, kv ...*yamlv3.Node) *yamlv3.Node {
	n := &yamlv3.Node{Kind: yamlv3.MappingNode, Content: kv, Style: yamlv3.FlowStyle}
	if tag != "" {
		n.Tag = tag
		n.Style |= yamlv3.TaggedStyle
	}
	return n
}

type shape struct {
	name string
	mk   func() *yamlv3.Node
}

var shapes = []shape{
	{"scalar", func() *yamlv3.Node { return vScalar("", "x") }},
	{"scalar-empty", func() *yamlv3.Node {
		return &yamlv3.Node{Kind: yamlv3.ScalarNode, Value: "", Style: yamlv3.DoubleQuotedStyle}
	}},
	{"scalar-int", func() *yamlv3.Node { return vScalar("", "7") }},
	{"null", func() *yamlv3.Node { return &yamlv3.Node{Kind: yamlv3.ScalarNode, Value: "~", Tag: "!!null"} }},
	{"seq", func() *yamlv3.Node { return vSeq("", vScalar("", "a"), vScalar("", "b")) }},
	{"seq-empty", func() *yamlv3.Node { return vSeq("") }},
	{"map", func() *yamlv3.Node { return vMap("", vScalar("", "k"), vScalar("", "v")) }},
	{"map-empty", func() *yamlv3.Node { return vMap("") }},
	{"map-complex-key", func() *yamlv3.Node { return vMap("", vSeq("", vScalar("", "a")), vScalar("", "v")) }},
	{"tag-expr", func() *yamlv3.Node { return vScalar("!expr", "$.input.name") }},
	{"tag-expr-bad", func() *yamlv3.Node { return vScalar("!expr", "$.[") }},
	{"tag-expr-seq", func() *yamlv3.Node { return vSeq("!expr", vScalar("", "a")) }},
	{"tag-oneof-scalar", func() *yamlv3.Node { return vScalar("!oneof", "x") }},
	{"tag-oneof-ok", func() *yamlv3.Node {
		return vMap("!oneof", vScalar("", "discriminator"), vScalar("", "d"), vScalar("", "one_of"),
			vMap("", vScalar("", "a"), vMap("", vScalar("", "x"), vScalar("!expr", "$.input.name"))))
	}},
	{"tag-oneof-nodisc", func() *yamlv3.Node { return vMap("!oneof", vScalar("", "one_of"), vMap("")) }},
	{"tag-oneof-noopts", func() *yamlv3.Node { return vMap("!oneof", vScalar("", "discriminator"), vScalar("", "d")) }},
	{"tag-ordisabled", func() *yamlv3.Node { return vScalar("!ordisabled", "$.steps.s0.outputs.success") }},
	{"tag-ordisabled-nomatch", func() *yamlv3.Node { return vScalar("!ordisabled", "$.input.name") }},
	{"tag-ordisabled-map", func() *yamlv3.Node { return vMap("!ordisabled", vScalar("", "a"), vScalar("", "b")) }},
	{"tag-wait-optional", func() *yamlv3.Node { return vScalar("!wait-optional", "$.input.name") }},
	{"tag-soft-optional-bad", func() *yamlv3.Node { return vScalar("!soft-optional", "bad[") }},
	{"tag-wait-optional-seq", func() *yamlv3.Node { return vSeq("!wait-optional", vScalar("", "a")) }},
	{"tag-unknown", func() *yamlv3.Node { return vScalar("!unknown", "x") }},
	{"tag-str", func() *yamlv3.Node { return vScalar("!!str", "7") }},
	{"tag-int", func() *yamlv3.Node { return vScalar("!!int", "abc") }},
}

type corruption struct {
	path string
	name string
	// apply mutates the tree rooted at doc; it returns false when not applicable
	apply func(p yPath) bool
}

func corruptionsFor() []corruption {
	var cs []corruption
	for _, s := range shapes {
		s := s
		cs = append(cs, corruption{name: "replace:" + s.name, apply: func(p yPath) bool {
			p.parent.Content[p.idx+1] = s.mk()
			return true
		}})
	}
	cs = append(cs, corruption{name: "remove-key", apply: func(p yPath) bool {
		p.parent.Content = append(append([]*yamlv3.Node{}, p.parent.Content[:p.idx]...), p.parent.Content[p.idx+2:]...)
		return true
	}})
	for _, t := range specialTags {
		t := t
		cs = append(cs, corruption{name: "tag-on-value:" + t, apply: func(p yPath) bool {
			v := p.parent.Content[p.idx+1]
			if v.Kind == yamlv3.AliasNode {
				return false
			}
			v.Tag = t
			v.Style |= yamlv3.TaggedStyle
			return true
		}})
	}
	cs = append(cs, corruption{name: "tag-stripped", apply: func(p yPath) bool {
		v := p.parent.Content[p.idx+1]
		if v.Style&yamlv3.TaggedStyle == 0 {
			return false
		}
		v.Tag = ""
		v.Style &^= yamlv3.TaggedStyle
		return true
	}})
	cs = append(cs, corruption{name: "tag-moved-to-key", apply: func(p yPath) bool {
		v := p.parent.Content[p.idx+1]
		if v.Style&yamlv3.TaggedStyle == 0 {
			return false
		}
		k := p.parent.Content[p.idx]
		k.Tag, k.Style = v.Tag, k.Style|yamlv3.TaggedStyle
		v.Tag = ""
		v.Style &^= yamlv3.TaggedStyle
		return true
	}})
	cs = append(cs, corruption{name: "key-seq", apply: func(p yPath) bool {
		p.parent.Content[p.idx] = vSeq("", vScalar("", p.parent.Content[p.idx].Value))
		return true
	}})
	cs = append(cs, corruption{name: "key-map", apply: func(p yPath) bool {
		p.parent.Content[p.idx] = vMap("", vScalar("", p.parent.Content[p.idx].Value), vScalar("", "v"))
		return true
	}})
	cs = append(cs, corruption{name: "key-duplicated", apply: func(p yPath) bool {
		p.parent.Content = append(p.parent.Content, vScalar("", p.parent.Content[p.idx].Value), vScalar("", "dup"))
		return true
	}})
	cs = append(cs, corruption{name: "value-aliased", apply: func(p yPath) bool {
		v := p.parent.Content[p.idx+1]
		if v.Kind == yamlv3.AliasNode || p.idx+2 >= len(p.parent.Content) {
			return false
		}
		v.Anchor = "anc"
		p.parent.Content[p.idx+3] = &yamlv3.Node{Kind: yamlv3.AliasNode, Value: "anc", Alias: v}
		return true
	}})
	return cs
}

// corruptText applies corruption c at the k-th key path of text.
func corruptText(text string, k int, c corruption) (string, string, bool) {
	var doc yamlv3.Node
	if err := yamlv3.Unmarshal([]byte(text), &doc); err != nil {
		return "", "", false
	}
	var paths []yPath
	keyPaths(&doc, "", &paths)
	if k >= len(paths) {
		return "", "", false
	}
	if !c.apply(paths[k]) {
		return "", paths[k].path, false
	}
	var outText []byte
	var err error
	g := guarded(parseWatchdog, func() { outText, err = yamlv3.Marshal(&doc) })
	if g.Panic != "" || g.Timeout || err != nil {
		return "", paths[k].path, false
	}
	return string(outText), paths[k].path, true
}

func countKeyPaths(text string) int {
	var doc yamlv3.Node
	if err := yamlv3.Unmarshal([]byte(text), &doc); err != nil {
		return 0
	}
	var paths []yPath
	keyPaths(&doc, "", &paths)
	return len(paths)
}

// ---- mode tree ------------------------------------------------------------------------------------------------------------------

func parseModeTree(c *common, w *lineWriter) int {
	r := newRng(c.seed)
	reg, _, err := newRegistry(nil)
	if err != nil {
		w.emit(map[string]any{"kind": "harness-error", "error": err.Error()})
		return 2
	}
	conv := workflow.NewYAMLConverter(reg)
	nTrees := c.n * 45 / 100
	nCorrupt := c.n - nTrees
	for i := 0; i < nTrees; i++ {
		g := &treeGen{r: r.fork()}
		tree := g.top()
		rd := &renderer{r: r.fork()}
		text := rd.render(tree)
		w.emit(runParseCase(conv, fmt.Sprintf("parse-tree-%d-%d", c.seed, i), "tree", tree, []byte(text), nil))
	}
	// corruptions of valid workflows: every (key path, corruption) pair of a generated workflow is a candidate; quick
	// tier samples a bounded number per workflow, thorough takes all of them
	cs := corruptionsFor()
	perWf := 60
	if c.tier == "thorough" {
		perWf = 1 << 30
	}
	done := 0
	for wfNo := 0; done < nCorrupt; wfNo++ {
		var text string
		if wfNo%4 == 3 {
			text = fsLoopText([]string{"sub.yaml"}, "")
		} else {
			wf := genWorkflow(r.fork(), genOpts{maxSteps: 4, tags: true, failOutputs: true, enabled: wfNo%2 == 0, waitFor: true})
			text = wf.yaml(nil, nil)
		}
		if wfNo == 0 {
			// the uncorrupted text is the first case: the valid end of the distribution
			w.emit(runParseCase(conv, fmt.Sprintf("parse-corrupt-%d-valid", c.seed), "valid", nil, []byte(text), map[string]any{"corruption": "none"}))
		}
		nPaths := countKeyPaths(text)
		type pc struct{ k, c int }
		var all []pc
		for k := 0; k < nPaths; k++ {
			for ci := range cs {
				all = append(all, pc{k, ci})
			}
		}
		order := r.perm(len(all))
		taken := 0
		for _, oi := range order {
			if taken >= perWf || done >= nCorrupt {
				break
			}
			p := all[oi]
			mutated, path, ok := corruptText(text, p.k, cs[p.c])
			if !ok {
				continue
			}
			w.emit(runParseCase(conv, fmt.Sprintf("parse-corrupt-%d-%d", c.seed, done), "corrupt", nil, []byte(mutated),
				map[string]any{"corruption": cs[p.c].name, "path": path}))
			taken++
			done++
		}
		if nPaths == 0 {
			break
		}
	}
	return 0
}

// ---- mode bytes ---------------------------------------------------------------------------------------------------------------

func mutateBytes(r *rng, base []byte) ([]byte, string) {
	b := append([]byte{}, base...)
	pos := func() int { return r.intn(len(b) + 1) }
	ins := func(at int, x []byte) { b = append(b[:at], append(append([]byte{}, x...), b[at:]...)...) }
	switch c := r.intn(16); c {
	case 0:
		k := 1 + r.intn(4)
		for i := 0; i < k && len(b) > 0; i++ {
			p := r.intn(len(b))
			b[p] ^= 1 << uint(r.intn(8))
		}
		return b, "bitflip"
	case 1:
		return b[:r.intn(len(b)+1)], "truncate"
	case 2:
		ctl := []byte{0x00, 0x01, 0x07, 0x08, 0x0b, 0x0c, 0x0d, 0x1b, 0x7f, 0x09, 0x0a}
		k := 1 + r.intn(3)
		for i := 0; i < k; i++ {
			ins(pos(), []byte{ctl[r.intn(len(ctl))]})
		}
		return b, "control-char"
	case 3:
		k := 1 + r.intn(8)
		x := make([]byte, k)
		for i := range x {
			x[i] = byte(r.intn(256))
		}
		ins(pos(), x)
		return b, "random-insert"
	case 4:
		k := 1 + r.intn(8)
		for i := 0; i < k && len(b) > 0; i++ {
			b[r.intn(len(b))] = byte(r.intn(256))
		}
		return b, "random-replace"
	case 5:
		marks := [][]byte{{0xEF, 0xBB, 0xBF}, {0xFF, 0xFE}, {0xFE, 0xFF}, {0xC2, 0x85}, {0xE2, 0x80, 0xA8}, {0xE2, 0x80, 0xA9}, {0xC0, 0x80}, {0xED, 0xA0, 0x80}}
		m := marks[r.intn(len(marks))]
		if r.chance(1, 2) {
			ins(0, m)
		} else {
			ins(pos(), m)
		}
		return b, "bom-or-special-utf8"
	case 6:
		sig := []string{"&a ", "*a ", "*nope", "!", "!!", "!<", "|", ">", "%YAML 1.1\n", "%TAG ! x\n", "---\n", "...\n", "? ", ": ", "- ", "{", "}", "[", "]", ",", "#", "'", "\"", "\\", "<<: ", "@", "`", "\t"}
		k := 1 + r.intn(3)
		for i := 0; i < k; i++ {
			ins(pos(), []byte(sig[r.intn(len(sig))]))
		}
		return b, "yaml-syntax-insert"
	case 7:
		if len(b) > 2 {
			i := r.intn(len(b) - 1)
			j := i + 1 + r.intn(len(b)-i-1)
			chunk := append([]byte{}, b[i:j]...)
			ins(pos(), chunk)
		}
		return b, "duplicate-chunk"
	case 8:
		if len(b) > 2 {
			i := r.intn(len(b) - 1)
			j := i + 1 + r.intn(len(b)-i-1)
			b = append(b[:i], b[j:]...)
		}
		return b, "delete-chunk"
	case 9:
		depth := []int{50, 500, 5000, 20000}[r.intn(4)]
		open := r.pick([]string{"[", "{a: ", "- ", "? "})
		return []byte(strings.Repeat(open, depth)), fmt.Sprintf("deep-nesting-%d", depth)
	case 10:
		// aliases: a chain of anchors each referencing the previous one several times
		var sb strings.Builder
		sb.WriteString("a0: &a0 [x, x]\n")
		k := 5 + r.intn(25)
		for i := 1; i < k; i++ {
			fmt.Fprintf(&sb, "a%d: &a%d [*a%d, *a%d, *a%d]\n", i, i, i-1, i-1, i-1)
		}
		return []byte(sb.String()), "alias-chain"
	case 11:
		x := make([]byte, r.intn(64))
		for i := range x {
			x[i] = byte(r.intn(256))
		}
		return x, "pure-random"
	case 14, 15:
		// the line breaks YAML knows besides LF: a lone CR, NEL, LS, PS (yaml.v3 counts each as a line), usually together
		// with a syntax error somewhere in the text, so that messages that refer to a line have to find it
		sep := [][]byte{{'\r'}, {0xC2, 0x85}, {0xE2, 0x80, 0xA8}, {0xE2, 0x80, 0xA9}, {'\r', '\n'}}[r.intn(5)]
		if r.chance(2, 3) {
			lines := strings.Split(string(b), "\n")
			i := r.intn(len(lines))
			lines[i] = lines[i] + r.pick([]string{": : [", " {", " ]", "\t- x", " &", " *nope", "'"})
			b = []byte(strings.Join(lines, "\n"))
		}
		return []byte(strings.ReplaceAll(string(b), "\n", string(sep))), "line-break-style"
	case 12:
		// indentation damage: change the indent of one line
		lines := strings.Split(string(b), "\n")
		i := r.intn(len(lines))
		lines[i] = strings.Repeat(" ", r.intn(7)) + strings.TrimLeft(lines[i], " ")
		return []byte(strings.Join(lines, "\n")), "reindent-line"
	default:
		// swap two lines
		lines := strings.Split(string(b), "\n")
		i, j := r.intn(len(lines)), r.intn(len(lines))
		lines[i], lines[j] = lines[j], lines[i]
		return []byte(strings.Join(lines, "\n")), "swap-lines"
	}
}

func parseModeBytes(c *common, w *lineWriter) int {
	r := newRng(c.seed)
	reg, _, err := newRegistry(nil)
	if err != nil {
		w.emit(map[string]any{"kind": "harness-error", "error": err.Error()})
		return 2
	}
	conv := workflow.NewYAMLConverter(reg)
	inputs := []string{"name: nm\nn: 5\nflag: true\n", "{name: \"x\", l: [a, b], m: {k: v}}\n", "name: |\n  block\n  text\nn: 0x10\n"}
	for i := 0; i < c.n; i++ {
		var base string
		var baseKind string
		switch r.intn(4) {
		case 0:
			base, baseKind = r.pick(inputs), "input"
		case 1:
			base, baseKind = fsLoopText([]string{"sub.yaml"}, ""), "workflow-foreach"
		default:
			wf := genWorkflow(r.fork(), genOpts{maxSteps: 3, tags: true, failOutputs: true, waitFor: true})
			base, baseKind = wf.yaml(nil, nil), "workflow"
		}
		data, mut := mutateBytes(r, []byte(base))
		if r.chance(1, 5) {
			var m2 string
			data, m2 = mutateBytes(r, data)
			mut += "+" + m2
		}
		out := runParseCase(conv, fmt.Sprintf("parse-bytes-%d-%d", c.seed, i), "bytes", nil, data,
			map[string]any{"mutation": mut, "base": baseKind, "test": true,
				"note": "fuzz test: the oracle of this stream is only ok|err versus panic|timeout (yaml.v3 is outside the model)"})
		out["kind"] = "parse-bytes"
		if l, _ := out["len"].(int); l > 4096 {
			// keep the line small: big generated inputs are reproducible from seed and mutation name
			delete(out, "yaml")
			delete(out, "bytes_b64")
			delete(out, "ynode")
			delete(out, "exprs")
			delete(out, "expr_panics")
			delete(out, "steppath")
			delete(out, "raw_value")
			out["omitted"] = "input larger than 4096 bytes (regenerate from seed)"
		}
		w.emit(out)
	}
	return 0
}

// ---- mode fs ------------------------------------------------------------------------------------------------------------------

// fsField is the shape of a step field as the sub-workflow discovery sees it: absent | string | other.
type fsField struct {
	Present bool   `json:"present"`
	IsStr   bool   `json:"is_str"`
	S       string `json:"s"`
}

type fsStep struct {
	ID       string  `json:"id"`
	IsMap    bool    `json:"is_map"`
	Kind     fsField `json:"kind"`
	Workflow fsField `json:"workflow"`
}

type fsFile struct {
	Valid  bool     `json:"valid"`
	Panics bool     `json:"panics"` // FromYAML panicked on the file: no such file exists in the model, the driver reports it
	Steps  []fsStep `json:"steps"`
}

func strField(s string) fsField { return fsField{Present: true, IsStr: true, S: s} }

const fsHeader = "version: v0.2.0\ninput:\n  root: RootObject\n  objects:\n    RootObject:\n      id: RootObject\n      properties:\n        name:\n          type:\n            type_id: string\n"

// fsLoopText: a valid workflow with one plugin step and one foreach step per reference. `defect` adds one malformed step.
func fsLoopText(refs []string, defect string) string {
	var b strings.Builder
	b.WriteString(fsHeader)
	b.WriteString("steps:\n  p:\n    plugin: {src: \"p\", deployment_type: \"builtin\"}\n    step: op\n    input: {s: !expr $.input.name}\n")
	for i, ref := range refs {
		fmt.Fprintf(&b, "  l%d:\n    kind: foreach\n    workflow: %s\n    items:\n      - name: !expr $.input.name\n", i, yq(ref))
	}
	switch defect {
	case "kind-seq":
		b.WriteString("  d:\n    kind: [x]\n    workflow: never.yaml\n    items: []\n")
	case "kind-map":
		b.WriteString("  d:\n    kind: {foreach: x}\n    workflow: never.yaml\n    items: []\n")
	case "kind-expr":
		b.WriteString("  d:\n    kind: !expr $.input.name\n    workflow: never.yaml\n    items: []\n")
	case "no-workflow":
		b.WriteString("  d:\n    kind: foreach\n    items: []\n")
	case "workflow-seq":
		b.WriteString("  d:\n    kind: foreach\n    workflow: [never.yaml]\n    items: []\n")
	case "workflow-map":
		b.WriteString("  d:\n    kind: foreach\n    workflow: {file: never.yaml}\n    items: []\n")
	case "workflow-expr":
		b.WriteString("  d:\n    kind: foreach\n    workflow: !expr $.input.name\n    items: []\n")
	case "workflow-null":
		b.WriteString("  d:\n    kind: foreach\n    workflow: ~\n    items: []\n")
	case "step-scalar":
		b.WriteString("  d: just-a-string\n")
	case "step-seq":
		b.WriteString("  d: [kind, foreach]\n")
	case "kind-other":
		b.WriteString("  d:\n    kind: nosuchkind\n    workflow: never.yaml\n")
	case "kind-case":
		// not the loop kind: kinds are case-sensitive, this step is neither a loop for the sub-workflow discovery nor a
		// step kind the executor knows (a.yaml exists in the shapes that use defects; in a.yaml itself it is a self reference)
		b.WriteString("  d:\n    kind: ForEach\n    workflow: a.yaml\n    items: []\n")
	case "kind-upper":
		b.WriteString("  d:\n    kind: FOREACH\n    workflow: a.yaml\n    items: []\n")
	}
	b.WriteString("outputs:\n  success:\n    s: !expr $.steps.p.outputs.success.s\n")
	for i := range refs {
		fmt.Fprintf(&b, "    r%d: !expr $.steps.l%d.outputs.success.data\n", i, i)
	}
	return b.String()
}

var fsDefects = []string{"kind-seq", "kind-map", "kind-expr", "no-workflow", "workflow-seq", "workflow-map", "workflow-expr",
	"workflow-null", "step-scalar", "step-seq", "kind-other", "kind-case", "kind-upper", "kind-case"}

func fsLoopAbs(refs []string, defect string) fsFile {
	f := fsFile{Valid: true}
	f.Steps = append(f.Steps, fsStep{ID: "p", IsMap: true})
	for i, ref := range refs {
		f.Steps = append(f.Steps, fsStep{ID: fmt.Sprintf("l%d", i), IsMap: true, Kind: strField("foreach"), Workflow: strField(ref)})
	}
	other := fsField{Present: true}
	switch defect {
	case "kind-seq", "kind-map", "kind-expr":
		f.Steps = append(f.Steps, fsStep{ID: "d", IsMap: true, Kind: other, Workflow: strField("never.yaml")})
	case "no-workflow":
		f.Steps = append(f.Steps, fsStep{ID: "d", IsMap: true, Kind: strField("foreach")})
	case "workflow-seq", "workflow-map", "workflow-expr":
		f.Steps = append(f.Steps, fsStep{ID: "d", IsMap: true, Kind: strField("foreach"), Workflow: other})
	case "workflow-null":
		f.Steps = append(f.Steps, fsStep{ID: "d", IsMap: true, Kind: strField("foreach"), Workflow: strField("~")})
	case "step-scalar", "step-seq":
		f.Steps = append(f.Steps, fsStep{ID: "d"})
	case "kind-other":
		f.Steps = append(f.Steps, fsStep{ID: "d", IsMap: true, Kind: strField("nosuchkind"), Workflow: strField("never.yaml")})
	case "kind-case":
		f.Steps = append(f.Steps, fsStep{ID: "d", IsMap: true, Kind: strField("ForEach"), Workflow: strField("a.yaml")})
	case "kind-upper":
		f.Steps = append(f.Steps, fsStep{ID: "d", IsMap: true, Kind: strField("FOREACH"), Workflow: strField("a.yaml")})
	}
	sort.Slice(f.Steps, func(i, j int) bool { return f.Steps[i].ID < f.Steps[j].ID })
	return f
}

type fsSpec struct {
	shape string
	texts map[string]string
	abs   map[string]fsFile
}

func (s *fsSpec) loop(name string, refs []string, defect string) {
	s.texts[name] = fsLoopText(refs, defect)
	s.abs[name] = fsLoopAbs(refs, defect)
}

func (s *fsSpec) invalid(name, how string) {
	switch how {
	case "not-yaml":
		s.texts[name] = "steps: {{{ : [\n\t- x"
	case "empty":
		s.texts[name] = ""
	case "no-version":
		s.texts[name] = strings.Replace(fsLoopText(nil, ""), "version: v0.2.0\n", "", 1)
	case "complex-key":
		s.texts[name] = "version: v0.2.0\n? [a, b]\n: c\n"
	default: // bad expression
		s.texts[name] = strings.Replace(fsLoopText(nil, ""), "$.input.name", "$.[", 1)
	}
	s.abs[name] = fsFile{Valid: false}
}

// panicking: a file with an expression on which expressions.New panics (it dereferences a nil token when the text ends
// in a binary operator). FromYAML used to panic on it; since the engine compiles expressions under recover it is an
// invalid file like any other. Kept in the stream as the regression case through engine.Parse.
func (s *fsSpec) panicking(name string) {
	s.texts[name] = strings.Replace(fsLoopText(nil, ""), "$.input.name", "$.input.name ==", 1)
	s.abs[name] = fsFile{Valid: false}
}

var fsInvalidKinds = []string{"not-yaml", "empty", "no-version", "complex-key", "bad-expr"}

const fsRoot = "workflow.yaml"

// dirPlaceholder stands for the temporary context directory in emitted texts (cases stay reproducible byte for byte).
const dirPlaceholder = "<dir>"

func genFS(r *rng, i int) *fsSpec {
	s := &fsSpec{texts: map[string]string{}, abs: map[string]fsFile{}}
	shapesList := []string{"leaf", "chain", "diamond", "self-root", "self-sub", "mutual2", "mutual3", "cycle-to-root", "missing", "missing-deep",
		"invalid-sub", "invalid-root", "defect-root", "defect-sub", "kind-case-root", "kind-case-sub", "subdir", "no-root", "spelling", "abs-path", "expr-panic", "random", "random", "random", "random"}
	s.shape = shapesList[i%len(shapesList)]
	switch s.shape {
	case "leaf":
		s.loop(fsRoot, nil, "")
	case "chain":
		k := 1 + r.intn(4)
		names := []string{fsRoot}
		for j := 0; j < k; j++ {
			names = append(names, fmt.Sprintf("c%d.yaml", j))
		}
		for j := 0; j < len(names); j++ {
			if j+1 < len(names) {
				s.loop(names[j], []string{names[j+1]}, "")
			} else {
				s.loop(names[j], nil, "")
			}
		}
	case "diamond":
		s.loop(fsRoot, []string{"a.yaml", "b.yaml"}, "")
		s.loop("a.yaml", []string{"shared.yaml"}, "")
		s.loop("b.yaml", []string{"shared.yaml"}, "")
		s.loop("shared.yaml", nil, "")
	case "self-root":
		s.loop(fsRoot, []string{fsRoot}, "")
	case "self-sub":
		s.loop(fsRoot, []string{"a.yaml"}, "")
		s.loop("a.yaml", []string{"a.yaml"}, "")
	case "mutual2":
		s.loop(fsRoot, []string{"a.yaml"}, "")
		s.loop("a.yaml", []string{"b.yaml"}, "")
		s.loop("b.yaml", []string{"a.yaml"}, "")
	case "mutual3":
		s.loop(fsRoot, []string{"a.yaml"}, "")
		s.loop("a.yaml", []string{"b.yaml"}, "")
		s.loop("b.yaml", []string{"c.yaml"}, "")
		s.loop("c.yaml", []string{"a.yaml"}, "")
	case "cycle-to-root":
		s.loop(fsRoot, []string{"a.yaml"}, "")
		s.loop("a.yaml", []string{fsRoot}, "")
	case "missing":
		s.loop(fsRoot, []string{"gone.yaml"}, "")
	case "missing-deep":
		s.loop(fsRoot, []string{"a.yaml", "b.yaml"}, "")
		s.loop("a.yaml", nil, "")
		s.loop("b.yaml", []string{"gone.yaml"}, "")
	case "invalid-sub":
		s.loop(fsRoot, []string{"a.yaml"}, "")
		s.invalid("a.yaml", r.pick(fsInvalidKinds))
	case "invalid-root":
		s.invalid(fsRoot, r.pick(fsInvalidKinds))
	case "defect-root":
		s.loop(fsRoot, []string{"a.yaml"}, r.pick(fsDefects))
		s.loop("a.yaml", nil, "")
	case "defect-sub":
		s.loop(fsRoot, []string{"a.yaml"}, "")
		s.loop("a.yaml", nil, r.pick(fsDefects))
	case "kind-case-root":
		s.loop(fsRoot, nil, r.pick([]string{"kind-case", "kind-upper"}))
		s.loop("a.yaml", nil, "")
	case "kind-case-sub":
		// a.yaml refers to itself through a step whose kind is not (exactly) the loop kind
		s.loop(fsRoot, []string{"a.yaml"}, "")
		s.loop("a.yaml", nil, r.pick([]string{"kind-case", "kind-upper"}))
	case "subdir":
		// a reference from a file in a sub-directory is resolved against the context directory, not the file's directory
		s.loop(fsRoot, []string{"sub/a.yaml"}, "")
		s.loop("sub/a.yaml", []string{"b.yaml"}, "")
		if r.chance(1, 2) {
			s.loop("b.yaml", nil, "")
		} else {
			s.loop("sub/b.yaml", nil, "") // only present next to a.yaml: reported missing
		}
	case "no-root":
		s.loop("other.yaml", nil, "")
	case "expr-panic":
		if r.chance(1, 2) {
			s.panicking(fsRoot)
		} else {
			s.loop(fsRoot, []string{"a.yaml"}, "")
			s.panicking("a.yaml")
		}
	case "spelling":
		// one file under several spellings: the keys differ, the file (and the chain entry) is the same
		switch r.intn(4) {
		case 0: // accepted: two keys for one leaf
			s.loop(fsRoot, []string{"a.yaml", "./a.yaml"}, "")
			s.loop("a.yaml", nil, "")
		case 1: // self-reference through another spelling
			s.loop(fsRoot, []string{"a.yaml"}, "")
			s.loop("a.yaml", []string{"./a.yaml"}, "")
		case 2: // mutual reference through a parent-directory spelling
			s.loop(fsRoot, []string{"sub/a.yaml"}, "")
			s.loop("sub/a.yaml", []string{"sub/../b.yaml"}, "")
			s.loop("b.yaml", []string{"sub//a.yaml"}, "")
		default: // the root under another spelling
			s.loop(fsRoot, []string{"./" + fsRoot}, "")
		}
	case "abs-path":
		// absolute paths are used as they are (the placeholder is replaced by the temporary directory)
		switch r.intn(3) {
		case 0:
			s.loop(fsRoot, []string{dirPlaceholder + "/a.yaml"}, "")
			s.loop("a.yaml", nil, "")
		case 1:
			s.loop(fsRoot, []string{dirPlaceholder + "/a.yaml"}, "")
			s.loop("a.yaml", []string{"a.yaml"}, "")
		default:
			s.loop(fsRoot, []string{dirPlaceholder + "/gone.yaml"}, "")
		}
	default:
		k := 2 + r.intn(4)
		names := []string{fsRoot}
		for j := 1; j < k; j++ {
			names = append(names, fmt.Sprintf("f%d.yaml", j))
		}
		for j, nm := range names {
			if j > 0 && r.chance(1, 10) {
				s.invalid(nm, r.pick(fsInvalidKinds))
				continue
			}
			var refs []string
			nr := r.intn(3)
			if j == 0 && nr == 0 {
				nr = 1
			}
			for x := 0; x < nr; x++ {
				switch c := r.intn(12); {
				case c == 0:
					refs = append(refs, "gone.yaml")
				case c <= 7 && j+1 < len(names):
					refs = append(refs, names[j+1+r.intn(len(names)-j-1)]) // forward: acyclic
				default:
					refs = append(refs, names[r.intn(len(names))]) // anywhere: may close a cycle
				}
			}
			defect := ""
			if r.chance(1, 6) {
				defect = r.pick(fsDefects)
			}
			s.loop(nm, refs, defect)
		}
	}
	return s
}

// observedAbs derives the abstraction of a file from what the real FromYAML returns for it.
func observedAbs(conv workflow.YAMLConverter, text string) (fsFile, string) {
	var wf *workflow.Workflow
	var err error
	g := guarded(parseWatchdog, func() { wf, err = conv.FromYAML([]byte(text)) })
	if g.Panic != "" {
		return fsFile{Panics: true}, "panic: " + firstLine(g.Panic) + " at " + panicSite(g.Panic)
	}
	if g.Timeout {
		return fsFile{}, "timeout"
	}
	if err != nil {
		return fsFile{Valid: false}, ""
	}
	f := fsFile{Valid: true}
	field := func(m map[any]any, k string) fsField {
		v, ok := m[k]
		if !ok {
			return fsField{}
		}
		if s, ok := v.(string); ok {
			return strField(s)
		}
		return fsField{Present: true}
	}
	for _, id := range sortedKeys(wf.Steps) {
		st := fsStep{ID: id}
		if m, ok := wf.Steps[id].(map[any]any); ok {
			st.IsMap = true
			st.Kind = field(m, "kind")
			st.Workflow = field(m, "workflow")
		}
		f.Steps = append(f.Steps, st)
	}
	return f, ""
}

func classifyParseErr(err error) string {
	if err == nil {
		return ""
	}
	var e1 *workflow.ErrInvalidWorkflowYAML
	var e2 *workflow.ErrInvalidWorkflow
	msg := err.Error()
	switch {
	case errors.Is(err, engine.ErrNoWorkflowFile):
		return "noroot"
	case strings.Contains(msg, "references itself through its foreach steps"):
		return "cycle"
	case strings.Contains(msg, "error reading file"):
		return "missing"
	case errors.Is(err, workflow.ErrEmptyWorkflowFile), errors.As(err, &e1), errors.As(err, &e2):
		return "invalid"
	}
	return "later"
}

const fsWatchdog = 10 * time.Second

func runFSCase(id string, spec *fsSpec) map[string]any {
	out := map[string]any{"kind": "parse-fs", "id": id, "shape": spec.shape, "root": fsRoot}
	files := map[string]any{}
	for _, nm := range sortedKeys(spec.texts) {
		files[nm] = map[string]any{"text": spec.texts[nm], "abs": spec.abs[nm]}
	}
	out["fs"] = files
	out["key"] = files

	dir, err := os.MkdirTemp("", "vharness-fs-")
	if err != nil {
		out["skip"] = "mkdtemp: " + err.Error()
		return out
	}
	defer os.RemoveAll(dir)
	absDir, _ := filepath.Abs(dir)
	if resolved, err := filepath.EvalSymlinks(absDir); err == nil {
		absDir = resolved
	}
	dir = absDir
	real := func(s string) string { return strings.ReplaceAll(s, dirPlaceholder, dir) }
	placeholder := func(s string) string { return strings.ReplaceAll(s, dir, dirPlaceholder) }
	realTexts := map[string]string{}
	for nm, text := range spec.texts {
		realTexts[nm] = real(text)
	}
	for nm, text := range realTexts {
		p := filepath.Join(dir, filepath.FromSlash(nm))
		if err := os.MkdirAll(filepath.Dir(p), 0o755); err != nil {
			out["skip"] = err.Error()
			return out
		}
		if err := os.WriteFile(p, []byte(text), 0o644); err != nil {
			out["skip"] = err.Error()
			return out
		}
	}

	s := newScript()
	currentScript.Store(s)
	s.probe.Store(true)
	defer s.probe.Store(false)

	// the abstraction of every file as the real FromYAML sees it, against the generator's intention
	reg, _, err := newRegistry(nil)
	if err != nil {
		out["skip"] = "registry: " + err.Error()
		return out
	}
	conv := workflow.NewYAMLConverter(reg)
	obsAbs := map[string]fsFile{}
	absOK := true
	var absNotes []string
	normTable := map[string]string{}
	for _, nm := range sortedKeys(spec.texts) {
		a, note := observedAbs(conv, realTexts[nm])
		if note != "" {
			absNotes = append(absNotes, nm+": "+note)
		}
		for i := range a.Steps {
			a.Steps[i].Kind.S = placeholder(a.Steps[i].Kind.S)
			a.Steps[i].Workflow.S = placeholder(a.Steps[i].Workflow.S)
			if w := a.Steps[i].Workflow; w.IsStr {
				// what NewFileCacheUsingContext makes of the reference, as a name of the file system
				ref := real(w.S)
				abs := ref
				if !filepath.IsAbs(ref) {
					abs = filepath.Join(dir, ref)
				}
				abs = filepath.Clean(abs)
				if rel, err := filepath.Rel(dir, abs); err == nil && !strings.HasPrefix(rel, "..") {
					normTable[w.S] = filepath.ToSlash(rel)
				} else {
					normTable[w.S] = placeholder(abs)
				}
			}
		}
		obsAbs[nm] = a
		want := spec.abs[nm]
		if a.Valid != want.Valid || a.Panics != want.Panics || (a.Valid && !reflect.DeepEqual(a.Steps, want.Steps)) {
			absOK = false
		}
	}
	out["observed_abs"] = obsAbs
	out["norm"] = normTable
	out["abs_ok"] = absOK
	if len(absNotes) > 0 {
		out["abs_notes"] = absNotes
	}

	// (1) the engine front end, as cmd/arcaflow/main.go drives it
	eng, err := installScriptedEngine()
	if err != nil {
		out["skip"] = "engine: " + err.Error()
		return out
	}
	obs := map[string]any{}
	fileCache, err := loadfile.NewFileCacheUsingContext(dir, map[string]string{fsRoot: fsRoot})
	if err == nil {
		err = fileCache.LoadContext()
	}
	if err != nil {
		// main.go exits with "Failed to load required files into context" before Parse is reached
		obs["class"], obs["err_kind"], obs["err"] = "err", "noroot", clip(placeholder(err.Error()), 300)
	} else {
		var perr error
		g := guarded(fsWatchdog, func() { _, perr = eng.Parse(fileCache, fsRoot) })
		obs["class"] = classOf(g, perr)
		if g.Panic != "" {
			obs["panic"], obs["panic_site"] = clip(g.Panic, 1500), "engine.Parse:"+panicSite(g.Panic)
		}
		if perr != nil && g.Panic == "" && !g.Timeout {
			obs["err_kind"] = classifyParseErr(perr)
			obs["err"] = clip(placeholder(perr.Error()), 300)
		}
	}
	out["parse"] = obs

	// (2) the sub-workflow discovery alone, whose merged cache is observable
	sub := map[string]any{}
	rootText, haveRoot := spec.texts[fsRoot]
	if !haveRoot {
		sub["class"], sub["err_kind"] = "err", "noroot"
	} else {
		var wf *workflow.Workflow
		var ferr error
		g := guarded(fsWatchdog, func() { wf, ferr = conv.FromYAML([]byte(real(rootText))) })
		switch {
		case g.Panic != "" || g.Timeout:
			sub["class"] = classOf(g, nil)
			sub["panic"], sub["panic_site"] = clip(g.Panic, 1500), "FromYAML:"+panicSite(g.Panic)
		case ferr != nil:
			sub["class"], sub["err_kind"] = "err", "invalid"
		default:
			var cache loadfile.FileCache
			var serr error
			g := guarded(fsWatchdog, func() {
				cache, serr = engine.SubworkflowCache(wf, absDir, conv, make([]loadfile.FileCache, 0))
			})
			sub["class"] = classOf(g, serr)
			if g.Panic != "" {
				sub["panic"], sub["panic_site"] = clip(g.Panic, 1500), "SubworkflowCache:"+panicSite(g.Panic)
			}
			if serr != nil && g.Panic == "" && !g.Timeout {
				sub["err_kind"] = classifyParseErr(serr)
				sub["err"] = clip(placeholder(serr.Error()), 300)
			}
			if sub["class"] == "ok" {
				keys := []string{}
				if cache != nil {
					for k, cf := range cache.Files() {
						keys = append(keys, placeholder(k))
						if want, ok := realTexts[normTable[placeholder(k)]]; !ok || string(cf.Content) != want {
							sub["content_note"] = fmt.Sprintf("key %q: cached content is not the content of the file it denotes", placeholder(k))
						}
					}
				}
				sort.Strings(keys)
				sub["files"] = keys
				sub["nil_cache"] = cache == nil
			}
		}
	}
	out["subcache"] = sub

	// (3) the in-memory API with copies that DIFFER from the context directory: the caller's files take precedence over the
	// ones found on disk, so every file of the tree is supplied with the text of some file of the tree (its own or another
	// one's, which can close a reference cycle the directory does not have).  Only "returns without crashing" is judged.
	if len(spec.texts) > 0 {
		names := sortedKeys(spec.texts)
		h := uint64(1469598103934665603)
		for _, c := range []byte(id) {
			h = (h ^ uint64(c)) * 1099511628211
		}
		supplied := map[string][]byte{}
		swapped := map[string]string{}
		for i, nm := range names {
			src := nm
			if (h>>(uint(i)%60))&3 == 0 { // about one file in four gets another file's text
				src = names[int((h>>7)+uint64(i)*2654435761)%len(names)]
			}
			supplied[nm] = []byte(realTexts[src])
			if src != nm {
				swapped[nm] = src
			}
		}
		mem := map[string]any{"swapped": swapped}
		var perr error
		g := guarded(fsWatchdog, func() { _, perr = eng.Parse(loadfile.NewFileCache(dir, supplied), fsRoot) })
		mem["class"] = classOf(g, perr)
		if g.Panic != "" {
			mem["panic"], mem["panic_site"] = clip(g.Panic, 1500), "engine.Parse(memory):"+panicSite(g.Panic)
		}
		if perr != nil && g.Panic == "" && !g.Timeout {
			mem["err_kind"] = classifyParseErr(perr)
		}
		out["parse_mem"] = mem
	}
	// (4) the in-memory API with HONEST copies of a part of the tree: the root and some of the referenced sub-workflow files
	// are supplied by the caller under the very strings the loop steps use, with the text the context directory has for
	// them; the others are only in the context directory.  Every transitively referenced file is where it was in (1), so
	// the verdict has to be the one of (1).
	if cls, _ := obs["class"].(string); (cls == "ok" || cls == "err") && obs["err_kind"] != "noroot" {
		h := uint64(1099511628211)
		for _, c := range []byte(id) {
			h = (h ^ uint64(c)) * 1469598103934665603
		}
		supplied := map[string][]byte{fsRoot: []byte(realTexts[fsRoot])}
		keys := []string{}
		i := 0
		for _, nm := range sortedKeys(spec.texts) {
			for _, st := range obsAbs[nm].Steps {
				if w := st.Workflow; w.IsStr {
					i++
					target, ok := realTexts[normTable[w.S]]
					if !ok || (h>>(uint(i)%60))&1 == 0 {
						continue
					}
					if _, dup := supplied[real(w.S)]; !dup {
						supplied[real(w.S)] = []byte(target)
						keys = append(keys, w.S)
					}
				}
			}
		}
		part := map[string]any{"supplied": keys}
		var perr error
		g := guarded(fsWatchdog, func() { _, perr = eng.Parse(loadfile.NewFileCache(dir, supplied), fsRoot) })
		part["class"] = classOf(g, perr)
		if g.Panic != "" {
			part["panic"], part["panic_site"] = clip(g.Panic, 1500), "engine.Parse(partly supplied):"+panicSite(g.Panic)
		}
		if perr != nil && g.Panic == "" && !g.Timeout {
			part["err_kind"] = classifyParseErr(perr)
			part["err"] = clip(placeholder(perr.Error()), 300)
		}
		out["parse_part"] = part
	}
	out["probe_balance"] = s.balance()
	return out
}

func parseModeFS(c *common, w *lineWriter) int {
	r := newRng(c.seed)
	for i := 0; i < c.n; i++ {
		spec := genFS(r.fork(), i)
		w.emit(runFSCase(fmt.Sprintf("parse-fs-%d-%d", c.seed, i), spec))
	}
	return 0
}

// ---- command -----------------------------------------------------------------------------------------------------------------

func cmdParse(args []string) int {
	var mode, in string
	c, _ := parseCommon("parse", args, func(fs *flag.FlagSet) {
		fs.StringVar(&mode, "mode", "tree", "tree | fs | bytes | file")
		fs.StringVar(&in, "in", "", "mode file: the file to run through Parse/Raw/FromYAML (replay of one input)")
	})
	// text/scanner inside the expressions package reports lexical errors on os.Stderr; keep the stream clean
	if devnull, err := os.OpenFile(os.DevNull, os.O_WRONLY, 0); err == nil {
		os.Stderr = devnull
	}
	c.seed = envSeedOr(c.seed, args)
	w := openOut(c.out)
	defer w.close()
	switch mode {
	case "tree":
		return parseModeTree(c, w)
	case "fs":
		return parseModeFS(c, w)
	case "bytes":
		return parseModeBytes(c, w)
	case "file":
		data, err := os.ReadFile(in)
		if err != nil {
			w.emit(map[string]any{"kind": "harness-error", "error": err.Error()})
			return 2
		}
		reg, _, err := newRegistry(nil)
		if err != nil {
			w.emit(map[string]any{"kind": "harness-error", "error": err.Error()})
			return 2
		}
		w.emit(runParseCase(workflow.NewYAMLConverter(reg), "parse-file-"+filepath.Base(in), "file", nil, data, nil))
		return 0
	}
	fmt.Fprintln(os.Stderr, "parse: unknown -mode", mode)
	return 2
}

// envSeedOr: an explicit -seed wins, otherwise VERIF_SEED, otherwise the default.
func envSeedOr(seed uint64, args []string) uint64 {
	for _, a := range args {
		if a == "-seed" || strings.HasPrefix(a, "-seed=") || a == "--seed" || strings.HasPrefix(a, "--seed=") {
			return seed
		}
	}
	return envSeed(seed)
}
