//go:build verif

package main

import (
	"context"
	"flag"
	"fmt"
	"runtime"
	"sort"
	"strings"
	"time"

	"go.flow.arcalot.io/engine/internal/step"
)

func init() { register("engine", cmdEngine) }

// ---- whole-engine runs -----------------------------------------------------------------------------------------------------
//
// Real providers, real run loop; only the deployer/plugin are scripted.  The case written out contains the abstract
// workflow, the input, the behaviour script, the plugin-side log (deploy / close / exec-start / exec-end / cancel-signal
// with one global sequence), the result of Execute, timings, the deploy-close balance and the goroutine delta.  The
// monitors in lib/monitors.py evaluate the properties on these observations.

var engineOutcomes = []string{"success", "success", "success", "success", "success", "error", "alt", "crash", "deploy_fail", "success", "start_fail"}

type engineOpts struct {
	cancelAfterMs int  // >= 0: cancel the caller's context after that many ms
	hang          bool // allow never-finishing steps
	// warmInput != nil: the prepared workflow is executed once with this input BEFORE the recorded run (same behaviours);
	// the logs are cleared once that run has settled.  The recorded run is then a second run of a prepared workflow: what
	// its steps see has to be computed from THIS run's input and producers, not from the earlier run's.
	warmInput map[string]any
	warm      bool // runEngineCase: derive warmInput from the generated workflow's input fields
}

func genBehaviours(r *rng, wf *AWf, o engineOpts) map[string]Behaviour {
	b := map[string]Behaviour{}
	for _, s := range wf.Steps {
		if s.Kind != "plugin" {
			continue
		}
		oc := engineOutcomes[r.intn(len(engineOutcomes))]
		bh := Behaviour{Outcome: oc}
		if oc == "deploy_fail" {
			bh.Outcome = "success"
			bh.DeployFail = true
		}
		if oc == "start_fail" {
			// deploys, then fails in its starting stage (the connection to the plugin is broken): ends as crashed without
			// ever executing
			bh.Outcome = "success"
			bh.StartFail = true
		}
		if r.chance(1, 3) {
			bh.DelayMs = r.intn(25)
		}
		if r.chance(1, 5) {
			bh.DeployDelayMs = r.intn(20)
		}
		if o.hang && r.chance(1, 6) {
			bh.Outcome = "hang"
			bh.IgnoreCancel = r.chance(1, 3)
		}
		if o.cancelAfterMs >= 0 && r.chance(1, 4) {
			// runs that the caller cancels: a deployment that is still going on at that moment and completes anyway
			bh.DeployDelayMs = 20 + r.intn(80)
			bh.DeployIgnoresCtx = true
		}
		if r.chance(1, 4) {
			bh.Data = map[string]any{"b": r.chance(1, 2)}
		}
		if slowLogMs > 0 && r.chance(1, 2) {
			// logged outputs: the step's text output is long (a log line may abbreviate it, the data may not be touched)
			if bh.Data == nil {
				bh.Data = map[string]any{}
			}
			bh.Data["s"] = "long-" + s.ID + "-" + strings.Repeat("v", 280+r.intn(600))
		}
		b[s.Src] = bh
	}
	// a step another one waits on through `starting.started` fails to start in half of the cases: the waiting step's
	// prerequisite then never happens
	for _, s := range wf.Steps {
		if w, ok := s.Fields["wait_for"]; ok && w.K == "expr" && strings.HasSuffix(w.Src, ".starting.started") {
			parts := strings.Split(w.Src, ".")
			if len(parts) >= 3 && r.chance(1, 2) {
				for _, t := range wf.Steps {
					if t.ID == parts[2] && t.Kind == "plugin" {
						bh := b[t.Src]
						if !bh.DeployFail && bh.Outcome != "hang" {
							bh.Outcome, bh.StartFail = "success", true
							b[t.Src] = bh
						}
					}
				}
			}
		}
	}
	return b
}

func goroutineDelta(base int) int {
	deadline := time.Now().Add(1500 * time.Millisecond)
	for {
		n := runtime.NumGoroutine()
		if n <= base || time.Now().After(deadline) {
			return n - base
		}
		time.Sleep(5 * time.Millisecond)
	}
}

func goroutineDump() string {
	buf := make([]byte, 1<<20)
	n := runtime.Stack(buf, true)
	out := []string{}
	for _, g := range strings.Split(string(buf[:n]), "\n\n") {
		if strings.Contains(g, "go.flow.arcalot.io/engine/") && !strings.Contains(g, "cmd/vharness.main") {
			lines := strings.Split(g, "\n")
			if len(lines) > 8 {
				lines = lines[:8]
			}
			out = append(out, strings.Join(lines, "\n"))
		}
	}
	sort.Strings(out)
	if len(out) > 6 {
		out = out[:6]
	}
	return strings.Join(out, "\n--\n")
}

func runEngineCase(r *rng, caseID string, g genOpts, o engineOpts) map[string]any {
	wf := genWorkflow(r, g)
	text := wf.yaml(nil, nil)
	beh := genBehaviours(r, wf, o)
	input := map[string]any{"name": "nm"}
	if slowLogMs > 0 && r.chance(1, 2) {
		// logged outputs: long texts travel through the logged step outputs (a log line may abbreviate, the data may not)
		input["name"] = strings.Repeat("n", 300+r.intn(600))
	}
	for _, fl := range wf.InputFields {
		if fl.Name == "flag" {
			input["flag"] = r.chance(2, 3)
		}
		if fl.Name == "n" && r.chance(1, 2) {
			input["n"] = int64(r.intn(50))
		}
		if fl.Name == "opt" && r.chance(1, 2) {
			input["opt"] = "given"
		}
		if fl.Name == "lst" && r.chance(2, 3) {
			l := []any{}
			for k := r.intn(4); k > 0; k-- {
				l = append(l, fmt.Sprintf("e%d", k))
			}
			input["lst"] = l
		}
		if fl.Name == "z" && r.chance(1, 2) {
			input["z"] = int64(r.intn(3))
		}
	}
	if o.warm {
		wi := map[string]any{"name": fmt.Sprintf("first-run-%d", r.intn(100))}
		for _, fl := range wf.InputFields {
			switch fl.Name {
			case "flag":
				wi["flag"] = r.chance(1, 2)
			case "n":
				wi["n"] = int64(50 + r.intn(50))
			case "opt":
				if r.chance(1, 2) {
					wi["opt"] = "first"
				}
			case "lst":
				wi["lst"] = []any{"w1", "w2", "w3", "w4", "w5"}[:r.intn(6)]
			case "z":
				wi["z"] = int64(r.intn(3))
			}
		}
		o.warmInput = wi
	}
	return execEngineCase(caseID, wf, text, beh, input, o)
}

func execEngineCase(caseID string, wf *AWf, text string, beh map[string]Behaviour, input map[string]any, o engineOpts) map[string]any {
	return execEngineCaseTimeout(caseID, wf, text, beh, input, o, 25*time.Second)
}

// execEngineCaseTimeout: as execEngineCase; when Execute has not returned after `limit` the caller's context is cancelled so
// that the process can go on (recorded as returned = false).
func execEngineCaseTimeout(caseID string, wf *AWf, text string, beh map[string]Behaviour, input map[string]any, o engineOpts,
	limit time.Duration) map[string]any {
	s := newScript()
	for k, v := range beh {
		s.set(k, v)
	}
	currentScript.Store(s)
	base := runtime.NumGoroutine()
	// engine-side log: transparent recording proxies around the real providers (every notification and every provided input,
	// on the same sequence counter as the plugin-side log).  What the ENGINE saw a step do can differ from what the plugin did
	// once the run is terminating (a step force-closed while its plugin was just finishing); the monitors use this log for
	// "was produced".
	rec := &c04Rec{s: s}
	reg, f, err := newRegistry(func(p step.Provider) step.Provider { return c04Provider{Provider: p, rec: rec} })
	if err != nil {
		return map[string]any{"kind": "harness-error", "id": caseID, "error": err.Error()}
	}
	out := map[string]any{"kind": "engine", "id": caseID, "yaml": text, "wf": wf.json(), "input": encVal(input), "behaviours": beh}
	defer func() { out["elog"] = rec.snapshot() }()
	s.probe.Store(true)
	prepared, err := prepareYAML(reg, f, text, nil)
	s.probe.Store(false)
	out["probe_balance"] = s.balance()
	if err != nil {
		out["skip"] = "prepare: " + err.Error()
		out["goroutine_delta"] = goroutineDelta(base)
		return out
	}
	if o.warmInput != nil {
		warm := map[string]any{"input": encVal(o.warmInput)}
		g := guarded(25*time.Second, func() {
			wctx, wcancel := context.WithTimeout(context.Background(), 20*time.Second)
			defer wcancel()
			id, _, werr := prepared.Execute(wctx, o.warmInput)
			warm["output_id"] = id
			if werr != nil {
				warm["err"] = werr.Error()
			}
		})
		if g.Panic != "" || g.Timeout {
			out["skip"] = "the first run of the prepared workflow panicked or did not return: " + g.Panic
			return out
		}
		// settled = every plugin of the first run closed and nothing logged for 100 ms
		deadline := time.Now().Add(5 * time.Second)
		last, lastAt := int64(-1), time.Now()
		for time.Now().Before(deadline) {
			s.mu.Lock()
			cur := s.seq
			s.mu.Unlock()
			if cur != last {
				last, lastAt = cur, time.Now()
			}
			if s.balance() == 0 && time.Since(lastAt) > 100*time.Millisecond {
				break
			}
			time.Sleep(5 * time.Millisecond)
		}
		warm["events"] = last
		out["warm"] = warm
		s.mu.Lock()
		s.log = nil
		s.maxRunning = 0
		s.mu.Unlock()
		rec.mu.Lock()
		rec.ev = nil
		rec.mu.Unlock()
	}
	ctx, cancel := context.WithCancel(context.Background())
	defer cancel()
	type res struct {
		id   string
		data any
		err  error
		pan  string
	}
	resCh := make(chan res, 1)
	t0 := time.Now()
	go func() {
		defer func() {
			if rec := recover(); rec != nil {
				resCh <- res{pan: fmt.Sprint(rec)}
			}
		}()
		id, data, err := prepared.Execute(ctx, input)
		resCh <- res{id: id, data: data, err: err}
	}()
	var cancelAt time.Time
	if o.cancelAfterMs >= 0 {
		time.AfterFunc(time.Duration(o.cancelAfterMs)*time.Millisecond, func() {
			cancelAt = time.Now()
			s.add("ctx-cancel", "", "", "", nil)
			cancel()
		})
	}
	result := loopResult{}
	select {
	case rr := <-resCh:
		result.Returned = true
		result.OutputID = rr.id
		result.Data = encVal(rr.data)
		if rr.err != nil {
			result.Err = rr.err.Error()
			result.ErrClass = classifyExecErr(rr.err)
		}
		if rr.pan != "" {
			out["panic"] = rr.pan
		}
	case <-time.After(limit):
		out["dump"] = goroutineDump()
		cancel()
		select {
		case <-resCh:
		case <-time.After(15 * time.Second):
		}
	}
	out["wall_ms"] = time.Since(t0).Milliseconds()
	if !cancelAt.IsZero() {
		out["after_cancel_ms"] = time.Since(cancelAt).Milliseconds()
	}
	out["result"] = result
	out["balance"] = s.balance()
	out["max_running"] = s.maxRunning
	gd := goroutineDelta(base)
	out["goroutine_delta"] = gd
	if gd > 0 {
		out["leak_dump"] = goroutineDump()
	}
	out["log"] = s.snapshot()
	out["cancel_after_ms"] = o.cancelAfterMs
	out["closure_ms"] = closureOf(wf)
	return out
}

func cmdEngine(args []string) int {
	var cancelMode string
	var hang, evalFail, allTags, multiRef, second bool
	c, _ := parseCommon("engine", args, func(fs *flag.FlagSet) {
		fs.StringVar(&cancelMode, "cancel", "none", "none|random: cancel the context at a random instant")
		fs.BoolVar(&hang, "hang", false, "allow never-finishing steps")
		fs.BoolVar(&evalFail, "evalfail", false, "generate expressions that may fail to evaluate at run time")
		fs.BoolVar(&allTags, "tags", false, "every workflow uses the optional / one-of / or-disabled tags")
		fs.BoolVar(&multiRef, "multiref", false, "expressions with several step references / several optional members on one source")
		fs.BoolVar(&second, "second", false, "the recorded run is the SECOND run of the prepared workflow (first run: another input); deploy-time expressions over the input")
		fs.IntVar(&slowLogMs, "slowlog", 0, "log step outputs (config.LoggedOutputConfigs) through a log sink that takes this many ms per such line")
	})
	w := openOut(c.out)
	defer w.close()
	r := newRng(c.seed)
	for i := 0; i < c.n; i++ {
		cr := r.fork()
		if i < c.skip {
			continue
		}
		w.emit(map[string]any{"kind": "begin", "index": i})
		g := genOpts{maxSteps: 3 + cr.intn(4), tags: cr.chance(1, 2), failOutputs: true, enabled: cr.chance(1, 2),
			stopIf: cr.chance(1, 4), waitFor: cr.chance(1, 2), evalFail: evalFail, multiRef: multiRef}
		if c.tier == "thorough" {
			g.maxSteps = 3 + cr.intn(10)
		}
		if allTags {
			g.tags = true
			g.enabled = cr.chance(2, 3)
		}
		o := engineOpts{cancelAfterMs: -1, hang: hang}
		if second {
			g.deployExpr = true
			o.warm = true
		}
		if cancelMode == "random" && i%10 == 9 {
			// targeted shape: several steps are executing when the caller cancels; their plugins get the cancel signal and
			// carry on; their closure timeouts are small (one of them the valid minimum 0), so the run has to be over after
			// the grace period plus those timeouts however many such steps there are
			n := 2 + cr.intn(3)
			wf := &AWf{Outputs: map[string]AIn{}, InputFields: []AField{{Name: "name", Type: "string", Required: true}}}
			beh := map[string]Behaviour{}
			out := AIn{K: "map"}
			for k := 0; k < n; k++ {
				id := fmt.Sprintf("z%d", k)
				ct := []string{"0", "0", "50", "100"}[cr.intn(4)]
				wf.Steps = append(wf.Steps, AStep{ID: id, Kind: "plugin", PlugStep: "op", Src: id,
					Fields: map[string]AIn{"input": amap("s", lit("x")), "closure_wait_timeout": lit(ct)}})
				beh[id] = Behaviour{Outcome: "hang", IgnoreCancel: true}
				out.put(id, expr(fmt.Sprintf("$.steps.%s.outputs.success.s", id)))
			}
			wf.OutputIDs = []string{"success"}
			wf.Outputs["success"] = out
			res := execEngineCase(fmt.Sprintf("engine-%d-%d", c.seed, i), wf, wf.yaml(nil, nil), beh, map[string]any{"name": "nm"},
				engineOpts{cancelAfterMs: 20 + cr.intn(40), hang: true})
			res["shape"] = "stubborn-plugins-small-closure-timeouts"
			w.emit(res)
			continue
		}
		if cancelMode == "random" {
			o.cancelAfterMs = cr.intn(60)
			o.hang = true
			g.closureMs = 100 + 50*cr.intn(4)
			g.closureZero = true
		}
		w.emit(runEngineCase(cr, fmt.Sprintf("engine-%d-%d", c.seed, i), g, o))
	}
	return 0
}

func closureOf(wf *AWf) map[string]int {
	out := map[string]int{}
	for _, s := range wf.Steps {
		out[s.ID] = 5000
		if c, ok := s.Fields["closure_wait_timeout"]; ok {
			n := 0
			fmt.Sscanf(c.Lit, "%d", &n)
			out[s.ID] = n
		}
	}
	return out
}

func init() { register("prompt", cmdPrompt) }

// prompt: shapes for the promptness clause of C01/C03: no declared output can be produced any more while an unrelated step
// never finishes; the run must end with an error promptly.  `kind` selects why the output became impossible.
func cmdPrompt(args []string) int {
	c, _ := parseCommon("prompt", args, nil)
	w := openOut(c.out)
	defer w.close()
	r := newRng(c.seed)
	kinds := []string{"producer-error", "producer-crash", "producer-deploy-fail", "needs-crashed-of-succeeding-step",
		"needs-closed-of-succeeding-step", "needs-deploy-failed-of-succeeding-step", "wait-optional-on-crashed-of-succeeding-step",
		"waits-for-crashed-stage-of-succeeding-step", "output-expression-fails-at-run-time", "step-input-expression-fails-at-run-time",
		"container-of-a-running-step-cannot-be-removed", "needs-started-of-a-step-that-fails-to-start"}
	for i := 0; i < c.n; i++ {
		cr := r.fork()
		if i < c.skip {
			continue
		}
		w.emit(map[string]any{"kind": "begin", "index": i})
		kind := kinds[i%len(kinds)]
		wf := &AWf{Outputs: map[string]AIn{}, InputFields: []AField{{Name: "name", Type: "string", Required: true}}}
		wf.Steps = []AStep{
			{ID: "a", Kind: "plugin", PlugStep: "op", Src: "a", Fields: map[string]AIn{"input": amap("s", lit("x"))}},
			{ID: "h", Kind: "plugin", PlugStep: "op", Src: "h", Fields: map[string]AIn{"input": amap("s", lit("y")),
				"closure_wait_timeout": lit("100")}},
		}
		for k := 0; k < cr.intn(3); k++ { // unrelated bystanders that finish
			id := fmt.Sprintf("b%d", k)
			wf.Steps = append(wf.Steps, AStep{ID: id, Kind: "plugin", PlugStep: "op", Src: id, Fields: map[string]AIn{"input": amap("s", lit("z"))}})
		}
		beh := map[string]Behaviour{"h": {Outcome: "hang"}, "a": {Outcome: "success", DelayMs: cr.intn(10)}}
		out := AIn{K: "map"}
		switch kind {
		case "producer-error":
			beh["a"] = Behaviour{Outcome: "error"}
			out.put("v", expr("$.steps.a.outputs.success.s"))
		case "producer-crash":
			beh["a"] = Behaviour{Outcome: "crash"}
			out.put("v", expr("$.steps.a.outputs.success.s"))
		case "producer-deploy-fail":
			beh["a"] = Behaviour{Outcome: "success", DeployFail: true}
			out.put("v", expr("$.steps.a.outputs.success.s"))
		case "needs-crashed-of-succeeding-step":
			out.put("v", expr("$.steps.a.crashed.error"))
		case "needs-closed-of-succeeding-step":
			out.put("v", expr("$.steps.a.closed.result"))
		case "needs-deploy-failed-of-succeeding-step":
			out.put("v", expr("$.steps.a.deploy_failed.error"))
		case "container-of-a-running-step-cannot-be-removed":
			// the output is produced while step h (and a second never-ending step) is still running; when the run closes
			// them, the deployer reports an error for h's container (stopped, but not removed).  The run has its output:
			// that is what has to be returned, and the other step still has to be closed.
			wf.Steps = append(wf.Steps, AStep{ID: "g", Kind: "plugin", PlugStep: "op", Src: "g", Fields: map[string]AIn{
				"input": amap("s", lit("w")), "closure_wait_timeout": lit("100")}})
			beh["g"] = Behaviour{Outcome: "hang"}
			beh["h"] = Behaviour{Outcome: "hang", CloseFail: true}
			out.put("v", expr("$.steps.a.outputs.success.s"))
		case "needs-started-of-a-step-that-fails-to-start":
			// step a deploys and then fails in its starting stage (broken connection): it never gets started, so the step
			// that waits for a's `starting.started` can never run and the only output can never be produced
			beh["a"] = Behaviour{Outcome: "success", StartFail: true}
			wf.Steps = append(wf.Steps, AStep{ID: "c", Kind: "plugin", PlugStep: "op", Src: "c", Fields: map[string]AIn{
				"input": amap("s", lit("w")), "wait_for": expr("$.steps.a.starting.started"), "closure_wait_timeout": lit("100")}})
			beh["c"] = Behaviour{Outcome: "success"}
			out.put("v", expr("$.steps.c.outputs.success.s"))
		case "output-expression-fails-at-run-time":
			// the only output evaluates an expression that fails on the value step a produced: the run has to end with that
			// error at once, whatever the unrelated never-ending step does
			out.put("v", expr("stringToInt($.steps.a.outputs.success.s)"))
		case "step-input-expression-fails-at-run-time":
			// the same for the input of the only producer of the output
			wf.Steps = append(wf.Steps, AStep{ID: "c", Kind: "plugin", PlugStep: "op", Src: "c",
				Fields: map[string]AIn{"input": amap("i", expr("stringToInt($.steps.a.outputs.success.s)"))}})
			beh["c"] = Behaviour{Outcome: "success"}
			out.put("v", expr("$.steps.c.outputs.success.s"))
		case "waits-for-crashed-stage-of-succeeding-step":
			// the only producer of the output waits for a STAGE (not an output) that step a, which succeeds, never goes
			// through: once a has completed, that stage node is settled as impossible and so is everything behind it
			wf.Steps = append(wf.Steps, AStep{ID: "c", Kind: "plugin", PlugStep: "op", Src: "c", Fields: map[string]AIn{
				"input": amap("s", lit("w")), "wait_for": expr("$.steps.a.crashed"), "closure_wait_timeout": lit("100")}})
			beh["c"] = Behaviour{Outcome: "success"}
			out.put("v", expr("$.steps.c.outputs.success.s"))
		default:
			out.put("v", AIn{K: "optional", Wait: true, Src: "$.steps.a.crashed.error.output"})
			out.put("w", expr("$.steps.a.outputs.success.s"))
		}
		wf.OutputIDs = []string{"result"}
		wf.Outputs["result"] = out
		res := execEngineCaseTimeout(fmt.Sprintf("prompt-%d-%d", c.seed, i), wf, wf.yaml(nil, nil), beh,
			map[string]any{"name": "nm"}, engineOpts{cancelAfterMs: -1}, 4*time.Second)
		res["kind"] = "prompt"
		res["shape"] = kind
		// every shape but the wait-optional one leaves no producible output; in that one the output becomes producible (with
		// the wait-optional member absent) as soon as step a has finished, because its crashed stage cannot happen any more
		res["expect"] = "error"
		if kind == "wait-optional-on-crashed-of-succeeding-step" || kind == "container-of-a-running-step-cannot-be-removed" {
			res["expect"] = "output"
		}
		w.emit(res)
	}
	return 0
}
