//go:build verif

package main

import (
	"context"
	"flag"
	"fmt"
	"runtime"
	"sort"
	"strings"
	"sync"
	"time"

	"go.flow.arcalot.io/engine/internal/step"
)

func init() { register("c04", cmdC04) }

// ---- C04: gates of a step (enabled / stop_if / wait_for / prerequisites) ---------------------------------------------------
//
// Whole-engine runs (real run loop, real providers, scripted deployer + plugin) of workflows built around the three gates
// that decide whether the plugin code of a step may run.  On top of the plugin-side log of `engine` cases every case
// carries `elog`: what crossed the step.Provider interface, recorded by transparent proxies around the real providers
// (ProvideStageInput / Close / ForceClose calls with entry and return, every StageChangeHandler notification with entry
// and return).  The plugin-side log and elog share ONE sequence counter (Script.seq, taken under Script.mu), so that
// "the stop condition had been processed by the provider before the step announced its starting stage" is a statement
// about two sequence numbers, not about clocks; the microsecond stamps are used only to set aside pairs of events that
// are too close to be ordered reliably.
//
// Classes (flag -class, default all):
//   spell   literal values of `enabled` / `stop_if` in every spelling the bool schema reads (quoted and plain YAML
//           scalars) next to !expr ones, several guarded steps per workflow, dependants on outputs.success and on
//           disabled.output
//   order   victims that combine stop_if, enabled, wait_for and a deployment delay; the sources of the three gates finish
//           at 0 / 500 / 1000 ms and deployments take 0 / 250 / 750 ms, so that every relative order (stop before the
//           deployment finished, while waiting for `enabled`, while waiting for the input, while running, after the end)
//           is reached with gaps of >= 250 ms; families of identical victims where the outcome is a per-step coin flip
//   prereq  random workflows (genWorkflow) with literal gates, prerequisites that fail to deploy / crash / end in
//           another output / are disabled / are stopped, and wait_for on disabled.output, deploy_failed.error,
//           crashed.error, closed.result, enabling.resolved, lists and optional groups

type c04Ev struct {
	Seq   int64  `json:"seq"`
	AtUs  int64  `json:"at_us"`
	Ev    string `json:"ev"` // provide | provide-ret | close | close-ret | forceclose | forceclose-ret | notify | notify-ret
	Step  string `json:"step"`
	Stage string `json:"stage,omitempty"` // provide: stage; notify: new stage (change) / failed stage (fail)
	K     string `json:"k,omitempty"`     // notify: change | complete | fail
	Prev  string `json:"prev,omitempty"`
	Out   string `json:"out,omitempty"`
	Data  any    `json:"data,omitempty"` // provide: the stage input as the provider received it (tagged encoding)
	Err   string `json:"err,omitempty"`
	Call  int64  `json:"call,omitempty"` // *-ret: seq of the matching entry
}

type c04Rec struct {
	s  *Script
	mu sync.Mutex
	ev []c04Ev
}

func (r *c04Rec) add(e c04Ev) int64 {
	r.s.mu.Lock()
	r.s.seq++
	e.Seq = r.s.seq
	e.AtUs = time.Since(r.s.t0).Microseconds()
	r.s.mu.Unlock()
	r.mu.Lock()
	r.ev = append(r.ev, e)
	r.mu.Unlock()
	return e.Seq
}

func (r *c04Rec) snapshot() []c04Ev {
	r.mu.Lock()
	out := append([]c04Ev{}, r.ev...)
	r.mu.Unlock()
	sort.Slice(out, func(i, j int) bool { return out[i].Seq < out[j].Seq })
	return out
}

type c04Provider struct {
	step.Provider
	rec *c04Rec
}

func (p c04Provider) LoadSchema(inputs map[string]any, ctx map[string][]byte) (step.RunnableStep, error) {
	rs, err := p.Provider.LoadSchema(inputs, ctx)
	if err != nil {
		return nil, err
	}
	return &c04Runnable{RunnableStep: rs, rec: p.rec}, nil
}

type c04Runnable struct {
	step.RunnableStep
	rec *c04Rec
}

func (r *c04Runnable) Start(input map[string]any, runID string, handler step.StageChangeHandler) (step.RunningStep, error) {
	h := &c04Handler{inner: handler, rec: r.rec, id: runID}
	rs, err := r.RunnableStep.Start(input, runID, h)
	if err != nil {
		return nil, err
	}
	return &c04Running{inner: rs, rec: r.rec, id: runID}, nil
}

type c04Handler struct {
	inner step.StageChangeHandler
	rec   *c04Rec
	id    string
}

func strOr(p *string) string {
	if p == nil {
		return ""
	}
	return *p
}

func (h *c04Handler) OnStageChange(s step.RunningStep, prev *string, outID *string, out *any, stage string, avail bool, wg *sync.WaitGroup) {
	n := h.rec.add(c04Ev{Ev: "notify", K: "change", Step: h.id, Prev: strOr(prev), Out: strOr(outID), Stage: stage})
	h.inner.OnStageChange(s, prev, outID, out, stage, avail, wg)
	h.rec.add(c04Ev{Ev: "notify-ret", K: "change", Step: h.id, Stage: stage, Call: n})
}

func (h *c04Handler) OnStepComplete(s step.RunningStep, prev string, outID *string, out *any, wg *sync.WaitGroup) {
	n := h.rec.add(c04Ev{Ev: "notify", K: "complete", Step: h.id, Prev: prev, Out: strOr(outID)})
	h.inner.OnStepComplete(s, prev, outID, out, wg)
	h.rec.add(c04Ev{Ev: "notify-ret", K: "complete", Step: h.id, Prev: prev, Call: n})
}

func (h *c04Handler) OnStepStageFailure(s step.RunningStep, stage string, wg *sync.WaitGroup, err error) {
	n := h.rec.add(c04Ev{Ev: "notify", K: "fail", Step: h.id, Stage: stage})
	h.inner.OnStepStageFailure(s, stage, wg, err)
	h.rec.add(c04Ev{Ev: "notify-ret", K: "fail", Step: h.id, Stage: stage, Call: n})
}

type c04Running struct {
	inner step.RunningStep
	rec   *c04Rec
	id    string
}

func (r *c04Running) ProvideStageInput(stage string, input map[string]any) error {
	n := r.rec.add(c04Ev{Ev: "provide", Step: r.id, Stage: stage, Data: encVal(input)})
	err := r.inner.ProvideStageInput(stage, input)
	e := c04Ev{Ev: "provide-ret", Step: r.id, Stage: stage, Call: n}
	if err != nil {
		e.Err = err.Error()
	}
	r.rec.add(e)
	return err
}
func (r *c04Running) CurrentStage() string         { return r.inner.CurrentStage() }
func (r *c04Running) State() step.RunningStepState { return r.inner.State() }
func (r *c04Running) Close() error {
	n := r.rec.add(c04Ev{Ev: "close", Step: r.id})
	err := r.inner.Close()
	r.rec.add(c04Ev{Ev: "close-ret", Step: r.id, Call: n})
	return err
}
func (r *c04Running) ForceClose() error {
	n := r.rec.add(c04Ev{Ev: "forceclose", Step: r.id})
	err := r.inner.ForceClose()
	r.rec.add(c04Ev{Ev: "forceclose-ret", Step: r.id, Call: n})
	return err
}

// execC04Case: as execEngineCaseTimeout, with the recording proxies around both providers.
func execC04Case(caseID, klass string, wf *AWf, text string, files map[string][]byte, beh map[string]Behaviour, input map[string]any, limit time.Duration) map[string]any {
	s := newScript()
	for k, v := range beh {
		s.set(k, v)
	}
	currentScript.Store(s)
	rec := &c04Rec{s: s}
	base := runtime.NumGoroutine()
	reg, f, err := newRegistry(func(p step.Provider) step.Provider { return c04Provider{Provider: p, rec: rec} })
	if err != nil {
		return map[string]any{"kind": "harness-error", "id": caseID, "error": err.Error()}
	}
	out := map[string]any{"kind": "engine", "id": caseID, "klass": klass, "yaml": text, "wf": wf.json(), "input": encVal(input), "behaviours": beh}
	s.probe.Store(true)
	prepared, err := prepareYAML(reg, f, text, files)
	s.probe.Store(false)
	out["probe_balance"] = s.balance()
	if err != nil {
		out["skip"] = "prepare: " + err.Error()
		return out
	}
	ctx, cancel := context.WithCancel(context.Background())
	defer cancel()
	type res struct {
		id   string
		data any
		err  error
		pan  string
	}
	resCh := make(chan res, 1)
	// the clock of both logs starts when Execute is called
	s.mu.Lock()
	s.t0 = time.Now()
	s.mu.Unlock()
	t0 := time.Now()
	go func() {
		defer func() {
			if r := recover(); r != nil {
				resCh <- res{pan: fmt.Sprint(r)}
			}
		}()
		id, data, err := prepared.Execute(ctx, input)
		resCh <- res{id: id, data: data, err: err}
	}()
	result := loopResult{}
	select {
	case rr := <-resCh:
		result.Returned = true
		result.OutputID = rr.id
		result.Data = encVal(rr.data)
		if rr.err != nil {
			result.Err = rr.err.Error()
			result.ErrClass = classifyExecErr(rr.err)
		}
		if rr.pan != "" {
			out["panic"] = rr.pan
		}
	case <-time.After(limit):
		out["dump"] = goroutineDump()
		cancel()
		select {
		case <-resCh:
		case <-time.After(15 * time.Second):
		}
	}
	out["wall_ms"] = time.Since(t0).Milliseconds()
	out["result"] = result
	out["balance"] = s.balance()
	out["goroutine_delta"] = goroutineDelta(base)
	out["log"] = s.snapshot()
	out["elog"] = rec.snapshot()
	out["cancel_after_ms"] = -1
	return out
}

// ---- spellings of the bool schema ------------------------------------------------------------------------------------------

var c04True = []string{"true", "True", "TRUE", "yes", "Yes", "y", "on", "ON", "1", "enable", "enabled"}
var c04False = []string{"false", "False", "FALSE", "no", "No", "n", "off", "OFF", "0", "disable", "disabled"}

// c04Lit: a literal (non-expression) bool in a random spelling; plain or quoted scalar.
func c04Lit(r *rng, val bool) AIn {
	sp := c04False
	if val {
		sp = c04True
	}
	return AIn{K: "lit", Lit: sp[r.intn(len(sp))], Raw: r.chance(1, 2)}
}

func c04Step(id string, fields map[string]AIn) AStep {
	if _, ok := fields["input"]; !ok {
		fields["input"] = amap("s", lit("in-"+id))
	}
	return AStep{ID: id, Kind: "plugin", PlugStep: "op", Src: id, Fields: fields}
}

// c04Anchor: the only workflow output needs a step that finishes after everything of interest, so that the run is
// not ended (and all steps closed) by an output that becomes available early.
func c04Anchor(wf *AWf, beh map[string]Behaviour, delayMs int) {
	wf.Steps = append(wf.Steps, c04Step("zz", map[string]AIn{}))
	beh["zz"] = Behaviour{Outcome: "success", DelayMs: delayMs}
	wf.OutputIDs = []string{"done"}
	wf.Outputs = map[string]AIn{"done": amap("z", expr("$.steps.zz.outputs.success.s"))}
}

// genSpell: guarded steps whose gates are written as literals (or as expressions over the workflow input), each with a
// dependant on its success output and one on its disabled output.
func genSpell(r *rng) (*AWf, map[string]Behaviour, map[string]any) {
	wf := &AWf{Outputs: map[string]AIn{}, InputFields: []AField{{Name: "name", Type: "string", Required: true},
		{Name: "ft", Type: "bool", Required: true}, {Name: "ff", Type: "bool", Required: true}}}
	input := map[string]any{"name": "nm", "ft": true, "ff": false}
	beh := map[string]Behaviour{}
	n := 2 + r.intn(3)
	for i := 0; i < n; i++ {
		id := fmt.Sprintf("g%d", i)
		f := map[string]AIn{}
		switch r.intn(10) {
		case 0: // no enabled key
		case 1:
			f["enabled"] = expr("$.input.ft")
		case 2:
			f["enabled"] = expr("$.input.ff")
		case 3, 4, 5:
			f["enabled"] = c04Lit(r, true)
		default:
			f["enabled"] = c04Lit(r, false)
		}
		switch r.intn(10) {
		case 0:
			f["stop_if"] = c04Lit(r, true)
		case 1:
			f["stop_if"] = c04Lit(r, false)
		case 2:
			f["stop_if"] = expr("$.input.ft")
		case 3:
			f["stop_if"] = expr("$.input.ff")
		}
		st := c04Step(id, f)
		if _, stop := f["stop_if"]; !stop && r.chance(1, 4) {
			st.PlugStep = "opns"
		}
		wf.Steps = append(wf.Steps, st)
		beh[id] = Behaviour{Outcome: "success", DelayMs: r.intn(3) * 5, DeployDelayMs: r.intn(2) * 10}
		wf.Steps = append(wf.Steps, c04Step(id+"ok", map[string]AIn{"wait_for": expr(fmt.Sprintf("$.steps.%s.outputs.success", id))}))
		wf.Steps = append(wf.Steps, c04Step(id+"dis", map[string]AIn{"wait_for": expr(fmt.Sprintf("$.steps.%s.disabled.output", id))}))
		if r.chance(1, 3) {
			wf.Steps = append(wf.Steps, c04Step(id+"in", map[string]AIn{"input": amap("s", expr(fmt.Sprintf("$.steps.%s.outputs.success.s", id)))}))
		}
	}
	if r.chance(1, 3) {
		// a loop step behind the same gate (the foreach provider takes the same decision on input["enabled"])
		f := map[string]AIn{"items": {K: "list", List: []AIn{amap("s", lit("it0")), amap("s", lit("it1"))}}}
		switch r.intn(6) {
		case 0:
			f["enabled"] = expr("$.input.ff")
		case 1:
			f["enabled"] = expr("$.input.ft")
		case 2: // no enabled key
		case 3:
			f["enabled"] = c04Lit(r, true)
		default:
			f["enabled"] = c04Lit(r, false)
		}
		wf.Steps = append(wf.Steps, AStep{ID: "fe", Kind: "foreach", Src: c04ForeachSrc, Workflow: "sub_fe.yaml", Fields: f})
		wf.Steps = append(wf.Steps, c04Step("feok", map[string]AIn{"wait_for": expr("$.steps.fe.outputs.success")}))
		wf.Steps = append(wf.Steps, c04Step("fedis", map[string]AIn{"wait_for": expr("$.steps.fe.disabled.output")}))
	}
	c04Anchor(wf, beh, 150)
	return wf, beh, input
}

// c04ForeachSrc is the plugin source used by the sub-workflow of the loop step `fe` (the key of its plugin-side log entries).
const c04ForeachSrc = "fesrc"

func c04Files() map[string][]byte {
	return map[string][]byte{"sub_fe.yaml": []byte(strings.ReplaceAll(pvSubWorkflow, "feitem", c04ForeachSrc))}
}

// ---- order class ---------------------------------------------------------------------------------------------------------------

var c04SrcDelay = []int{0, 500, 1000}

// genOrder: three sources finishing at 0 / 500 / 1000 ms and families of victims whose gates hang on them.
func genOrder(r *rng) (*AWf, map[string]Behaviour, map[string]any) {
	wf := &AWf{Outputs: map[string]AIn{}, InputFields: []AField{{Name: "name", Type: "string", Required: true},
		{Name: "ft", Type: "bool", Required: true}}}
	input := map[string]any{"name": "nm", "ft": true}
	beh := map[string]Behaviour{}
	for k, d := range c04SrcDelay {
		id := fmt.Sprintf("src%d", k)
		wf.Steps = append(wf.Steps, c04Step(id, map[string]AIn{}))
		beh[id] = Behaviour{Outcome: "success", DelayMs: d}
	}
	// sources whose `b` output is false (to disable a victim late)
	for k, d := range c04SrcDelay {
		id := fmt.Sprintf("neg%d", k)
		wf.Steps = append(wf.Steps, c04Step(id, map[string]AIn{}))
		beh[id] = Behaviour{Outcome: "success", DelayMs: d, Data: map[string]any{"b": false}}
	}
	families := 3 + r.intn(3)
	v := 0
	for fam := 0; fam < families; fam++ {
		f := map[string]AIn{}
		// stop_if: most victims have one
		stopSrc := -1
		if r.chance(5, 6) {
			stopSrc = r.intn(3)
			switch r.intn(4) {
			case 3:
				// an EMPTY object is a value too: the engine-generated `started` output has no fields
				f["stop_if"] = expr(fmt.Sprintf("$.steps.src%d.starting.started", stopSrc))
			case 0:
				f["stop_if"] = expr(fmt.Sprintf("$.steps.src%d.outputs", stopSrc))
			case 1:
				f["stop_if"] = expr(fmt.Sprintf("$.steps.src%d.outputs.success.b", stopSrc))
			default:
				f["stop_if"] = expr(fmt.Sprintf("$.steps.src%d.outputs.success", stopSrc))
			}
		}
		switch c := r.intn(9); {
		case c == 0: // no enabled
		case c == 1:
			f["enabled"] = expr("$.input.ft")
		case c == 2:
			f["enabled"] = expr(fmt.Sprintf("$.steps.neg%d.outputs.success.b", r.intn(3)))
		case c <= 5 && stopSrc >= 0 && stopSrc < 2:
			// the enabled value becomes known only after the stop condition fired
			f["enabled"] = expr(fmt.Sprintf("$.steps.src%d.outputs.success.b", stopSrc+1+r.intn(2-stopSrc)))
		default:
			f["enabled"] = expr(fmt.Sprintf("$.steps.src%d.outputs.success.b", r.intn(3)))
		}
		if r.chance(1, 3) {
			f["wait_for"] = expr(fmt.Sprintf("$.steps.src%d.outputs.success", r.intn(3)))
		}
		if r.chance(1, 6) {
			f["input"] = amap("s", expr(fmt.Sprintf("$.steps.src%d.outputs.success.s", r.intn(3))))
		}
		b := Behaviour{Outcome: "success", DeployDelayMs: []int{0, 0, 250, 750}[r.intn(4)], DelayMs: []int{0, 0, 700}[r.intn(3)]}
		if r.chance(1, 8) {
			b.Outcome = "hang"
		}
		copies := []int{1, 2, 4}[r.intn(3)]
		for c := 0; c < copies; c++ {
			id := fmt.Sprintf("v%d", v)
			v++
			ff := map[string]AIn{}
			for k, x := range f {
				ff[k] = x
			}
			st := c04Step(id, ff)
			wf.Steps = append(wf.Steps, st)
			beh[id] = b
			if r.chance(1, 4) {
				wf.Steps = append(wf.Steps, c04Step(id+"ok", map[string]AIn{"wait_for": expr(fmt.Sprintf("$.steps.%s.outputs.success", id))}))
			}
		}
	}
	// one more family in every case: stopped DURING a slow deployment through the engine-wide deployer (no deploy section)
	// while everything else the step needs is already there (no enabled expression or one on the input, literal step input):
	// when the deployment ends only the stop stands between the step and its start
	{
		f := map[string]AIn{"stop_if": expr("$.steps.src0.outputs")}
		if r.chance(1, 2) {
			f["enabled"] = expr("$.input.ft")
		}
		b := Behaviour{Outcome: "success", DeployDelayMs: []int{250, 750}[r.intn(2)], DeployIgnoresCtx: true}
		for c := 0; c < 4; c++ {
			id := fmt.Sprintf("v%d", v)
			v++
			ff := map[string]AIn{}
			for k, x := range f {
				ff[k] = x
			}
			wf.Steps = append(wf.Steps, c04Step(id, ff))
			beh[id] = b
		}
	}
	c04Anchor(wf, beh, 1400)
	for i := range wf.Steps {
		// a hanging victim must not hold up the end of the run
		wf.Steps[i].Fields["closure_wait_timeout"] = lit("100")
	}
	return wf, beh, input
}

// ---- prereq class --------------------------------------------------------------------------------------------------------------

var c04PrereqOutcomes = []string{"success", "success", "success", "success", "success", "error", "alt", "crash", "deploy_fail"}

func genPrereq(r *rng, tier string) (*AWf, map[string]Behaviour, map[string]any) {
	g := genOpts{maxSteps: 4 + r.intn(5), tags: r.chance(1, 2), failOutputs: false, enabled: r.chance(2, 3), stopIf: r.chance(1, 2),
		waitFor: true}
	if tier == "thorough" {
		g.maxSteps = 3 + r.intn(10)
	}
	wf := genWorkflow(r, g)
	beh := map[string]Behaviour{}
	n := len(wf.Steps)
	stages := []string{"outputs", "outputs.success", "outputs.alt", "outputs.error", "starting.started", "enabling.resolved",
		"disabled.output", "deploy_failed.error", "crashed.error", "closed.result"}
	for i := range wf.Steps {
		s := &wf.Steps[i]
		oc := c04PrereqOutcomes[r.intn(len(c04PrereqOutcomes))]
		b := Behaviour{Outcome: oc, DelayMs: r.intn(4) * 8, DeployDelayMs: r.intn(3) * 8}
		if oc == "deploy_fail" {
			b.Outcome = "success"
			b.DeployFail = true
		}
		if r.chance(1, 3) {
			b.Data = map[string]any{"b": r.chance(1, 2)}
		}
		beh[s.Src] = b
		if i > 0 && r.chance(1, 2) {
			// wait_for on any stage output of an earlier step, alone, in a list, or next to an optional member; half of
			// the time the stage output the producer is scripted to end in (the dependant may then run), otherwise any
			j := r.intn(i)
			stage := stages[r.intn(len(stages))]
			if r.chance(1, 2) {
				pb := beh[wf.Steps[j].Src]
				switch {
				case pb.DeployFail:
					stage = "deploy_failed.error"
				case pb.Outcome == "crash":
					stage = "crashed.error"
				case pb.Outcome == "error":
					stage = "outputs.error"
				case pb.Outcome == "alt":
					stage = "outputs.alt"
				default:
					stage = []string{"outputs.success", "starting.started", "enabling.resolved"}[r.intn(3)]
				}
			}
			ref := fmt.Sprintf("$.steps.%s.%s", stepName(j), stage)
			switch r.intn(4) {
			case 0:
				k := r.intn(i)
				// (an any-typed list must be homogeneous: two string members = two prerequisites)
				s.Fields["wait_for"] = AIn{K: "list", List: []AIn{expr(fmt.Sprintf("$.steps.%s.outputs.success.s", stepName(j))),
					expr(fmt.Sprintf("$.steps.%s.outputs.success.s", stepName(k)))}}
			case 1:
				k := r.intn(i)
				s.Fields["wait_for"] = amap("a", expr(ref), "b", AIn{K: "optional", Wait: r.chance(1, 2),
					Src: fmt.Sprintf("$.steps.%s.outputs.success.s", stepName(k))})
			case 2:
				// a one-of group: the dependant may start as soon as ONE of the two options is there
				k := r.intn(i)
				one := AIn{K: "oneof", Disc: "which", Map: map[string]AIn{}}
				one.put("first", amap("v", expr(ref)))
				one.put("second", amap("v", expr(fmt.Sprintf("$.steps.%s.outputs.error.reason", stepName(k)))))
				s.Fields["wait_for"] = one
			default:
				s.Fields["wait_for"] = expr(ref)
			}
		}
		if r.chance(1, 5) {
			s.Fields["enabled"] = c04Lit(r, r.chance(1, 2))
		}
		if s.PlugStep == "op" && r.chance(1, 8) {
			s.Fields["stop_if"] = c04Lit(r, r.chance(1, 2))
		}
	}
	input := map[string]any{"name": "nm"}
	for _, fl := range wf.InputFields {
		if fl.Name == "flag" {
			input["flag"] = r.chance(1, 2)
		}
	}
	c04Anchor(wf, beh, 120+15*n)
	return wf, beh, input
}

func cmdC04(args []string) int {
	var class string
	c, _ := parseCommon("c04", args, func(fs *flag.FlagSet) {
		fs.StringVar(&class, "class", "all", "spell | order | prereq | all")
	})
	w := openOut(c.out)
	defer w.close()
	r := newRng(c.seed)
	for i := 0; i < c.n; i++ {
		cr := r.fork()
		if i < c.skip {
			continue
		}
		w.emit(map[string]any{"kind": "begin", "index": i})
		k := class
		if k == "all" {
			k = []string{"spell", "prereq", "order", "spell", "prereq"}[i%5]
		}
		var wf *AWf
		var beh map[string]Behaviour
		var input map[string]any
		limit := 25 * time.Second
		switch k {
		case "spell":
			wf, beh, input = genSpell(cr)
		case "order":
			wf, beh, input = genOrder(cr)
		default:
			wf, beh, input = genPrereq(cr, c.tier)
		}
		w.emit(execC04Case(fmt.Sprintf("c04-%s-%d-%d", k, c.seed, i), k, wf, wf.yaml(nil, nil), c04Files(), beh, input, limit))
	}
	return 0
}
