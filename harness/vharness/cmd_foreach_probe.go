//go:build verif && foreachprobe

package main

import (
	"fmt"
	"sync/atomic"

	"go.flow.arcalot.io/engine/internal/step/foreach"
)

func init() { register("foreach-probe-run", cmdForeachProbe) }

// C13 (needs the instrumented provider copy of harness/foreach_probe_overlay.py and the build tag `foreachprobe`; started
// through the launcher `vharness foreach-probe` of cmd_foreach_probe_launch.go): close a large foreach step within its first milliseconds and record, from counters INSIDE the provider,
// how many sub-workflow Executes overlapped and how many were started after the step's context had been cancelled.
func cmdForeachProbe(args []string) int {
	c, _ := parseCommon("foreach-probe-run", args, nil)
	w := openOut(c.out)
	defer w.close()
	r := newRng(c.seed)
	for i := 0; i < c.n; i++ {
		cr := r.fork()
		fc := &feCase{CloseAfter: 1 + cr.intn(2), ClosureMs: -1, ParMode: "literal", Par: 1 + cr.intn(3), DelayMode: "random"}
		fc.Items = feGenItems(cr, "k", 150+cr.intn(100), 0, 6, "random")
		atomic.StoreInt64(&foreach.ProbeMax, 0)
		atomic.StoreInt64(&foreach.ProbeStartedAfterCancel, 0)
		out := execForeachCase(fmt.Sprintf("foreach-probe-%d-%d", c.seed, i), fc)
		out["kind"] = "foreach-probe"
		out["execute_overlap_max"] = atomic.LoadInt64(&foreach.ProbeMax)
		out["execute_started_after_cancel"] = atomic.LoadInt64(&foreach.ProbeStartedAfterCancel)
		out["key"] = fmt.Sprintf("probe n=%d p=%d close=%d seed=%d/%d", len(fc.Items), fc.Par, fc.CloseAfter, c.seed, i)
		delete(out, "log")
		delete(out, "input")
		delete(out, "items")
		w.emit(out)
	}
	return 0
}
