//go:build verif

package main

// `vharness inputseq`: sequences of runs on ONE prepared workflow whose inputs are valid, invalid (in every way the
// `input` stream knows for the generated schema) or cancelled, one after another and overlapping (C19, C14, C17).
//
// The single-run stream `input` gives every document a fresh prepared workflow.  What a refused, a cancelled or a
// differently shaped earlier input leaves behind in the prepared workflow (a lock that is still held, a lazily filled
// cache of the shared input schema, ...) is only visible to a LATER or an OVERLAPPING run of the same prepared workflow.
// One case:
//
//   schema    as in `input` (incl. the root without properties and the all-optional root), optionally with an optional
//             nested object (inline or through a reference) whose own properties may be left out;
//   documents `min`  (valid, everything that may be left out is left out),
//             `objs` (valid, every nested object is given, inside them everything that may be left out is left out),
//             random valid documents, and ONE INVALID DOCUMENT PER VIOLATION KIND the schema admits;
//   oracles   per document, independent of the prepared workflow under test: the generator's verdict, the verdict of the
//             real pluginsdk schema on a FRESH copy of the schema (input scope of a fresh Prepare), and an ISOLATED FIRST
//             RUN (fresh registry, fresh Prepare, one Execute);
//   runs      phase A: `min`, then a few invalid / cancelled runs;  phase B: 3-6 runs released together, at least two of
//             them with `objs`;  phase C: a longer mix (every invalid document not used yet, valid and cancelled runs in
//             between);  phase D: an overlapping mix;  phase E: two final valid runs.
//
// Every run has a watchdog.  A run that does not return ends the case (`hung`, with the goroutine dump); the hung
// goroutine cannot be recovered, so the stream runs every case in a child process (`-child self`, or the race-detector
// build, whose reports are attached to the case) and stops after two hung cases.
//
// Output: one line {"kind":"inputseq",...} per case (documents with their oracles, all runs) and, for every SEQUENTIAL run
// that was not cancelled, one line of kind "input" in the format of the `input` stream, so that `arcadrv input` (the
// Lean model of the schema and of Execute's prologue) and the single-run monitor judge these runs too.

import (
	"bytes"
	"context"
	"encoding/json"
	"flag"
	"fmt"
	"os"
	"os/exec"
	"sort"
	"strings"
	"sync"
	"time"
)

func init() { register("inputseq", cmdInputSeq) }

const (
	seqWatchdog     = 12 * time.Second // runs of these workflows take milliseconds (no scripted delays)
	seqMaxHungCases = 2
)

type seqResult struct {
	Returned bool   `json:"returned"`
	OutputID string `json:"output_id"`
	Data     any    `json:"data"`
	Err      string `json:"err"`
	ErrClass string `json:"err_class"`
	Panic    string `json:"panic,omitempty"`
	WallMs   int64  `json:"wall_ms"`
}

type seqDoc struct {
	Index         int            `json:"index"`
	Role          string         `json:"role"` // min | objs | random | invalid
	Doc           any            `json:"doc"`  // tagged encoding
	ExpectValid   bool           `json:"expect_valid"`
	ViolationKind string         `json:"violation_kind"`
	ViolationPath string         `json:"violation_path"`
	Spelling      []string       `json:"spelling"`
	SDK           map[string]any `json:"sdk"`   // verdict of the real schema on a fresh copy
	Fresh         *seqResult     `json:"fresh"` // the isolated first run
	FreshDeploys  int            `json:"fresh_deploys"`
	raw           any
}

type seqRun struct {
	N               int       `json:"n"`
	Phase           string    `json:"phase"` // A | B-overlap | C | D-overlap | E
	Overlap         bool      `json:"overlap"`
	Doc             int       `json:"doc"`
	CancelAfterMs   int       `json:"cancel_after_ms"`
	Result          seqResult `json:"result"`
	Hung            bool      `json:"hung"`
	DeploysAtReturn int       `json:"deploys_at_return"` // sequential runs: deployments between start and return
	DeploysSettled  int       `json:"deploys_settled"`   // ... and after the dust settled (phase total for overlapping runs)
	seen            []any
}

type seqExec interface {
	Execute(ctx context.Context, input any) (string, any, error)
}

// seqExecute runs one Execute under the watchdog; hung = it did not return.
func seqExecute(p seqExec, doc any, cancelAfterMs int) (seqResult, bool) {
	ctx, cancel := context.WithCancel(context.Background())
	defer cancel()
	ch := make(chan seqResult, 1)
	t0 := time.Now()
	go func() {
		defer func() {
			if rec := recover(); rec != nil {
				ch <- seqResult{Returned: true, Panic: fmt.Sprint(rec)}
			}
		}()
		id, data, err := p.Execute(ctx, inputDeepCopy(doc))
		r := seqResult{Returned: true, OutputID: id, Data: encVal(data)}
		if err != nil {
			r.Err = err.Error()
			if len(r.Err) > 300 {
				r.Err = r.Err[:300]
			}
			r.ErrClass = classifyExecErr(err)
		}
		ch <- r
	}()
	if cancelAfterMs >= 0 {
		t := time.AfterFunc(time.Duration(cancelAfterMs)*time.Millisecond, cancel)
		defer t.Stop()
	}
	select {
	case r := <-ch:
		r.WallMs = time.Since(t0).Milliseconds()
		return r, false
	case <-time.After(seqWatchdog):
		return seqResult{WallMs: time.Since(t0).Milliseconds()}, true
	}
}

// seqSettle waits until every deployment of the script has been closed again (at most 2 s).
func seqSettle(s *Script) {
	deadline := time.Now().Add(2 * time.Second)
	for s.balance() != 0 && time.Now().Before(deadline) {
		time.Sleep(time.Millisecond)
	}
}

func seqSeen(log []LogEntry) []any {
	seen := []any{}
	for _, e := range log {
		if e.Ev == "exec-start" {
			seen = append(seen, map[string]any{"src": e.Src, "data": e.Data})
		}
	}
	sort.SliceStable(seen, func(i, j int) bool { return seen[i].(map[string]any)["src"].(string) < seen[j].(map[string]any)["src"].(string) })
	return seen
}

// seqNestedProp: an optional object (no default) whose own properties may be left out, inline or through a reference.
func seqNestedProp(g *inputGen, name string) IProp {
	r := g.r
	g.objSeq++
	t := &ITy{T: "obj", ID: fmt.Sprintf("Obj%d", g.objSeq)}
	n := 1 + r.intn(3)
	for i := 0; i < n; i++ {
		pt := g.scalar()
		p := IProp{Name: fmt.Sprintf("%s%d", inputPropPrefix[pt.T], i), Ty: pt}
		switch r.intn(4) {
		case 0:
			p.Req = true
		case 1:
			p.HasDefault = true
			p.Default = g.typed(pt)
		}
		t.Props = append(t.Props, p)
	}
	if r.chance(1, 3) {
		// one more level: an optional object inside the optional object
		t.Props = append(t.Props, seqNestedProp(g, fmt.Sprintf("obj%d", n)))
	}
	return IProp{Name: name, Ty: t, ViaRef: r.chance(1, 2)}
}

// seqInvalidDocs: one invalid document per violation kind the schema admits (kind = type of the site + fault).
func seqInvalidDocs(g *inputGen, root *ITy, badName string, limit int) []*seqDoc {
	r := g.r
	out := []*seqDoc{}
	covered := map[string]bool{}
	for attempt := 0; attempt < 5 && len(out) < limit; attempt++ {
		mode := r.pick([]string{"typed", "strings", "mixed"})
		d := &inputDocGen{g: g, mode: mode, spelling: map[string]bool{"mode:" + mode: true}}
		base := d.doc(root, nil)
		type cand struct {
			site inputDocSite
			v    inputViolation
		}
		byKind := map[string][]cand{}
		kinds := []string{}
		for _, s := range d.sites {
			for _, v := range d.violationsAt(s) {
				k := s.ty.T + ":" + v.kind
				if covered[k] {
					continue
				}
				if _, ok := byKind[k]; !ok {
					kinds = append(kinds, k)
				}
				byKind[k] = append(byKind[k], cand{s, v})
			}
		}
		sort.Strings(kinds)
		shuffled := make([]string, len(kinds)) // which kinds make it under the limit differs from case to case
		for i, j := range r.perm(len(kinds)) {
			shuffled[i] = kinds[j]
		}
		for _, k := range shuffled {
			if len(out) >= limit {
				break
			}
			c := byKind[k][r.intn(len(byKind[k]))]
			doc := inputReplaceAt(inputDeepCopy(base), c.site.path, c.v.apply)
			covered[k] = true
			out = append(out, &seqDoc{Role: "invalid", raw: doc, ExpectValid: false, ViolationKind: k,
				ViolationPath: inputPathString(c.site.path), Spelling: sortedKeys(d.spelling)})
		}
	}
	if badName != "" {
		// the default of `badName` violates its own type: a document that leaves the field out is invalid
		d := &inputDocGen{g: g, mode: "typed", spelling: map[string]bool{"mode:typed": true}}
		if m, ok := d.doc(root, nil).(map[string]any); ok {
			delete(m, badName)
			out = append(out, &seqDoc{Role: "invalid", raw: m, ExpectValid: false, ViolationKind: "default-violates-type",
				ViolationPath: "$." + badName, Spelling: sortedKeys(d.spelling)})
		}
	}
	return out
}

func seqValidDoc(g *inputGen, root *ITy, badName, role string) *seqDoc {
	mode := "typed"
	if role == "random" {
		mode = g.r.pick([]string{"typed", "strings", "mixed", "mixed"})
	}
	d := &inputDocGen{g: g, mode: mode, spelling: map[string]bool{"mode:" + mode: true}}
	if role != "random" {
		d.omit = role
	}
	doc := d.doc(root, nil)
	sd := &seqDoc{Role: role, raw: doc, ExpectValid: true, Spelling: sortedKeys(d.spelling)}
	if badName != "" {
		if m, ok := doc.(map[string]any); ok {
			if _, present := m[badName]; !present {
				sd.ExpectValid = false
				sd.ViolationKind = "default-violates-type"
				sd.ViolationPath = "$." + badName
			}
		}
	}
	return sd
}

func runInputSeqCase(r *rng, caseID string, tier string) []map[string]any {
	g := &inputGen{r: r}
	root, badName := genInputRoot(r, g)
	if len(root.Props) > 0 && r.chance(2, 3) {
		root.Props = append(root.Props, seqNestedProp(g, "nest"))
		if r.chance(1, 3) {
			root.Props = append(root.Props, seqNestedProp(g, "nest2"))
		}
	}
	steps := genInputSteps(r, root)
	text := inputWorkflowYAML(root, steps)
	shapes := map[string]bool{}
	root.shapes(0, shapes)
	stepsJ := []any{}
	for _, s := range steps {
		stepsJ = append(stepsJ, map[string]any{"id": s.ID, "refs": s.Refs, "whole": s.Whole})
	}

	// ---- documents
	docs := []*seqDoc{seqValidDoc(g, root, badName, "min"), seqValidDoc(g, root, badName, "objs")}
	for k := 1 + r.intn(2); k > 0; k-- {
		docs = append(docs, seqValidDoc(g, root, badName, "random"))
	}
	limit := 12
	if tier == "thorough" {
		limit = 20
	}
	docs = append(docs, seqInvalidDocs(g, root, badName, limit)...)
	for i, d := range docs {
		d.Index = i
		d.Doc = encVal(d.raw)
	}
	out := map[string]any{"kind": "inputseq", "id": caseID, "yaml": text, "ty": root.json(), "steps": stepsJ,
		"shape": sortedKeys(shapes), "watchdog_ms": seqWatchdog.Milliseconds()}
	if kb, err := json.Marshal(docs); err == nil {
		out["key"] = string(kb)
	}

	s := newScript()
	currentScript.Store(s)

	// ---- oracles: the real schema on a fresh copy, and an isolated first run, per document
	for _, d := range docs {
		s.probe.Store(true)
		d.SDK = inputSDKOracle(text, d.raw)
		reg, f, err := newRegistry(nil)
		var fresh seqExec
		if err == nil {
			gr := guarded(20*time.Second, func() {
				if p, e := prepareYAML(reg, f, text, nil); e == nil {
					fresh = p
				} else {
					err = e
				}
			})
			if gr.Panic != "" || gr.Timeout {
				err = fmt.Errorf("prepare panicked or timed out: %s", gr.Panic)
			}
		}
		s.probe.Store(false)
		if err != nil || fresh == nil {
			out["skip"] = fmt.Sprint("prepare: ", err)
			out["docs"] = docs
			return []map[string]any{out}
		}
		seqSettle(s)
		start := len(s.snapshot())
		res, hung := seqExecute(fresh, d.raw, -1)
		if hung {
			// not a statement about re-running: the very first run of a fresh prepared workflow does not return
			out["docs"] = docs
			out["hung"] = true
			out["hung_run"] = map[string]any{"phase": "isolated-first-run", "doc": d.Index}
			out["dump"] = goroutineDump()
			return []map[string]any{out}
		}
		seqSettle(s)
		d.Fresh = &res
		d.FreshDeploys = inputCountDeploys(s.snapshot()[start:])
	}
	out["docs"] = docs

	// ---- the prepared workflow under test
	reg, f, err := newRegistry(nil)
	if err != nil {
		return []map[string]any{{"kind": "harness-error", "id": caseID, "error": err.Error()}}
	}
	s.probe.Store(true)
	var prepared seqExec
	var prepErr error
	gr := guarded(20*time.Second, func() {
		p, e := prepareYAML(reg, f, text, nil)
		prepErr = e
		if e == nil {
			prepared = p
		}
	})
	s.probe.Store(false)
	if gr.Panic != "" || gr.Timeout || prepErr != nil || prepared == nil {
		out["skip"] = fmt.Sprint("prepare: ", prepErr, gr.Panic)
		return []map[string]any{out}
	}
	seqSettle(s)

	validIdx, invalidIdx := []int{}, []int{}
	for _, d := range docs {
		if d.Role == "invalid" {
			invalidIdx = append(invalidIdx, d.Index)
		} else if d.Role == "random" {
			validIdx = append(validIdx, d.Index)
		}
	}
	nextInvalid := 0
	pickInvalid := func() int {
		if len(invalidIdx) == 0 {
			return 0
		}
		if nextInvalid < len(invalidIdx) {
			nextInvalid++
			return invalidIdx[nextInvalid-1]
		}
		return invalidIdx[r.intn(len(invalidIdx))]
	}
	pickValid := func() int {
		if r.chance(1, 4) {
			return r.intn(2) // min / objs
		}
		return validIdx[r.intn(len(validIdx))]
	}
	cancelMs := func() int { return []int{0, 0, 1, 2, 5}[r.intn(5)] }

	runs := []*seqRun{}
	lines := []map[string]any{}
	hung := false
	sequential := func(phase string, doc, cancelAfter int) {
		if hung {
			return
		}
		run := &seqRun{N: len(runs), Phase: phase, Doc: doc, CancelAfterMs: cancelAfter}
		seqSettle(s)
		start := len(s.snapshot())
		run.Result, run.Hung = seqExecute(prepared, docs[doc].raw, cancelAfter)
		runs = append(runs, run)
		if run.Hung {
			hung = true
			out["hung"] = true
			out["hung_run"] = run
			out["dump"] = goroutineDump()
			return
		}
		run.DeploysAtReturn = inputCountDeploys(s.snapshot()[start:])
		seqSettle(s)
		log := s.snapshot()[start:]
		run.DeploysSettled = inputCountDeploys(log)
		run.seen = seqSeen(log)
		if cancelAfter < 0 {
			d := docs[doc]
			before := []string{}
			for _, p := range runs[:len(runs)-1] {
				before = append(before, fmt.Sprintf("%s:%s%s", p.Phase, docs[p.Doc].Role, map[bool]string{true: ":cancelled", false: ""}[p.CancelAfterMs >= 0]))
			}
			line := map[string]any{"kind": "input", "id": fmt.Sprintf("%s-r%d", caseID, run.N), "yaml": text, "ty": out["ty"], "doc": d.Doc,
				"via_yaml": false, "expect_valid": d.ExpectValid, "violation_kind": d.ViolationKind, "violation_path": d.ViolationPath,
				"spelling": d.Spelling, "shape": out["shape"], "steps": stepsJ, "sdk": d.SDK,
				"result": loopResult{OutputID: run.Result.OutputID, Data: run.Result.Data, Err: run.Result.Err, ErrClass: run.Result.ErrClass, Returned: true},
				"deploys_at_return": run.DeploysAtReturn, "deploys_settled": run.DeploysSettled, "seen": run.seen,
				"in_sequence": map[string]any{"case": caseID, "run": run.N, "phase": phase, "earlier_runs": before},
				"replay_harness": []string{"inputseq", "-n", caseIndex(caseID, 1), "-skip", caseIndex(caseID, 0), "-seed", strings.Split(caseID, "-")[1], "-child", "self"}}
			if run.Result.Panic != "" {
				line["panic"] = run.Result.Panic
			}
			if kb, err := json.Marshal([]any{d.Doc, run.N}); err == nil {
				line["key"] = string(kb)
			}
			lines = append(lines, line)
		}
	}
	overlap := func(phase string, plan [][2]int) { // (doc, cancelAfterMs)
		if hung {
			return
		}
		seqSettle(s)
		start := len(s.snapshot())
		rs := make([]*seqRun, len(plan))
		var wg sync.WaitGroup
		gate := make(chan struct{})
		for i, p := range plan {
			rs[i] = &seqRun{Phase: phase, Overlap: true, Doc: p[0], CancelAfterMs: p[1], DeploysAtReturn: -1}
			wg.Add(1)
			go func(i int) {
				defer wg.Done()
				<-gate
				rs[i].Result, rs[i].Hung = seqExecute(prepared, docs[rs[i].Doc].raw, rs[i].CancelAfterMs)
			}(i)
		}
		close(gate)
		wg.Wait()
		for _, run := range rs {
			if run.Hung {
				hung = true
			}
		}
		if !hung {
			seqSettle(s)
		}
		total := inputCountDeploys(s.snapshot()[start:])
		for _, run := range rs {
			run.N = len(runs)
			run.DeploysSettled = total
			runs = append(runs, run)
			if run.Hung && out["hung_run"] == nil {
				out["hung"] = true
				out["hung_run"] = run
			}
		}
		if hung {
			out["dump"] = goroutineDump()
		}
	}

	// phase A: the first run (everything optional left out), then a few refused / cancelled runs
	sequential("A", 0, -1)
	for k := r.intn(3); k > 0; k-- {
		if r.chance(2, 3) {
			sequential("A", pickInvalid(), -1)
		} else {
			sequential("A", 0, cancelMs())
		}
	}
	// phase B: overlapping runs, at least two with the nested objects given for the first time
	{
		plan := [][2]int{{1, -1}, {1, -1}}
		for k := 1 + r.intn(4); k > 0; k-- {
			switch r.intn(4) {
			case 0:
				plan = append(plan, [2]int{pickInvalid(), -1})
			case 1:
				plan = append(plan, [2]int{pickValid(), cancelMs()})
			case 2:
				plan = append(plan, [2]int{1, -1})
			default:
				plan = append(plan, [2]int{pickValid(), -1})
			}
		}
		overlap("B-overlap", plan)
	}
	// phase C: every invalid document not used yet, valid and cancelled runs in between
	sequential("C", pickValid(), -1)
	for nextInvalid < len(invalidIdx) && !hung {
		sequential("C", pickInvalid(), -1)
		switch r.intn(4) {
		case 0:
			sequential("C", pickValid(), -1)
		case 1:
			sequential("C", pickValid(), cancelMs())
		case 2:
			sequential("C", pickInvalid(), cancelMs())
		}
	}
	sequential("C", pickValid(), -1)
	// phase D: an overlapping mix of refused, valid and cancelled runs
	{
		plan := [][2]int{}
		for k := 3 + r.intn(4); k > 0; k-- {
			switch r.intn(5) {
			case 0, 1:
				plan = append(plan, [2]int{pickInvalid(), -1})
			case 2:
				plan = append(plan, [2]int{pickValid(), cancelMs()})
			default:
				plan = append(plan, [2]int{pickValid(), -1})
			}
		}
		overlap("D-overlap", plan)
	}
	// phase E: the prepared workflow still works
	sequential("E", pickValid(), -1)
	sequential("E", 0, -1)

	out["runs"] = runs
	out["n_runs"] = len(runs)
	return append([]map[string]any{out}, lines...)
}

// caseIndex: "inputseq-<seed>-<i>" -> i (+add), as text
func caseIndex(caseID string, add int) string {
	parts := strings.Split(caseID, "-")
	n := 0
	_, _ = fmt.Sscanf(parts[len(parts)-1], "%d", &n)
	return fmt.Sprint(n + add)
}

// ---- child-process mode ----------------------------------------------------------------------------------------------------

func inputSeqChildCase(bin string, c *common, i int) ([]map[string]any, bool) {
	id := fmt.Sprintf("inputseq-%d-%d", c.seed, i)
	cmd := exec.Command(bin, "inputseq", "-n", fmt.Sprint(i+1), "-skip", fmt.Sprint(i), "-seed", fmt.Sprint(c.seed), "-tier", c.tier, "-out", "-")
	env := []string{}
	for _, e := range os.Environ() {
		if !strings.HasPrefix(e, "GORACE=") {
			env = append(env, e)
		}
	}
	cmd.Env = append(env, "GORACE=halt_on_error=0 history_size=7")
	var so, se bytes.Buffer
	cmd.Stdout, cmd.Stderr = &so, &se
	done := make(chan error, 1)
	if err := cmd.Start(); err != nil {
		return []map[string]any{{"kind": "harness-error", "id": id, "error": err.Error()}}, false
	}
	go func() { done <- cmd.Wait() }()
	var werr error
	select {
	case werr = <-done:
	case <-time.After(5 * time.Minute):
		_ = cmd.Process.Kill()
		werr = fmt.Errorf("child timed out")
		<-done
	}
	var main map[string]any
	lines := []map[string]any{}
	for _, line := range strings.Split(so.String(), "\n") {
		var m map[string]any
		if json.Unmarshal([]byte(line), &m) != nil {
			continue
		}
		switch m["kind"] {
		case "inputseq":
			main = m
		case "input", "harness-error":
			lines = append(lines, m)
		}
	}
	stderr := se.String()
	if main == nil {
		main = map[string]any{"kind": "inputseq", "id": id, "crash": rerunCrashSummary(stderr)}
	}
	main["child"] = bin
	if werr != nil && !strings.Contains(werr.Error(), "exit status 66") { // 66 = the race detector reported something
		main["child_exit"] = werr.Error()
	}
	if strings.Contains(stderr, "WARNING: DATA RACE") {
		reps := parseRaceReports(stderr)
		if len(reps) > 12 {
			reps = reps[:12]
		}
		main["race_reports"] = reps
	}
	hung, _ := main["hung"].(bool)
	return append([]map[string]any{main}, lines...), hung
}

func cmdInputSeq(args []string) int {
	var child string
	c, _ := parseCommon("inputseq", args, func(fs *flag.FlagSet) {
		fs.StringVar(&child, "child", "", "run every case in a child process of this harness binary (`self`, or e.g. the -race build); "+
			"race reports and crashes of the child are attached to the case")
	})
	if child == "self" {
		if exe, err := os.Executable(); err == nil {
			child = exe
		}
	}
	w := openOut(c.out)
	defer w.close()
	r := newRng(c.seed)
	hungCases := 0
	for i := 0; i < c.n; i++ {
		cr := r.fork()
		if i < c.skip {
			continue
		}
		id := fmt.Sprintf("inputseq-%d-%d", c.seed, i)
		w.emit(map[string]any{"kind": "begin", "index": i})
		if hungCases >= seqMaxHungCases {
			w.emit(map[string]any{"kind": "inputseq", "id": id, "skip": fmt.Sprintf("not run: %d earlier cases of this stream already ended in a run that never returned", hungCases)})
			continue
		}
		if child != "" {
			lines, hung := inputSeqChildCase(child, c, i)
			for _, l := range lines {
				w.emit(l)
			}
			if hung {
				hungCases++
			}
			continue
		}
		lines := runInputSeqCase(cr, id, c.tier)
		hung := false
		for _, l := range lines {
			w.emit(l)
			if h, _ := l["hung"].(bool); h {
				hung = true
			}
		}
		if hung {
			// the goroutine of the hung run cannot be recovered: this process is done
			w.close()
			os.Exit(0)
		}
	}
	return 0
}
