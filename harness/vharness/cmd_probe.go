//go:build verif

package main

import (
	"fmt"
	"runtime"
	"time"
)

func init() { register("probe", cmdProbe) }

// probe: failure modes of the schema probe made while a workflow is prepared (C05: the temporary deployment must be
// closed on every path). One case per failure mode and step count.
func cmdProbe(args []string) int {
	c, _ := parseCommon("probe", args, nil)
	w := openOut(c.out)
	defer w.close()
	r := newRng(c.seed)
	modes := []string{"ok", "deploy_fail", "close_fail"}
	for i := 0; i < c.n; i++ {
		cr := r.fork()
		if i < c.skip {
			continue
		}
		w.emit(map[string]any{"kind": "begin", "index": i})
		mode := modes[i%len(modes)]
		wf := genWorkflow(cr, genOpts{maxSteps: 1 + cr.intn(3)})
		victim := wf.Steps[cr.intn(len(wf.Steps))].Src
		s := newScript()
		switch mode {
		case "close_fail":
			s.set(victim, Behaviour{Outcome: "success", ProbeCloseFail: true})
		case "deploy_fail":
			for k := range wf.Steps {
				if wf.Steps[k].Src == victim {
					wf.Steps[k].Src = "probefail-" + victim
				} else {
					// the other steps' temporary deployments take a while: whatever order (or overlap) the schemas are read
					// in, none of them may be in progress, open, or still to come once Prepare has returned
					s.set(wf.Steps[k].Src, Behaviour{Outcome: "success", ProbeDelayMs: 25 + cr.intn(30)})
				}
			}
		}
		currentScript.Store(s)
		base := runtime.NumGoroutine()
		text := wf.yaml(nil, nil)
		reg, f, err := newRegistry(nil)
		if err != nil {
			w.emit(map[string]any{"kind": "harness-error", "id": fmt.Sprint(i), "error": err.Error()})
			continue
		}
		s.probe.Store(true)
		t0 := time.Now()
		var perr error
		g := guarded(15*time.Second, func() { _, perr = prepareYAML(reg, f, text, nil) })
		s.mu.Lock()
		marker := s.seq
		s.mu.Unlock()
		balanceAtReturn := s.balance()
		late := 0
		if mode == "deploy_fail" && len(wf.Steps) > 1 {
			time.Sleep(150 * time.Millisecond)
			for _, e := range s.snapshot() {
				if e.Seq > marker {
					late++
				}
			}
		}
		s.probe.Store(false)
		out := map[string]any{"kind": "probe", "late_events": late, "balance_at_return": balanceAtReturn, "id": fmt.Sprintf("probe-%d-%d", c.seed, i), "mode": mode, "yaml": text,
			"victim": victim, "prepared": perr == nil && g.Panic == "" && !g.Timeout, "panic": g.Panic, "timeout": g.Timeout,
			"wall_ms": time.Since(t0).Milliseconds(), "probe_balance": s.balance(), "goroutine_delta": goroutineDelta(base),
			"log": s.snapshot()}
		if perr != nil {
			out["err"] = perr.Error()
		}
		w.emit(out)
	}
	return 0
}
