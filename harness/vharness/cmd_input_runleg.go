//go:build verif

package main

import (
	"context"
	"encoding/json"
	"sort"
	"strconv"
	"strings"
	"time"

	"go.flow.arcalot.io/engine/loadfile"
)

// ---- C19, the front-end leg: the input document as an input FILE ---------------------------------------------------------
//
// The engine API (`Workflow.Run`) takes the input as YAML text and reads every scalar as its text; the schema then turns
// the text into the declared type.  This leg writes the case's document as YAML with PLAIN (unquoted) scalars wherever the
// text allows it - `007`, `1e1`, `true`, `2024-01-01`, `~` are the spellings a user types - and runs it through
// `WorkflowEngine.Parse` + `Workflow.Run`; the same document with every scalar as a string goes through `Prepare` +
// `Execute` (the path the rest of the C19 oracle judges).  Outcome, number of deployments and what every plugin received
// have to be the same on both paths.

// inputAllText: the document with every scalar replaced by its text (what the all-text reader delivers).
func inputAllText(v any) (any, bool) {
	switch t := v.(type) {
	case string:
		return t, true
	case int:
		return strconv.Itoa(t), true
	case int64:
		return strconv.FormatInt(t, 10), true
	case float64:
		return strconv.FormatFloat(t, 'g', -1, 64), true
	case bool:
		return strconv.FormatBool(t), true
	case []any:
		out := make([]any, len(t))
		for i, x := range t {
			y, ok := inputAllText(x)
			if !ok {
				return nil, false
			}
			out[i] = y
		}
		return out, true
	case map[string]any:
		out := make(map[string]any, len(t))
		for k, x := range t {
			y, ok := inputAllText(x)
			if !ok {
				return nil, false
			}
			out[k] = y
		}
		return out, true
	}
	return nil, false
}

func inputPlainSafe(s string) bool {
	if s == "" || s[0] == '-' {
		return false
	}
	for i := 0; i < len(s); i++ {
		c := s[i]
		switch {
		case c >= 'a' && c <= 'z', c >= 'A' && c <= 'Z', c >= '0' && c <= '9', c == '_', c == '.', c == '+', c == '-', c == '~':
		default:
			return false
		}
	}
	return true
}

// inputFlowYAML renders an all-text document in YAML flow style, scalars plain where that is safe.
func inputFlowYAML(v any, b *strings.Builder) {
	switch t := v.(type) {
	case string:
		if inputPlainSafe(t) {
			b.WriteString(t)
		} else {
			q, _ := json.Marshal(t)
			b.Write(q)
		}
	case []any:
		b.WriteString("[")
		for i, x := range t {
			if i > 0 {
				b.WriteString(", ")
			}
			inputFlowYAML(x, b)
		}
		b.WriteString("]")
	case map[string]any:
		b.WriteString("{")
		for i, k := range sortedKeys(t) {
			if i > 0 {
				b.WriteString(", ")
			}
			q, _ := json.Marshal(k)
			b.Write(q)
			b.WriteString(": ")
			inputFlowYAML(t[k], b)
		}
		b.WriteString("}")
	}
}

var inputLookalikes = []string{"007", "1.10", "0x1F", "true", "1e1", "0o17", "+5", "1_000", "no", "~", "null", ".5",
	"2024-01-01", "1e400", ".inf", "0b11", "False", "12"}

func inputStringPaths(v any, path []any, out *[][]any) {
	switch t := v.(type) {
	case string:
		*out = append(*out, append([]any(nil), path...))
	case []any:
		for i, x := range t {
			inputStringPaths(x, inputPathPlus(path, i), out)
		}
	case map[string]any:
		for _, k := range sortedKeys(t) {
			inputStringPaths(t[k], inputPathPlus(path, k), out)
		}
	}
}

type inputLegObs struct {
	Result  loopResult `json:"result"`
	Flag    *bool      `json:"error_flag,omitempty"`
	Stage   string     `json:"stage,omitempty"`
	Deploys int        `json:"deploys"`
	Seen    []any      `json:"seen"`
	Panic   string     `json:"panic,omitempty"`
	Timeout bool       `json:"timeout,omitempty"`
}

func inputSeen(log []LogEntry) []any {
	seen := []any{}
	for _, e := range log {
		if e.Ev == "exec-start" {
			seen = append(seen, map[string]any{"src": e.Src, "data": e.Data})
		}
	}
	sort.Slice(seen, func(i, j int) bool {
		a, _ := json.Marshal(seen[i])
		b, _ := json.Marshal(seen[j])
		return string(a) < string(b)
	})
	return seen
}

func inputRunLeg(r *rng, text string, doc any) map[string]any {
	all, ok := inputAllText(inputDeepCopy(doc))
	if !ok {
		return nil
	}
	out := map[string]any{}
	if r.chance(1, 2) {
		var paths [][]any
		inputStringPaths(all, nil, &paths)
		if len(paths) > 0 {
			p := paths[r.intn(len(paths))]
			val := r.pick(inputLookalikes)
			if len(p) == 0 {
				all = val
			} else {
				all = inputReplaceAt(all, p, func(any) any { return val })
			}
			out["lookalike"] = map[string]any{"path": inputPathString(p), "value": val}
		}
	}
	var b strings.Builder
	inputFlowYAML(all, &b)
	b.WriteString("\n")
	out["input_yaml"] = b.String()
	out["doc"] = encVal(all)

	// path B: Prepare + Execute with the all-text document
	exec := inputLegObs{}
	{
		s := newScript()
		currentScript.Store(s)
		g := guarded(30*time.Second, func() {
			reg, f, err := newRegistry(nil)
			if err != nil {
				exec.Stage, exec.Result.Err = "registry", err.Error()
				return
			}
			s.probe.Store(true)
			prepared, err := prepareYAML(reg, f, text, nil)
			s.probe.Store(false)
			if err != nil {
				exec.Stage, exec.Result.Err = "prepare", err.Error()
				return
			}
			ctx, cancel := context.WithTimeout(context.Background(), 25*time.Second)
			defer cancel()
			id, data, err := prepared.Execute(ctx, inputDeepCopy(all))
			exec.Stage = "run"
			exec.Result.Returned = true
			exec.Result.OutputID = id
			exec.Result.Data = encVal(data)
			if err != nil {
				exec.Result.Err = err.Error()
				exec.Result.ErrClass = classifyExecErr(err)
			}
		})
		exec.Panic, exec.Timeout = g.Panic, g.Timeout
		time.Sleep(20 * time.Millisecond)
		log := s.snapshot()
		exec.Deploys, exec.Seen = inputCountDeploys(log), inputSeen(log)
	}
	out["exec"] = exec

	// path A: the engine API with the document as YAML text
	run := inputLegObs{}
	{
		s := newScript()
		currentScript.Store(s)
		g := guarded(30*time.Second, func() {
			eng, err := installQuietScriptedEngine()
			if err != nil {
				run.Stage, run.Result.Err = "engine", err.Error()
				return
			}
			s.probe.Store(true)
			wf, err := eng.Parse(loadfile.NewFileCache(".", map[string][]byte{"workflow.yaml": []byte(text)}), "workflow.yaml")
			s.probe.Store(false)
			if err != nil {
				run.Stage, run.Result.Err = "prepare", err.Error()
				return
			}
			ctx, cancel := context.WithTimeout(context.Background(), 25*time.Second)
			defer cancel()
			id, data, flag, err := wf.Run(ctx, []byte(b.String()))
			run.Stage = "run"
			run.Flag = &flag
			run.Result.Returned = true
			run.Result.OutputID = id
			run.Result.Data = encVal(data)
			if err != nil {
				run.Result.Err = err.Error()
				run.Result.ErrClass = classifyExecErr(err)
			}
		})
		run.Panic, run.Timeout = g.Panic, g.Timeout
		time.Sleep(20 * time.Millisecond)
		log := s.snapshot()
		run.Deploys, run.Seen = inputCountDeploys(log), inputSeen(log)
	}
	out["run"] = run
	return out
}
