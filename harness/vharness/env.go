//go:build verif

package main

import (
	"context"
	"fmt"
	"runtime/debug"
	"strings"
	"time"

	log "go.arcalot.io/log/v2"
	"go.flow.arcalot.io/deployer"
	deployerregistry "go.flow.arcalot.io/deployer/registry"
	engine "go.flow.arcalot.io/engine"
	"go.flow.arcalot.io/engine/config"
	"go.flow.arcalot.io/engine/internal/builtinfunctions"
	"go.flow.arcalot.io/engine/internal/step"
	"go.flow.arcalot.io/engine/internal/step/foreach"
	"go.flow.arcalot.io/engine/internal/step/plugin"
	stepregistry "go.flow.arcalot.io/engine/internal/step/registry"
	"go.flow.arcalot.io/engine/workflow"
)

type nullWriter struct{}

func (nullWriter) Write(_ log.Message) error { return nil }
func (nullWriter) Rotate()                   {}
func (nullWriter) Close() error              { return nil }

// slowLogMs > 0 (engine -slowlog): the configuration asks for step outputs to be logged (config.LoggedOutputConfigs) and the
// log destination is slow for exactly those lines, as a slow / blocking log sink would be.  A pure delay inside the logger
// must not change what a run computes.
var slowLogMs int

// logAllOutputs: the configuration asks for every step output to be logged (config.LoggedOutputConfigs), the log itself goes
// nowhere.  Logging an output must not change it.
var logAllOutputs bool

type slowWriter struct{}

func (slowWriter) Write(m log.Message) error {
	if slowLogMs > 0 && strings.HasPrefix(m.Message, "Output ID for step") {
		time.Sleep(time.Duration(slowLogMs) * time.Millisecond)
	}
	return nil
}
func (slowWriter) Rotate()      {}
func (slowWriter) Close() error { return nil }

func quietLogger() log.Logger {
	if slowLogMs > 0 {
		return log.NewLogger(log.LevelWarning, slowWriter{})
	}
	if logAllOutputs {
		return log.NewLogger(log.LevelWarning, nullWriter{})
	}
	return log.NewLogger(log.LevelError, nullWriter{})
}

var localDeployers = map[string]any{
	"builtin": map[string]any{"deployer_name": "scripted"},
}

func scriptedDeployerRegistry() deployerregistry.Registry {
	return deployerregistry.New(deployer.Any(sdFactory{}))
}

func engineConfig() *config.Config {
	cfg := &config.Config{
		LocalDeployers: localDeployers,
		Log:            log.Config{Level: log.LevelError, Destination: log.DestinationStdout},
	}
	if slowLogMs > 0 || logAllOutputs {
		cfg.LoggedOutputConfigs = map[string]*config.StepOutputLogConfig{}
		for _, id := range []string{"success", "error", "alt", "started", "resolved", "output", "result"} {
			cfg.LoggedOutputConfigs[id] = &config.StepOutputLogConfig{LogLevel: log.LevelWarning}
		}
	}
	return cfg
}

// installScriptedEngine points the engine's package-level deployer registry at the scripted deployer.
func installScriptedEngine() (engine.WorkflowEngine, error) {
	engine.DefaultDeployerRegistry = scriptedDeployerRegistry()
	return engine.New(engineConfig())
}

type wfFactory struct {
	reg step.Registry
	cfg *config.Config
}

func (f *wfFactory) yaml() (workflow.YAMLConverter, error) {
	return workflow.NewYAMLConverter(f.reg), nil
}
func (f *wfFactory) exec(l log.Logger) (workflow.Executor, error) {
	return workflow.NewExecutor(l, f.cfg, f.reg, builtinfunctions.GetFunctions())
}

// newRegistry builds plugin + foreach providers over the scripted deployer; wrap lets a caller substitute providers.
func newRegistry(wrap func(step.Provider) step.Provider) (step.Registry, *wfFactory, error) {
	logger := quietLogger()
	cfg := engineConfig()
	pp, err := plugin.New(logger, scriptedDeployerRegistry(), localDeployers)
	if err != nil {
		return nil, nil, err
	}
	f := &wfFactory{cfg: cfg}
	fp, err := foreach.New(logger, f.yaml, f.exec)
	if err != nil {
		return nil, nil, err
	}
	if wrap != nil {
		pp = wrap(pp)
		fp = wrap(fp)
	}
	reg, err := stepregistry.New(pp, fp)
	if err != nil {
		return nil, nil, err
	}
	f.reg = reg
	return reg, f, nil
}

// prepareYAML parses and prepares a workflow text directly (without the engine front end).
func prepareYAML(reg step.Registry, f *wfFactory, text string, files map[string][]byte) (workflow.ExecutableWorkflow, error) {
	conv := workflow.NewYAMLConverter(reg)
	wf, err := conv.FromYAML([]byte(text))
	if err != nil {
		return nil, err
	}
	ex, err := f.exec(quietLogger())
	if err != nil {
		return nil, err
	}
	if files == nil {
		files = map[string][]byte{}
	}
	return ex.Prepare(wf, files)
}

// guarded runs fn with a watchdog and converts a panic on the calling goroutine into an outcome.
type guardResult struct {
	Panic   string
	Timeout bool
}

func guarded(timeout time.Duration, fn func()) guardResult {
	done := make(chan guardResult, 1)
	go func() {
		defer func() {
			if r := recover(); r != nil {
				done <- guardResult{Panic: fmt.Sprintf("%v\n%s", r, debug.Stack())}
			}
		}()
		fn()
		done <- guardResult{}
	}()
	select {
	case r := <-done:
		return r
	case <-time.After(timeout):
		return guardResult{Timeout: true}
	}
}

var _ = context.Background
