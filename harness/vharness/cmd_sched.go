//go:build verif && vsched

package main

import (
	"flag"
	"fmt"
	"sort"

	"go.flow.arcalot.io/engine/internal/vsched"
)

func init() { register("sched", cmdSched) }

// ---- schedule sweeps (C09) -----------------------------------------------------------------------------------------------------
//
// Built only into the instrumented harness (overlay copies of workflow.go and both provider.go carry vsched.Point calls
// before every synchronisation statement).  For each generated case: one baseline run records which points are passed;
// then the same case is re-run once per (sampled) point with that point's first arrival(s) held for `-hold` ms.  A pure
// delay must not change the result of a workflow whose meaning fixes a single result.

func resultKey(c map[string]any) string {
	r, _ := c["result"].(loopResult)
	if !r.Returned {
		return "no-return"
	}
	if r.OutputID != "" {
		return "output:" + r.OutputID + ":" + fmt.Sprint(r.Data)
	}
	return "error"
}

func cmdSched(args []string) int {
	var hold, maxPoints int
	c, _ := parseCommon("sched", args, func(fs *flag.FlagSet) {
		fs.IntVar(&hold, "hold", 60, "hold time in ms")
		fs.IntVar(&maxPoints, "points", 40, "maximum number of points swept per case (0 = all)")
	})
	w := openOut(c.out)
	defer w.close()
	r := newRng(c.seed)
	for i := 0; i < c.n; i++ {
		cr := r.fork()
		if i < c.skip {
			continue
		}
		w.emit(map[string]any{"kind": "begin", "index": i})
		g := genOpts{maxSteps: 2 + cr.intn(3), tags: cr.chance(1, 3), failOutputs: true, enabled: cr.chance(1, 3),
			stopIf: false, waitFor: cr.chance(1, 2)}
		wf := genWorkflow(cr, g)
		text := wf.yaml(nil, nil)
		beh := genBehaviours(cr, wf, engineOpts{cancelAfterMs: -1})
		for k, b := range beh { // durations play no role for the meaning; keep runs short
			b.DelayMs = 0
			b.DeployDelayMs = 0
			beh[k] = b
		}
		input := map[string]any{"name": "nm", "flag": cr.chance(2, 3)}
		hasFlag := false
		for _, fl := range wf.InputFields {
			if fl.Name == "flag" {
				hasFlag = true
			}
		}
		if !hasFlag {
			delete(input, "flag")
		}
		sweepCase(w, cr, fmt.Sprintf("sched-%d-%d", c.seed, i), wf, text, beh, input, hold, maxPoints)
	}
	// targeted shapes whose meaning fixes one result although a stop condition is involved: a step that can never get
	// its input (its producer fails) is released by its stop condition; the output needs its closed result
	nScen := 1
	if c.tier == "thorough" {
		nScen = 4
	}
	for i := 0; i < nScen; i++ {
		cr := r.fork()
		if c.n+i < c.skip {
			continue
		}
		w.emit(map[string]any{"kind": "begin", "index": c.n + i})
		wf := &AWf{Outputs: map[string]AIn{}, InputFields: []AField{{Name: "name", Type: "string", Required: true}}}
		wf.Steps = []AStep{
			{ID: "a", Kind: "plugin", PlugStep: "op", Src: "a", Fields: map[string]AIn{"input": amap("s", lit("x"))}},
			{ID: "d", Kind: "plugin", PlugStep: "op", Src: "d", Fields: map[string]AIn{"input": amap("s", lit("y"))}},
			{ID: "b", Kind: "plugin", PlugStep: "op", Src: "b", Fields: map[string]AIn{
				"input":   amap("s", expr("$.steps.d.outputs.success.s")),
				"stop_if": expr("$.steps.a.outputs")}},
		}
		for k := 0; k < cr.intn(2); k++ {
			id := fmt.Sprintf("e%d", k)
			wf.Steps = append(wf.Steps, AStep{ID: id, Kind: "plugin", PlugStep: "op", Src: id, Fields: map[string]AIn{"input": amap("s", lit("z"))}})
		}
		out := AIn{K: "map"}
		out.put("v", expr("$.steps.b.closed.result"))
		wf.OutputIDs = []string{"stopped"}
		wf.Outputs["stopped"] = out
		beh := map[string]Behaviour{"a": {Outcome: "success"}, "d": {Outcome: "error"}, "b": {Outcome: "success"}}
		sweepCase(w, cr, fmt.Sprintf("sched-stop-%d-%d", c.seed, i), wf, wf.yaml(nil, nil), beh, map[string]any{"name": "nm"}, hold, 0)
	}
	return 0
}

// sweepCase runs one workflow without delays (twice: the case needs a single reproducible result) and then once per
// synchronisation point passed by the baseline run with that point held for `hold` ms.
func sweepCase(w *lineWriter, cr *rng, id string, wf *AWf, text string, beh map[string]Behaviour, input map[string]any, hold, maxPoints int) {
		vsched.SetPlan(nil)
		vsched.Record(true)
		base := execEngineCase(id+"-base", wf, text, beh, input, engineOpts{cancelAfterMs: -1})
		hits := vsched.Hits()
		vsched.Record(false)
		if _, skipped := base["skip"]; skipped {
			base["kind"] = "sched"
			w.emit(base)
			return
		}
		// the baseline must be reproducible without any delay, otherwise the case has no single result
		again := execEngineCase(id+"-base2", wf, text, beh, input, engineOpts{cancelAfterMs: -1})
		baseKey := resultKey(base)
		if resultKey(again) != baseKey {
			base["kind"] = "sched"
			base["skip"] = "baseline not reproducible: " + baseKey + " vs " + resultKey(again)
			w.emit(base)
			return
		}
		points := make([]string, 0, len(hits))
		for p := range hits {
			points = append(points, p)
		}
		sort.Strings(points)
		if maxPoints > 0 && len(points) > maxPoints {
			perm := cr.perm(len(points))
			sel := make([]string, 0, maxPoints)
			for _, j := range perm[:maxPoints] {
				sel = append(sel, points[j])
			}
			sort.Strings(sel)
			points = sel
		}
		sweeps := []map[string]any{}
		for _, p := range points {
			nth := 1
			if hits[p] > 1 && cr.chance(1, 3) {
				nth = 2
			}
			vsched.SetPlan([]vsched.Hold{{ID: p, Nth: nth, DelayMs: hold}})
			run := execEngineCase(id+"-"+p, wf, text, beh, input, engineOpts{cancelAfterMs: -1})
			vsched.SetPlan(nil)
			k := resultKey(run)
			entry := map[string]any{"point": p, "nth": nth, "same": k == baseKey, "result": run["result"],
				"balance": run["balance"], "goroutine_delta": run["goroutine_delta"]}
			if k != baseKey {
				entry["log"] = run["log"]
			}
			sweeps = append(sweeps, entry)
		}
		base["kind"] = "sched"
		base["id"] = id
		base["base_key"] = baseKey
		base["hold_ms"] = hold
		base["points_hit"] = len(hits)
		base["sweeps"] = sweeps
		w.emit(base)
}
