//go:build verif && vsched

package main

import (
	"flag"
	"fmt"
	"sort"
	"strings"

	"go.flow.arcalot.io/engine/internal/vsched"
)

func init() { register("sched", cmdSched) }

// ---- schedule sweeps (C09) -----------------------------------------------------------------------------------------------------
//
// Built only into the instrumented harness (overlay copies of workflow.go and both provider.go carry vsched.Point calls
// before every synchronisation statement).  For each generated case: one baseline run records which points are passed;
// then the same case is re-run once per (sampled) point with that point's first arrival(s) held for `-hold` ms.  A pure
// delay must not change the result of a workflow whose meaning fixes a single result.
//
// Goroutine-start points (kind "gostart": first statement of a goroutine body) are never subject to the sampling and
// EVERY arrival at them (= every goroutine started there in the baseline run, up to maxStartArrivals) is held once: the
// property's quantifier names goroutine start explicitly and there are few of them.
//
// The delay-free baseline is itself one placement of delays (all of length zero): both baseline runs are written out
// (`baseline_keys`) and the monitor judges them against the declarative meaning where that is unique.  Workflows with
// foreach steps (items from the input and from earlier steps, sub-workflows with real durations) and a few targeted
// shapes are generated in cmd_sched_foreach.go.

func resultKey(c map[string]any) string {
	r, _ := c["result"].(loopResult)
	if !r.Returned {
		return "no-return"
	}
	if r.OutputID != "" {
		return "output:" + r.OutputID + ":" + fmt.Sprint(r.Data)
	}
	return "error"
}

func cmdSched(args []string) int {
	var hold, maxPoints int
	c, _ := parseCommon("sched", args, func(fs *flag.FlagSet) {
		fs.IntVar(&hold, "hold", 60, "hold time in ms")
		fs.IntVar(&maxPoints, "points", 40, "maximum number of points swept per case (0 = all)")
	})
	w := openOut(c.out)
	defer w.close()
	if c.tier == "thorough" {
		maxStartArrivals = 12
	}
	r := newRng(c.seed)
	for i := 0; i < c.n; i++ {
		cr := r.fork()
		if i < c.skip {
			continue
		}
		w.emit(map[string]any{"kind": "begin", "index": i})
		g := genOpts{maxSteps: 2 + cr.intn(3), tags: cr.chance(1, 3), failOutputs: true, enabled: cr.chance(1, 3),
			stopIf: false, waitFor: cr.chance(1, 2)}
		wf := genWorkflow(cr, g)
		text := wf.yaml(nil, nil)
		beh := genBehaviours(cr, wf, engineOpts{cancelAfterMs: -1})
		for k, b := range beh { // durations play no role for the meaning; keep runs short
			b.DelayMs = 0
			b.DeployDelayMs = 0
			beh[k] = b
		}
		input := map[string]any{"name": "nm", "flag": cr.chance(2, 3)}
		hasFlag := false
		for _, fl := range wf.InputFields {
			if fl.Name == "flag" {
				hasFlag = true
			}
		}
		if !hasFlag {
			delete(input, "flag")
		}
		sweepCase(w, cr, fmt.Sprintf("sched-%d-%d", c.seed, i), wf, text, beh, input, hold, maxPoints)
	}
	// targeted shapes whose meaning fixes one result although a stop condition is involved: a step that can never get
	// its input (its producer fails) is released by its stop condition; the output needs its closed result
	nScen := 1
	if c.tier == "thorough" {
		nScen = 4
	}
	for i := 0; i < nScen; i++ {
		cr := r.fork()
		if c.n+i < c.skip {
			continue
		}
		w.emit(map[string]any{"kind": "begin", "index": c.n + i})
		wf := &AWf{Outputs: map[string]AIn{}, InputFields: []AField{{Name: "name", Type: "string", Required: true}}}
		wf.Steps = []AStep{
			{ID: "a", Kind: "plugin", PlugStep: "op", Src: "a", Fields: map[string]AIn{"input": amap("s", lit("x"))}},
			{ID: "d", Kind: "plugin", PlugStep: "op", Src: "d", Fields: map[string]AIn{"input": amap("s", lit("y"))}},
			{ID: "b", Kind: "plugin", PlugStep: "op", Src: "b", Fields: map[string]AIn{
				"input":   amap("s", expr("$.steps.d.outputs.success.s")),
				"stop_if": expr("$.steps.a.outputs")}},
		}
		for k := 0; k < cr.intn(2); k++ {
			id := fmt.Sprintf("e%d", k)
			wf.Steps = append(wf.Steps, AStep{ID: id, Kind: "plugin", PlugStep: "op", Src: id, Fields: map[string]AIn{"input": amap("s", lit("z"))}})
		}
		out := AIn{K: "map"}
		out.put("v", expr("$.steps.b.closed.result"))
		wf.OutputIDs = []string{"stopped"}
		wf.Outputs["stopped"] = out
		beh := map[string]Behaviour{"a": {Outcome: "success"}, "d": {Outcome: "error"}, "b": {Outcome: "success"}}
		sweepCase(w, cr, fmt.Sprintf("sched-stop-%d-%d", c.seed, i), wf, wf.yaml(nil, nil), beh, map[string]any{"name": "nm"}, hold, 0)
	}
	// workflows with foreach steps and the targeted goroutine-start / late-items shapes (cmd_sched_foreach.go)
	schedForeachCases(w, r, c, c.n+nScen, hold, maxPoints)
	return 0
}

// maxStartArrivals bounds how many arrivals at one goroutine-start point are held (one run each); 12 in the thorough tier.
var maxStartArrivals = 6

func isStartPoint(p string) bool { return strings.HasSuffix(p, ":gostart") }

// sweepCase runs one workflow without delays (twice: the case needs a single reproducible result) and then once per
// synchronisation point passed by the baseline run with that point held for `hold` ms.
func sweepCase(w *lineWriter, cr *rng, id string, wf *AWf, text string, beh map[string]Behaviour, input map[string]any, hold, maxPoints int) {
	sweepCaseRun(w, cr, id, hold, maxPoints, false, func(caseID string) map[string]any {
		return execEngineCase(caseID, wf, text, beh, input, engineOpts{cancelAfterMs: -1})
	})
}

// sweepCaseRun is sweepCase over an arbitrary way of running the case (`run` must execute the same case every time).
// deepNth: later arrivals at a point are held as well (cases in which the same code runs in several workflows at once).
func sweepCaseRun(w *lineWriter, cr *rng, id string, hold, maxPoints int, deepNth bool, run func(caseID string) map[string]any) {
	vsched.SetPlan(nil)
	vsched.Record(true)
	base := run(id + "-base")
	hits := vsched.Hits()
	vsched.Record(false)
	base["kind"] = "sched"
	if _, skipped := base["skip"]; skipped {
		w.emit(base)
		return
	}
	base["id"] = id
	base["hold_ms"] = hold
	base["points_hit"] = len(hits)
	// the baseline must be reproducible without any delay, otherwise the case has no single result: no sweep then.  Both
	// results are written out; whether one of them contradicts the meaning of the workflow is for the monitor to say.
	again := run(id + "-base2")
	baseKey := resultKey(base)
	base["base_key"] = baseKey
	base["baseline_keys"] = []string{baseKey, resultKey(again)}
	base["baseline_results"] = []any{base["result"], again["result"]}
	if resultKey(again) != baseKey {
		base["unstable_baseline"] = "baseline not reproducible: " + baseKey + " vs " + resultKey(again)
		base["baseline_logs"] = []any{base["log"], again["log"]}
		base["sweeps"] = []map[string]any{}
		w.emit(base)
		return
	}
	points := make([]string, 0, len(hits))
	starts := []string{}
	for p := range hits {
		if isStartPoint(p) {
			starts = append(starts, p)
		} else {
			points = append(points, p)
		}
	}
	sort.Strings(points)
	sort.Strings(starts)
	if maxPoints > 0 && len(points) > maxPoints {
		perm := cr.perm(len(points))
		sel := make([]string, 0, maxPoints)
		for _, j := range perm[:maxPoints] {
			sel = append(sel, points[j])
		}
		sort.Strings(sel)
		points = sel
	}
	type held struct {
		p   string
		nth int
	}
	plan := []held{}
	for _, p := range starts { // every goroutine start, every goroutine started there
		for n := 1; n <= hits[p] && n <= maxStartArrivals; n++ {
			plan = append(plan, held{p, n})
		}
	}
	for _, p := range points {
		nth := 1
		if hits[p] > 1 && cr.chance(1, 3) {
			nth = 2
			if deepNth && hits[p] > 2 {
				m := hits[p]
				if m > 8 {
					m = 8
				}
				nth = 2 + cr.intn(m-1)
			}
		}
		plan = append(plan, held{p, nth})
	}
	sweeps := []map[string]any{}
	for _, h := range plan {
		vsched.SetPlan([]vsched.Hold{{ID: h.p, Nth: h.nth, DelayMs: hold}})
		res := run(id + "-" + h.p)
		fired := vsched.Applied()
		vsched.SetPlan(nil)
		k := resultKey(res)
		retried := false
		if k == "no-return" && baseKey != "no-return" {
			// the watchdog is wall-clock: a stalled process / machine (observed: a 74 ms plugin step that "took" 273 s) looks
			// like a hang.  A run that does not return is repeated once with the same plan; a real, schedule-induced hang
			// reproduces, a stall does not (DESIGN.md section 9: re-run once, then count as inconclusive).
			vsched.SetPlan([]vsched.Hold{{ID: h.p, Nth: h.nth, DelayMs: hold}})
			res = run(id + "-" + h.p + "-again")
			fired = vsched.Applied()
			vsched.SetPlan(nil)
			k = resultKey(res)
			retried = true
		}
		entry := map[string]any{"point": h.p, "nth": h.nth, "same": k == baseKey, "result": res["result"],
			"balance": res["balance"], "goroutine_delta": res["goroutine_delta"], "wall_ms": res["wall_ms"], "held": fired > 0}
		if retried {
			entry["retried_after_timeout"] = true
		}
		if k != baseKey {
			entry["log"] = res["log"]
		}
		sweeps = append(sweeps, entry)
	}
	base["start_points_hit"] = len(starts)
	base["sweeps"] = sweeps
	w.emit(base)
}
