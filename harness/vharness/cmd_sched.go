//go:build verif && vsched

package main

import (
	"flag"
	"fmt"
	"sort"

	"go.flow.arcalot.io/engine/internal/vsched"
)

func init() { register("sched", cmdSched) }

// ---- schedule sweeps (C09) -----------------------------------------------------------------------------------------------------
//
// Built only into the instrumented harness (overlay copies of workflow.go and both provider.go carry vsched.Point calls
// before every synchronisation statement).  For each generated case: one baseline run records which points are passed;
// then the same case is re-run once per (sampled) point with that point's first arrival(s) held for `-hold` ms.  A pure
// delay must not change the result of a workflow whose meaning fixes a single result.

func resultKey(c map[string]any) string {
	r, _ := c["result"].(loopResult)
	if !r.Returned {
		return "no-return"
	}
	if r.OutputID != "" {
		return "output:" + r.OutputID + ":" + fmt.Sprint(r.Data)
	}
	return "error"
}

func cmdSched(args []string) int {
	var hold, maxPoints int
	c, _ := parseCommon("sched", args, func(fs *flag.FlagSet) {
		fs.IntVar(&hold, "hold", 60, "hold time in ms")
		fs.IntVar(&maxPoints, "points", 40, "maximum number of points swept per case (0 = all)")
	})
	w := openOut(c.out)
	defer w.close()
	r := newRng(c.seed)
	for i := 0; i < c.n; i++ {
		cr := r.fork()
		if i < c.skip {
			continue
		}
		w.emit(map[string]any{"kind": "begin", "index": i})
		g := genOpts{maxSteps: 2 + cr.intn(3), tags: cr.chance(1, 3), failOutputs: true, enabled: cr.chance(1, 3),
			stopIf: false, waitFor: cr.chance(1, 2)}
		wf := genWorkflow(cr, g)
		text := wf.yaml(nil, nil)
		beh := genBehaviours(cr, wf, engineOpts{cancelAfterMs: -1})
		for k, b := range beh { // durations play no role for the meaning; keep runs short
			b.DelayMs = 0
			b.DeployDelayMs = 0
			beh[k] = b
		}
		input := map[string]any{"name": "nm", "flag": cr.chance(2, 3)}
		hasFlag := false
		for _, fl := range wf.InputFields {
			if fl.Name == "flag" {
				hasFlag = true
			}
		}
		if !hasFlag {
			delete(input, "flag")
		}
		id := fmt.Sprintf("sched-%d-%d", c.seed, i)
		vsched.SetPlan(nil)
		vsched.Record(true)
		base := execEngineCase(id+"-base", wf, text, beh, input, engineOpts{cancelAfterMs: -1})
		hits := vsched.Hits()
		vsched.Record(false)
		if _, skipped := base["skip"]; skipped {
			base["kind"] = "sched"
			w.emit(base)
			continue
		}
		// the baseline must be reproducible without any delay, otherwise the case has no single result
		again := execEngineCase(id+"-base2", wf, text, beh, input, engineOpts{cancelAfterMs: -1})
		baseKey := resultKey(base)
		if resultKey(again) != baseKey {
			base["kind"] = "sched"
			base["skip"] = "baseline not reproducible: " + baseKey + " vs " + resultKey(again)
			w.emit(base)
			continue
		}
		points := make([]string, 0, len(hits))
		for p := range hits {
			points = append(points, p)
		}
		sort.Strings(points)
		if maxPoints > 0 && len(points) > maxPoints {
			perm := cr.perm(len(points))
			sel := make([]string, 0, maxPoints)
			for _, j := range perm[:maxPoints] {
				sel = append(sel, points[j])
			}
			sort.Strings(sel)
			points = sel
		}
		sweeps := []map[string]any{}
		for _, p := range points {
			nth := 1
			if hits[p] > 1 && cr.chance(1, 3) {
				nth = 2
			}
			vsched.SetPlan([]vsched.Hold{{ID: p, Nth: nth, DelayMs: hold}})
			run := execEngineCase(id+"-"+p, wf, text, beh, input, engineOpts{cancelAfterMs: -1})
			vsched.SetPlan(nil)
			k := resultKey(run)
			entry := map[string]any{"point": p, "nth": nth, "same": k == baseKey, "result": run["result"],
				"balance": run["balance"], "goroutine_delta": run["goroutine_delta"]}
			if k != baseKey {
				entry["log"] = run["log"]
			}
			sweeps = append(sweeps, entry)
		}
		base["kind"] = "sched"
		base["id"] = id
		base["base_key"] = baseKey
		base["hold_ms"] = hold
		base["points_hit"] = len(hits)
		base["sweeps"] = sweeps
		w.emit(base)
	}
	return 0
}
