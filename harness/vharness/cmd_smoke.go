//go:build verif

package main

import (
	"context"
	"fmt"
	"os"
	"time"
)

func init() { register("smoke", cmdSmoke) }

// smoke: run one YAML workflow file through the directly prepared executor with the scripted deployer.
func cmdSmoke(args []string) int {
	text, err := os.ReadFile(args[0])
	if err != nil {
		fmt.Println(err)
		return 2
	}
	s := newScript()
	currentScript.Store(s)
	for _, a := range args[1:] {
		var src, outcome string
		fmt.Sscanf(a, "%s", &src)
		for i := 0; i < len(a); i++ {
			if a[i] == '=' {
				src, outcome = a[:i], a[i+1:]
			}
		}
		s.set(src, Behaviour{Outcome: outcome})
	}
	reg, f, err := newRegistry(nil)
	if err != nil {
		fmt.Println("registry:", err)
		return 2
	}
	s.probe.Store(true)
	wf, err := prepareYAML(reg, f, string(text), nil)
	s.probe.Store(false)
	if err != nil {
		fmt.Println("prepare:", err)
		return 1
	}
	ctx, cancel := context.WithTimeout(context.Background(), 20*time.Second)
	defer cancel()
	id, data, err := wf.Execute(ctx, map[string]any{"name": "x"})
	fmt.Printf("id=%q data=%v err=%v\n", id, data, err)
	for _, e := range s.snapshot() {
		fmt.Printf("  %+v\n", e)
	}
	fmt.Println("balance", s.balance())
	return 0
}
