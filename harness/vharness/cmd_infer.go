//go:build verif

package main

import (
	"fmt"
	"sort"
	"strings"
	"time"

	"go.flow.arcalot.io/engine/internal/infer"
	"go.flow.arcalot.io/pluginsdk/schema"
)

// ---- C08: schema inference for outputs (internal/infer) against Arca.Model.Infer --------------------------------------------
//
// One case = one generated tree of typed Go literals (what an output holds once its expressions are evaluated).  The REAL
// infer.Type infers its schema; the REAL Unserialize of that schema is applied to the value (this is what handleOutput does with
// the returned output; a failure there is the "bug: output schema cannot unserialize output data" error).  Both verdicts and the
// inferred type in canonical text go to `arcadrv infer`, which computes the same with the Lean model.

func init() { register("infer", cmdInfer) }

type litNode struct {
	enc map[string]any // the line-protocol form
	v   any            // the Go value
}

var inferIntKinds = []string{"int64", "int", "int32", "uint8", "int8", "uint16"}

func genIntLit(r *rng) litNode {
	k := r.pick(inferIntKinds)
	n := int64(r.intn(100))
	var v any
	switch k {
	case "int64":
		if r.chance(1, 2) {
			n = -n
		}
		v = n
	case "int":
		v = int(n)
	case "int32":
		v = int32(-n)
		n = -n
	case "uint8":
		v = uint8(n)
	case "int8":
		v = int8(n)
	case "uint16":
		v = uint16(n)
	}
	return litNode{map[string]any{"t": "int", "k": k, "i": fmt.Sprint(n)}, v}
}

func genLeaf(r *rng) litNode {
	switch r.intn(9) {
	case 0, 1, 2:
		s := r.pick([]string{"a", "bc", "xyz", "hello", ""})
		return litNode{map[string]any{"t": "str", "s": s}, s}
	case 3, 4:
		return genIntLit(r)
	case 5:
		f := float64(r.intn(9)) + 0.5
		return litNode{map[string]any{"t": "float"}, f}
	case 6, 7:
		b := r.chance(1, 2)
		return litNode{map[string]any{"t": "bool", "b": b}, b}
	default:
		if r.chance(1, 4) {
			return litNode{map[string]any{"t": "nil"}, nil}
		}
		return litNode{map[string]any{"t": "str", "s": "q"}, "q"}
	}
}

var inferKeys = []string{"a", "b", "c", "d"}

// genLit: depth-bounded tree.  `like` (may be nil) is a sibling the new node should resemble: lists are generated mostly
// homogeneous (items are variations of the first one) so that the interesting near-misses (same TypeID, different content) are
// frequent rather than the trivially rejected mixes of leaf kinds.
func genLit(r *rng, depth int) litNode {
	if depth <= 0 || r.chance(2, 5) {
		return genLeaf(r)
	}
	if r.chance(1, 2) {
		n := r.intn(4)
		xs := []any{}
		encs := []any{}
		var first litNode
		for i := 0; i < n; i++ {
			var it litNode
			if i == 0 {
				it = genLit(r, depth-1)
				first = it
			} else {
				it = vary(r, first, depth-1)
			}
			xs = append(xs, it.v)
			encs = append(encs, it.enc)
		}
		return litNode{map[string]any{"t": "list", "xs": encs}, xs}
	}
	n := r.intn(4)
	m := map[string]any{}
	fs := map[string]any{}
	for i := 0; i < n; i++ {
		k := r.pick(inferKeys)
		it := genLit(r, depth-1)
		m[k] = it.v
		fs[k] = it.enc
	}
	return litNode{map[string]any{"t": "obj", "fs": fs}, m}
}

// vary: a node of (mostly) the same shape as `like` with fresh leaves; now and then a key is dropped / added / retyped, or the
// node is replaced by an unrelated one.
func vary(r *rng, like litNode, depth int) litNode {
	if r.chance(1, 8) {
		return genLit(r, depth)
	}
	switch like.enc["t"] {
	case "str":
		s := r.pick([]string{"u", "vw", ""})
		return litNode{map[string]any{"t": "str", "s": s}, s}
	case "int":
		if r.chance(3, 4) {
			// same kind
			for {
				it := genIntLit(r)
				if it.enc["k"] == like.enc["k"] {
					return it
				}
			}
		}
		return genIntLit(r)
	case "float":
		return litNode{map[string]any{"t": "float"}, 2.25}
	case "bool":
		b := r.chance(1, 2)
		return litNode{map[string]any{"t": "bool", "b": b}, b}
	case "nil":
		return like
	case "list":
		xsEnc := like.enc["xs"].([]any)
		xsV := like.v.([]any)
		n := len(xsEnc)
		if r.chance(1, 3) {
			n = r.intn(3)
		}
		xs := []any{}
		encs := []any{}
		for i := 0; i < n; i++ {
			var it litNode
			if len(xsEnc) > 0 {
				j := i % len(xsEnc)
				it = vary(r, litNode{xsEnc[j].(map[string]any), xsV[j]}, depth-1)
			} else {
				it = genLit(r, depth-1)
			}
			xs = append(xs, it.v)
			encs = append(encs, it.enc)
		}
		return litNode{map[string]any{"t": "list", "xs": encs}, xs}
	case "obj":
		fsEnc := like.enc["fs"].(map[string]any)
		mV := like.v.(map[string]any)
		m := map[string]any{}
		fs := map[string]any{}
		keys := make([]string, 0, len(fsEnc))
		for k := range fsEnc {
			keys = append(keys, k)
		}
		sort.Strings(keys)
		for _, k := range keys {
			if r.chance(1, 10) {
				continue // drop a key
			}
			it := vary(r, litNode{fsEnc[k].(map[string]any), mV[k]}, depth-1)
			m[k] = it.v
			fs[k] = it.enc
		}
		if r.chance(1, 10) {
			k := r.pick(inferKeys)
			if _, ok := fs[k]; !ok {
				it := genLeaf(r)
				m[k] = it.v
				fs[k] = it.enc
			}
		}
		return litNode{map[string]any{"t": "obj", "fs": fs}, m}
	}
	return genLeaf(r)
}

func ptrStr(p *int64) string {
	if p == nil {
		return "nil"
	}
	return fmt.Sprint(*p)
}

// renderInferred: the canonical text Arca.Model.Infer.ITy.render produces; anything the model has no constructor for is
// rendered so that it cannot be equal to a model text.
func renderInferred(t schema.Type) string {
	switch t.TypeID() {
	case schema.TypeIDString:
		s, ok := t.(*schema.StringSchema)
		if !ok || s.Min() != nil || s.Max() != nil || s.Pattern() != nil {
			return fmt.Sprintf("str!constrained(%T)", t)
		}
		return "str"
	case schema.TypeIDInt:
		s, ok := t.(*schema.IntSchema)
		if !ok || s.Units() != nil {
			return fmt.Sprintf("int!(%T)", t)
		}
		return "int[" + ptrStr(s.Min()) + "," + ptrStr(s.Max()) + "]"
	case schema.TypeIDFloat:
		s, ok := t.(*schema.FloatSchema)
		if !ok || s.Min() != nil || s.Max() != nil || s.Units() != nil {
			return fmt.Sprintf("float!(%T)", t)
		}
		return "float"
	case schema.TypeIDBool:
		return "bool"
	case schema.TypeIDList:
		s, ok := t.(*schema.ListSchema)
		if !ok || s.Min() != nil || s.Max() != nil {
			return fmt.Sprintf("list!(%T)", t)
		}
		return "list(" + renderInferred(s.Items()) + ")"
	case schema.TypeIDObject:
		s, ok := t.(*schema.ObjectSchema)
		if !ok {
			return fmt.Sprintf("obj!(%T)", t)
		}
		keys := make([]string, 0, len(s.Properties()))
		for k := range s.Properties() {
			keys = append(keys, k)
		}
		sort.Strings(keys)
		parts := []string{}
		for _, k := range keys {
			p := s.Properties()[k]
			x := k + ":" + renderInferred(p.Type())
			if !p.Required() || p.Default() != nil || len(p.RequiredIf()) > 0 || len(p.RequiredIfNot()) > 0 || len(p.Conflicts()) > 0 {
				x += "!notplainrequired"
			}
			parts = append(parts, x)
		}
		pre := "obj{"
		if !s.IDUnenforced() {
			pre = "obj!idenforced{"
		}
		return pre + strings.Join(parts, ",") + "}"
	}
	return "other:" + string(t.TypeID())
}

func litShape(enc map[string]any) string {
	switch enc["t"] {
	case "list":
		xs := enc["xs"].([]any)
		if len(xs) == 0 {
			return "list()"
		}
		return "list(" + litShape(xs[0].(map[string]any)) + fmt.Sprintf(")x%d", len(xs))
	case "obj":
		return fmt.Sprintf("obj/%d", len(enc["fs"].(map[string]any)))
	}
	return fmt.Sprint(enc["t"])
}

func cmdInfer(args []string) int {
	c, _ := parseCommon("infer", args, nil)
	w := openOut(c.out)
	defer w.close()
	r := newRng(c.seed*7919 + 17)
	for i := 0; i < c.n; i++ {
		cr := r.fork()
		if i < c.skip {
			continue
		}
		depth := 1 + cr.intn(3)
		lit := genLit(cr, depth)
		// the root of an output is an object in most cases (Scope demands it); bare lists / leaves keep the other arms alive
		out := map[string]any{"kind": "infer", "id": fmt.Sprintf("infer-%d-%d", c.seed, i), "lit": lit.enc, "shape": litShape(lit.enc), "key": fmt.Sprint(lit.enc)}
		g := guarded(10*time.Second, func() {
			t, err := infer.Type(lit.v, nil, nil, nil)
			if err != nil {
				out["infer_err"] = err.Error()
				return
			}
			out["ty"] = renderInferred(t)
			_, uerr := t.Unserialize(lit.v)
			out["accepted"] = uerr == nil
			if uerr != nil {
				out["accept_err"] = uerr.Error()
			}
			// twice: inference is deterministic (no map-order dependence on string-keyed data)
			t2, err2 := infer.Type(lit.v, nil, nil, nil)
			if err2 != nil || renderInferred(t2) != out["ty"] {
				out["nondeterministic"] = true
			}
			// Scope: the root of an output must be an object
			_, serr := infer.Scope(lit.v, nil, nil, nil)
			out["scope_ok"] = serr == nil
		})
		if g.Panic != "" {
			out["panic"] = g.Panic
		}
		if g.Timeout {
			out["timeout"] = true
		}
		w.emit(out)
	}
	return 0
}
