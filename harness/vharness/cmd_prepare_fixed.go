//go:build verif

package main

import (
	"fmt"
)

// ---- C16: hand-written workflow shapes the generator's language cannot express ---------------------------------------------------
//
// `vharness prepare-fixed`: every scenario is prepared N times on fresh executors; verdict, dependency graph, output schemas
// and namespaces have to be the same every time (no model differential: the oracle is the agreement of the preparations).

func init() { register("prepare-fixed", cmdPrepareFixed) }

type fixedScenario struct {
	name  string
	text  string
	files map[string]string
}

// a sub-workflow whose input scope has several NON-ROOT objects, two of them with a same-named field that refers to objects
// of two different steps' namespaces; the parent's input refers to the loop step's item namespace
const fixedTwoJobsSub = `version: v0.2.0
input:
  root: TwoJobs
  objects:
    TwoJobs:
      id: TwoJobs
      properties:
        first_job:
          type: {type_id: ref, id: FirstJob}
        second_job:
          type: {type_id: ref, id: SecondJob}
    FirstJob:
      id: FirstJob
      properties:
        settings:
          type: {type_id: ref, id: "op-input", namespace: "$.steps.w.starting.inputs.input"}
    SecondJob:
      id: SecondJob
      properties:
        settings:
          type: {type_id: ref, id: "op-output", namespace: "$.steps.g.outputs.outputs.success"}
steps:
  w:
    plugin: {src: "w", deployment_type: "builtin"}
    step: op
    input: !expr $.input.first_job.settings
  g:
    plugin: {src: "g", deployment_type: "builtin"}
    step: op
    input: {s: !expr $.input.second_job.settings.s}
outputs:
  success:
    a: !expr $.steps.w.outputs.success.s
    b: !expr $.steps.g.outputs.success.s
`

const fixedTwoJobsParent = `version: v0.2.0
input:
  root: ParentInput
  objects:
    ParentInput:
      id: ParentInput
      properties:
        jobs:
          type:
            type_id: list
            items: {type_id: ref, id: TwoJobs, namespace: "$.steps.job_loop.execute.inputs.items"}
steps:
  job_loop:
    kind: foreach
    items: !expr $.input.jobs
    workflow: two_jobs.yaml
outputs:
  success:
    results: !expr $.steps.job_loop.outputs.success
`

// the same, and the parent's input refers to the namespace of ONE of the two same-named fields
const fixedTwoJobsParentBySettings = `version: v0.2.0
input:
  root: ParentInput
  objects:
    ParentInput:
      id: ParentInput
      properties:
        first_settings:
          type: {type_id: ref, id: "op-input", namespace: "$.steps.job_loop.execute.inputs.items.settings"}
steps:
  job_loop:
    kind: foreach
    items:
      - first_job: {settings: !expr $.input.first_settings}
        second_job: {settings: {s: "x", i: 1, b: true}}
    workflow: two_jobs.yaml
outputs:
  success:
    results: !expr $.steps.job_loop.outputs.success
`

var fixedScenarios = []fixedScenario{
	{"sub-workflow-input-with-two-objects-and-same-named-namespaced-fields", fixedTwoJobsParent, map[string]string{"two_jobs.yaml": fixedTwoJobsSub}},
	{"parent-input-refers-to-a-same-named-namespaced-field-of-the-loop-items", fixedTwoJobsParentBySettings, map[string]string{"two_jobs.yaml": fixedTwoJobsSub}},
}

func cmdPrepareFixed(args []string) int {
	c, _ := parseCommon("prepare-fixed", args, nil)
	w := openOut(c.out)
	defer w.close()
	reps := c.n
	if reps <= 0 {
		reps = 12
	}
	for i, sc := range fixedScenarios {
		files := map[string][]byte{}
		for k, v := range sc.files {
			files[k] = []byte(v)
		}
		runs := []any{}
		var first prepResult
		differs := ""
		for k := 0; k < reps; k++ {
			res := realPrepare(sc.text, files, map[string]bool{}, nil)
			if k == 0 {
				first = res
			} else if differs == "" {
				if d := first.sigDiff(res); d != "" {
					differs = fmt.Sprintf("run %d: %s", k, d)
				}
			}
			runs = append(runs, map[string]any{"verdict": res.Verdict, "err_class": res.ErrClass, "err": firstLine(res.Err)})
		}
		out := map[string]any{"kind": "prepare-fixed", "id": fmt.Sprintf("prepare-fixed-%d", i), "scenario": sc.name, "yaml": sc.text,
			"files": sc.files, "runs": runs, "differs": differs, "verdict": first.Verdict, "err": first.Err}
		if first.Verdict == "panic" {
			out["panic_text"] = first.Panic
		}
		w.emit(out)
	}
	return 0
}
