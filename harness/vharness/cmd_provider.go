//go:build verif

package main

import (
	"context"
	"encoding/json"
	"errors"
	"flag"
	"fmt"
	"io"
	"runtime"
	"strings"
	"sync"
	"sync/atomic"
	"time"

	log "go.arcalot.io/log/v2"
	"go.flow.arcalot.io/deployer"
	deployerregistry "go.flow.arcalot.io/deployer/registry"
	"go.flow.arcalot.io/engine/internal/step"
	"go.flow.arcalot.io/engine/internal/step/foreach"
	"go.flow.arcalot.io/engine/internal/step/plugin"
	"go.flow.arcalot.io/pluginsdk/atp"
	"go.flow.arcalot.io/pluginsdk/schema"
)

func init() { register("provider", cmdProvider) }

// ---- provider differential (C12) -------------------------------------------------------------------------------------------
//
// The REAL plugin / foreach provider is driven directly: New -> LoadSchema -> Start with a recording StageChangeHandler,
// then a script of environment actions (stage inputs, Close, ForceClose; sequential or overlapped, with small delays)
// against a scripted deployer/plugin.  One JSON line per case: the script, every call with its error class and whether
// it returned, the notification trace with entry/return ticks of one global logical clock, State()/CurrentStage()
// sampled inside OnStepComplete and at the end, the deploy/close balance and the goroutine delta.  `arcadrv provider`
// checks the trace against Arca.Model.PluginStep.pluginPaths / LifecycleSpec and the call outcomes against the
// synchronisation skeleton.

// pvEnv are the environment choices of a case that the shared Behaviour struct does not cover.
type pvEnv struct {
	StartMode       string `json:"start_mode"`        // ok | read-schema | step-missing | input-mismatch: what the deployment started by run() serves
	DeployIgnoreCtx bool   `json:"deploy_ignore_ctx"` // Deploy sleeps its delay without watching the context and then succeeds
	DeployCfg       string `json:"deploy_cfg"`        // local | registry | failcreate: what the deploy input selects
	Frozen          bool   `json:"frozen,omitempty"`  // once the step executes, the plugin stops reading its input (writes to it block until closed)
}

// pvFrozenPlugin: a deployment whose stdin is not drained any more while the step executes.
type pvFrozenPlugin struct {
	*sdPlugin
	gone chan struct{}
	once sync.Once
}

func (p *pvFrozenPlugin) Write(b []byte) (int, error) {
	if atomic.LoadInt64(&p.script.running) > 0 {
		<-p.gone
		return 0, io.ErrClosedPipe
	}
	return p.sdPlugin.Write(b)
}

func (p *pvFrozenPlugin) Close() error {
	p.once.Do(func() { close(p.gone) })
	return p.sdPlugin.Close()
}

var pvCurrentEnv atomic.Pointer[pvEnv]

// PVConfig is the deployer configuration of the provider harness' deployer.
type PVConfig struct {
	Note string `json:"note"`
}

var pvSchema = schema.NewTypedScopeSchema[*PVConfig](schema.NewStructMappedObjectSchema[*PVConfig]("PVConfig",
	map[string]*schema.PropertySchema{
		"note": schema.NewPropertySchema(schema.NewStringSchema(nil, nil, nil), nil, false, nil, nil, nil, nil, nil),
	}))

type pvFactory struct{}

func (pvFactory) Name() string                                             { return "scripted" }
func (pvFactory) DeploymentType() deployer.DeploymentType                  { return "builtin" }
func (pvFactory) ConfigurationSchema() *schema.TypedScopeSchema[*PVConfig] { return pvSchema }
func (pvFactory) Create(c *PVConfig, _ log.Logger) (deployer.Connector, error) {
	if c != nil && c.Note == "failcreate" {
		return nil, fmt.Errorf("scripted deployer creation failure")
	}
	return &pvConnector{}, nil
}

func pvDeployerRegistry() deployerregistry.Registry {
	return deployerregistry.New(deployer.Any(pvFactory{}))
}

type pvConnector struct{ inner sdConnector }

// pvDeadPlugin is a deployment whose ATP conversation fails at once (ReadSchema error).
type pvDeadPlugin struct {
	script *Script
	src    string
	once   sync.Once
}

func (p *pvDeadPlugin) Read(_ []byte) (int, error)  { return 0, io.ErrUnexpectedEOF }
func (p *pvDeadPlugin) Write(b []byte) (int, error) { return len(b), nil }
func (p *pvDeadPlugin) ID() string                  { return p.src }
func (p *pvDeadPlugin) Close() error {
	p.once.Do(func() {
		atomic.AddInt64(&p.script.deployed, -1)
		p.script.add("close", p.src, "", "", nil)
	})
	return nil
}

// pvMismatchSchema is what a deployment serves whose plugin differs from the one LoadSchema saw.
func pvMismatchSchema(mode string) *schema.CallableSchema {
	type strictIn struct {
		Must int64 `json:"must"`
	}
	in := schema.NewScopeSchema(schema.NewStructMappedObjectSchema[strictIn]("strict-input",
		map[string]*schema.PropertySchema{
			"must": schema.NewPropertySchema(schema.NewIntSchema(nil, nil, nil), nil, true, nil, nil, nil, nil, nil),
		}))
	h := func(_ context.Context, _ strictIn) (string, any) { return "success", OpOutput{S: "mismatch"} }
	if mode == "step-missing" {
		return schema.NewCallableSchema(schema.NewCallableStep[strictIn]("other", in, opOutputs(), nil, h))
	}
	return schema.NewCallableSchema(
		schema.NewCallableStep[strictIn]("op", in, opOutputs(), nil, h),
		schema.NewCallableStep[strictIn]("opns", in, opOutputs(), nil, h),
	)
}

func (c *pvConnector) Deploy(ctx context.Context, image string) (deployer.Plugin, error) {
	s := currentScript.Load()
	env := pvCurrentEnv.Load()
	if s == nil || env == nil || s.probe.Load() {
		return c.inner.Deploy(ctx, image)
	}
	b := s.get(image)
	if b.DeployDelayMs > 0 {
		if env.DeployIgnoreCtx {
			time.Sleep(time.Duration(b.DeployDelayMs) * time.Millisecond)
		} else {
			select {
			case <-time.After(time.Duration(b.DeployDelayMs) * time.Millisecond):
			case <-ctx.Done():
				s.add("deploy-fail", image, "", "ctx", nil)
				return nil, fmt.Errorf("deployment of %s aborted: %w", image, ctx.Err())
			}
		}
	}
	if b.DeployFail {
		s.add("deploy-fail", image, "", "scripted", nil)
		return nil, fmt.Errorf("scripted deployment failure of %s", image)
	}
	var sch *schema.CallableSchema
	switch env.StartMode {
	case "read-schema":
		atomic.AddInt64(&s.deployed, 1)
		s.add("deploy", image, "", "dead", nil)
		return &pvDeadPlugin{script: s, src: image}, nil
	case "step-missing", "input-mismatch":
		sch = pvMismatchSchema(env.StartMode)
	default:
		sch = pluginSchema(s, image)
	}
	stdinSub, stdinWriter := io.Pipe()
	stdoutReader, stdoutSub := io.Pipe()
	pluginCtx, cancel := context.WithCancel(context.Background())
	wg := &sync.WaitGroup{}
	wg.Add(1)
	go func() {
		defer wg.Done()
		_ = atp.RunATPServer(pluginCtx, stdinSub, stdoutSub, sch)
	}()
	atomic.AddInt64(&s.deployed, 1)
	s.add("deploy", image, "", env.StartMode, nil)
	pl := &sdPlugin{reader: stdoutReader, writer: stdinWriter, cancel: cancel, wg: wg, src: image, script: s}
	if env.Frozen {
		return &pvFrozenPlugin{sdPlugin: pl, gone: make(chan struct{})}, nil
	}
	return pl, nil
}

// ---- recording ------------------------------------------------------------------------------------------------------------------

type pvNotif struct {
	K        string  `json:"k"` // change | complete | fail
	Prev     *string `json:"prev"`
	Out      *string `json:"out"`
	Stage    string  `json:"stage,omitempty"`
	InAvail  bool    `json:"input_available,omitempty"`
	In       int64   `json:"t_in"`
	Ret      int64   `json:"t_ret"`
	State    string  `json:"state,omitempty"`     // State() sampled inside OnStepComplete
	CurStage string  `json:"cur_stage,omitempty"` // CurrentStage() sampled inside OnStepComplete
}

type pvCall struct {
	I        int    `json:"i"`
	Op       string `json:"op"` // provide | close | forceclose | final-forceclose
	Stage    string `json:"stage,omitempty"`
	Arg      any    `json:"arg,omitempty"`
	Valid    bool   `json:"valid"`  // the input is one the provider should accept when given for the first time
	Origin   string `json:"origin"` // script | async | handler | final
	TCall    int64  `json:"t_call"`
	TRet     int64  `json:"t_ret"`
	Returned bool   `json:"returned"`
	Err      string `json:"err"` // "" | refused | other
	ErrMsg   string `json:"err_msg,omitempty"`
	Panic    string `json:"panic,omitempty"`
}

type pvRecorder struct {
	clock  atomic.Int64
	mu     sync.Mutex
	notifs []*pvNotif
	calls  []*pvCall
	// re-entrant handler: stage -> input to provide from inside the notification that announces the stage
	reentrant map[string]map[string]any
	valid     map[string]bool
	async     sync.WaitGroup
	// closeInComplete: see pvCase.CloseInComplete
	closeInComplete string
}

func (r *pvRecorder) tick() int64 { return r.clock.Add(1) }

const pvCallTimeout = 3 * time.Second

func pvErrClass(err error) string {
	if err == nil {
		return ""
	}
	m := err.Error()
	if strings.Contains(m, "more than once") || strings.Contains(m, "provided twice") {
		return "refused"
	}
	return "other"
}

// call performs one API call with a watchdog; a call that does not come back within pvCallTimeout is "blocked".
func (r *pvRecorder) call(c *pvCall, fn func() error) {
	r.mu.Lock()
	c.I = len(r.calls)
	r.calls = append(r.calls, c)
	c.TCall = r.tick()
	r.mu.Unlock()
	done := make(chan struct{})
	go func() {
		defer close(done)
		defer func() {
			if p := recover(); p != nil {
				t := r.tick()
				r.mu.Lock()
				c.Panic = fmt.Sprintf("%v", p)
				c.TRet = t
				c.Returned = true
				r.mu.Unlock()
			}
		}()
		err := fn()
		t := r.tick()
		r.mu.Lock()
		c.TRet = t
		c.Returned = true
		c.Err = pvErrClass(err)
		if err != nil {
			c.ErrMsg = err.Error()
			if len(c.ErrMsg) > 160 {
				c.ErrMsg = c.ErrMsg[:160]
			}
		}
		r.mu.Unlock()
	}()
	select {
	case <-done:
	case <-time.After(pvCallTimeout):
	}
}

func (r *pvRecorder) provide(rs step.RunningStep, stage string, input map[string]any, arg any, valid bool, origin string) {
	c := &pvCall{Op: "provide", Stage: stage, Arg: arg, Valid: valid, Origin: origin}
	r.call(c, func() error { return rs.ProvideStageInput(stage, input) })
}

func (r *pvRecorder) record(n *pvNotif) *pvNotif {
	r.mu.Lock()
	n.In = r.tick()
	r.notifs = append(r.notifs, n)
	r.mu.Unlock()
	return n
}

func (r *pvRecorder) completed() bool {
	r.mu.Lock()
	defer r.mu.Unlock()
	for _, n := range r.notifs {
		if n.K == "complete" && n.Ret > 0 {
			return true
		}
	}
	return false
}

func (r *pvRecorder) ret(n *pvNotif) {
	t := r.tick()
	r.mu.Lock()
	n.Ret = t
	r.mu.Unlock()
}

func (r *pvRecorder) OnStageChange(rs step.RunningStep, prev *string, outID *string, _ *any, newStage string, inputAvailable bool, _ *sync.WaitGroup) {
	n := r.record(&pvNotif{K: "change", Prev: pvCopy(prev), Out: pvCopy(outID), Stage: newStage, InAvail: inputAvailable})
	if in, ok := r.reentrant[newStage]; ok && !inputAvailable {
		// as the real run loop does: the input of the stage just entered is provided from inside the notification
		r.provide(rs, newStage, in, "reentrant", r.valid[newStage], "handler")
	}
	r.ret(n)
}

func (r *pvRecorder) OnStepComplete(rs step.RunningStep, prev string, outID *string, _ *any, _ *sync.WaitGroup) {
	n := r.record(&pvNotif{K: "complete", Prev: &prev, Out: pvCopy(outID)})
	g := guarded(pvCallTimeout, func() {
		st, cs := string(rs.State()), rs.CurrentStage()
		r.mu.Lock()
		n.State, n.CurStage = st, cs
		r.mu.Unlock()
	})
	if g.Timeout {
		r.mu.Lock()
		n.State = "<State() blocked>"
		r.mu.Unlock()
	}
	if r.closeInComplete != "" {
		op := r.closeInComplete
		r.closeInComplete = ""
		done := make(chan struct{})
		r.async.Add(1)
		go func() {
			defer r.async.Done()
			defer close(done)
			c := &pvCall{Op: op, Origin: "handler", Valid: true}
			r.call(c, func() error {
				if op == "forceclose" {
					return rs.ForceClose()
				}
				return rs.Close()
			})
		}()
		select {
		case <-done:
		case <-time.After(150 * time.Millisecond):
		}
	}
	r.ret(n)
}

func (r *pvRecorder) OnStepStageFailure(_ step.RunningStep, stage string, _ *sync.WaitGroup, _ error) {
	n := r.record(&pvNotif{K: "fail", Stage: stage})
	r.ret(n)
}

func pvCopy(s *string) *string {
	if s == nil {
		return nil
	}
	c := *s
	return &c
}

// ---- cases --------------------------------------------------------------------------------------------------------------------------

type pvAction struct {
	Op      string `json:"op"`            // deploy | enabling | starting | cancelled | execute | close | forceclose
	Arg     any    `json:"arg,omitempty"` // enabling/cancelled: true|false|nil; starting: "valid"|"invalid"; execute: "ok"|"bad"|"big"
	DelayMs int    `json:"delay_ms"`
	Async   bool   `json:"async"`
}

type pvCase struct {
	ID         string               `json:"id"`
	Provider   string               `json:"provider"` // plugin | foreach
	Step       string               `json:"step"`     // op | opns
	Behaviour  Behaviour            `json:"behaviour"`
	Env        pvEnv                `json:"env"`
	Reentrant  []string             `json:"reentrant"`
	TimeoutMs  int                  `json:"closure_timeout_ms"`
	Items      int                  `json:"items,omitempty"`
	Parallel   int                  `json:"parallelism,omitempty"`
	Actions    []pvAction           `json:"actions"`
	Behaviours map[string]Behaviour `json:"behaviours,omitempty"`
	Targeted   string               `json:"targeted,omitempty"`
	// "close" | "forceclose": the completion callback starts that call on another goroutine and stays inside the callback
	// until the call has returned (at most 150 ms): a Close that overlaps with the completion of the step
	CloseInComplete string `json:"close_in_complete,omitempty"`
}

var pvDelays = []int{0, 0, 0, 1, 1, 5, 5, 20}

func pvTri(r *rng) any {
	switch r.intn(4) {
	case 0:
		return false
	case 1:
		return nil
	default:
		return true
	}
}

func genPluginCase(r *rng, id string) *pvCase {
	c := &pvCase{ID: id, Provider: "plugin", Step: "op", TimeoutMs: []int{20, 50}[r.intn(2)]}
	if r.chance(1, 4) {
		c.Step = "opns"
	}
	b := Behaviour{Outcome: []string{"success", "success", "success", "alt", "error", "crash", "hang", "hang"}[r.intn(8)]}
	b.DelayMs = []int{0, 0, 5, 20, 40}[r.intn(5)]
	if r.chance(1, 8) {
		b.DeployFail = true
	}
	if r.chance(1, 3) {
		b.DeployDelayMs = []int{5, 20}[r.intn(2)]
	}
	if b.Outcome == "hang" || r.chance(1, 4) {
		b.IgnoreCancel = r.chance(1, 2)
	}
	c.Behaviour = b
	c.Env = pvEnv{StartMode: "ok", DeployCfg: "local"}
	switch r.intn(12) {
	case 0:
		c.Env.StartMode = "read-schema"
	case 1:
		c.Env.StartMode = "step-missing"
	case 2:
		c.Env.StartMode = "input-mismatch"
	}
	switch r.intn(10) {
	case 0:
		c.Env.DeployCfg = "failcreate"
	case 1, 2:
		c.Env.DeployCfg = "registry"
	}
	if b.DeployDelayMs > 0 && r.chance(1, 2) {
		c.Env.DeployIgnoreCtx = true
	}
	// the stage inputs, each possibly twice, in a random order, with closes and stop requests sprinkled in
	acts := []pvAction{}
	add := func(op string, arg any) {
		acts = append(acts, pvAction{Op: op, Arg: arg})
	}
	reentrantOK := r.chance(1, 4)
	for _, st := range []string{"deploy", "enabling", "starting"} {
		if reentrantOK && r.chance(1, 2) {
			c.Reentrant = append(c.Reentrant, st)
			if r.chance(1, 3) {
				add(st, pvArgFor(r, st)) // and once more from outside: must be refused or win the race
			}
			continue
		}
		if r.chance(1, 10) {
			continue // never provided
		}
		add(st, pvArgFor(r, st))
		if r.chance(1, 4) {
			add(st, pvArgFor(r, st))
		}
	}
	if r.chance(1, 3) {
		add("cancelled", pvTri(r))
		if r.chance(1, 3) {
			add("cancelled", pvTri(r))
		}
	}
	nClose := []int{0, 0, 1, 1, 1, 2, 3}[r.intn(7)]
	for i := 0; i < nClose; i++ {
		if r.chance(1, 2) {
			add("close", nil)
		} else {
			add("forceclose", nil)
		}
	}
	// order: mostly lifecycle order, sometimes shuffled
	if r.chance(1, 4) {
		p := r.perm(len(acts))
		sh := make([]pvAction, len(acts))
		for i, j := range p {
			sh[i] = acts[j]
		}
		acts = sh
	} else {
		// move closes/cancels to random positions, keep the rest in order
		base, extra := []pvAction{}, []pvAction{}
		for _, a := range acts {
			if a.Op == "close" || a.Op == "forceclose" || a.Op == "cancelled" {
				extra = append(extra, a)
			} else {
				base = append(base, a)
			}
		}
		for _, a := range extra {
			k := r.intn(len(base) + 1)
			if k2 := r.intn(len(base) + 1); k2 > k {
				k = k2 // closes and stop requests tend to come late
			}
			base = append(base[:k], append([]pvAction{a}, base[k:]...)...)
		}
		acts = base
	}
	overlap := r.chance(1, 2)
	for i := range acts {
		acts[i].DelayMs = pvDelays[r.intn(len(pvDelays))]
		if overlap && r.chance(1, 2) {
			acts[i].Async = true
		}
	}
	c.Actions = acts
	return c
}

func pvArgFor(r *rng, stage string) any {
	switch stage {
	case "enabling":
		return pvTri(r)
	case "starting":
		if r.chance(1, 8) {
			return "invalid"
		}
		return "valid"
	case "execute":
		if r.chance(1, 8) {
			return "bad"
		}
		return "ok"
	}
	return nil
}

func genForeachCase(r *rng, id string) *pvCase {
	c := &pvCase{ID: id, Provider: "foreach", Items: 1 + r.intn(4), Parallel: 1 + r.intn(3)}
	c.Behaviours = map[string]Behaviour{}
	b := Behaviour{Outcome: []string{"success", "success", "success", "error", "crash", "hang"}[r.intn(6)]}
	b.DelayMs = []int{0, 5, 20}[r.intn(3)]
	c.Behaviour = b
	acts := []pvAction{}
	add := func(op string, arg any) { acts = append(acts, pvAction{Op: op, Arg: arg}) }
	for _, st := range []string{"enabling", "execute"} {
		if r.chance(1, 10) {
			continue
		}
		add(st, pvArgFor(r, st))
		if r.chance(1, 4) {
			add(st, pvArgFor(r, st))
		}
	}
	nClose := []int{0, 1, 1, 2}[r.intn(4)]
	for i := 0; i < nClose; i++ {
		if r.chance(1, 2) {
			add("close", nil)
		} else {
			add("forceclose", nil)
		}
	}
	if r.chance(1, 2) {
		p := r.perm(len(acts))
		sh := make([]pvAction, len(acts))
		for i, j := range p {
			sh[i] = acts[j]
		}
		acts = sh
	}
	overlap := r.chance(1, 2)
	for i := range acts {
		acts[i].DelayMs = pvDelays[r.intn(len(pvDelays))]
		if overlap && r.chance(1, 2) {
			acts[i].Async = true
		}
	}
	c.Actions = acts
	return c
}

// targetedCases: scripts for the paths and windows the random generator rarely hits.
func targetedCases(flood bool) []*pvCase {
	seqA := func(ops ...any) []pvAction {
		out := []pvAction{}
		for i := 0; i+1 < len(ops); i += 2 {
			a := pvAction{Op: ops[i].(string), Arg: ops[i+1]}
			out = append(out, a)
		}
		return out
	}
	withDelay := func(a []pvAction, idx, ms int) []pvAction { a[idx].DelayMs = ms; return a }
	okEnv := pvEnv{StartMode: "ok", DeployCfg: "local"}
	mk := func(name, stp string, b Behaviour, env pvEnv, acts []pvAction) *pvCase {
		return &pvCase{ID: "T-" + name, Targeted: name, Provider: "plugin", Step: stp, Behaviour: b, Env: env, TimeoutMs: 30, Actions: acts}
	}
	full := func() []pvAction { return seqA("deploy", nil, "enabling", true, "starting", "valid") }
	closeIn := func(c *pvCase, op string) *pvCase { c.CloseInComplete = op; return c }
	cs := []*pvCase{
		mk("closed-waiting-deploy", "op", Behaviour{Outcome: "success"}, okEnv, seqA("close", nil)),
		mk("deploy-failed-create", "op", Behaviour{Outcome: "success"}, pvEnv{StartMode: "ok", DeployCfg: "failcreate"}, seqA("deploy", nil)),
		mk("deploy-failed-deploy", "op", Behaviour{Outcome: "success", DeployFail: true}, okEnv, seqA("deploy", nil)),
		mk("deploy-aborted-by-close", "op", Behaviour{Outcome: "success", DeployDelayMs: 30}, okEnv,
			withDelay(seqA("deploy", nil, "close", nil), 1, 5)),
		mk("closed-after-deploy", "op", Behaviour{Outcome: "success", DeployDelayMs: 30},
			pvEnv{StartMode: "ok", DeployCfg: "local", DeployIgnoreCtx: true}, withDelay(seqA("deploy", nil, "close", nil), 1, 5)),
		mk("closed-waiting-enable", "op", Behaviour{Outcome: "success"}, okEnv, withDelay(seqA("deploy", nil, "close", nil), 1, 5)),
		mk("disabled", "op", Behaviour{Outcome: "success"}, okEnv, seqA("deploy", nil, "enabling", false)),
		// Close / ForceClose overlapping with the completion of a step that does not end in plain success (the provider still
		// has failure notifications to send after the completion report): none of them may start after the call returned
		closeIn(mk("close-during-completion:deploy-failed", "op", Behaviour{Outcome: "success", DeployFail: true}, okEnv, seqA("deploy", nil)), "close"),
		closeIn(mk("forceclose-during-completion:deploy-failed", "op", Behaviour{Outcome: "success", DeployFail: true}, okEnv, seqA("deploy", nil)), "forceclose"),
		closeIn(mk("close-during-completion:disabled", "op", Behaviour{Outcome: "success"}, okEnv, seqA("deploy", nil, "enabling", false)), "close"),
		closeIn(mk("close-during-completion:crashed", "op", Behaviour{Outcome: "crash"}, okEnv, full()), "close"),
		closeIn(mk("close-during-completion:error", "op", Behaviour{Outcome: "error"}, okEnv, full()), "close"),
		mk("closed-waiting-start", "op", Behaviour{Outcome: "success"}, okEnv,
			withDelay(seqA("deploy", nil, "enabling", true, "forceclose", nil), 2, 5)),
		mk("start-failed-read-schema", "op", Behaviour{Outcome: "success"}, pvEnv{StartMode: "read-schema", DeployCfg: "local"}, full()),
		mk("start-failed-step-missing", "op", Behaviour{Outcome: "success"}, pvEnv{StartMode: "step-missing", DeployCfg: "local"}, full()),
		mk("start-failed-input-mismatch", "op", Behaviour{Outcome: "success"}, pvEnv{StartMode: "input-mismatch", DeployCfg: "local"}, full()),
		mk("run-ok-success", "op", Behaviour{Outcome: "success"}, okEnv, full()),
		mk("run-ok-alt", "opns", Behaviour{Outcome: "alt"}, okEnv, full()),
		mk("run-ok-error-output", "op", Behaviour{Outcome: "error"}, okEnv, full()),
		mk("run-error-crash", "op", Behaviour{Outcome: "crash"}, okEnv, full()),
		mk("cancel-result-ok", "op", Behaviour{Outcome: "hang"}, okEnv,
			withDelay(append(full(), pvAction{Op: "cancelled", Arg: true}), 3, 10)),
		mk("close-while-running", "op", Behaviour{Outcome: "hang"}, okEnv,
			withDelay(append(full(), pvAction{Op: "close"}), 3, 10)),
		mk("cancel-result-error", "op", Behaviour{Outcome: "crash", DelayMs: 20, IgnoreCancel: true}, okEnv,
			withDelay(append(full(), pvAction{Op: "close"}), 3, 8)),
		mk("cancel-timeout", "op", Behaviour{Outcome: "hang", IgnoreCancel: true}, okEnv,
			withDelay(append(full(), pvAction{Op: "close"}), 3, 10)),
		mk("forced-no-handler", "opns", Behaviour{Outcome: "hang"}, okEnv,
			withDelay(append(full(), pvAction{Op: "forceclose"}), 3, 10)),
		// stop request while a step WITHOUT cancel signal handler runs (regression detector for 691f1ef: cancelStep used to
		// dereference the nil handler)
		mk("stop-without-cancel-handler", "opns", Behaviour{Outcome: "hang"}, okEnv,
			withDelay(append(full(), pvAction{Op: "cancelled", Arg: true}), 3, 10)),
		mk("stop-before-start-with-early-input", "op", Behaviour{Outcome: "success", DeployDelayMs: 20}, okEnv,
			seqA("enabling", true, "starting", "valid", "cancelled", true, "deploy", nil)),
		mk("double-everything", "op", Behaviour{Outcome: "success", DelayMs: 5}, okEnv,
			seqA("deploy", nil, "deploy", nil, "enabling", true, "enabling", false, "starting", "valid", "starting", "valid",
				"cancelled", false, "cancelled", nil, "close", nil, "close", nil, "forceclose", nil)),
		mk("concurrent-closes", "op", Behaviour{Outcome: "hang", IgnoreCancel: true}, okEnv, func() []pvAction {
			a := append(full(), pvAction{Op: "close", Async: true, DelayMs: 5}, pvAction{Op: "forceclose", Async: true},
				pvAction{Op: "close", Async: true}, pvAction{Op: "forceclose", Async: true, DelayMs: 1})
			return a
		}()),
		mk("reentrant-all", "op", Behaviour{Outcome: "success", DelayMs: 5}, okEnv, seqA()),
	}
	_ = flood // kept as a flag for compatibility; the script is cheap now and always runs
	{
		// regression detector for the stop-once repair: repeated stop requests against a plugin that has stopped reading
		// its input.  The stop condition is accepted once (the others are refused), so at most two cancel signals (this
		// one and run()'s own) ever sit in signalToStep.  Before the repair the ATP write loop blocked on the first
		// signal, ten more fitted into signalToStep and the twelfth send blocked inside ProvideStageInput with r.lock held.
		cs = append(cs, mk("cancel-flood-frozen-plugin", "op", Behaviour{Outcome: "hang", IgnoreCancel: true},
			pvEnv{StartMode: "ok", DeployCfg: "local", Frozen: true}, func() []pvAction {
				a := full()
				for i := 0; i < 12; i++ {
					d := 0
					if i == 0 {
						d = 10
					}
					a = append(a, pvAction{Op: "cancelled", Arg: true, DelayMs: d})
				}
				return a
			}()))
	}
	for _, c := range cs {
		if c.Targeted == "reentrant-all" {
			c.Reentrant = []string{"deploy", "enabling", "starting"}
		}
	}
	fe := func(name string, b Behaviour, items int, acts []pvAction) *pvCase {
		return &pvCase{ID: "T-foreach-" + name, Targeted: "foreach-" + name, Provider: "foreach", Behaviour: b, Items: items, Parallel: 2, Actions: acts}
	}
	cs = append(cs,
		fe("items-ok", Behaviour{Outcome: "success"}, 3, seqA("enabling", true, "execute", "ok")),
		fe("items-failed", Behaviour{Outcome: "crash"}, 2, seqA("enabling", nil, "execute", "ok")),
		fe("disabled", Behaviour{Outcome: "success"}, 1, seqA("enabling", false, "execute", "ok")),
		fe("closed-waiting-enable", Behaviour{Outcome: "success"}, 1, withDelay(seqA("close", nil), 0, 5)),
		// regression detector for F10e (c9cdc4d): Close right after Start, before run() has executed anything
		fe("close-right-after-start", Behaviour{Outcome: "success"}, 1, seqA("close", nil)),
		// closed while waiting for the execute input (F10b, 2e2fefe: must report closedEarly)
		fe("closed-waiting-execute", Behaviour{Outcome: "success"}, 1, withDelay(seqA("enabling", true, "close", nil), 1, 5)),
		// regression detector for F10c (c9cdc4d): Close must not close executeInput while a provider that passed the
		// closed check is still validating items
		fe("send-on-closed-channel", Behaviour{Outcome: "success"}, 1, []pvAction{
			{Op: "enabling", Arg: true}, {Op: "execute", Arg: "big", Async: true, DelayMs: 5}, {Op: "close", DelayMs: 1}}),
		fe("send-on-closed-channel-2000-items", Behaviour{Outcome: "success"}, 2000, []pvAction{
			{Op: "enabling", Arg: true}, {Op: "execute", Arg: "big", Async: true, DelayMs: 5}, {Op: "close", DelayMs: 0}}),
		fe("close-while-executing", Behaviour{Outcome: "hang"}, 3, withDelay(seqA("enabling", true, "execute", "ok", "close", nil), 2, 10)),
		fe("double-everything", Behaviour{Outcome: "success", DelayMs: 5}, 2,
			seqA("enabling", true, "enabling", true, "execute", "ok", "execute", "ok", "close", nil, "forceclose", nil)),
		fe("provide-after-close", Behaviour{Outcome: "success"}, 1,
			seqA("close", nil, "enabling", true, "enabling", true, "execute", "ok", "execute", "ok")),
	)
	return cs
}

// ---- execution -------------------------------------------------------------------------------------------------------------------

const pvSubWorkflow = `version: v0.2.0
input:
  root: RootObject
  objects:
    RootObject:
      id: RootObject
      properties:
        s:
          type: {type_id: string}
          required: true
steps:
  a:
    plugin: {src: feitem, deployment_type: "builtin"}
    step: op
    input:
      s: !expr $.input.s
outputs:
  success:
    s: !expr $.steps.a.outputs.success.s
`

func pvStartPlugin(c *pvCase, s *Script, rec *pvRecorder) (step.RunningStep, int, error) {
	s.set("pv", c.Behaviour)
	pp, err := plugin.New(quietLogger(), pvDeployerRegistry(), localDeployers)
	if err != nil {
		return nil, 0, err
	}
	s.probe.Store(true)
	rn, err := pp.LoadSchema(map[string]any{"plugin": map[string]any{"src": "pv", "deployment_type": "builtin"}}, nil)
	s.probe.Store(false)
	if err != nil {
		return nil, 0, err
	}
	env := c.Env
	pvCurrentEnv.Store(&env)
	base := pvSettle()
	rs, err := rn.Start(map[string]any{"step": c.Step}, "run-"+c.ID, rec)
	return rs, base, err
}

func pvStartForeach(c *pvCase, s *Script, rec *pvRecorder) (step.RunningStep, int, error) {
	s.set("feitem", c.Behaviour)
	reg, f, err := newRegistry(nil)
	if err != nil {
		return nil, 0, err
	}
	_ = reg
	fp, err := foreach.New(quietLogger(), f.yaml, f.exec)
	if err != nil {
		return nil, 0, err
	}
	s.probe.Store(true)
	rn, err := fp.LoadSchema(map[string]any{"workflow": "sub.yaml"}, map[string][]byte{"sub.yaml": []byte(pvSubWorkflow)})
	s.probe.Store(false)
	if err != nil {
		return nil, 0, err
	}
	pvCurrentEnv.Store(nil)
	base := pvSettle()
	rs, err := rn.Start(map[string]any{}, "run-"+c.ID, rec)
	return rs, base, err
}

// pvSettle waits for the goroutines of the preparation to go away and returns the baseline.
func pvSettle() int {
	n := runtime.NumGoroutine()
	for i := 0; i < 40; i++ {
		time.Sleep(500 * time.Microsecond)
		m := runtime.NumGoroutine()
		if m == n && i >= 2 {
			break
		}
		n = m
	}
	return n
}

func pvInput(c *pvCase, a pvAction) (stage string, in map[string]any, valid bool) {
	switch a.Op {
	case "deploy":
		switch c.Env.DeployCfg {
		case "registry":
			return "deploy", map[string]any{"deploy": map[string]any{"deployer_name": "scripted"}}, true
		case "failcreate":
			return "deploy", map[string]any{"deploy": map[string]any{"deployer_name": "scripted", "note": "failcreate"}}, true
		}
		return "deploy", map[string]any{"deploy": nil}, true
	case "enabling":
		return "enabling", map[string]any{"enabled": a.Arg}, true
	case "starting":
		if a.Arg == "invalid" {
			return "starting", map[string]any{"input": map[string]any{"i": "not-an-int"}, "closure_wait_timeout": int64(c.TimeoutMs)}, false
		}
		return "starting", map[string]any{"input": map[string]any{"s": "x"}, "closure_wait_timeout": int64(c.TimeoutMs)}, true
	case "cancelled":
		return "cancelled", map[string]any{"stop_if": a.Arg}, true
	case "execute":
		n := c.Items
		if a.Arg == "big" && n < 100 {
			n = 60000
		}
		items := make([]any, n)
		for i := range items {
			items[i] = map[string]any{"s": fmt.Sprintf("item%d", i)}
		}
		if a.Arg == "bad" {
			items[len(items)-1] = map[string]any{"nope": int64(1)}
			return "execute", map[string]any{"items": items, "parallelism": int64(c.Parallel)}, false
		}
		return "execute", map[string]any{"items": items, "parallelism": int64(c.Parallel)}, true
	}
	return a.Op, nil, true
}

func runProviderCase(c *pvCase) map[string]any {
	s := newScript()
	currentScript.Store(s)
	rec := &pvRecorder{reentrant: map[string]map[string]any{}, valid: map[string]bool{}, closeInComplete: c.CloseInComplete}
	for _, st := range c.Reentrant {
		_, in, v := pvInput(c, pvAction{Op: st, Arg: map[string]any{"enabling": true, "starting": "valid"}[st]})
		rec.reentrant[st] = in
		rec.valid[st] = v
	}
	out := map[string]any{"kind": "provider", "id": c.ID, "case": c, "provider": c.Provider}
	keyCase := *c
	keyCase.ID = ""
	if kb, err := json.Marshal(keyCase); err == nil {
		out["key"] = string(kb)
	}
	var rs step.RunningStep
	var base int
	var err error
	t0 := time.Now()
	g := guarded(20*time.Second, func() {
		if c.Provider == "foreach" {
			rs, base, err = pvStartForeach(c, s, rec)
		} else {
			rs, base, err = pvStartPlugin(c, s, rec)
		}
	})
	if g.Timeout || g.Panic != "" || err != nil {
		out["skip"] = fmt.Sprintf("could not start: timeout=%v panic=%q err=%v", g.Timeout, g.Panic, err)
		return out
	}
	type prepared struct {
		stage string
		in    map[string]any
		valid bool
	}
	preps := make([]prepared, len(c.Actions))
	for i, a := range c.Actions {
		st, in, v := pvInput(c, a)
		preps[i] = prepared{st, in, v}
	}
	hasClose := false
	for i, a := range c.Actions {
		if a.DelayMs > 0 {
			time.Sleep(time.Duration(a.DelayMs) * time.Millisecond)
		}
		a, p := a, preps[i]
		do := func(origin string) {
			switch a.Op {
			case "close":
				rec.call(&pvCall{Op: "close", Origin: origin, Valid: true}, rs.Close)
			case "forceclose":
				rec.call(&pvCall{Op: "forceclose", Origin: origin, Valid: true}, rs.ForceClose)
			default:
				rec.provide(rs, p.stage, p.in, a.Arg, p.valid, origin)
			}
		}
		if a.Op == "close" || a.Op == "forceclose" {
			hasClose = true
		}
		if a.Async {
			rec.async.Add(1)
			go func() {
				defer rec.async.Done()
				do("async")
			}()
		} else {
			do("script")
		}
	}
	asyncDone := guarded(pvCallTimeout+time.Second, rec.async.Wait)
	// give the step the time to finish on its own, then close it: closing must always be possible and must return
	settle := 40 + c.Behaviour.DelayMs + c.Behaviour.DeployDelayMs
	if c.Provider == "foreach" {
		settle = 60 + c.Behaviour.DelayMs*(c.Items+1)
	}
	if hasClose {
		settle = 5
	}
	deadline := time.Now().Add(time.Duration(settle) * time.Millisecond)
	for time.Now().Before(deadline) && !rec.completed() {
		time.Sleep(500 * time.Microsecond)
	}
	rec.call(&pvCall{Op: "final-forceclose", Origin: "final", Valid: true}, rs.ForceClose)
	delta := goroutineDeltaWithin(base, 400*time.Millisecond)
	time.Sleep(2 * time.Millisecond)
	var finalState, finalStage string
	gs := guarded(pvCallTimeout, func() { finalState, finalStage = string(rs.State()), rs.CurrentStage() })
	if gs.Timeout {
		finalState = "<State() blocked>"
	}
	rec.mu.Lock()
	notifs := make([]pvNotif, len(rec.notifs))
	for i, n := range rec.notifs {
		notifs[i] = *n
	}
	calls := make([]pvCall, len(rec.calls))
	for i, cl := range rec.calls {
		calls[i] = *cl
	}
	rec.mu.Unlock()
	firstCloseRet := int64(-1)
	blocked := 0
	for _, cl := range calls {
		if !cl.Returned {
			blocked++
		}
		if (cl.Op == "close" || cl.Op == "forceclose" || cl.Op == "final-forceclose") && cl.Returned && cl.Panic == "" {
			if firstCloseRet < 0 || cl.TRet < firstCloseRet {
				firstCloseRet = cl.TRet
			}
		}
	}
	late := 0
	for _, n := range notifs {
		if firstCloseRet >= 0 && n.In > firstCloseRet {
			late++
		}
	}
	out["declared_outputs"] = sortedKeys(opOutputs())
	out["calls"] = calls
	out["trace"] = notifs
	out["first_close_ret"] = firstCloseRet
	out["late_notifications"] = late
	out["blocked_calls"] = blocked
	out["async_done"] = !asyncDone.Timeout
	out["final_state"] = finalState
	out["final_stage"] = finalStage
	out["balance"] = s.balance()
	out["goroutine_delta"] = delta
	out["elapsed_ms"] = time.Since(t0).Milliseconds()
	if delta > 0 || blocked > 0 {
		out["goroutines"] = goroutineDump()
	}
	lg := s.snapshot()
	evs := []string{}
	for _, e := range lg {
		ev := e.Ev
		if e.Out != "" {
			ev += ":" + e.Out
		}
		evs = append(evs, ev)
	}
	out["plugin_log"] = evs
	return out
}

func goroutineDeltaWithin(base int, d time.Duration) int {
	deadline := time.Now().Add(d)
	for {
		n := runtime.NumGoroutine()
		if n <= base || time.Now().After(deadline) {
			return n - base
		}
		time.Sleep(2 * time.Millisecond)
	}
}

func cmdProvider(args []string) int {
	var which, only string
	var targeted, flood bool
	var repeat int
	c, _ := parseCommon("provider", args, func(fs *flag.FlagSet) {
		fs.StringVar(&which, "provider", "both", "plugin | foreach | both")
		fs.BoolVar(&targeted, "targeted", true, "run the targeted scripts first")
		fs.StringVar(&only, "only", "", "run only the targeted script of that name")
		fs.IntVar(&repeat, "repeat", 1, "repetitions of every targeted script")
		fs.BoolVar(&flood, "flood", false, "(no-op, kept for compatibility) the cancel-flood script always runs")
	})
	w := openOut(c.out)
	defer w.close()
	r := newRng(envSeed(c.seed))
	if targeted || only != "" {
		for _, tc := range targetedCases(flood) {
			if only != "" && tc.Targeted != only {
				continue
			}
			if which != "both" && which != tc.Provider {
				continue
			}
			for k := 0; k < repeat; k++ {
				cc := *tc
				if repeat > 1 {
					cc.ID = fmt.Sprintf("%s#%d", tc.ID, k)
				}
				w.emit(runProviderCase(&cc))
			}
		}
		if only != "" {
			return 0
		}
	}
	for i := 0; i < c.n; i++ {
		cr := r.fork()
		var pc *pvCase
		id := fmt.Sprintf("pv-%d-%d", c.seed, i)
		switch {
		case which == "foreach", which == "both" && i%4 == 3:
			pc = genForeachCase(cr, id)
		default:
			pc = genPluginCase(cr, id)
		}
		w.emit(runProviderCase(pc))
	}
	return 0
}

var _ = errors.New
