//go:build verif

// vharness is the implementation side of the correspondence checks. It is injected into the engine module with
// `go build -overlay` (so it may import internal/...) and is never part of /repo.
package main

import (
	"bufio"
	"encoding/json"
	"flag"
	"fmt"
	"os"
	"strconv"
)

type cmdFunc func(args []string) int

var commands = map[string]cmdFunc{}

func register(name string, f cmdFunc) { commands[name] = f }

// common flags
type common struct {
	seed uint64
	n    int
	tier string
	out  string
	skip int // cases [0, skip) are generated (to keep the stream deterministic) but not run
}

func parseCommon(name string, args []string, extra func(fs *flag.FlagSet)) (*common, *flag.FlagSet) {
	fs := flag.NewFlagSet(name, flag.ExitOnError)
	c := &common{}
	fs.Uint64Var(&c.seed, "seed", 1, "PRNG seed")
	fs.IntVar(&c.n, "n", 50, "number of cases")
	fs.StringVar(&c.tier, "tier", "quick", "quick|thorough")
	fs.StringVar(&c.out, "out", "-", "output file (JSON lines), - for stdout")
	fs.IntVar(&c.skip, "skip", 0, "do not run the first k cases (continuation after a crash)")
	if extra != nil {
		extra(fs)
	}
	_ = fs.Parse(args)
	return c, fs
}

type lineWriter struct {
	f *os.File
	w *bufio.Writer
}

func openOut(path string) *lineWriter {
	if path == "-" || path == "" {
		return &lineWriter{f: nil, w: bufio.NewWriterSize(os.Stdout, 1<<20)}
	}
	f, err := os.Create(path)
	if err != nil {
		fmt.Fprintln(os.Stderr, "cannot open output:", err)
		os.Exit(2)
	}
	return &lineWriter{f: f, w: bufio.NewWriterSize(f, 1<<20)}
}

func (l *lineWriter) emit(v any) {
	b, err := json.Marshal(v)
	if err != nil {
		b, _ = json.Marshal(map[string]any{"kind": "harness-error", "error": err.Error()})
	}
	_, _ = l.w.Write(b)
	_ = l.w.WriteByte('\n')
	_ = l.w.Flush()
}

func (l *lineWriter) close() {
	_ = l.w.Flush()
	if l.f != nil {
		_ = l.f.Close()
	}
}

func envSeed(def uint64) uint64 {
	if s := os.Getenv("VERIF_SEED"); s != "" {
		if v, err := strconv.ParseUint(s, 10, 64); err == nil {
			return v
		}
	}
	return def
}

func main() {
	if len(os.Args) < 2 {
		fmt.Fprintln(os.Stderr, "usage: vharness <command> [flags]")
		for k := range commands {
			fmt.Fprintln(os.Stderr, "  ", k)
		}
		os.Exit(2)
	}
	f, ok := commands[os.Args[1]]
	if !ok {
		fmt.Fprintln(os.Stderr, "unknown command", os.Args[1])
		os.Exit(2)
	}
	os.Exit(f(os.Args[2:]))
}
