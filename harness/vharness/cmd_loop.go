//go:build verif

package main

import (
	"context"
	"flag"
	"fmt"
	"runtime"
	"sort"
	"sync"
	"time"

	"go.flow.arcalot.io/engine/internal/step"
	"go.flow.arcalot.io/engine/internal/step/plugin"
	"go.flow.arcalot.io/pluginsdk/schema"
)

func init() { register("loop", cmdLoop) }

// ---- run-loop differential -----------------------------------------------------------------------------------------------
//
// The real providers are wrapped so that everything up to and including Prepare is real (schema probe, lifecycles,
// DAG), but `Start` returns a stub running step.  The harness then delivers one callback at a time from a single
// goroutine; the real loopState reacts synchronously inside the callback.  The case written out contains the real
// prepared DAG, the linear event history and what the loop did after each event; `arcadrv loop` folds
// Arca.Model.react over the same history and compares.

type stubProvider struct {
	step.Provider
	h *loopCase
}

func (p stubProvider) LoadSchema(inputs map[string]any, ctx map[string][]byte) (step.RunnableStep, error) {
	rs, err := p.Provider.LoadSchema(inputs, ctx)
	if err != nil {
		return nil, err
	}
	return &stubRunnable{RunnableStep: rs, h: p.h, kind: p.Provider.Kind()}, nil
}

type stubRunnable struct {
	step.RunnableStep
	h    *loopCase
	kind string
}

func (r *stubRunnable) Start(_ map[string]any, runID string, handler step.StageChangeHandler) (step.RunningStep, error) {
	s := &stubStep{id: runID, handler: handler, h: r.h, kind: r.kind, provided: map[string]map[string]any{},
		finished: make(chan struct{})}
	r.h.mu.Lock()
	r.h.stubs[runID] = s
	r.h.mu.Unlock()
	return s, nil
}

type provideRec struct {
	Event int    `json:"event"`
	Step  string `json:"step"`
	Stage string `json:"stage"`
	Input any    `json:"input"`
}

type loopCase struct {
	mu       sync.Mutex
	stubs    map[string]*stubStep
	provides []provideRec
	event    int
	polled   map[string]step.RunningStepState // State() answers given during the current callback
	ticks    []tickPoll                       // State() answers given outside callbacks (detector retries)
	closing  chan string                      // step ids in the order ForceClose was called on them
	wg       sync.WaitGroup
}

type tickPoll struct {
	at    time.Time
	state step.RunningStepState
}

type stubStep struct {
	id       string
	kind     string
	handler  step.StageChangeHandler
	h        *loopCase
	provided map[string]map[string]any
	done     bool
	pc       int
	plan     []stubAction
	finished chan struct{}
	finOnce  sync.Once
	closeReq bool
	stage    string
}

// finish releases ForceClose callers: the step's goroutine has made its last callback.
func (s *stubStep) finish() { s.finOnce.Do(func() { close(s.finished) }) }

func (s *stubStep) ProvideStageInput(stage string, input map[string]any) error {
	s.h.mu.Lock()
	defer s.h.mu.Unlock()
	s.provided[stage] = input
	s.h.provides = append(s.h.provides, provideRec{Event: s.h.event, Step: s.id, Stage: stage, Input: encVal(input)})
	return nil
}
// CurrentStage: like the real providers, the stub changes its stage before it reports the change (deliver).
func (s *stubStep) CurrentStage() string {
	s.h.mu.Lock()
	defer s.h.mu.Unlock()
	return s.stage
}
func (s *stubStep) State() step.RunningStepState {
	s.h.mu.Lock()
	defer s.h.mu.Unlock()
	st := step.RunningStepStateRunning
	switch {
	case s.done:
		st = step.RunningStepStateFinished
	case s.pc < len(s.plan) && s.plan[s.pc].waitFor != "":
		if _, ok := s.provided[s.plan[s.pc].waitFor]; !ok {
			st = step.RunningStepStateWaitingForInput
		}
	}
	if s.h.polled != nil {
		s.h.polled[s.id] = st
	} else {
		s.h.ticks = append(s.h.ticks, tickPoll{at: time.Now(), state: st})
	}
	return st
}
func (s *stubStep) Close() error { return s.ForceClose() }

// ForceClose behaves like the real providers': it returns only when the step has made its last callback.
func (s *stubStep) ForceClose() error {
	s.h.mu.Lock()
	first := !s.closeReq
	s.closeReq = true
	s.h.mu.Unlock()
	if first {
		s.h.closing <- s.id
	}
	select {
	case <-s.finished:
	case <-time.After(20 * time.Second):
	}
	return nil
}

// stubAction is one step of a stub's script: wait for a stage input, or deliver one callback.
type stubAction struct {
	waitFor string // non-empty: block until this stage's input was provided
	kind    string // change | complete | fail
	prev    string // "" = nil previous stage
	stage   string // new stage (change) / failed stage (fail)
	outID   string
	out     any
}

func chg(prev, stage, outID string, out any) stubAction {
	return stubAction{kind: "change", prev: prev, stage: stage, outID: outID, out: out}
}
func cmpl(prev, outID string, out any) stubAction {
	return stubAction{kind: "complete", prev: prev, outID: outID, out: out}
}
func fail(stage string) stubAction { return stubAction{kind: "fail", stage: stage} }
func wait(stage string) stubAction { return stubAction{waitFor: stage} }

func fails(stages ...string) []stubAction {
	out := []stubAction{}
	for _, s := range stages {
		out = append(out, fail(s))
	}
	return out
}

// pluginPlan is the callback sequence of internal/step/plugin's running step for one scripted outcome
// (the sequences are the G3 skeletons of provider.go; the C12 check ties them to the real provider).
func pluginPlan(outcome string, enabledInputFalse bool, id string) []stubAction {
	p := []stubAction{chg("", "deploy", "", nil)}
	if outcome == "closed_deploy" {
		// closedEarly(StageIDEnabling, true): context done while waiting for the deploy input
		p = append(p, fail("deploy"), cmpl("closed", "result", map[any]any{"cancelled": false, "close_requested": true}))
		p = append(p, fails("enabling", "disabled", "starting", "running", "outputs")...)
		return p
	}
	p = append(p, wait("deploy"))
	if outcome == "closed_after_deploy" {
		// closedEarly(StageIDEnabling, false): context done right after a successful deployment
		p = append(p, chg("deploy", "closed", "", nil),
			cmpl("closed", "result", map[any]any{"cancelled": false, "close_requested": true}))
		p = append(p, fails("enabling", "disabled", "starting", "running", "outputs")...)
		return p
	}
	if outcome == "deploy_fail" {
		p = append(p, chg("deploy", "deploy_failed", "", nil),
			cmpl("deploy_failed", "error", plugin.DeployFailed{Error: "scripted"}))
		p = append(p, fails("enabling", "disabled", "starting", "running", "outputs", "closed")...)
		return p
	}
	p = append(p, chg("deploy", "enabling", "", nil))
	if outcome != "closed_enabling" {
		p = append(p, wait("enabling"))
	}
	if outcome == "closed_enabling" || outcome == "closed_enabling_late" {
		// closedEarly(StageIDStarting, true)
		p = append(p, fail("enabling"),
			cmpl("closed", "result", map[any]any{"cancelled": false, "close_requested": true}))
		p = append(p, fails("starting", "running", "outputs")...)
		return p
	}
	if enabledInputFalse {
		p = append(p, chg("enabling", "disabled", "resolved", map[any]any{"enabled": false}),
			cmpl("disabled", "output", map[any]any{"message": fmt.Sprintf("Step %s/op disabled", id)}))
		p = append(p, fails("starting", "running", "outputs", "closed")...)
		return p
	}
	p = append(p, fail("disabled"), chg("enabling", "starting", "resolved", map[any]any{"enabled": true}))
	if outcome == "hold" {
		// the plugin runs until it is closed: modelled as a step that never gets past a wait only ForceClose ends
		return append(p, wait("starting"), wait("hold"))
	}
	if outcome != "closed_starting" {
		p = append(p, wait("starting"))
	}
	switch outcome {
	case "closed_starting", "closed_starting_late":
		// closedEarly(StageIDRunning, true)
		p = append(p, fail("starting"),
			cmpl("closed", "result", map[any]any{"cancelled": true, "close_requested": false}))
		p = append(p, fails("running", "outputs")...)
		return p
	case "start_fail":
		p = append(p, fail("starting"), cmpl("crashed", "error", plugin.Crashed{Output: "scripted start failure"}))
		p = append(p, fails("running", "outputs", "closed")...)
		return p
	}
	p = append(p, chg("starting", "running", "started", map[any]any{}))
	switch outcome {
	case "crash":
		p = append(p, chg("running", "crashed", "", nil),
			cmpl("crashed", "error", plugin.Crashed{Output: "scripted crash"}))
		p = append(p, fails("outputs", "closed")...)
	case "error":
		p = append(p, chg("running", "outputs", "", nil),
			cmpl("outputs", "error", map[any]any{"reason": "scripted failure of " + id}))
	case "alt":
		p = append(p, chg("running", "outputs", "", nil),
			cmpl("outputs", "alt", map[any]any{"s": "alt-" + id, "i": int64(3), "b": false}))
	default:
		p = append(p, chg("running", "outputs", "", nil),
			cmpl("outputs", "success", map[any]any{"s": "out-" + id, "i": int64(len(id)), "b": id[len(id)-1]%2 == 0}))
	}
	return p
}

var pluginOutcomes = []string{"success", "success", "success", "success", "error", "alt", "crash", "deploy_fail",
	"start_fail", "closed_deploy", "closed_after_deploy", "closed_enabling", "closed_enabling_late", "closed_starting",
	"closed_starting_late"}

type loopEvent struct {
	E       string `json:"e"`
	Input   any    `json:"input,omitempty"`
	Step    string `json:"step,omitempty"`
	Prev    *string `json:"prev,omitempty"`
	Stage   string `json:"stage,omitempty"`
	Out     []any  `json:"out,omitempty"`
	Busy    bool   `json:"busy"`
	Retries int    `json:"retries,omitempty"`
	// Complete: the callback was OnStepComplete (the step is complete: onStageComplete gets newStage == nil and marks
	// the stages the step did not go through as unresolvable); false/absent: OnStageChange.
	Complete bool `json:"complete,omitempty"`
}

// deliver performs one callback on the real handler.
func (s *stubStep) deliver(a stubAction) {
	switch a.kind {
	case "change":
		var prev *string
		if a.prev != "" {
			prev = &a.prev
		}
		var oid *string
		var out *any
		if a.outID != "" {
			oid = &a.outID
			out = &a.out
		}
		s.h.mu.Lock()
		s.stage = a.stage
		s.h.mu.Unlock()
		s.handler.OnStageChange(s, prev, oid, out, a.stage, false, &s.h.wg)
	case "complete":
		var oid *string
		var out *any
		if a.outID != "" {
			oid = &a.outID
			out = &a.out
		}
		s.handler.OnStepComplete(s, a.prev, oid, out, &s.h.wg)
	case "fail":
		s.handler.OnStepStageFailure(s, a.stage, &s.h.wg, fmt.Errorf("scripted"))
	}
}

type loopResult struct {
	OutputID string `json:"output_id"`
	Data     any    `json:"data"`
	Err      string `json:"err"`
	ErrClass string `json:"err_class"`
	Returned bool   `json:"returned"`
}

func busyOf(polls []tickPoll) bool {
	for _, p := range polls {
		if p.state == step.RunningStepStateRunning || p.state == step.RunningStepStateStarting {
			return true
		}
	}
	return false
}

func runLoopCase(r *rng, caseID string, o genOpts, fanIn int) map[string]any {
	h := &loopCase{stubs: map[string]*stubStep{}, closing: make(chan string, 64)}
	s := newScript()
	currentScript.Store(s)
	reg, f, err := newRegistry(func(p step.Provider) step.Provider { return stubProvider{Provider: p, h: h} })
	if err != nil {
		return map[string]any{"kind": "harness-error", "id": caseID, "error": err.Error()}
	}
	var wf *AWf
	if fanIn > 0 {
		wf = genFanIn(r, fanIn)
	} else {
		wf = genWorkflow(r, o)
	}
	text := wf.yaml(nil, nil)
	s.probe.Store(true)
	prepared, err := prepareYAML(reg, f, text, nil)
	s.probe.Store(false)
	if err != nil {
		return map[string]any{"kind": "loop", "id": caseID, "skip": "prepare: " + err.Error(), "yaml": text}
	}
	dag, translatable := dumpDAG(prepared.DAG())
	input := map[string]any{"name": "nm"}
	for _, fl := range wf.InputFields {
		if fl.Name == "flag" {
			input["flag"] = r.chance(2, 3)
		}
	}
	normInput, err := prepared.Input().Unserialize(input)
	if err == nil {
		normInput, err = prepared.Input().Serialize(normInput)
	}
	if err != nil {
		return map[string]any{"kind": "loop", "id": caseID, "skip": "input: " + err.Error(), "yaml": text}
	}

	ctx, cancel := context.WithTimeout(context.Background(), 30*time.Second)
	defer cancel()
	resCh := make(chan loopResult, 1)
	go func() {
		id, data, err := prepared.Execute(ctx, input)
		res := loopResult{OutputID: id, Data: encVal(data), Returned: true}
		if err != nil {
			res.Err = err.Error()
			res.ErrClass = classifyExecErr(err)
		}
		resCh <- res
	}()

	// wait for all stubs to be started and the initial notifySteps to finish
	deadline := time.Now().Add(3 * time.Second)
	for {
		h.mu.Lock()
		n := len(h.stubs)
		p := len(h.provides)
		h.mu.Unlock()
		if (n == len(wf.Steps) && p > 0) || time.Now().After(deadline) {
			break
		}
		time.Sleep(200 * time.Microsecond)
	}
	h.mu.Lock()
	ids := make([]string, 0, len(h.stubs))
	for id := range h.stubs {
		ids = append(ids, id)
	}
	h.mu.Unlock()
	sort.Strings(ids)
	events := []loopEvent{{E: "start", Input: encVal(normInput), Busy: true}}
	stuck := false
	var finalRes *loopResult
	if len(ids) > 0 {
		any1 := h.stubs[ids[0]]
		g := guarded(2*time.Second, func() { any1.handler.OnStageChange(any1, nil, nil, nil, "sync", false, &h.wg) })
		if g.Timeout || g.Panic != "" {
			stuck = true
		}
	}
	outcomes := map[string]string{}
	for _, id := range ids {
		st := h.stubs[id]
		oc := pluginOutcomes[r.intn(len(pluginOutcomes))]
		if fanIn > 0 {
			if id == "s0" {
				oc = "error"
			} else {
				oc = []string{"success", "hold", "hold", "closed_enabling"}[r.intn(4)]
			}
		}
		outcomes[id] = oc
		h.mu.Lock()
		st.plan = pluginPlan(oc, false, id)
		h.mu.Unlock()
	}
	panicked := ""
	slow := r.chance(1, 4)
	ambiguous := false
	var lastDelivery time.Time
	nStubs := len(ids)
	tickBatches := func() [][]tickPoll {
		h.mu.Lock()
		defer h.mu.Unlock()
		var out [][]tickPoll
		for i := 0; i+nStubs <= len(h.ticks); i += nStubs {
			out = append(out, h.ticks[i:i+nStubs])
		}
		return out
	}
	ticksSeen := 0
	terminating := false
	spin := 150 * time.Microsecond
	if fanIn > 0 {
		spin = 3 * time.Millisecond
	}
	// noteTermination: Execute has drained the error channel and begun terminateAllSteps (first ForceClose seen)
	noteTermination := func() {
		for {
			select {
			case id := <-h.closing:
				if !terminating {
					terminating = true
					events = append(events, loopEvent{E: "drain", Busy: true})
				}
				_ = id
			default:
				return
			}
		}
	}
	for !stuck {
		noteTermination()
		var runnable []*stubStep
		for _, id := range ids {
			st := h.stubs[id]
			h.mu.Lock()
			for st.pc < len(st.plan) && st.plan[st.pc].waitFor != "" {
				in, ok := st.provided[st.plan[st.pc].waitFor]
				if !ok && st.closeReq {
					// a step closed while it waits for input takes the provider's closed-early path
					alt := map[string]string{"deploy": "closed_deploy", "enabling": "closed_enabling",
						"starting": "closed_starting", "hold": "closed_starting"}[st.plan[st.pc].waitFor]
					st.plan = append(append([]stubAction{}, st.plan[:st.pc]...), pluginPlan(alt, false, id)[st.pc:]...)
					break
				}
				if !ok {
					break
				}
				if st.plan[st.pc].waitFor == "enabling" {
					// as the real providers decide since /repo d308cbb: nil enables, anything else is read through the bool
					// schema (the run loop has validated the stage input against that schema before providing it)
					en := true
					if in["enabled"] != nil {
						if v, err := schema.NewBoolSchema().Unserialize(in["enabled"]); err == nil {
							en = v.(bool)
						} else {
							en = false
						}
					}
					if !en && outcomes[id] != "closed_enabling_late" {
						st.plan = append(append([]stubAction{}, st.plan[:st.pc+1]...),
							pluginPlan(outcomes[id], true, id)[st.pc+1:]...)
					}
				}
				st.pc++
			}
			if st.pc < len(st.plan) && st.plan[st.pc].waitFor == "" {
				runnable = append(runnable, st)
			}
			if st.pc >= len(st.plan) {
				st.finish()
			}
			h.mu.Unlock()
		}
		if len(runnable) == 0 {
			if finalRes != nil {
				break
			}
			// nothing can move: wait for Execute to return or to start terminating steps
			select {
			case res := <-resCh:
				finalRes = &res
				continue
			case id := <-h.closing:
				h.closing <- id
				continue
			case <-time.After(3 * time.Second):
			}
			break
		}
		st := runnable[r.intn(len(runnable))]
		h.mu.Lock()
		a := st.plan[st.pc]
		st.pc++
		if st.pc >= len(st.plan) || a.kind == "complete" {
			st.done = true // the provider reports finished from completeStep on
		}
		h.event = len(events)
		h.polled = map[string]step.RunningStepState{}
		h.mu.Unlock()
		ev := loopEvent{Step: st.id, Busy: true}
		switch a.kind {
		case "change", "complete":
			ev.E = "change"
			ev.Complete = a.kind == "complete"
			if a.prev != "" {
				p := a.prev
				ev.Prev = &p
			}
			if a.outID != "" {
				ev.Out = []any{a.outID, encVal(a.out)}
			}
		case "fail":
			ev.E = "fail"
			ev.Stage = a.stage
		}
		g := guarded(3*time.Second, func() { st.deliver(a) })
		h.mu.Lock()
		if len(h.polled) > 0 {
			ev.Busy = false
			for _, ps := range h.polled {
				if ps == step.RunningStepStateRunning || ps == step.RunningStepStateStarting {
					ev.Busy = true
				}
			}
		}
		h.polled = nil
		if st.pc >= len(st.plan) {
			st.finish()
		}
		h.mu.Unlock()
		events = append(events, ev)
		lastDelivery = time.Now()
		if g.Timeout {
			stuck = true
			break
		}
		if g.Panic != "" {
			panicked = g.Panic
			break
		}
		if finalRes == nil {
			select {
			case res := <-resCh:
				finalRes = &res
			default:
			}
		}
		// give Execute the chance to observe a cancellation caused by this event before the next one is delivered
		if !terminating {
			t0 := time.Now()
			for len(h.closing) == 0 && time.Since(t0) < spin {
				runtime.Gosched()
			}
		}
		if slow && ev.E == "change" && ev.Prev != nil && !ev.Busy && !terminating && len(h.closing) == 0 {
			// let the detector's retry chain run while nothing else happens (a legal, slow schedule)
			time.Sleep(45 * time.Millisecond)
			bs := tickBatches()
			if len(bs) == ticksSeen {
				// no poll yet: either no retry chain was started or (loaded machine) its first 10 ms timer is late
				time.Sleep(40 * time.Millisecond)
				bs = tickBatches()
			}
			// Nothing else is delivered during this window, so a chain that has begun polls three times (then the
			// detector reports). Fewer polls, the last of them finding nothing running, means its timers are late:
			// wait for the chain to finish (up to 2 s) so that its ticks are recorded at this position.
			for w := 0; w < 400 && len(bs) > ticksSeen && len(bs)-ticksSeen < 3 && !busyOf(bs[len(bs)-1]) && len(h.closing) == 0; w++ {
				time.Sleep(5 * time.Millisecond)
				bs = tickBatches()
			}
			for k := ticksSeen; k < len(bs); k++ {
				events = append(events, loopEvent{E: "tick", Retries: 2 - (k - ticksSeen), Busy: busyOf(bs[k])})
			}
			ticksSeen = len(bs)
		}
	}
	if finalRes == nil && !stuck && panicked == "" {
		select {
		case res := <-resCh:
			finalRes = &res
		case <-time.After(3 * time.Second):
		}
	}
	if slow && !stuck && panicked == "" {
		// slow schedule: a detector poll that was not recorded in one of the windows above happened at a position of the
		// history that is not known (late timers on a loaded machine): the case is not compared
		time.Sleep(2 * time.Millisecond)
		if len(tickBatches()) > ticksSeen {
			ambiguous = true
		}
	}
	if !slow && !stuck && panicked == "" {
		// eager schedule: the detector chains (10 ms timers) must all have run after the last callback, otherwise
		// the position of the ticks in the history is not known and the case is not compared
		time.Sleep(2 * time.Millisecond)
		bs := tickBatches()
		for _, b := range bs {
			if b[0].at.Before(lastDelivery) {
				ambiguous = true
			}
		}
		if len(bs) > 0 && !terminating {
			for k, rt := range []int{2, 1, 0} {
				b := false
				if k < len(bs) {
					b = busyOf(bs[k])
				}
				events = append(events, loopEvent{E: "tick", Retries: rt, Busy: b})
			}
		} else if len(bs) > 0 {
			ambiguous = true
		}
	}
	allDone := true
	h.mu.Lock()
	for _, id := range ids {
		if !h.stubs[id].done {
			allDone = false
		}
		h.stubs[id].finish() // release any ForceClose still waiting
	}
	provides := append([]provideRec{}, h.provides...)
	h.mu.Unlock()
	cancel()
	out := map[string]any{"kind": "loop", "id": caseID, "yaml": text, "prepared": dag, "translatable": translatable,
		"events": events, "provides": provides, "stuck": stuck, "panic": panicked != "", "panic_text": firstLine(panicked),
		"all_done": allDone, "outcomes": outcomes, "fan_in": fanIn, "slow": slow, "terminated": terminating}
	if ambiguous {
		out["skip"] = "tick position ambiguous"
	}
	if finalRes != nil {
		out["result"] = finalRes
	} else {
		out["result"] = loopResult{Returned: false}
	}
	return out
}

func firstLine(s string) string {
	for i := 0; i < len(s); i++ {
		if s[i] == '\n' {
			return s[:i]
		}
	}
	return s
}

// genFanIn: one output fed by step s0 (which ends in its error output) and k other steps.
func genFanIn(_ *rng, k int) *AWf {
	w := &AWf{Outputs: map[string]AIn{}, InputFields: []AField{{Name: "name", Type: "string", Required: true}}}
	out := AIn{K: "map"}
	for i := 0; i <= k; i++ {
		id := stepName(i)
		w.Steps = append(w.Steps, AStep{ID: id, Kind: "plugin", PlugStep: "op", Src: id,
			Fields: map[string]AIn{"input": amap("s", lit("x"))}})
		out.put("f"+id, expr(fmt.Sprintf("$.steps.%s.outputs.success.s", id)))
	}
	w.OutputIDs = []string{"success"}
	w.Outputs["success"] = out
	return w
}

func cmdLoop(args []string) int {
	var fanIn int
	var litGates bool
	c, _ := parseCommon("loop", args, func(fs *flag.FlagSet) {
		fs.IntVar(&fanIn, "fanin", 0, "fan-in shape with k extra steps")
		fs.BoolVar(&litGates, "litgates", false, "some steps get a literal `enabled` value (C04)")
	})
	w := openOut(c.out)
	defer w.close()
	r := newRng(c.seed)
	for i := 0; i < c.n; i++ {
		cr := r.fork()
		if i < c.skip {
			continue
		}
		w.emit(map[string]any{"kind": "begin", "index": i})
		o := genOpts{maxSteps: 4 + cr.intn(4), tags: cr.chance(1, 2), failOutputs: true, enabled: cr.chance(1, 2),
			stopIf: false, waitFor: cr.chance(1, 2), litGates: litGates}
		if c.tier == "thorough" {
			o.maxSteps = 4 + cr.intn(12)
		}
		w.emit(runLoopCase(cr, fmt.Sprintf("loop-%d-%d", c.seed, i), o, fanIn))
	}
	return 0
}

var _ = schema.PointerTo[int]
