//go:build verif

package main

import (
	"fmt"
	"sort"
	"strconv"
	"strings"
	"unicode"
)

// ---- C10 / C16 / C15: workflow shapes of the prepare stream -------------------------------------------------------------------
//
// The shared generator (wfgen.go) produces expressions with ONE reference each, at most one tagged value per source and
// object, and (via addForeach) at most one loop step.  The statements of C10 / C15 / C16 quantify over more:
//
//   * C10 "a dependency for every such reference": ONE expression may hold SEVERAL references (binary operators, function
//     arguments); every one of them needs its edge, whether or not the consuming node is already connected to the producer
//     of an earlier one (addMultiRef, the `backedge-hidden` corruption);
//   * C15 "several per object": a `!wait-optional`, a `!soft-optional` and a plain reference to the SAME source in one object
//     each need their own dependency (group node + edge kind) (addMixedOptional); optional expressions with several sources;
//   * C16 / C10 "output schemas": every loop step is typed by ITS OWN sub-workflow (addForeachMulti);
//   * C10 "every stage input is type-compatible with the step's schema": the type of an expression is the type it has in
//     THIS workflow (addTypedInput, the `expr-type` corruption, the sequence mode of cmd_prepare_seq.go).
//
// Every shape is a post-pass on the abstract workflow (like enrich / addForeach).

// ---- expression fragment with operators -----------------------------------------------------------------------------------
//
// parseExpr (dagdump.go) covers paths, literals and calls and reports everything else as {"x":"unknown","src":..}.  The
// prepare stream needs operators: parseExprOps implements the grammar of go.flow.arcalot.io/expressions (||, &&, !,
// comparisons, + -, * / %, ^, unary -, parentheses) on top of the same JSON form; a binary operation `l op r` is encoded as
// the call {"x":"call","fn":"op","args":[l,r]} (the model's `Expr.deps` of a call are the dependencies of its arguments,
// left to right — which is what `binaryOperationDependencies` computes).  Both the generator side (AWf.json) and the
// implementation side (dumpDAG) go through fixExprs, so both are parsed by the same function.

type opParser struct {
	s   string
	pos int
}

func parseExprOps(src string) (out any, ok bool) {
	defer func() {
		if r := recover(); r != nil {
			out, ok = map[string]any{"x": "unknown", "src": src}, false
		}
	}()
	p := &opParser{s: strings.TrimSpace(src)}
	e := p.or()
	p.ws()
	if p.pos != len(p.s) {
		panic("trailing")
	}
	return e, true
}

func (p *opParser) ws() {
	for p.pos < len(p.s) && (p.s[p.pos] == ' ' || p.s[p.pos] == '\t') {
		p.pos++
	}
}

func (p *opParser) peek() byte {
	if p.pos < len(p.s) {
		return p.s[p.pos]
	}
	return 0
}

func (p *opParser) has(tok string) bool {
	p.ws()
	return strings.HasPrefix(p.s[p.pos:], tok)
}

func bin(op string, l, r any) any { return map[string]any{"x": "call", "fn": op, "args": []any{l, r}} }

// binary parses `child [op child]*` (left associative) for the given operators (longest first).
func (p *opParser) binary(ops []string, child func() any) any {
	l := child()
	for {
		matched := ""
		for _, op := range ops {
			if p.has(op) {
				// `!` alone is not a binary operator; `=` alone is not an operator
				matched = op
				break
			}
		}
		if matched == "" {
			return l
		}
		p.pos += len(matched)
		l = bin(matched, l, child())
	}
}

func (p *opParser) or() any  { return p.binary([]string{"||"}, p.and) }
func (p *opParser) and() any { return p.binary([]string{"&&"}, p.not) }
func (p *opParser) not() any {
	if p.has("!") && !p.has("!=") {
		p.pos++
		return map[string]any{"x": "call", "fn": "!", "args": []any{p.cmp()}}
	}
	return p.cmp()
}
func (p *opParser) cmp() any {
	return p.binary([]string{"==", "!=", ">=", "<=", ">", "<"}, p.add)
}
func (p *opParser) add() any { return p.binary([]string{"+", "-"}, p.mul) }
func (p *opParser) mul() any { return p.binary([]string{"*", "/", "%"}, p.pow) }
func (p *opParser) pow() any { return p.binary([]string{"^"}, p.paren) }

func (p *opParser) paren() any {
	p.ws()
	if p.peek() == '(' {
		p.pos++
		e := p.or()
		p.ws()
		if p.peek() != ')' {
			panic("paren")
		}
		p.pos++
		return e
	}
	if p.peek() == '-' && !(p.pos+1 < len(p.s) && p.s[p.pos+1] >= '0' && p.s[p.pos+1] <= '9') {
		p.pos++
		return map[string]any{"x": "call", "fn": "neg", "args": []any{p.value()}}
	}
	return p.value()
}

func (p *opParser) ident() string {
	start := p.pos
	for p.pos < len(p.s) {
		c := rune(p.s[p.pos])
		if unicode.IsLetter(c) || unicode.IsDigit(c) || c == '_' || c == '@' {
			p.pos++
		} else {
			break
		}
	}
	if start == p.pos {
		panic("ident")
	}
	return p.s[start:p.pos]
}

func (p *opParser) value() any {
	p.ws()
	var cur any
	c := p.peek()
	switch {
	case c == '$':
		p.pos++
		cur = map[string]any{"x": "root"}
	case c == '"' || c == '\'':
		q := c
		p.pos++
		start := p.pos
		for p.pos < len(p.s) && p.s[p.pos] != q {
			if p.s[p.pos] == '\\' {
				panic("escape")
			}
			p.pos++
		}
		if p.pos >= len(p.s) {
			panic("unterminated")
		}
		v := p.s[start:p.pos]
		p.pos++
		return map[string]any{"x": "lit", "v": v}
	case c == '-' || (c >= '0' && c <= '9'):
		start := p.pos
		p.pos++
		for p.pos < len(p.s) && p.s[p.pos] >= '0' && p.s[p.pos] <= '9' {
			p.pos++
		}
		if p.peek() == '.' || p.peek() == 'e' {
			panic("float literal")
		}
		n, err := strconv.ParseInt(p.s[start:p.pos], 10, 64)
		if err != nil {
			panic(err)
		}
		return map[string]any{"x": "lit", "v": encVal(n)}
	default:
		id := p.ident()
		p.ws()
		switch {
		case p.peek() == '(':
			p.pos++
			args := []any{}
			p.ws()
			if p.peek() == ')' {
				p.pos++
			} else {
				for {
					args = append(args, p.or())
					p.ws()
					if p.peek() == ',' {
						p.pos++
						continue
					}
					if p.peek() == ')' {
						p.pos++
						break
					}
					panic("args")
				}
			}
			cur = map[string]any{"x": "call", "fn": id, "args": args}
		case id == "true":
			return map[string]any{"x": "lit", "v": true}
		case id == "false":
			return map[string]any{"x": "lit", "v": false}
		default:
			cur = map[string]any{"x": "dot", "e": map[string]any{"x": "root"}, "k": id}
		}
	}
	for {
		switch p.peek() {
		case '.':
			p.pos++
			cur = map[string]any{"x": "dot", "e": cur, "k": p.ident()}
		case '[':
			p.pos++
			start := p.pos
			for p.pos < len(p.s) && p.s[p.pos] != ']' {
				p.pos++
			}
			if p.pos >= len(p.s) {
				panic("bracket")
			}
			inner := p.s[start:p.pos]
			p.pos++
			if n, err := strconv.Atoi(inner); err == nil && n >= 0 {
				cur = map[string]any{"x": "idx", "e": cur, "i": n}
			} else if len(inner) >= 2 && (inner[0] == '"' || inner[0] == '\'') {
				cur = map[string]any{"x": "dot", "e": cur, "k": inner[1 : len(inner)-1]}
			} else {
				panic("bracket")
			}
		default:
			return cur
		}
	}
}

// fixExprs re-parses every {"x":"unknown","src":..} below v with parseExprOps (in place for maps and slices); it returns
// the (possibly replaced) value and whether no unknown expression is left.
func fixExprs(v any) (any, bool) {
	ok := true
	var walk func(v any) any
	walk = func(v any) any {
		switch t := v.(type) {
		case map[string]any:
			if t["x"] == "unknown" {
				if src, isStr := t["src"].(string); isStr {
					if e, parsed := parseExprOps(src); parsed {
						return e
					}
				}
				ok = false
				return t
			}
			for k, x := range t {
				t[k] = walk(x)
			}
			return t
		case []any:
			for i, x := range t {
				t[i] = walk(x)
			}
			return t
		}
		return v
	}
	return walk(v), ok
}

// ---- reference helpers ---------------------------------------------------------------------------------------------------------

func outRef(stepID, field string) string {
	return fmt.Sprintf("$.steps.%s.outputs.success.%s", stepID, field)
}

func pluginIdx(w *AWf) []int {
	idx := []int{}
	for i, s := range w.Steps {
		if s.Kind == "plugin" {
			idx = append(idx, i)
		}
	}
	return idx
}

// multiExpr builds ONE well-typed expression of type `ty` (string | int | bool | liststring) whose references are, in
// this order, the success output of step a and then the success output of step b.  `self` variants repeat the producer a
// inside the expression itself (two different fields of the same stage output = two dependency paths, one DAG node).
func multiExpr(ty string, a, b string, variant int) string {
	switch ty {
	case "int":
		switch variant % 3 {
		case 0:
			return outRef(a, "i") + " + " + outRef(b, "i")
		case 1:
			return outRef(a, "i") + " * 2 + " + outRef(b, "i")
		default:
			return "stringToInt(" + outRef(a, "s") + ") + " + outRef(a, "i") + " + " + outRef(b, "i")
		}
	case "bool":
		switch variant % 3 {
		case 0:
			return outRef(a, "i") + " > " + outRef(b, "i")
		case 1:
			return outRef(a, "b") + " && " + outRef(b, "b")
		default:
			return outRef(a, "b") + " && " + outRef(a, "i") + " >= " + outRef(b, "i")
		}
	case "liststring":
		return "splitString(" + outRef(a, "s") + ", " + outRef(b, "s") + ")"
	default:
		switch variant % 4 {
		case 0:
			return outRef(a, "s") + " + " + outRef(b, "s")
		case 1:
			return outRef(a, "s") + ` + " / " + ` + outRef(b, "s")
		case 2:
			return outRef(a, "s") + " + boolToString(" + outRef(a, "b") + ") + " + outRef(b, "s")
		default:
			return "toUpper(" + outRef(a, "s") + ") + intToString(" + outRef(b, "i") + ")"
		}
	}
}

// multiRefPlacements lists the positions addMultiRef knows: an expression e1 that refers to producer A, and — in another
// position of the SAME consuming DAG node — an expression e2 = f(A, B) whose first reference is A again and whose later
// reference is another producer B.
var multiRefPlacements = []string{
	"input-keys",     // two keys of one step's input map (s: A.s, i: A.i + B.i)
	"input-list",     // two elements of the list field of one step's input (l: [A.s, A.s + B.s])
	"input-call",     // s: A.s next to l: splitString(A.s, B.s)
	"waitfor-list",   // wait_for: [A.s, A.s + B.s]
	"waitfor-input",  // input.s: A.s next to wait_for: A.s + B.s (two input fields of one stage)
	"enabled-self",   // enabled: A.b && A.i >= B.i (self-contained: two paths into A's output, then B)
	"output-keys",    // two fields of one workflow output
	"output-list",    // two elements of a list in a workflow output
	"output-nested",  // nested map of a workflow output
	"optional-multi", // !wait-optional / !soft-optional with several sources (one of them twice)
	"oneof-option",   // two fields of one option of a !oneof
	"self-contained", // a single expression A.s + boolToString(A.b) + B.s in a fresh position
}

// addMultiRef adds one multi-reference shape; returns the placement applied ("" when the workflow has fewer than two
// plugin steps, or no step late enough for a step-side placement).
func addMultiRef(w *AWf, r *rng, placement string) string {
	plug := pluginIdx(w)
	if len(plug) < 2 {
		return ""
	}
	if placement == "" {
		placement = multiRefPlacements[r.intn(len(multiRefPlacements))]
	}
	// step-side placements need a consumer step that comes after both producers
	stepSide := !strings.HasPrefix(placement, "output") && placement != "oneof-option"
	if placement == "optional-multi" {
		stepSide = len(plug) >= 3 && r.chance(1, 2)
	}
	if stepSide && len(plug) < 3 {
		placement = []string{"output-keys", "output-list", "output-nested", "oneof-option"}[r.intn(4)]
		stepSide = false
	}
	var a, b string
	cons := -1
	if stepSide {
		c := 2 + r.intn(len(plug)-2)
		cons = plug[c]
		p := r.perm(c)
		a, b = w.Steps[plug[p[0]]].ID, w.Steps[plug[p[1]]].ID
	} else {
		p := r.perm(len(plug))
		a, b = w.Steps[plug[p[0]]].ID, w.Steps[plug[p[1]]].ID
	}
	v := r.intn(12)
	succ := w.Outputs["success"]
	switch placement {
	case "input-keys":
		in := inputMap(&w.Steps[cons])
		if r.chance(1, 2) {
			in.put("s", expr(outRef(a, "s")))
			in.put("i", expr(multiExpr("int", a, b, v)))
		} else {
			in.put("i", expr(outRef(a, "i")))
			in.put("s", expr(multiExpr("string", a, b, v)))
			if r.chance(1, 2) {
				in.put("b", expr(multiExpr("bool", a, b, v)))
			}
		}
		w.Steps[cons].Fields["input"] = in
	case "input-list":
		in := inputMap(&w.Steps[cons])
		in.put("l", AIn{K: "list", List: []AIn{expr(outRef(a, "s")), expr(multiExpr("string", a, b, v)), lit("x")}})
		w.Steps[cons].Fields["input"] = in
	case "input-call":
		in := inputMap(&w.Steps[cons])
		in.put("s", expr(outRef(a, "s")))
		in.put("l", expr(multiExpr("liststring", a, b, v)))
		w.Steps[cons].Fields["input"] = in
	case "waitfor-list":
		// (a list below an `any` field must be homogeneous)
		ty := []string{"string", "int", "bool"}[v%3]
		w.Steps[cons].Fields["wait_for"] = AIn{K: "list", List: []AIn{expr(outRef(a, typedFieldOf[ty])), expr(multiExpr(ty, a, b, v))}}
	case "waitfor-input":
		in := inputMap(&w.Steps[cons])
		in.put("s", expr(outRef(a, "s")))
		w.Steps[cons].Fields["input"] = in
		w.Steps[cons].Fields["wait_for"] = expr(multiExpr("string", a, b, v))
	case "enabled-self":
		w.Steps[cons].Fields["enabled"] = expr(multiExpr("bool", a, b, 2))
	case "output-keys":
		succ.put("m0", expr(outRef(a, "s")))
		succ.put("m1", expr(multiExpr([]string{"string", "int", "bool", "liststring"}[v%4], a, b, v)))
	case "output-list":
		succ.put("ml", AIn{K: "list", List: []AIn{expr(outRef(a, "s")), expr(multiExpr("string", a, b, v))}})
	case "output-nested":
		succ.put("mn", amap("x", expr(outRef(a, "i")), "y", amap("z", expr(multiExpr("int", a, b, v)))))
	case "optional-multi":
		// C15: an optional expression with several sources; its group node is new, so the already-connected
		// producer is in the expression itself (variant 2 of the string form)
		o1 := AIn{K: "optional", Wait: r.chance(1, 2), Src: multiExpr("string", a, b, 2)}
		o2 := AIn{K: "optional", Wait: r.chance(1, 2), Src: multiExpr("int", a, b, 2*(v%2))}
		if cons >= 0 {
			in := inputMap(&w.Steps[cons])
			in.put("s", o1)
			if r.chance(1, 2) {
				in.put("i", o2)
			}
			w.Steps[cons].Fields["input"] = in
		} else {
			succ.put("mo", o1)
			if r.chance(1, 2) {
				succ.put("mp", o2)
			}
		}
	case "oneof-option":
		one := AIn{K: "oneof", Disc: "kind", Map: map[string]AIn{}}
		one.put("both", amap("u", expr(outRef(a, "s")), "v", expr(multiExpr("string", a, b, v))))
		one.put("none", amap("u", expr(fmt.Sprintf("$.steps.%s.outputs.error.reason", a))))
		succ.put("mq", one)
	case "self-contained":
		in := inputMap(&w.Steps[cons])
		in.put("s", expr(multiExpr("string", a, b, 2)))
		w.Steps[cons].Fields["input"] = in
	default:
		return ""
	}
	w.Outputs["success"] = succ
	return placement
}

// hiddenBackedge is the `backedge-hidden` corruption: a cycle whose back-edge is a LATER reference of a multi-reference
// expression of a node that is already connected to the producer of the expression's first reference.
func hiddenBackedge(w *AWf, r *rng, forced int) (string, bool) {
	plug := pluginIdx(w)
	if len(plug) < 3 {
		return "", false
	}
	// x < i < j (positions): j depends on i (forward), i depends on x and - hidden - on j
	pi := 1 + r.intn(len(plug)-2)
	pj := pi + 1 + r.intn(len(plug)-pi-1)
	px := r.intn(pi)
	x, i, j := w.Steps[plug[px]].ID, plug[pi], plug[pj]
	jid := w.Steps[j].ID
	inj := inputMap(&w.Steps[j])
	inj.put("s", expr(outRef(w.Steps[i].ID, "s")))
	w.Steps[j].Fields["input"] = inj
	ini := inputMap(&w.Steps[i])
	variant := r.intn(5)
	if forced >= 0 {
		variant = forced % 5
	}
	name := ""
	switch variant {
	case 0:
		ini.put("l", AIn{K: "list", List: []AIn{expr(outRef(x, "s")), expr(multiExpr("string", x, jid, r.intn(2)))}})
		name = "input-list"
	case 1:
		w.Steps[i].Fields["wait_for"] = AIn{K: "list", List: []AIn{expr(outRef(x, "i")), expr(multiExpr("int", x, jid, r.intn(2)))}}
		name = "waitfor-list"
	case 2:
		ini.put("s", expr(multiExpr("string", x, jid, 2)))
		name = "self-contained"
	case 3:
		ini.put("s", expr(outRef(x, "s")))
		ini.put("i", expr(multiExpr("int", x, jid, 0)))
		name = "input-keys"
	default:
		ini.put("s", AIn{K: "optional", Wait: r.chance(1, 2), Src: multiExpr("string", x, jid, 2)})
		name = "optional-multi"
	}
	w.Steps[i].Fields["input"] = ini
	return name, true
}

// mixedOptionalPlacements: ONE object holding differently tagged fields on the SAME source step output.
var mixedOptionalPlacements = []string{"output", "output-nested", "input", "waitfor-map", "output-list"}

func addMixedOptional(w *AWf, r *rng, placement string) string {
	plug := pluginIdx(w)
	if len(plug) < 1 {
		return ""
	}
	if placement == "" {
		placement = mixedOptionalPlacements[r.intn(len(mixedOptionalPlacements))]
	}
	cons := -1
	var a string
	if placement == "input" || placement == "waitfor-map" {
		if len(plug) < 2 {
			placement = "output"
		} else {
			c := 1 + r.intn(len(plug)-1)
			cons = plug[c]
			a = w.Steps[plug[r.intn(c)]].ID
		}
	}
	if cons < 0 {
		a = w.Steps[plug[r.intn(len(plug))]].ID
	}
	wait := func(f string) AIn { return AIn{K: "optional", Wait: true, Src: outRef(a, f)} }
	soft := func(f string) AIn { return AIn{K: "optional", Wait: false, Src: outRef(a, f)} }
	whole := fmt.Sprintf("$.steps.%s.outputs.success", a)
	// which of the three kinds (wait / soft / plain) take part: at least two
	kinds := []int{0, 1, 2}
	if r.chance(1, 2) {
		drop := r.intn(3)
		kinds = append(kinds[:drop:drop], kinds[drop+1:]...)
	}
	has := func(k int) bool {
		for _, x := range kinds {
			if x == k {
				return true
			}
		}
		return false
	}
	succ := w.Outputs["success"]
	switch placement {
	case "output", "output-nested":
		m := AIn{K: "map"}
		tgt := &m
		if placement == "output" {
			tgt = &succ
		}
		if has(0) {
			tgt.put("xw", wait("s"))
		}
		if has(1) {
			if r.chance(1, 2) {
				tgt.put("xo", soft("i"))
			} else {
				tgt.put("xo", AIn{K: "optional", Wait: false, Src: whole})
			}
		}
		if has(2) {
			tgt.put("xp", expr(outRef(a, "b")))
		}
		if placement == "output-nested" {
			succ.put("xn", m)
		}
	case "output-list":
		l := AIn{K: "list"}
		if has(0) {
			l.List = append(l.List, wait("s"))
		}
		if has(1) {
			l.List = append(l.List, soft("s"))
		}
		if has(2) {
			l.List = append(l.List, expr(outRef(a, "s")))
		}
		if r.chance(1, 2) {
			// soft first: the order in which the elements are walked is the list order
			for x, y := 0, len(l.List)-1; x < y; x, y = x+1, y-1 {
				l.List[x], l.List[y] = l.List[y], l.List[x]
			}
		}
		succ.put("xl", l)
	case "input":
		in := inputMap(&w.Steps[cons])
		if has(0) {
			in.put("s", wait("s"))
		}
		if has(1) {
			in.put("i", soft("i"))
		}
		if has(2) {
			in.put("b", expr(outRef(a, "b")))
		}
		w.Steps[cons].Fields["input"] = in
	case "waitfor-map":
		wf := AIn{K: "map"}
		if has(0) {
			wf.put("w0", AIn{K: "optional", Wait: true, Src: whole})
		}
		if has(1) {
			wf.put("w1", soft("s"))
		}
		if has(2) {
			wf.put("w2", expr(outRef(a, "i")))
		}
		w.Steps[cons].Fields["wait_for"] = wf
	default:
		return ""
	}
	w.Outputs["success"] = succ
	return placement
}

// ---- several loop steps with different and equal sub-workflow files ---------------------------------------------------------

// subSpec describes a sub-workflow file the generator writes: the shape of one item (its input object) and the fields of
// its success output (= the fields of one element of the loop's `outputs.success.data`).
type subSpec struct {
	File      string
	Text      string
	NeedsN    bool // input field n (int) required
	AllowsN   bool // input field n exists
	OutFields []string
}

func subText(inProps, innerInput, outs string) string {
	return "version: v0.2.0\ninput:\n  root: SubRoot\n  objects:\n    SubRoot:\n      id: SubRoot\n      properties:\n" + inProps +
		"steps:\n  inner:\n    plugin: {src: \"inner\", deployment_type: \"builtin\"}\n    step: op\n    input: " + innerInput +
		"\noutputs:\n  success:\n" + outs
}

const subPropName = "        name:\n          type: {type_id: string}\n          required: true\n"
const subPropNReq = "        n:\n          type: {type_id: integer}\n          required: true\n"
const subPropNOpt = "        n:\n          type: {type_id: integer}\n          required: false\n"

var subSpecs = []subSpec{
	{File: subWorkflowFile, Text: subWorkflowText, OutFields: []string{"r"}},
	{File: "sub_a.yaml", Text: subText(subPropName, "{s: !expr $.input.name}", "    r: !expr $.steps.inner.outputs.success.s\n"),
		OutFields: []string{"r"}},
	{File: "sub_b.yaml", Text: subText(subPropName+subPropNReq, "{s: !expr $.input.name, i: !expr $.input.n}",
		"    q: !expr $.steps.inner.outputs.success.s\n    k: !expr $.steps.inner.outputs.success.i\n"),
		NeedsN: true, AllowsN: true, OutFields: []string{"k", "q"}},
	{File: "sub_c.yaml", Text: subText(subPropName+subPropNOpt, "{s: !expr $.input.name}",
		"    r: !expr $.steps.inner.outputs.success.s\n    k: !expr $.steps.inner.outputs.success.i\n    f: !expr $.steps.inner.outputs.success.b\n"),
		AllowsN: true, OutFields: []string{"f", "k", "r"}},
}

func subSpecByFile(file string) *subSpec {
	for i := range subSpecs {
		if subSpecs[i].File == file {
			return &subSpecs[i]
		}
	}
	return nil
}

func allSubFiles() map[string][]byte {
	files := map[string][]byte{}
	for _, s := range subSpecs {
		files[s.File] = []byte(s.Text)
	}
	return files
}

// loopExpect is what the generator knows about a parent output field that carries a loop's data.
type loopExpect struct {
	Output string   `json:"output"`
	Key    string   `json:"key"`
	Step   string   `json:"step"`
	File   string   `json:"file"`
	Whole  bool     `json:"whole"` // the field is `outputs.success` (an object with the list `data`), not the list itself
	Fields []string `json:"fields"`
}

// addLoop appends one loop step over the given sub-workflow whose items are valid for THAT sub-workflow, and a parent
// output that carries its data.
func addLoop(w *AWf, r *rng, spec *subSpec, key string, plainItems bool) loopExpect {
	n := len(w.Steps)
	id := fmt.Sprintf("fe%d", n)
	plug := pluginIdx(w)
	hasN := false
	for _, f := range w.InputFields {
		if f.Name == "n" {
			hasN = true
		}
	}
	items := AIn{K: "list"}
	k := 1 + r.intn(3)
	for x := 0; x < k; x++ {
		it := AIn{K: "map"}
		switch c := r.intn(3); {
		case c == 0 || len(plug) == 0:
			it.put("name", lit(fmt.Sprintf("item%d", x)))
		case c == 1:
			it.put("name", expr("$.input.name"))
		default:
			it.put("name", expr(outRef(w.Steps[plug[r.intn(len(plug))]].ID, "s")))
		}
		if spec.NeedsN || (spec.AllowsN && !plainItems && r.chance(1, 2)) {
			switch c := r.intn(3); {
			case c == 0 || len(plug) == 0:
				it.put("n", lit(fmt.Sprintf("%d", r.intn(50))))
			case c == 1 && hasN:
				it.put("n", expr("$.input.n"))
			default:
				it.put("n", expr(outRef(w.Steps[plug[r.intn(len(plug))]].ID, "i")))
			}
		}
		items.List = append(items.List, it)
	}
	s := AStep{ID: id, Kind: "foreach", Workflow: spec.File, Fields: map[string]AIn{"items": items}}
	if r.chance(1, 3) {
		s.Fields["parallelism"] = lit(fmt.Sprintf("%d", 1+r.intn(3)))
	}
	if len(plug) > 0 && r.chance(1, 4) {
		s.Fields["wait_for"] = expr(fmt.Sprintf("$.steps.%s.outputs", w.Steps[plug[r.intn(len(plug))]].ID))
	}
	w.Steps = append(w.Steps, s)
	exp := loopExpect{Output: "success", Key: key, Step: id, File: spec.File, Fields: append([]string{}, spec.OutFields...)}
	succ := w.Outputs["success"]
	data := fmt.Sprintf("$.steps.%s.outputs.success.data", id)
	switch r.intn(4) {
	case 0:
		succ.put(key, AIn{K: "optional", Wait: true, Src: data})
	case 1:
		succ.put(key, expr(fmt.Sprintf("$.steps.%s.outputs.success", id)))
		exp.Whole = true
	default:
		succ.put(key, expr(data))
	}
	w.Outputs["success"] = succ
	return exp
}

// addForeachMulti adds 2-3 loop steps; `style`: "different" (all files differ), "equal" (one file), "mixed" (a file
// twice and another one), "compatible" (different files whose item shapes are valid for each other's sub-workflow but
// whose outputs differ: every item list is {name}), "" = random.
func addForeachMulti(w *AWf, r *rng, style string) []loopExpect {
	if style == "" {
		style = []string{"different", "different", "mixed", "mixed", "equal", "compatible"}[r.intn(6)]
	}
	p := r.perm(len(subSpecs))
	var pick []int
	plain := false
	switch style {
	case "equal":
		pick = []int{p[0], p[0]}
		if r.chance(1, 3) {
			pick = append(pick, p[0])
		}
	case "mixed":
		pick = []int{p[0], p[1], p[0]}
		if r.chance(1, 2) {
			pick = []int{p[0], p[0], p[1]}
		}
	case "compatible":
		plain = true
		for _, si := range p {
			if !subSpecs[si].NeedsN {
				pick = append(pick, si)
			}
		}
		if len(pick) > 2 && r.chance(1, 2) {
			pick = pick[:2]
		}
	default:
		pick = []int{p[0], p[1]}
		if r.chance(1, 2) {
			pick = append(pick, p[2])
		}
	}
	out := []loopExpect{}
	for x, si := range pick {
		out = append(out, addLoop(w, r, &subSpecs[si], fmt.Sprintf("loop%d", x), plain))
	}
	return out
}

// loopObserved extracts, from the output-schema signature of an accepted workflow (outputSchemaSig), the property names
// of the element object of the list under outputs.<output>.<key> (descending through scope / ref / list and, for
// `whole`, the `data` property).  nil = the signature has another shape than expected.
func loopObserved(schemas any, e loopExpect) []string {
	get := func(v any, k string) any {
		if m, ok := v.(map[string]any); ok {
			return m[k]
		}
		return nil
	}
	cur := get(get(get(schemas, e.Output), "schema"), "root")
	cur = get(get(get(cur, "props"), e.Key), "t")
	usedData := !e.Whole
	for depth := 0; depth < 12 && cur != nil; depth++ {
		m, ok := cur.(map[string]any)
		if !ok {
			return nil
		}
		switch {
		case m["list"] != nil:
			cur = m["list"]
		case m["scope"] != nil:
			cur = m["root"]
		case m["ref"] != nil:
			cur = m["to"]
		case m["object"] != nil:
			props, _ := m["props"].(map[string]any)
			if !usedData {
				usedData = true
				cur = get(props["data"], "t")
				continue
			}
			names := []string{}
			for k := range props {
				names = append(names, k)
			}
			sort.Strings(names)
			return names
		default:
			return nil
		}
	}
	return nil
}

// ---- typed workflow input ------------------------------------------------------------------------------------------------------

var typedFieldOf = map[string]string{"string": "s", "int": "i", "bool": "b"}

// addTypedInput adds the input field `a` of the given type (random when "") and feeds `$.input.a` into the plugin input
// field of that type of some steps (and `enabled` for bool): well-typed by construction.
func addTypedInput(w *AWf, r *rng, ty string) string {
	if ty == "" {
		ty = []string{"string", "int", "bool"}[r.intn(3)]
	}
	w.InputFields = append(w.InputFields, AField{Name: "a", Type: ty, Required: true})
	plug := pluginIdx(w)
	used := false
	for x, i := range plug {
		if r.chance(1, 2) || (!used && x == len(plug)-1) {
			in := inputMap(&w.Steps[i])
			in.put(typedFieldOf[ty], expr("$.input.a"))
			w.Steps[i].Fields["input"] = in
			used = true
		}
	}
	if ty == "bool" && len(plug) > 0 && r.chance(1, 3) {
		w.Steps[plug[r.intn(len(plug))]].Fields["enabled"] = expr("$.input.a")
	}
	return ty
}

// exprTypeCorruption: ONE stage input whose EXPRESSION has a type that does not fit the field (the literal counterpart
// is `lit-type`).  Only combinations whose incompatibility is unconditional are used: string / bool / list into the
// integer field, string / int into the bool field, a scalar into the list field, an operator applied to operands of
// different types.
func exprTypeCorruption(w *AWf, r *rng) (string, bool) {
	plug := pluginIdx(w)
	if len(plug) == 0 {
		return "", false
	}
	pi := r.intn(len(plug))
	i := plug[pi]
	fieldType := map[string]string{}
	for _, f := range w.InputFields {
		fieldType[f.Name] = f.Type
	}
	type cand struct{ field, src, name string }
	cands := []cand{
		{"i", "$.input.name", "i<-input-string"},
		{"b", "$.input.name", "b<-input-string"},
		{"l", "$.input.name", "l<-input-string"},
		{"i", `$.input.name + "x"`, "i<-string-concat"},
	}
	if fieldType["flag"] == "bool" {
		cands = append(cands, cand{"i", "$.input.flag", "i<-input-bool"}, cand{"s", "$.input.name + $.input.flag", "op-operand-types"})
	}
	if fieldType["n"] == "int" {
		cands = append(cands, cand{"b", "$.input.n", "b<-input-int"}, cand{"l", "$.input.n", "l<-input-int"})
	}
	typedOnly := false
	if t, ok := fieldType["a"]; ok {
		typed := []cand{}
		switch t {
		case "string":
			typed = append(typed, cand{"i", "$.input.a", "i<-typed-input-string"}, cand{"b", "$.input.a", "b<-typed-input-string"})
		case "int":
			typed = append(typed, cand{"b", "$.input.a", "b<-typed-input-int"}, cand{"l", "$.input.a", "l<-typed-input-int"})
		case "bool":
			typed = append(typed, cand{"i", "$.input.a", "i<-typed-input-bool"}, cand{"l", "$.input.a", "l<-typed-input-bool"})
		}
		if r.chance(1, 2) {
			// the typed input is the field whose type differs between the workflows of a sequence
			cands = typed
			typedOnly = true
		} else {
			cands = append(cands, typed...)
		}
	}
	if pi > 0 && !typedOnly {
		j := w.Steps[plug[r.intn(pi)]].ID
		cands = append(cands, cand{"i", outRef(j, "s"), "i<-step-string"}, cand{"b", outRef(j, "i"), "b<-step-int"},
			cand{"i", outRef(j, "b"), "i<-step-bool"}, cand{"i", outRef(j, "s") + " + " + outRef(j, "s"), "i<-step-string-concat"})
	}
	c := cands[r.intn(len(cands))]
	name := c.name
	if c.src == "$.input.a" && r.chance(1, 2) {
		// the ill-typed use becomes the ONLY use of the typed input: the well-typed ones are replaced by literals
		repl := map[string]string{"string": "x", "int": "1", "bool": "true"}[fieldType["a"]]
		rewriteWf(w, func(a AIn) AIn {
			if a.K == "expr" && a.Src == "$.input.a" {
				return lit(repl)
			}
			return a
		})
		name += "/sole-use"
	}
	in := inputMap(&w.Steps[i])
	in.put(c.field, expr(c.src))
	w.Steps[i].Fields["input"] = in
	return name, true
}
