package main

import (
	"fmt"
	"go/ast"
	"go/token"
	"sort"
	"strconv"
	"strings"
)

// extractBuiltins: the table of built-in expression functions (G8) from internal/builtinfunctions/functions.go:
// id, parameter descriptors, output descriptor, error flag and the normalised source text of the handler, for every
// function registered in GetFunctions.  Shapes the recogniser does not know become `unknown(...)` entries.
func extractBuiltins(repo string, files map[string]string) {
	const path = "internal/builtinfunctions/functions.go"
	f := parse(repo, path)
	consts := f.consts()

	isNil := func(e ast.Expr) bool {
		id, ok := e.(*ast.Ident)
		return ok && id.Name == "nil"
	}
	bounds := func(min, max ast.Expr) string {
		if isNil(min) && isNil(max) {
			return ""
		}
		return "[" + f.src(min) + "," + f.src(max) + "]"
	}
	var typeDesc func(e ast.Expr) string
	typeDesc = func(e ast.Expr) string {
		call, ok := e.(*ast.CallExpr)
		if !ok {
			unknown("builtins: type expression is not a constructor call: %s", f.src(e))
			return "unknown:" + f.src(e)
		}
		fun := f.src(call.Fun)
		bad := func() string {
			unknown("builtins: unrecognised type constructor shape: %s", f.src(e))
			return "unknown:" + f.src(e)
		}
		switch fun {
		case "schema.NewIntSchema", "schema.NewFloatSchema":
			if len(call.Args) != 3 {
				return bad()
			}
			name := "int"
			if fun == "schema.NewFloatSchema" {
				name = "float"
			}
			d := name + bounds(call.Args[0], call.Args[1])
			if !isNil(call.Args[2]) {
				d += "{units:" + f.src(call.Args[2]) + "}"
			}
			return d
		case "schema.NewBoolSchema":
			if len(call.Args) != 0 {
				return bad()
			}
			return "bool"
		case "schema.NewAnySchema":
			if len(call.Args) != 0 {
				return bad()
			}
			return "any"
		case "schema.NewStringSchema":
			if len(call.Args) != 3 {
				return bad()
			}
			d := "string" + bounds(call.Args[0], call.Args[1])
			if !isNil(call.Args[2]) {
				re, ok := call.Args[2].(*ast.CallExpr)
				if !ok || f.src(re.Fun) != "regexp.MustCompile" || len(re.Args) != 1 {
					return bad()
				}
				lit, ok := re.Args[0].(*ast.BasicLit)
				if !ok || lit.Kind != token.STRING {
					return bad()
				}
				pat, err := strconv.Unquote(lit.Value)
				if err != nil {
					return bad()
				}
				d += ":/" + pat + "/"
			}
			return d
		case "schema.NewListSchema":
			if len(call.Args) != 3 {
				return bad()
			}
			return "list<" + typeDesc(call.Args[0]) + ">" + bounds(call.Args[1], call.Args[2])
		}
		return bad()
	}
	typeList := func(e ast.Expr) []string {
		cl, ok := e.(*ast.CompositeLit)
		if !ok || f.src(cl.Type) != "[]schema.Type" {
			unknown("builtins: parameter list is not a []schema.Type literal: %s", f.src(e))
			return []string{"unknown:" + f.src(e)}
		}
		out := []string{}
		for _, el := range cl.Elts {
			out = append(out, typeDesc(el))
		}
		return out
	}
	handlerText := func(e ast.Expr) string {
		switch e.(type) {
		case *ast.Ident, *ast.SelectorExpr, *ast.FuncLit:
			return f.src(e)
		}
		unknown("builtins: handler is neither a function value nor a function literal: %s", f.src(e))
		return "unknown:" + f.src(e)
	}
	boolLit := func(e ast.Expr) (bool, bool) {
		id, ok := e.(*ast.Ident)
		if !ok || (id.Name != "true" && id.Name != "false") {
			return false, false
		}
		return id.Name == "true", true
	}

	// one constructor function -> one row
	rowOf := func(ctor string) (builtinFact, bool) {
		fd := f.funcDecl("", ctor)
		if fd == nil || fd.Body == nil {
			unknown("builtins: constructor %s not found", ctor)
			return builtinFact{}, false
		}
		var calls []*ast.CallExpr
		ast.Inspect(fd.Body, func(n ast.Node) bool {
			if c, ok := n.(*ast.CallExpr); ok {
				switch f.src(c.Fun) {
				case "schema.NewCallableFunction", "schema.NewDynamicCallableFunction":
					calls = append(calls, c)
				}
			}
			return true
		})
		if len(calls) != 1 {
			unknown("builtins: %s contains %d function constructions, expected exactly one", ctor, len(calls))
			return builtinFact{}, false
		}
		c := calls[0]
		switch f.src(c.Fun) {
		case "schema.NewCallableFunction":
			// (id, inputs, output, outputsError, display, handler)
			if len(c.Args) != 6 {
				unknown("builtins: %s: NewCallableFunction with %d arguments", ctor, len(c.Args))
				return builtinFact{}, false
			}
			id, ok := constStr(c.Args[0], consts)
			if !ok {
				unknown("builtins: %s: id is not a constant string: %s", ctor, f.src(c.Args[0]))
				return builtinFact{}, false
			}
			errs, ok := boolLit(c.Args[3])
			if !ok {
				unknown("builtins: %s: outputsError is not a boolean literal: %s", ctor, f.src(c.Args[3]))
			}
			out := "void"
			if !isNil(c.Args[2]) {
				out = typeDesc(c.Args[2])
			}
			return builtinFact{ID: id, Params: typeList(c.Args[1]), Output: out, Errors: errs, Handler: handlerText(c.Args[5])}, true
		default:
			// (id, inputs, display, handler, typeHandler); dynamic functions always declare an error return
			if len(c.Args) != 5 {
				unknown("builtins: %s: NewDynamicCallableFunction with %d arguments", ctor, len(c.Args))
				return builtinFact{}, false
			}
			id, ok := constStr(c.Args[0], consts)
			if !ok {
				unknown("builtins: %s: id is not a constant string: %s", ctor, f.src(c.Args[0]))
				return builtinFact{}, false
			}
			return builtinFact{ID: id, Params: typeList(c.Args[1]), Output: "dynamic:" + handlerText(c.Args[4]), Errors: true,
				Handler: handlerText(c.Args[3])}, true
		}
	}

	// the registry: `v := getXFunction()` assignments and the `v.ID(): v` map literal of GetFunctions
	var rows []builtinFact
	typeHandlers := map[string]bool{}
	get := f.funcDecl("", "GetFunctions")
	if get == nil || get.Body == nil {
		unknown("builtins: GetFunctions not found in %s", path)
	} else {
		ctorOf := map[string]string{}
		order := []string{}
		registered := map[string]bool{}
		for _, st := range get.Body.List {
			switch t := st.(type) {
			case *ast.AssignStmt:
				if len(t.Lhs) == 1 && len(t.Rhs) == 1 {
					lhs, isIdent := t.Lhs[0].(*ast.Ident)
					call, isCall := t.Rhs[0].(*ast.CallExpr)
					if isIdent && isCall {
						if fn, ok := call.Fun.(*ast.Ident); ok && len(call.Args) == 0 {
							ctorOf[lhs.Name] = fn.Name
							order = append(order, lhs.Name)
							continue
						}
					}
					if cl, ok := t.Rhs[0].(*ast.CompositeLit); ok && isIdent && strings.HasPrefix(f.src(cl.Type), "map[string]schema.CallableFunction") {
						for _, el := range cl.Elts {
							kv, ok := el.(*ast.KeyValueExpr)
							if !ok {
								unknown("builtins: GetFunctions: map element is not key: value: %s", f.src(el))
								continue
							}
							v, ok := kv.Value.(*ast.Ident)
							if !ok || f.src(kv.Key) != v.Name+".ID()" {
								unknown("builtins: GetFunctions: map entry is not `v.ID(): v`: %s", f.src(el))
								continue
							}
							if registered[v.Name] {
								unknown("builtins: GetFunctions: %s registered twice", v.Name)
							}
							registered[v.Name] = true
						}
						continue
					}
				}
				unknown("builtins: GetFunctions: unrecognised statement: %s", f.src(st))
			case *ast.ReturnStmt:
			default:
				unknown("builtins: GetFunctions: unrecognised statement: %s", f.src(st))
			}
		}
		for _, v := range order {
			if !registered[v] {
				unknown("builtins: GetFunctions: %s is constructed but not registered", v)
				continue
			}
			if row, ok := rowOf(ctorOf[v]); ok {
				rows = append(rows, row)
				if strings.HasPrefix(row.Output, "dynamic:") {
					typeHandlers[strings.TrimPrefix(row.Output, "dynamic:")] = true
				}
			}
		}
		for v := range registered {
			if _, ok := ctorOf[v]; !ok {
				unknown("builtins: GetFunctions: %s is registered but its constructor call was not found", v)
			}
		}
	}
	sort.Slice(rows, func(i, j int) bool { return rows[i].ID < rows[j].ID })
	for i := 1; i < len(rows); i++ {
		if rows[i].ID == rows[i-1].ID {
			unknown("builtins: id %s declared twice (the later map entry silently wins)", rows[i].ID)
		}
	}
	fx.Builtins = rows

	// the functions that compute dynamic output types (and what they call in this file), as skeleton token lists
	thNames := []string{}
	for n := range typeHandlers {
		thNames = append(thNames, n)
	}
	sort.Strings(thNames)
	seen := map[string]bool{}
	var handlerRows [][2]string
	var visit func(name string)
	visit = func(name string) {
		if seen[name] {
			return
		}
		seen[name] = true
		fd := f.funcDecl("", name)
		if fd == nil {
			unknown("builtins: type handler %s not found in %s", name, path)
			return
		}
		handlerRows = append(handlerRows, [2]string{name, f.src(fd.Type) + " " + f.src(fd.Body)})
		ast.Inspect(fd.Body, func(n ast.Node) bool {
			if c, ok := n.(*ast.CallExpr); ok {
				if id, ok := c.Fun.(*ast.Ident); ok && f.funcDecl("", id.Name) != nil {
					visit(id.Name)
				}
			}
			return true
		})
	}
	for _, n := range thNames {
		visit(n)
	}
	sort.Slice(handlerRows, func(i, j int) bool { return handlerRows[i][0] < handlerRows[j][0] })

	// constants the handlers refer to
	constNames := []string{}
	for k := range consts {
		if strings.HasPrefix(k, "CombinedObj") || strings.HasPrefix(k, "ListSchema") {
			constNames = append(constNames, k)
		}
	}
	sort.Strings(constNames)

	var b strings.Builder
	b.WriteString("-- GENERATED by /verif/extract from /repo; do not edit.\nimport Arca.Model.BuiltinRow\nnamespace Arca.Gen\nopen Arca.Model\n\n")
	b.WriteString("/-- the built-in functions registered by `builtinfunctions.GetFunctions`, sorted by id -/\ndef builtins : List BuiltinRow := [")
	for i, r := range rows {
		if i > 0 {
			b.WriteString(",")
		}
		ps := make([]string, len(r.Params))
		for j, p := range r.Params {
			ps[j] = leanStr(p)
		}
		fmt.Fprintf(&b, "\n  { id := %s\n    params := [%s]\n    output := %s\n    errors := %v\n    handler := %s }",
			leanStr(r.ID), strings.Join(ps, ", "), leanStr(r.Output), r.Errors, leanStr(r.Handler))
	}
	b.WriteString("\n]\n\n/-- functions computing dynamic output types (and their helpers): name, normalised source -/\ndef builtinTypeHandlers : List (String × String) := [")
	for i, r := range handlerRows {
		if i > 0 {
			b.WriteString(",")
		}
		fmt.Fprintf(&b, "\n  (%s, %s)", leanStr(r[0]), leanStr(r[1]))
	}
	b.WriteString("\n]\n\n/-- string constants used by the handlers -/\ndef builtinConsts : List (String × String) := [")
	for i, k := range constNames {
		if i > 0 {
			b.WriteString(", ")
		}
		fmt.Fprintf(&b, "(%s, %s)", leanStr(k), leanStr(consts[k]))
	}
	b.WriteString("]\n\nend Arca.Gen\n")
	files["Builtins.lean"] = b.String()
}
