package main

import (
	"fmt"
	"go/ast"
	"go/token"
	"os"
	"path/filepath"
	"sort"
	"strings"
)

// extractFrame (C14): the frame condition of `Execute`.
//
//	(a) every heap write (assignment / op-assignment / ++ / channel send / delete / close whose target is not a plain
//	    local variable) in the functions of package workflow reachable from `executableWorkflow.Execute`, classified by the
//	    root of the written location: a field of the prepared workflow `e` (shared between runs), a field of the per-run
//	    `loopState`, a location that is fresh in the function (made / literal), or anything else ("other": parameters,
//	    results of calls, e.g. a DAG item or an expression object);
//	(b) the composite literal of `loopState` in `Execute`: per field the initialiser text and its kind
//	    (fresh:make | fresh:literal | fresh:context.WithCancel | clone | literal | shared | derived:<shared> | local:<x>);
//	(c) the method calls that `Execute` and the loop make THROUGH shared objects (`e.<field>.M(..)`, and `l.<field>.M(..)`
//	    for fields initialised from `e`): whether those methods mutate their receiver is not visible in this package and
//	    is an explicit, enumerated assumption of C14 (checked dynamically: race detector, re-run differential).
//
// Emits Gen/Frame.lean.  Logging calls are left out, as in the skeletons.
func extractFrame(repo string, files map[string]string) {
	dir := filepath.Join(repo, "workflow")
	entries, err := os.ReadDir(dir)
	if err != nil {
		unknown("frame: cannot read %s: %v", dir, err)
		return
	}
	type fn struct {
		f    *file
		decl *ast.FuncDecl
		recv string
	}
	funcs := map[string]fn{} // "recv.name" or "name"
	globals := map[string]bool{}
	for _, e := range entries {
		n := e.Name()
		if !strings.HasSuffix(n, ".go") || strings.HasSuffix(n, "_test.go") {
			continue
		}
		f := parse(repo, filepath.Join("workflow", n))
		for _, d := range f.f.Decls {
			switch t := d.(type) {
			case *ast.FuncDecl:
				recv := ""
				if t.Recv != nil && len(t.Recv.List) > 0 {
					recv = strings.TrimPrefix(f.src(t.Recv.List[0].Type), "*")
				}
				key := t.Name.Name
				if recv != "" {
					key = recv + "." + key
				}
				funcs[key] = fn{f: f, decl: t, recv: recv}
			case *ast.GenDecl:
				if t.Tok == token.VAR {
					for _, s := range t.Specs {
						for _, id := range s.(*ast.ValueSpec).Names {
							globals[id.Name] = true
						}
					}
				}
			}
		}
	}
	root, ok := funcs["executableWorkflow.Execute"]
	if !ok {
		unknown("frame: executableWorkflow.Execute not found")
		return
	}

	typeClass := func(f *file, t ast.Expr) string {
		switch strings.TrimPrefix(f.src(t), "*") {
		case "executableWorkflow":
			return "e"
		case "loopState":
			return "l"
		}
		return "param"
	}

	// ---- (b) the loopState literal ----------------------------------------------------------------------------------------
	var initText, initKind [][2]string
	sharedFields := map[string]bool{}
	{
		f := root.f
		localDefs := map[string]ast.Expr{} // name -> defining rhs (first definition in Execute)
		ast.Inspect(root.decl.Body, func(n ast.Node) bool {
			if as, ok := n.(*ast.AssignStmt); ok && as.Tok == token.DEFINE {
				for i, l := range as.Lhs {
					if id, ok := l.(*ast.Ident); ok {
						var rhs ast.Expr
						if len(as.Rhs) == len(as.Lhs) {
							rhs = as.Rhs[i]
						} else if len(as.Rhs) == 1 {
							rhs = as.Rhs[0]
						}
						if _, seen := localDefs[id.Name]; !seen && rhs != nil {
							localDefs[id.Name] = rhs
						}
					}
				}
			}
			return true
		})
		var kindOf func(e ast.Expr, depth int) string
		kindOf = func(e ast.Expr, depth int) string {
			switch t := e.(type) {
			case *ast.BasicLit:
				return "literal"
			case *ast.Ident:
				if t.Name == "true" || t.Name == "false" || t.Name == "nil" {
					return "literal"
				}
				if rhs, ok := localDefs[t.Name]; ok && depth < 3 {
					k := kindOf(rhs, depth+1)
					if strings.HasPrefix(k, "fresh") || k == "clone" || k == "literal" {
						return k
					}
				}
				return "local:" + t.Name
			case *ast.UnaryExpr:
				if t.Op == token.AND {
					if _, ok := t.X.(*ast.CompositeLit); ok {
						return "fresh:literal"
					}
				}
			case *ast.CompositeLit:
				return "fresh:literal"
			case *ast.SelectorExpr:
				if id, ok := t.X.(*ast.Ident); ok && id.Name == "e" {
					return "shared"
				}
			case *ast.CallExpr:
				fun := f.src(t.Fun)
				switch {
				case fun == "make":
					return "fresh:make"
				case fun == "context.WithCancel" || fun == "context.WithTimeout":
					return "fresh:" + fun
				case strings.HasPrefix(fun, "e.") && strings.HasSuffix(fun, ".Clone"):
					return "clone"
				case strings.HasPrefix(fun, "e."):
					parts := strings.Split(fun, ".")
					return "derived:e." + parts[1]
				}
				return "call:" + fun
			}
			return "other:" + f.src(e)
		}
		found := false
		ast.Inspect(root.decl.Body, func(n ast.Node) bool {
			cl, ok := n.(*ast.CompositeLit)
			if !ok || f.src(cl.Type) != "loopState" || found {
				return true
			}
			found = true
			for _, el := range cl.Elts {
				kv, ok := el.(*ast.KeyValueExpr)
				if !ok {
					unknown("frame: positional element in the loopState literal")
					continue
				}
				name := f.src(kv.Key)
				initText = append(initText, [2]string{name, f.src(kv.Value)})
				k := kindOf(kv.Value, 0)
				initKind = append(initKind, [2]string{name, k})
				if k == "shared" || strings.HasPrefix(k, "derived:") {
					sharedFields[name] = true
				}
			}
			return false
		})
		if !found {
			unknown("frame: no loopState composite literal in Execute")
		}
	}

	// ---- (a), (c): reachable functions ---------------------------------------------------------------------------------
	var eWrites, lWrites, otherWrites, sharedCalls [][2]string
	freshWrites := 0
	visited := map[string]bool{}
	var order []string
	var visit func(key string)
	visit = func(key string) {
		if visited[key] {
			return
		}
		fnv, ok := funcs[key]
		if !ok {
			return
		}
		visited[key] = true
		order = append(order, key)
		f, fd := fnv.f, fnv.decl
		name := key
		vars := map[string]string{} // e | l | fresh | param | alias:e.x | alias:l.x | range:e.x | call:...
		if fd.Recv != nil && len(fd.Recv.List) > 0 && len(fd.Recv.List[0].Names) > 0 {
			vars[fd.Recv.List[0].Names[0].Name] = typeClass(f, fd.Recv.List[0].Type)
		}
		addParams := func(ft *ast.FuncType) {
			if ft.Params == nil {
				return
			}
			for _, p := range ft.Params.List {
				for _, id := range p.Names {
					vars[id.Name] = typeClass(f, p.Type)
				}
			}
			if ft.Results != nil {
				for _, p := range ft.Results.List {
					for _, id := range p.Names {
						vars[id.Name] = "fresh" // named results: plain variables
					}
				}
			}
		}
		addParams(fd.Type)
		// rootOf: the variable at the root of a location and the first field selected from it
		var rootOf func(e ast.Expr) (string, string, bool)
		rootOf = func(e ast.Expr) (string, string, bool) {
			switch t := e.(type) {
			case *ast.Ident:
				return t.Name, "", true
			case *ast.SelectorExpr:
				if id, ok := t.X.(*ast.Ident); ok {
					return id.Name, t.Sel.Name, true
				}
				return rootOf(t.X)
			case *ast.IndexExpr:
				return rootOf(t.X)
			case *ast.TypeAssertExpr:
				return rootOf(t.X)
			case *ast.ParenExpr:
				return rootOf(t.X)
			case *ast.StarExpr:
				return rootOf(t.X)
			case *ast.SliceExpr:
				return rootOf(t.X)
			}
			return "", "", false
		}
		classify := func(rhs ast.Expr) string {
			switch t := rhs.(type) {
			case *ast.BasicLit, *ast.FuncLit, *ast.CompositeLit:
				return "fresh"
			case *ast.UnaryExpr:
				if t.Op == token.AND {
					if cl, ok := t.X.(*ast.CompositeLit); ok {
						if f.src(cl.Type) == "loopState" {
							return "l"
						}
						return "fresh"
					}
				}
			case *ast.CallExpr:
				fun := f.src(t.Fun)
				if fun == "make" || fun == "new" || fun == "append" || fun == "len" || strings.HasPrefix(fun, "fmt.") ||
					strings.HasPrefix(fun, "context.") || strings.HasPrefix(fun, "reflect.") || fun == "string" {
					return "fresh"
				}
				return "call:" + fun
			}
			if r, fld, ok := rootOf(rhs); ok {
				switch c := vars[r]; {
				case (c == "e" || c == "l") && fld != "":
					return "alias:" + c + "." + fld
				case strings.HasPrefix(c, "alias:"), strings.HasPrefix(c, "range:"), strings.HasPrefix(c, "call:"):
					return c
				case c == "param":
					return "param"
				}
			}
			return "fresh"
		}
		record := func(target ast.Expr, what string) {
			r, fld, ok := rootOf(target)
			if !ok {
				otherWrites = append(otherWrites, [2]string{name, what + " " + f.src(target)})
				return
			}
			if _, isIdent := target.(*ast.Ident); isIdent && what == "assign" {
				if _, local := vars[r]; !local && globals[r] {
					otherWrites = append(otherWrites, [2]string{name, "global " + r})
				}
				return // a plain local variable
			}
			c, known := vars[r]
			switch {
			case c == "e":
				eWrites = append(eWrites, [2]string{name, fld})
			case c == "l":
				lWrites = append(lWrites, [2]string{name, fld})
			case strings.HasPrefix(c, "alias:e."), strings.HasPrefix(c, "range:e."):
				eWrites = append(eWrites, [2]string{name, strings.SplitN(c, ".", 2)[1]})
			case strings.HasPrefix(c, "alias:l."), strings.HasPrefix(c, "range:l."):
				lWrites = append(lWrites, [2]string{name, strings.SplitN(c, ".", 2)[1]})
			case c == "fresh":
				freshWrites++
			case !known && globals[r]:
				otherWrites = append(otherWrites, [2]string{name, "global " + f.src(target)})
			default:
				otherWrites = append(otherWrites, [2]string{name, what + " " + f.src(target) + " (" + c + ")"})
			}
		}
		var walk func(n ast.Node)
		walk = func(n ast.Node) {
			ast.Inspect(n, func(n ast.Node) bool {
				switch t := n.(type) {
				case *ast.FuncLit:
					addParams(t.Type)
					walk(t.Body)
					return false
				case *ast.AssignStmt:
					for i, l := range t.Lhs {
						if t.Tok == token.DEFINE {
							if id, ok := l.(*ast.Ident); ok && id.Name != "_" {
								var rhs ast.Expr
								if len(t.Rhs) == len(t.Lhs) {
									rhs = t.Rhs[i]
								} else if len(t.Rhs) == 1 {
									rhs = t.Rhs[0]
								}
								if rhs != nil {
									if len(t.Rhs) == 1 && len(t.Lhs) > 1 {
										// multi-value: a call (fresh results / unknown heap), a comma-ok lookup or assertion
										if _, isCall := rhs.(*ast.CallExpr); isCall {
											vars[id.Name] = classify(rhs)
										} else if i == 0 {
											vars[id.Name] = classify(rhs)
										} else {
											vars[id.Name] = "fresh"
										}
									} else {
										vars[id.Name] = classify(rhs)
									}
								}
								continue
							}
						}
						if id, ok := l.(*ast.Ident); ok && t.Tok == token.ASSIGN && len(t.Rhs) == len(t.Lhs) {
							if _, local := vars[id.Name]; local {
								vars[id.Name] = classify(t.Rhs[i]) // re-assignment of a local variable
							}
						}
						record(l, "assign")
					}
				case *ast.DeclStmt:
					if gd, ok := t.Decl.(*ast.GenDecl); ok && gd.Tok == token.VAR {
						for _, sp := range gd.Specs {
							vs := sp.(*ast.ValueSpec)
							for i, id := range vs.Names {
								vars[id.Name] = "fresh" // zero value
								if i < len(vs.Values) {
									vars[id.Name] = classify(vs.Values[i])
								}
							}
						}
					}
				case *ast.IncDecStmt:
					record(t.X, "incdec")
				case *ast.SendStmt:
					record(t.Chan, "send")
				case *ast.RangeStmt:
					c := "fresh"
					if r, fld, ok := rootOf(t.X); ok {
						switch vc := vars[r]; {
						case (vc == "e" || vc == "l") && fld != "":
							c = "range:" + vc + "." + fld
						case strings.HasPrefix(vc, "alias:"):
							c = "range:" + strings.TrimPrefix(vc, "alias:")
						}
					}
					if t.Tok == token.DEFINE {
						if id, ok := t.Key.(*ast.Ident); ok && id.Name != "_" {
							vars[id.Name] = "fresh" // keys are copied scalars
						}
						if id, ok := t.Value.(*ast.Ident); ok && id.Name != "_" {
							vars[id.Name] = c
						}
					}
				case *ast.CallExpr:
					fun := f.src(t.Fun)
					if (fun == "delete" || fun == "close") && len(t.Args) >= 1 {
						record(t.Args[0], fun)
					}
					if isLogging(fun + "(") {
						return true
					}
					if sel, ok := t.Fun.(*ast.SelectorExpr); ok {
						if r, fld, ok := rootOf(sel.X); ok {
							c := vars[r]
							switch {
							case (c == "e" || c == "l") && fld == "":
								// a method of the prepared workflow / the loop state itself: follow it
								k := "executableWorkflow." + sel.Sel.Name
								if c == "l" {
									k = "loopState." + sel.Sel.Name
								}
								visit(k)
							case c == "e" && fld != "":
								sharedCalls = append(sharedCalls, [2]string{name, fun})
							case c == "l" && sharedFields[fld]:
								sharedCalls = append(sharedCalls, [2]string{name, fun})
							case strings.HasPrefix(c, "range:e."), strings.HasPrefix(c, "alias:e."):
								sharedCalls = append(sharedCalls, [2]string{name, fun + " (" + c + ")"})
							}
						}
					} else if id, ok := t.Fun.(*ast.Ident); ok {
						visit(id.Name)
					}
					// shared objects handed to callees as arguments
					for _, a := range t.Args {
						if r, fld, ok := rootOf(a); ok && fld != "" {
							c := vars[r]
							if c == "e" || (c == "l" && sharedFields[fld]) {
								if !isLogging(fun+"(") && fun != "len" && fun != "delete" && fun != "close" {
									sharedCalls = append(sharedCalls, [2]string{name, fun + "(.." + f.src(a) + "..)"})
								}
							}
						}
					}
				}
				return true
			})
		}
		walk(fd.Body)
	}
	visit("executableWorkflow.Execute")

	dedupe := func(xs [][2]string) [][2]string {
		seen := map[[2]string]bool{}
		out := [][2]string{}
		for _, x := range xs {
			if !seen[x] {
				seen[x] = true
				out = append(out, x)
			}
		}
		sort.Slice(out, func(i, j int) bool {
			if out[i][0] != out[j][0] {
				return out[i][0] < out[j][0]
			}
			return out[i][1] < out[j][1]
		})
		return out
	}
	pairs := func(xs [][2]string) string {
		if len(xs) == 0 {
			return "[]"
		}
		parts := make([]string, len(xs))
		for i, x := range xs {
			parts[i] = "(" + leanStr(x[0]) + ", " + leanStr(x[1]) + ")"
		}
		return "[\n    " + strings.Join(parts, ",\n    ") + "]"
	}
	sort.Strings(order)
	var b strings.Builder
	b.WriteString("-- GENERATED by /verif/extract (frame.go) from /repo/workflow; do not edit.\nnamespace Arca.Gen\n\n")
	b.WriteString("/-- functions of package workflow reachable from `executableWorkflow.Execute` (the analysed set) -/\n")
	b.WriteString("def frameFunctions : List String := " + leanStrList(order) + "\n\n")
	b.WriteString("/-- (function, field): heap writes whose target is a field of the prepared workflow `e` (shared between runs) -/\n")
	b.WriteString("def executableWorkflowWrites : List (String × String) := " + pairs(dedupe(eWrites)) + "\n\n")
	b.WriteString("/-- (function, field): heap writes whose target is a field of the per-run `loopState` -/\n")
	b.WriteString("def loopStateWrites : List (String × String) := " + pairs(dedupe(lWrites)) + "\n\n")
	b.WriteString("/-- (function, location): heap writes rooted neither in `e`, nor in the loop state, nor in a location made in the function -/\n")
	b.WriteString("def otherHeapWrites : List (String × String) := " + pairs(dedupe(otherWrites)) + "\n\n")
	b.WriteString(fmt.Sprintf("/-- heap writes into locations that are fresh in their function (not listed) -/\ndef freshLocalWrites : Nat := %d\n\n", freshWrites))
	b.WriteString("/-- (field, initialiser text) of the `loopState` literal in `Execute` -/\n")
	b.WriteString("def loopStateInit : List (String × String) := " + pairs(initText) + "\n\n")
	b.WriteString("/-- (field, kind): fresh:make | fresh:literal | fresh:context.WithCancel | clone | literal | shared | derived:e.x | local:x -/\n")
	b.WriteString("def loopStateInitKind : List (String × String) := " + pairs(initKind) + "\n\n")
	b.WriteString("/-- (function, callee): method calls made through objects shared between runs, and shared objects passed as arguments -/\n")
	b.WriteString("def executableWorkflowSharedCalls : List (String × String) := " + pairs(dedupe(sharedCalls)) + "\n\n")
	b.WriteString("/-- (Type.method, field): assignments through the RECEIVER in the methods of the expression-object types of internal/infer\n" +
		"    (OneOfExpression, OptionalExpression: they live in the prepared workflow's DAG items and are shared by all runs) -/\n")
	b.WriteString("def sharedExprReceiverWrites : List (String × String) := " + pairs(dedupe(receiverWrites(repo,
		[]string{"internal/infer/oneof_expression.go", "internal/infer/optional_expression.go"}))) + "\n\nend Arca.Gen\n")
	files["Frame.lean"] = b.String()
}

// receiverWrites lists, for every method with a receiver in the given files, the receiver fields it assigns to (plain
// assignment, op-assignment, inc/dec, map/slice element of a field, delete on a field).
func receiverWrites(repo string, rels []string) [][2]string {
	var out [][2]string
	for _, rel := range rels {
		f := parse(repo, rel)
		for _, d := range f.f.Decls {
			fd, ok := d.(*ast.FuncDecl)
			if !ok || fd.Recv == nil || len(fd.Recv.List) == 0 || len(fd.Recv.List[0].Names) == 0 || fd.Body == nil {
				continue
			}
			recv := fd.Recv.List[0].Names[0].Name
			tname := f.src(fd.Recv.List[0].Type)
			tname = strings.TrimPrefix(tname, "*")
			rooted := func(e ast.Expr) (string, bool) {
				for {
					switch t := e.(type) {
					case *ast.SelectorExpr:
						if id, ok := t.X.(*ast.Ident); ok && id.Name == recv {
							return t.Sel.Name, true
						}
						e = t.X
					case *ast.IndexExpr:
						e = t.X
					case *ast.StarExpr:
						e = t.X
					case *ast.ParenExpr:
						e = t.X
					default:
						return "", false
					}
				}
			}
			ast.Inspect(fd.Body, func(n ast.Node) bool {
				switch t := n.(type) {
				case *ast.AssignStmt:
					for _, l := range t.Lhs {
						if fld, ok := rooted(l); ok {
							out = append(out, [2]string{tname + "." + fd.Name.Name, fld})
						}
					}
				case *ast.IncDecStmt:
					if fld, ok := rooted(t.X); ok {
						out = append(out, [2]string{tname + "." + fd.Name.Name, fld})
					}
				case *ast.CallExpr:
					if id, ok := t.Fun.(*ast.Ident); ok && id.Name == "delete" && len(t.Args) > 0 {
						if fld, ok := rooted(t.Args[0]); ok {
							out = append(out, [2]string{tname + "." + fd.Name.Name, fld})
						}
					}
				}
				return true
			})
		}
	}
	return out
}
