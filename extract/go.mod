module verif/extract

go 1.23
