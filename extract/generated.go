package main

import (
	"fmt"
	"go/ast"
	"go/token"
	"os"
	"path/filepath"
	"reflect"
	"regexp"
	"sort"
	"strings"
)

// extractGenerated (G9): engine-generated outputs of both step providers.
//
//  (a) DECLARED: for every stage of the with-schema lifecycle (`runnableStep.Lifecycle`) and every output id, the
//      properties of the declared object schema (name, type descriptor, required).  Helper constructors are followed
//      (`step.EnabledOutputSchema()`, `step.DisabledOutputSchema()`, `r.StartedSchema()`); outputs that come from the
//      plugin / the sub-workflow are marked dynamic ("*").
//  (b) PRODUCED: every site where a provider completes a stage with an output (`r.completeStep`,
//      `r.transitionStageWithOutput`, direct `OnStepComplete` / `OnStageChange` calls with an output), found by walking
//      every path through every method of `runningStep` with a small abstract state (the stage the function has entered,
//      string constants and the defining expressions of local variables): function, stage, output id, shape of the value.
//
// Everything the recognisers do not understand becomes an `unknown(...)` entry and an `unknown` shape / "?" stage, which
// `Arca.Props.C08.generated_outputs_conform` cannot discharge: never a silent default.

type generatedOutput struct {
	Site     string      `json:"site"`
	Via      string      `json:"via"`
	Stage    string      `json:"stage"`
	StageBy  string      `json:"stage_by"`
	Output   string      `json:"output"`
	Kind     string      `json:"kind"` // map | struct:<Type> | dynamic | unknown
	Keys     []string    `json:"keys"`
	Fields   []fieldFact `json:"fields"`
	Declared []string    `json:"declared"` // property names of the declared schema ("*" = dynamic, nil = undeclared)
}

type propFact struct {
	Name     string `json:"name"`
	Kind     string `json:"kind"`
	Type     string `json:"type"`
	Required bool   `json:"required"`
}

type declaredFact struct {
	Provider string     `json:"provider"`
	Stage    string     `json:"stage"`
	Output   string     `json:"output"`
	Object   string     `json:"object"`
	Via      string     `json:"via"`
	IsError  bool       `json:"is_error"`
	Dynamic  bool       `json:"dynamic"`
	Props    []propFact `json:"props"`
}

type fieldFact struct {
	Key    string `json:"key"`
	Kind   string `json:"kind"`
	Src    string `json:"src"`
	Always bool   `json:"always"`
}

type shapeFact struct {
	Kind   string // map | struct | dynamic | unknown
	Name   string
	Src    string
	Fields []fieldFact
}

type producedFact struct {
	Provider string
	Site     string
	Via      string
	Stage    string
	StageBy  string
	Output   string
	Shape    shapeFact
}

// ---- package context -------------------------------------------------------------------------------------------------

type pkgCtx struct {
	repo   string
	dir    string
	name   string // provider name: plugin | foreach
	files  []*file
	consts map[string]string
}

func loadPkg(repo, dir, name string) *pkgCtx {
	p := &pkgCtx{repo: repo, dir: dir, name: name, consts: map[string]string{}}
	entries, err := os.ReadDir(filepath.Join(repo, dir))
	if err != nil {
		unknown("outputs: cannot read %s: %v", dir, err)
		return p
	}
	names := []string{}
	for _, e := range entries {
		if e.IsDir() || !strings.HasSuffix(e.Name(), ".go") || strings.HasSuffix(e.Name(), "_test.go") {
			continue
		}
		names = append(names, e.Name())
	}
	sort.Strings(names)
	for _, n := range names {
		f := parse(repo, filepath.Join(dir, n))
		p.files = append(p.files, f)
		for k, v := range f.consts() {
			p.consts[k] = v
		}
		// typed constants `X StageID = "x"` are covered by consts(); nothing else to do
	}
	return p
}

func (p *pkgCtx) funcDecl(recv, name string) (*file, *ast.FuncDecl) {
	for _, f := range p.files {
		if fd := f.funcDecl(recv, name); fd != nil {
			return f, fd
		}
	}
	return nil, nil
}

func (p *pkgCtx) structType(name string) (*file, *ast.StructType) {
	for _, f := range p.files {
		for _, d := range f.f.Decls {
			g, ok := d.(*ast.GenDecl)
			if !ok || g.Tok != token.TYPE {
				continue
			}
			for _, s := range g.Specs {
				ts := s.(*ast.TypeSpec)
				if ts.Name.Name != name {
					continue
				}
				if st, ok := ts.Type.(*ast.StructType); ok {
					return f, st
				}
			}
		}
	}
	return nil, nil
}

func (p *pkgCtx) varDecl(name string) (*file, ast.Expr) {
	for _, f := range p.files {
		if e := f.varDecl(name); e != nil {
			return f, e
		}
	}
	return nil, nil
}

func isNilIdent(e ast.Expr) bool {
	id, ok := e.(*ast.Ident)
	return ok && id.Name == "nil"
}

func boolIdent(e ast.Expr) (bool, bool) {
	id, ok := e.(*ast.Ident)
	if !ok || (id.Name != "true" && id.Name != "false") {
		return false, false
	}
	return id.Name == "true", true
}

// singleReturn: the expression of a function whose body is one `return <expr>`.
func singleReturn(fd *ast.FuncDecl) ast.Expr {
	if fd == nil || fd.Body == nil || len(fd.Body.List) != 1 {
		return nil
	}
	rs, ok := fd.Body.List[0].(*ast.ReturnStmt)
	if !ok || len(rs.Results) != 1 {
		return nil
	}
	return rs.Results[0]
}

// ---- (a) declared ---------------------------------------------------------------------------------------------------------

var dynSchemaRe = regexp.MustCompile(`^\w+\["\w+"\]\.SchemaValue$`)

func boundsText(f *file, args ...ast.Expr) string {
	all := true
	parts := []string{}
	for _, a := range args {
		if !isNilIdent(a) {
			all = false
		}
		parts = append(parts, f.src(a))
	}
	if all {
		return ""
	}
	return "[" + strings.Join(parts, ",") + "]"
}

// schemaTypeDesc: (kind, descriptor) of a schema type constructor expression.
func schemaTypeDesc(f *file, e ast.Expr) (string, string) {
	other := func() (string, string) { return "other", f.src(e) }
	call, ok := e.(*ast.CallExpr)
	if !ok {
		if dynSchemaRe.MatchString(f.src(e)) {
			return "other", "*"
		}
		return other()
	}
	switch f.src(call.Fun) {
	case "schema.NewStringSchema":
		if len(call.Args) == 3 {
			return "string", "string" + boundsText(f, call.Args...)
		}
	case "schema.NewBoolSchema":
		if len(call.Args) == 0 {
			return "bool", "bool"
		}
	case "schema.NewAnySchema":
		if len(call.Args) == 0 {
			return "any", "any"
		}
	case "schema.NewIntSchema":
		if len(call.Args) == 3 {
			return "int", "int" + boundsText(f, call.Args...)
		}
	case "schema.NewFloatSchema":
		if len(call.Args) == 3 {
			return "float", "float" + boundsText(f, call.Args...)
		}
	case "schema.NewListSchema":
		if len(call.Args) == 3 {
			_, item := schemaTypeDesc(f, call.Args[0])
			return "list", "list<" + item + ">" + boundsText(f, call.Args[1:]...)
		}
	case "schema.NewMapSchema":
		if len(call.Args) == 4 {
			_, k := schemaTypeDesc(f, call.Args[0])
			_, v := schemaTypeDesc(f, call.Args[1])
			return "map", "map<" + k + "," + v + ">" + boundsText(f, call.Args[2:]...)
		}
	}
	return other()
}

// objectProps: schema.NewScopeSchema(schema.NewObjectSchema("id", map[string]*schema.PropertySchema{..})) -> id, props.
func objectProps(f *file, consts map[string]string, e ast.Expr, where string) (string, []propFact, bool) {
	scope, ok := e.(*ast.CallExpr)
	if !ok || f.src(scope.Fun) != "schema.NewScopeSchema" || len(scope.Args) != 1 {
		unknown("outputs: %s: schema is not schema.NewScopeSchema(<one object>): %s", where, clip(f.src(e)))
		return "", nil, false
	}
	obj, ok := scope.Args[0].(*ast.CallExpr)
	if !ok || f.src(obj.Fun) != "schema.NewObjectSchema" || len(obj.Args) != 2 {
		unknown("outputs: %s: root object is not schema.NewObjectSchema(id, props): %s", where, clip(f.src(scope.Args[0])))
		return "", nil, false
	}
	id, ok := constStr(obj.Args[0], consts)
	if !ok {
		unknown("outputs: %s: object id is not constant: %s", where, f.src(obj.Args[0]))
		return "", nil, false
	}
	cl, ok := obj.Args[1].(*ast.CompositeLit)
	if !ok || f.src(cl.Type) != "map[string]*schema.PropertySchema" {
		unknown("outputs: %s: properties are not a map literal: %s", where, clip(f.src(obj.Args[1])))
		return id, nil, false
	}
	props := []propFact{}
	good := true
	for _, el := range cl.Elts {
		kv, ok := el.(*ast.KeyValueExpr)
		if !ok {
			unknown("outputs: %s: property element without key", where)
			good = false
			continue
		}
		name, ok := constStr(kv.Key, consts)
		if !ok {
			unknown("outputs: %s: property name is not constant: %s", where, f.src(kv.Key))
			good = false
			continue
		}
		pc, ok := kv.Value.(*ast.CallExpr)
		if !ok || f.src(pc.Fun) != "schema.NewPropertySchema" || len(pc.Args) < 3 {
			unknown("outputs: %s: property %s is not a schema.NewPropertySchema(..) call: %s", where, name, clip(f.src(kv.Value)))
			good = false
			continue
		}
		req, ok := boolIdent(pc.Args[2])
		if !ok {
			unknown("outputs: %s: required flag of property %s is not a literal: %s", where, name, f.src(pc.Args[2]))
			good = false
			continue
		}
		kind, text := schemaTypeDesc(f, pc.Args[0])
		props = append(props, propFact{Name: name, Kind: kind, Type: text, Required: req})
	}
	sort.Slice(props, func(i, j int) bool { return props[i].Name < props[j].Name })
	return id, props, good
}

func clip(s string) string {
	if len(s) > 120 {
		return s[:120] + "..."
	}
	return s
}

// stepOutputSchema resolves an expression of type *schema.StepOutputSchema to (scope expression, file it lives in,
// error flag, how it was reached).
func (p *pkgCtx) stepOutputSchema(f *file, consts map[string]string, e ast.Expr, via string, depth int, where string) (ast.Expr, *file, map[string]string, bool, string, bool) {
	fail := func(msg string) (ast.Expr, *file, map[string]string, bool, string, bool) {
		unknown("outputs: %s: %s: %s", where, msg, clip(f.src(e)))
		return nil, nil, nil, false, via, false
	}
	if depth > 4 {
		return fail("helper constructors nested too deeply")
	}
	switch t := e.(type) {
	case *ast.UnaryExpr:
		if t.Op == token.AND {
			return p.stepOutputSchema(f, consts, t.X, via, depth+1, where)
		}
	case *ast.CompositeLit:
		if t.Type != nil && f.src(t.Type) != "schema.StepOutputSchema" {
			return fail("composite literal of unexpected type")
		}
		var scope ast.Expr
		isErr := false
		for _, el := range t.Elts {
			kv, ok := el.(*ast.KeyValueExpr)
			if !ok {
				return fail("unkeyed StepOutputSchema literal")
			}
			switch f.src(kv.Key) {
			case "SchemaValue":
				scope = kv.Value
			case "ErrorValue":
				b, ok := boolIdent(kv.Value)
				if !ok {
					return fail("ErrorValue is not a literal")
				}
				isErr = b
			case "DisplayValue":
			default:
				return fail("unexpected field " + f.src(kv.Key))
			}
		}
		if scope == nil {
			return fail("StepOutputSchema literal without SchemaValue")
		}
		return scope, f, consts, isErr, via, true
	case *ast.CallExpr:
		fun := f.src(t.Fun)
		if fun == "schema.NewStepOutputSchema" {
			if len(t.Args) != 3 {
				return fail("schema.NewStepOutputSchema with unexpected arity")
			}
			b, ok := boolIdent(t.Args[2])
			if !ok {
				return fail("error flag is not a literal")
			}
			return t.Args[0], f, consts, b, via, true
		}
		if len(t.Args) != 0 {
			return fail("helper constructor with arguments")
		}
		switch {
		case strings.HasPrefix(fun, "step."):
			// helper in internal/step
			sp := loadPkg(p.repo, "internal/step", "step")
			hf, fd := sp.funcDecl("", strings.TrimPrefix(fun, "step."))
			ret := singleReturn(fd)
			if ret == nil {
				return fail("helper in internal/step not found or not a single return")
			}
			return sp.stepOutputSchema(hf, sp.consts, ret, fun, depth+1, where)
		case strings.HasPrefix(fun, "r."):
			hf, fd := p.funcDecl("runnableStep", strings.TrimPrefix(fun, "r."))
			ret := singleReturn(fd)
			if ret == nil {
				return fail("method of runnableStep not found or not a single return")
			}
			return p.stepOutputSchema(hf, p.consts, ret, fun, depth+1, where)
		case !strings.Contains(fun, "."):
			hf, fd := p.funcDecl("", fun)
			ret := singleReturn(fd)
			if ret == nil {
				return fail("package function not found or not a single return")
			}
			return p.stepOutputSchema(hf, p.consts, ret, fun, depth+1, where)
		}
	}
	return fail("unrecognised output schema expression")
}

// stageIDOfVar: `var xLifecycleStage = step.LifecycleStage{ID: string(StageIDX), ..}` -> "x".
func (p *pkgCtx) stageIDOfVar(name string) (string, bool) {
	f, e := p.varDecl(name)
	cl, ok := e.(*ast.CompositeLit)
	if !ok || f == nil {
		return "", false
	}
	for _, el := range cl.Elts {
		if kv, ok := el.(*ast.KeyValueExpr); ok && f.src(kv.Key) == "ID" {
			return constStr(kv.Value, p.consts)
		}
	}
	return "", false
}

func (p *pkgCtx) declared() []declaredFact {
	rows := []declaredFact{}
	f, fd := p.funcDecl("runnableStep", "Lifecycle")
	if fd == nil {
		unknown("outputs: %s: runnableStep.Lifecycle not found", p.dir)
		return rows
	}
	ast.Inspect(fd.Body, func(n ast.Node) bool {
		cl, ok := n.(*ast.CompositeLit)
		if !ok {
			return true
		}
		var stageVar string
		var outs ast.Expr
		for _, el := range cl.Elts {
			kv, ok := el.(*ast.KeyValueExpr)
			if !ok {
				continue
			}
			switch f.src(kv.Key) {
			case "LifecycleStage":
				stageVar = f.src(kv.Value)
			case "Outputs":
				outs = kv.Value
			}
		}
		if stageVar == "" {
			return true
		}
		stage, ok := p.stageIDOfVar(stageVar)
		if !ok {
			unknown("outputs: %s: stage id of %s is not constant", p.dir, stageVar)
			return false
		}
		if outs == nil || isNilIdent(outs) {
			return false
		}
		where := p.name + "." + stage
		ocl, ok := outs.(*ast.CompositeLit)
		if !ok {
			if strings.HasSuffix(f.src(outs), ".Outputs()") {
				rows = append(rows, declaredFact{Provider: p.name, Stage: stage, Output: "*", Via: f.src(outs), Dynamic: true, Props: []propFact{}})
			} else {
				unknown("outputs: %s: Outputs is neither a map literal nor <plugin step schema>.Outputs(): %s", where, clip(f.src(outs)))
				rows = append(rows, declaredFact{Provider: p.name, Stage: stage, Output: "?", Via: "unknown:" + clip(f.src(outs)), Props: []propFact{}})
			}
			return false
		}
		for _, el := range ocl.Elts {
			kv, ok := el.(*ast.KeyValueExpr)
			if !ok {
				unknown("outputs: %s: output element without key", where)
				continue
			}
			oid, ok := constStr(kv.Key, p.consts)
			if !ok {
				unknown("outputs: %s: output id is not constant: %s", where, f.src(kv.Key))
				continue
			}
			w := where + "." + oid
			row := declaredFact{Provider: p.name, Stage: stage, Output: oid, Props: []propFact{}}
			scope, sf, sconsts, isErr, via, ok := p.stepOutputSchema(f, p.consts, kv.Value, "literal", 0, w)
			row.Via = via
			if !ok {
				row.Via = "unknown:" + clip(f.src(kv.Value))
				row.Object = "?"
				rows = append(rows, row)
				continue
			}
			row.IsError = isErr
			id, props, good := objectProps(sf, sconsts, scope, w)
			row.Object = id
			if props != nil {
				row.Props = props
			}
			if !good {
				row.Via = "unknown:" + row.Via
			}
			rows = append(rows, row)
		}
		return false
	})
	return rows
}

// ---- (b) produced ---------------------------------------------------------------------------------------------------------

type binding struct {
	e   ast.Expr
	idx int // result index when the right-hand side is a multi-value call
	n   int
}

type penv struct {
	stage string // the stage r.currentStage holds on this path ("" = not determined inside this function)
	strs  map[string]string
	vals  map[string]binding
}

func newEnv() *penv { return &penv{strs: map[string]string{}, vals: map[string]binding{}} }

func (e *penv) clone() *penv {
	c := &penv{stage: e.stage, strs: map[string]string{}, vals: map[string]binding{}}
	for k, v := range e.strs {
		c.strs[k] = v
	}
	for k, v := range e.vals {
		c.vals[k] = v
	}
	return c
}

func (e *penv) key() string {
	parts := []string{"stage=" + e.stage}
	for k, v := range e.strs {
		parts = append(parts, "s:"+k+"="+v)
	}
	for k, v := range e.vals {
		parts = append(parts, fmt.Sprintf("v:%s=%d/%d/%d", k, v.e.Pos(), v.idx, v.n))
	}
	sort.Strings(parts[1:])
	return strings.Join(parts, ";")
}

func dedupEnvs(envs []*penv) []*penv {
	seen := map[string]bool{}
	out := []*penv{}
	for _, e := range envs {
		k := e.key()
		if !seen[k] {
			seen[k] = true
			out = append(out, e)
		}
	}
	if len(out) > 256 {
		unknown("outputs: path explosion (%d abstract states); truncated", len(out))
		out = out[:256]
	}
	return out
}

func cloneEnvs(envs []*penv) []*penv {
	out := make([]*penv, len(envs))
	for i, e := range envs {
		out[i] = e.clone()
	}
	return out
}

type walker struct {
	p     *pkgCtx
	f     *file
	fn    string
	rows  *[]producedFact
	preds func(newStage, output string) []string
}

func (w *walker) block(stmts []ast.Stmt, envs []*penv) []*penv {
	for _, s := range stmts {
		if len(envs) == 0 {
			return envs
		}
		envs = w.stmt(s, envs)
	}
	return envs
}

func (w *walker) funcLits(n ast.Node, envs []*penv) {
	ast.Inspect(n, func(x ast.Node) bool {
		if fl, ok := x.(*ast.FuncLit); ok {
			w.block(fl.Body.List, cloneEnvs(envs))
			return false
		}
		return true
	})
}

func (w *walker) assign(env *penv, lhs []ast.Expr, rhs []ast.Expr) {
	set := func(l ast.Expr, b binding) {
		switch t := l.(type) {
		case *ast.Ident:
			if t.Name == "_" {
				return
			}
			delete(env.strs, t.Name)
			delete(env.vals, t.Name)
			if b.n == 1 {
				if s, ok := constStr(b.e, w.p.consts); ok {
					if _, isLit := b.e.(*ast.BasicLit); isLit || w.isStringConst(b.e) {
						env.strs[t.Name] = s
						return
					}
				}
				src := w.f.src(b.e)
				if (src == "string(r.currentStage)" || src == "r.currentStage") && env.stage != "" {
					env.strs[t.Name] = env.stage
					return
				}
			}
			env.vals[t.Name] = b
		case *ast.SelectorExpr:
			if w.f.src(t) == "r.currentStage" {
				env.stage = ""
				if b.n == 1 {
					if s, ok := constStr(b.e, w.p.consts); ok {
						env.stage = s
					} else if id, ok := b.e.(*ast.Ident); ok {
						if s, ok := env.strs[id.Name]; ok {
							env.stage = s
						}
					}
				}
			}
		}
	}
	if len(lhs) == len(rhs) {
		for i := range lhs {
			set(lhs[i], binding{e: rhs[i], idx: 0, n: 1})
		}
	} else if len(rhs) == 1 {
		for i := range lhs {
			set(lhs[i], binding{e: rhs[0], idx: i, n: len(lhs)})
		}
	}
}

// isStringConst: identifiers / conversions that denote a string constant (not an integer constant).
func (w *walker) isStringConst(e ast.Expr) bool {
	switch t := e.(type) {
	case *ast.BasicLit:
		return t.Kind == token.STRING
	case *ast.Ident:
		_, ok := w.p.consts[t.Name]
		return ok
	case *ast.CallExpr:
		if len(t.Args) == 1 {
			return w.isStringConst(t.Args[0])
		}
	case *ast.ParenExpr:
		return w.isStringConst(t.X)
	}
	return false
}

func (w *walker) stmt(s ast.Stmt, envs []*penv) []*penv {
	switch t := s.(type) {
	case *ast.ReturnStmt:
		return nil
	case *ast.ExprStmt:
		if call, ok := t.X.(*ast.CallExpr); ok {
			if id, ok := call.Fun.(*ast.Ident); ok && id.Name == "panic" {
				return nil
			}
			for _, e := range envs {
				w.call(call, e)
			}
			if _, ok := call.Fun.(*ast.FuncLit); ok {
				w.funcLits(call, envs)
			}
		}
		return dedupEnvs(envs)
	case *ast.AssignStmt:
		for _, e := range envs {
			w.assign(e, t.Lhs, t.Rhs)
		}
		return dedupEnvs(envs)
	case *ast.DeclStmt:
		if g, ok := t.Decl.(*ast.GenDecl); ok {
			for _, sp := range g.Specs {
				if vs, ok := sp.(*ast.ValueSpec); ok {
					lhs := []ast.Expr{}
					for _, n := range vs.Names {
						lhs = append(lhs, n)
					}
					for _, e := range envs {
						if len(vs.Values) > 0 {
							w.assign(e, lhs, vs.Values)
						} else {
							for _, n := range vs.Names {
								delete(e.strs, n.Name)
								delete(e.vals, n.Name)
							}
						}
					}
				}
			}
		}
		return dedupEnvs(envs)
	case *ast.IfStmt:
		if t.Init != nil {
			envs = w.stmt(t.Init, envs)
		}
		thenEnvs := w.block(t.Body.List, cloneEnvs(envs))
		var elseEnvs []*penv
		switch e := t.Else.(type) {
		case nil:
			elseEnvs = envs
		case *ast.BlockStmt:
			elseEnvs = w.block(e.List, cloneEnvs(envs))
		default:
			elseEnvs = w.stmt(e, cloneEnvs(envs))
		}
		return dedupEnvs(append(thenEnvs, elseEnvs...))
	case *ast.BlockStmt:
		return w.block(t.List, envs)
	case *ast.ForStmt:
		if t.Init != nil {
			envs = w.stmt(t.Init, envs)
		}
		body := w.block(t.Body.List, cloneEnvs(envs))
		return dedupEnvs(append(envs, body...))
	case *ast.RangeStmt:
		body := w.block(t.Body.List, cloneEnvs(envs))
		return dedupEnvs(append(envs, body...))
	case *ast.SwitchStmt:
		if t.Init != nil {
			envs = w.stmt(t.Init, envs)
		}
		return w.clauses(t.Body, envs)
	case *ast.TypeSwitchStmt:
		return w.clauses(t.Body, envs)
	case *ast.SelectStmt:
		out := []*penv{}
		for _, c := range t.Body.List {
			cc := c.(*ast.CommClause)
			ce := cloneEnvs(envs)
			if cc.Comm != nil {
				ce = w.stmt(cc.Comm, ce)
			}
			out = append(out, w.block(cc.Body, ce)...)
		}
		return dedupEnvs(out)
	case *ast.GoStmt:
		w.funcLits(t.Call, envs)
		return envs
	case *ast.DeferStmt:
		w.funcLits(t.Call, envs)
		return envs
	case *ast.LabeledStmt:
		return w.stmt(t.Stmt, envs)
	}
	return envs
}

func (w *walker) clauses(body *ast.BlockStmt, envs []*penv) []*penv {
	out := []*penv{}
	hasDefault := false
	for _, c := range body.List {
		cc := c.(*ast.CaseClause)
		if cc.List == nil {
			hasDefault = true
		}
		out = append(out, w.block(cc.Body, cloneEnvs(envs))...)
	}
	if !hasDefault {
		out = append(out, envs...)
	}
	return dedupEnvs(out)
}

func (w *walker) constArg(e ast.Expr, env *penv) (string, bool) {
	if s, ok := constStr(e, w.p.consts); ok && w.isStringConst(e) {
		return s, true
	}
	if id, ok := e.(*ast.Ident); ok {
		s, ok := env.strs[id.Name]
		return s, ok
	}
	return "", false
}

// outputID: schema.PointerTo("x") | &ident | &result.OutputID (dynamic "*").
func (w *walker) outputID(e ast.Expr, env *penv) (string, bool) {
	switch t := e.(type) {
	case *ast.CallExpr:
		if w.f.src(t.Fun) == "schema.PointerTo" && len(t.Args) == 1 {
			return w.constArg(t.Args[0], env)
		}
	case *ast.UnaryExpr:
		if t.Op == token.AND {
			switch x := t.X.(type) {
			case *ast.Ident:
				s, ok := env.strs[x.Name]
				return s, ok
			case *ast.SelectorExpr:
				if _, ok := x.X.(*ast.Ident); ok && strings.HasPrefix(w.f.src(x.X), "result") {
					return "*", true
				}
			}
		}
	}
	return "", false
}

func goTypeKind(f *file, t ast.Expr) string {
	switch x := t.(type) {
	case *ast.Ident:
		switch x.Name {
		case "string":
			return "string"
		case "bool":
			return "bool"
		case "int", "int8", "int16", "int32", "int64", "uint", "uint8", "uint16", "uint32", "uint64":
			return "int"
		case "float32", "float64":
			return "float"
		}
	case *ast.MapType:
		return "map"
	case *ast.ArrayType:
		return "list"
	}
	return "other"
}

// runningStepField: type expression of field `name` of struct runningStep.
func (p *pkgCtx) fieldType(structName, name string) (*file, ast.Expr) {
	f, st := p.structType(structName)
	if st == nil {
		return nil, nil
	}
	for _, fl := range st.Fields.List {
		for _, n := range fl.Names {
			if n.Name == name {
				return f, fl.Type
			}
		}
	}
	return nil, nil
}

// valueKind: static kind of a Go expression used as a map value, with a short note how it was determined.
func (w *walker) valueKind(e ast.Expr, env *penv, depth int) (string, string) {
	src := w.f.src(e)
	if depth > 4 {
		return "other", clip(src)
	}
	switch t := e.(type) {
	case *ast.ParenExpr:
		return w.valueKind(t.X, env, depth+1)
	case *ast.BasicLit:
		switch t.Kind {
		case token.STRING:
			return "string", "literal"
		case token.INT:
			return "int", "literal"
		case token.FLOAT:
			return "float", "literal"
		}
	case *ast.Ident:
		if t.Name == "true" || t.Name == "false" {
			return "bool", t.Name
		}
		if _, ok := env.strs[t.Name]; ok {
			return "string", t.Name + " : string constant"
		}
		if b, ok := env.vals[t.Name]; ok {
			if b.n == 1 {
				k, how := w.valueKind(b.e, env, depth+1)
				return k, t.Name + " := " + how
			}
			if call, ok := b.e.(*ast.CallExpr); ok {
				if k, ty := w.callResultKind(call, b.idx); k != "" {
					return k, t.Name + " : " + ty + " (result " + fmt.Sprint(b.idx) + " of " + w.f.src(call.Fun) + ")"
				}
			}
		}
		return "other", t.Name
	case *ast.CompositeLit:
		if t.Type != nil {
			return goTypeKind(w.f, t.Type), "literal " + w.f.src(t.Type)
		}
	case *ast.SelectorExpr:
		if id, ok := t.X.(*ast.Ident); ok && id.Name == "r" {
			if tf, ty := w.p.fieldType("runningStep", t.Sel.Name); ty != nil {
				return goTypeKind(tf, ty), src + " : " + tf.src(ty)
			}
		}
	case *ast.CallExpr:
		fun := w.f.src(t.Fun)
		switch {
		case fun == "fmt.Sprintf" || fun == "fmt.Sprint":
			return "string", fun
		case fun == "string" && len(t.Args) == 1:
			return "string", "string(..)"
		case fun == "make" && len(t.Args) >= 1:
			return goTypeKind(w.f, t.Args[0]), "make(" + w.f.src(t.Args[0]) + ")"
		case fun == "any" && len(t.Args) == 1:
			return w.valueKind(t.Args[0], env, depth+1)
		}
		if sel, ok := t.Fun.(*ast.SelectorExpr); ok {
			if sel.Sel.Name == "Error" && len(t.Args) == 0 {
				return "string", src
			}
			// r.<field>.Load() on an atomic.Bool
			if sel.Sel.Name == "Load" && len(t.Args) == 0 {
				if inner, ok := sel.X.(*ast.SelectorExpr); ok {
					if id, ok := inner.X.(*ast.Ident); ok && id.Name == "r" {
						if tf, ty := w.p.fieldType("runningStep", inner.Sel.Name); ty != nil && tf.src(ty) == "atomic.Bool" {
							return "bool", src + " : atomic.Bool"
						}
					}
				}
			}
			if k, ty := w.callResultKind(t, 0); k != "" {
				return k, src + " : " + ty
			}
		}
	}
	return "other", clip(src)
}

// callResultKind: kind of the idx-th result of `r.method(..)`, from the method's declaration.
func (w *walker) callResultKind(call *ast.CallExpr, idx int) (string, string) {
	sel, ok := call.Fun.(*ast.SelectorExpr)
	if !ok {
		return "", ""
	}
	id, ok := sel.X.(*ast.Ident)
	if !ok || id.Name != "r" {
		return "", ""
	}
	f, fd := w.p.funcDecl("runningStep", sel.Sel.Name)
	if fd == nil || fd.Type.Results == nil {
		return "", ""
	}
	i := 0
	for _, r := range fd.Type.Results.List {
		n := len(r.Names)
		if n == 0 {
			n = 1
		}
		if idx < i+n {
			return goTypeKind(f, r.Type), f.src(r.Type)
		}
		i += n
	}
	return "", ""
}

var tagRe = regexp.MustCompile(`json:"([^"]*)"`)

func (w *walker) structShape(name string, lit *ast.CompositeLit) shapeFact {
	sf, st := w.p.structType(name)
	if st == nil {
		unknown("outputs: %s.%s: struct type %s not found in %s", w.p.name, w.fn, name, w.p.dir)
		return shapeFact{Kind: "unknown", Src: "struct " + name + " not found"}
	}
	sh := shapeFact{Kind: "struct", Name: name}
	exported := map[string]bool{}
	for _, fl := range st.Fields.List {
		if len(fl.Names) == 0 {
			unknown("outputs: %s.%s: struct %s has an embedded field %s", w.p.name, w.fn, name, sf.src(fl.Type))
			return shapeFact{Kind: "unknown", Src: "struct " + name + " with embedded field"}
		}
		for _, n := range fl.Names {
			if !ast.IsExported(n.Name) {
				continue // dropped by encoding/json
			}
			exported[n.Name] = true
			key := n.Name
			always := true
			if fl.Tag != nil {
				if m := tagRe.FindStringSubmatch(fl.Tag.Value); m != nil {
					parts := strings.Split(m[1], ",")
					if parts[0] == "-" && len(parts) == 1 {
						continue
					}
					if parts[0] != "" {
						key = parts[0]
					}
					for _, o := range parts[1:] {
						if o == "omitempty" || o == "omitzero" {
							always = false
						}
						if o == "string" {
							unknown("outputs: struct %s field %s uses the json ',string' option", name, n.Name)
						}
					}
				}
			}
			sh.Fields = append(sh.Fields, fieldFact{Key: key, Kind: goTypeKind(sf, fl.Type), Src: n.Name + " " + sf.src(fl.Type), Always: always})
		}
	}
	if lit != nil {
		for _, el := range lit.Elts {
			kv, ok := el.(*ast.KeyValueExpr)
			if !ok {
				continue
			}
			if !exported[w.f.src(kv.Key)] {
				unknown("outputs: %s.%s: literal of %s sets %s, which is not an exported field", w.p.name, w.fn, name, w.f.src(kv.Key))
			}
		}
	}
	return sh
}

func (w *walker) shapeOf(e ast.Expr, env *penv, depth int) shapeFact {
	bad := func(why string) shapeFact {
		unknown("outputs: %s.%s: output value %s: %s", w.p.name, w.fn, why, clip(w.f.src(e)))
		return shapeFact{Kind: "unknown", Src: clip(w.f.src(e))}
	}
	if depth > 4 {
		return bad("nested too deeply")
	}
	switch t := e.(type) {
	case *ast.ParenExpr:
		return w.shapeOf(t.X, env, depth+1)
	case *ast.CallExpr:
		if w.f.src(t.Fun) == "any" && len(t.Args) == 1 {
			return w.shapeOf(t.Args[0], env, depth+1)
		}
	case *ast.Ident:
		if b, ok := env.vals[t.Name]; ok && b.n == 1 {
			return w.shapeOf(b.e, env, depth+1)
		}
		return bad("variable without a single defining expression on this path")
	case *ast.CompositeLit:
		if mt, ok := t.Type.(*ast.MapType); ok {
			ks := w.f.src(mt.Key)
			if ks != "any" && ks != "string" {
				return bad("map literal with key type " + ks)
			}
			sh := shapeFact{Kind: "map"}
			for _, el := range t.Elts {
				kv, ok := el.(*ast.KeyValueExpr)
				if !ok {
					return bad("map literal element without key")
				}
				k, ok := constStr(kv.Key, w.p.consts)
				if !ok || !w.isStringConst(kv.Key) {
					return bad("map literal with non-constant key " + w.f.src(kv.Key))
				}
				kind, how := w.valueKind(kv.Value, env, 0)
				sh.Fields = append(sh.Fields, fieldFact{Key: k, Kind: kind, Src: how, Always: true})
			}
			return sh
		}
		if id, ok := t.Type.(*ast.Ident); ok {
			return w.structShape(id.Name, t)
		}
		return bad("composite literal of unsupported type")
	}
	return bad("unrecognised expression")
}

// outputValue: &ident | &result.OutputData.
func (w *walker) outputValue(e ast.Expr, env *penv) shapeFact {
	if u, ok := e.(*ast.UnaryExpr); ok && u.Op == token.AND {
		switch x := u.X.(type) {
		case *ast.Ident:
			return w.shapeOf(x, env, 0)
		case *ast.SelectorExpr:
			if strings.HasPrefix(w.f.src(x.X), "result") {
				return shapeFact{Kind: "dynamic", Src: w.f.src(x)}
			}
		}
	}
	unknown("outputs: %s.%s: output value argument not recognised: %s", w.p.name, w.fn, clip(w.f.src(e)))
	return shapeFact{Kind: "unknown", Src: clip(w.f.src(e))}
}

func (w *walker) record(via, stage, stageBy, output string, sh shapeFact) {
	row := producedFact{Provider: w.p.name, Site: w.fn, Via: via, Stage: stage, StageBy: stageBy, Output: output, Shape: sh}
	for _, r := range *w.rows {
		if reflect.DeepEqual(r, row) {
			return
		}
	}
	*w.rows = append(*w.rows, row)
}

func (w *walker) call(call *ast.CallExpr, env *penv) {
	fun := w.f.src(call.Fun)
	stageArg := func(e ast.Expr) (string, bool) {
		if w.f.src(e) == "r.currentStage" {
			return "", false
		}
		return w.constArg(e, env)
	}
	switch fun {
	case "r.transitionRunningStage", "r.transitionFromFailedStage":
		if len(call.Args) >= 1 {
			s, _ := stageArg(call.Args[0])
			env.stage = s
		}
	case "r.transitionStageWithOutput":
		if len(call.Args) != 4 {
			unknown("outputs: %s.%s: transitionStageWithOutput with %d arguments", w.p.name, w.fn, len(call.Args))
			return
		}
		newStage, okNew := stageArg(call.Args[0])
		if !isNilIdent(call.Args[2]) {
			oid, ok := w.outputID(call.Args[2], env)
			if !ok {
				unknown("outputs: %s.%s: output id of transitionStageWithOutput is not constant: %s", w.p.name, w.fn, w.f.src(call.Args[2]))
				oid = "?"
			}
			sh := w.outputValue(call.Args[3], env)
			stage, by := "?", "unknown"
			if okNew {
				c := w.preds(newStage, oid)
				switch {
				case env.stage != "":
					stage, by = env.stage, "entered"
					ok := false
					for _, x := range c {
						ok = ok || x == env.stage
					}
					if !ok {
						unknown("outputs: %s.%s: stage %s left towards %s with output %s, which is not a declared successor/output", w.p.name, w.fn, env.stage, newStage, oid)
					}
				case len(c) == 1:
					stage, by = c[0], "pred("+newStage+")"
				default:
					unknown("outputs: %s.%s: previous stage of the transition to %s with output %s is ambiguous: %v", w.p.name, w.fn, newStage, oid, c)
				}
			} else {
				unknown("outputs: %s.%s: new stage of transitionStageWithOutput is not constant: %s", w.p.name, w.fn, w.f.src(call.Args[0]))
			}
			w.record("transitionStageWithOutput", stage, by, oid, sh)
		}
		env.stage = ""
		if okNew {
			env.stage = newStage
		}
	case "r.completeStep":
		if len(call.Args) != 4 {
			unknown("outputs: %s.%s: completeStep with %d arguments", w.p.name, w.fn, len(call.Args))
			return
		}
		arg, okArg := stageArg(call.Args[0])
		stage, by := "?", "unknown"
		switch {
		case env.stage != "" && okArg && env.stage == arg:
			stage, by = arg, "entered+arg"
		case env.stage != "" && okArg:
			// the handler is told r.currentStage *before* the update, i.e. the entered stage
			stage, by = env.stage, "entered"
			unknown("outputs: %s.%s: completeStep(%s) while the function entered stage %s", w.p.name, w.fn, arg, env.stage)
		case env.stage != "":
			stage, by = env.stage, "entered"
		case okArg:
			stage, by = arg, "arg"
		default:
			unknown("outputs: %s.%s: stage of completeStep not determined: %s", w.p.name, w.fn, w.f.src(call.Args[0]))
		}
		if isNilIdent(call.Args[2]) {
			return
		}
		oid, ok := w.outputID(call.Args[2], env)
		if !ok {
			unknown("outputs: %s.%s: output id of completeStep is not constant: %s", w.p.name, w.fn, w.f.src(call.Args[2]))
			oid = "?"
		}
		sh := w.outputValue(call.Args[3], env)
		w.record("completeStep", stage, by, oid, sh)
		if stage != "?" {
			env.stage = stage
		}
	case "r.stageChangeHandler.OnStepComplete", "r.stageChangeHandler.OnStageChange":
		short := strings.TrimPrefix(fun, "r.stageChangeHandler.")
		want := 5
		if short == "OnStageChange" {
			want = 7
		}
		if len(call.Args) != want {
			unknown("outputs: %s.%s: %s with %d arguments", w.p.name, w.fn, short, len(call.Args))
			return
		}
		if isNilIdent(call.Args[2]) {
			return
		}
		prev := call.Args[1]
		if u, ok := prev.(*ast.UnaryExpr); ok && u.Op == token.AND {
			prev = u.X
		}
		stage, by := "?", "unknown"
		if s, ok := w.constArg(prev, env); ok {
			stage, by = s, "assigned"
		} else {
			unknown("outputs: %s.%s: previous stage of %s is not determined: %s", w.p.name, w.fn, short, w.f.src(call.Args[1]))
		}
		oid, ok := w.outputID(call.Args[2], env)
		if !ok {
			unknown("outputs: %s.%s: output id of %s is not constant on this path: %s", w.p.name, w.fn, short, w.f.src(call.Args[2]))
			oid = "?"
		}
		sh := w.outputValue(call.Args[3], env)
		w.record(short, stage, by, oid, sh)
	}
}

// helperForwards checks that `completeStep` / `transitionStageWithOutput` hand their outputID / previousStageOutput
// parameters to the handler unchanged and report r.currentStage as it was before the update.
func (p *pkgCtx) helperForwards(name, handlerMethod string) string {
	f, fd := p.funcDecl("runningStep", name)
	if fd == nil {
		unknown("outputs: %s: helper %s not found", p.dir, name)
		return "unknown:not found"
	}
	params := []string{}
	for _, fl := range fd.Type.Params.List {
		for _, n := range fl.Names {
			params = append(params, n.Name)
		}
	}
	if len(params) != 4 {
		unknown("outputs: %s: helper %s has %d parameters", p.dir, name, len(params))
		return "unknown:parameters"
	}
	prevAt, setAt, callAt := -1, -1, -1
	prevVar := ""
	var call *ast.CallExpr
	for i, s := range fd.Body.List {
		switch t := s.(type) {
		case *ast.AssignStmt:
			if len(t.Lhs) == 1 && len(t.Rhs) == 1 {
				l, r := f.src(t.Lhs[0]), f.src(t.Rhs[0])
				if r == "string(r.currentStage)" && prevAt < 0 {
					prevAt, prevVar = i, l
				}
				if l == "r.currentStage" {
					if setAt >= 0 || r != params[0] {
						unknown("outputs: %s: helper %s assigns r.currentStage in an unexpected way", p.dir, name)
						return "unknown:currentStage"
					}
					setAt = i
				}
			}
		case *ast.ExprStmt:
			if c, ok := t.X.(*ast.CallExpr); ok && f.src(c.Fun) == "r.stageChangeHandler."+handlerMethod {
				callAt, call = i, c
			}
		}
	}
	if !(prevAt >= 0 && prevAt < setAt && setAt < callAt) || call == nil || len(call.Args) < 4 {
		unknown("outputs: %s: helper %s has an unexpected statement order", p.dir, name)
		return "unknown:order"
	}
	a1 := strings.TrimPrefix(f.src(call.Args[1]), "&")
	if a1 != prevVar || f.src(call.Args[2]) != params[2] || f.src(call.Args[3]) != params[3] {
		unknown("outputs: %s: helper %s does not forward its parameters to %s", p.dir, name, handlerMethod)
		return "unknown:forwarding"
	}
	return handlerMethod + "(previous = r.currentStage before the update, " + params[2] + ", " + params[3] + ")"
}

func (p *pkgCtx) produced(declared []declaredFact) []producedFact {
	rows := []producedFact{}
	stages := fx.Lifecycles[p.name]
	preds := func(newStage, output string) []string {
		out := []string{}
		for _, s := range stages {
			isPred := false
			for _, n := range s.Next {
				if n[0] == newStage {
					isPred = true
				}
			}
			if !isPred {
				continue
			}
			for _, d := range declared {
				if d.Stage == s.ID && d.Output == output {
					out = append(out, s.ID)
				}
			}
		}
		return out
	}
	for _, f := range p.files {
		for _, d := range f.f.Decls {
			fd, ok := d.(*ast.FuncDecl)
			if !ok || fd.Body == nil || fd.Recv == nil || len(fd.Recv.List) == 0 {
				continue
			}
			if strings.TrimPrefix(f.src(fd.Recv.List[0].Type), "*") != "runningStep" {
				continue
			}
			if fd.Name.Name == "completeStep" || fd.Name.Name == "transitionStageWithOutput" {
				continue // generic helpers: checked by helperForwards
			}
			w := &walker{p: p, f: f, fn: fd.Name.Name, rows: &rows, preds: preds}
			w.block(fd.Body.List, []*penv{newEnv()})
		}
	}
	return rows
}

// ---- rendering ------------------------------------------------------------------------------------------------------------

func leanKind(k string) string {
	switch k {
	case "string", "bool", "int", "float", "list", "map", "any":
		return "." + k
	}
	return ".other"
}

func leanFields(fs []fieldFact) string {
	if len(fs) == 0 {
		return "[]"
	}
	parts := []string{}
	for _, f := range fs {
		parts = append(parts, fmt.Sprintf("{ key := %s, kind := %s, src := %s, always := %v }", leanStr(f.Key), leanKind(f.Kind), leanStr(f.Src), f.Always))
	}
	return "[\n        " + strings.Join(parts, ",\n        ") + "]"
}

func leanShape(s shapeFact) string {
	switch s.Kind {
	case "map":
		return "Shape.mapLit " + leanFields(s.Fields)
	case "struct":
		return "Shape.struct " + leanStr(s.Name) + " " + leanFields(s.Fields)
	case "dynamic":
		return "Shape.dynamic " + leanStr(s.Src)
	}
	return "Shape.unknown " + leanStr(s.Src)
}

func extractGenerated(repo string, files map[string]string) {
	var b strings.Builder
	b.WriteString("-- GENERATED by /verif/extract from /repo; do not edit.\nimport Arca.Model.OutputShape\nnamespace Arca.Gen\nopen Arca.Model\n\n")
	allDeclared := []declaredFact{}
	allProduced := []producedFact{}
	helpers := [][3]string{}
	for _, prov := range []struct{ name, dir string }{{"plugin", "internal/step/plugin"}, {"foreach", "internal/step/foreach"}} {
		p := loadPkg(repo, prov.dir, prov.name)
		decl := p.declared()
		prod := p.produced(decl)
		allDeclared = append(allDeclared, decl...)
		allProduced = append(allProduced, prod...)
		helpers = append(helpers, [3]string{prov.name, "completeStep", p.helperForwards("completeStep", "OnStepComplete")},
			[3]string{prov.name, "transitionStageWithOutput", p.helperForwards("transitionStageWithOutput", "OnStageChange")})
		for _, r := range prod {
			g := generatedOutput{Site: r.Site, Via: r.Via, Stage: r.Stage, StageBy: r.StageBy, Output: r.Output, Kind: r.Shape.Kind,
				Keys: []string{}, Fields: r.Shape.Fields}
			if r.Shape.Kind == "struct" {
				g.Kind = "struct:" + r.Shape.Name
			}
			for _, f := range r.Shape.Fields {
				g.Keys = append(g.Keys, f.Key)
			}
			for _, d := range decl {
				if d.Stage == r.Stage && (d.Output == r.Output || d.Dynamic) {
					g.Declared = []string{}
					if d.Dynamic {
						g.Declared = []string{"*"}
					}
					for _, pr := range d.Props {
						g.Declared = append(g.Declared, pr.Name)
					}
				}
			}
			fx.Generated[prov.name] = append(fx.Generated[prov.name], g)
		}
	}
	b.WriteString("/-- DECLARED: every stage output with a schema in `runnableStep.Lifecycle` of both providers (source order) -/\n")
	b.WriteString("def declaredRows : List DeclaredRow := [")
	for i, d := range allDeclared {
		if i > 0 {
			b.WriteString(",")
		}
		props := []string{}
		for _, p := range d.Props {
			props = append(props, fmt.Sprintf("{ name := %s, kind := %s, ty := %s, required := %v }", leanStr(p.Name), leanKind(p.Kind), leanStr(p.Type), p.Required))
		}
		ps := "[]"
		if len(props) > 0 {
			ps = "[\n        " + strings.Join(props, ",\n        ") + "]"
		}
		fmt.Fprintf(&b, "\n  { provider := %s\n    stage := %s\n    output := %s\n    object := %s\n    via := %s\n    isError := %v\n    dynamic := %v\n    props := %s }",
			leanStr(d.Provider), leanStr(d.Stage), leanStr(d.Output), leanStr(d.Object), leanStr(d.Via), d.IsError, d.Dynamic, ps)
	}
	b.WriteString("]\n\n")
	b.WriteString("/-- PRODUCED: every site where a provider completes a stage with an output (source order, one row per path shape) -/\n")
	b.WriteString("def producedRows : List ProducedRow := [")
	for i, r := range allProduced {
		if i > 0 {
			b.WriteString(",")
		}
		fmt.Fprintf(&b, "\n  { provider := %s\n    site := %s\n    via := %s\n    stage := %s\n    stageBy := %s\n    output := %s\n    shape := %s }",
			leanStr(r.Provider), leanStr(r.Site), leanStr(r.Via), leanStr(r.Stage), leanStr(r.StageBy), leanStr(r.Output), leanShape(r.Shape))
	}
	b.WriteString("]\n\n")
	b.WriteString("/-- the generic helpers hand their output parameters to the handler unchanged: (provider, helper, what it calls) -/\n")
	b.WriteString("def outputHelpers : List (String × String × String) := [")
	for i, h := range helpers {
		if i > 0 {
			b.WriteString(",")
		}
		fmt.Fprintf(&b, "\n  (%s, %s, %s)", leanStr(h[0]), leanStr(h[1]), leanStr(h[2]))
	}
	b.WriteString("]\n\nend Arca.Gen\n")
	files["Outputs.lean"] = b.String()
}
