package main

type builtinFact struct {
	ID      string   `json:"id"`
	Params  []string `json:"params"`
	Output  string   `json:"output"`
	Errors  bool     `json:"errors"`
	Handler string   `json:"handler"`
}

type assertFact struct {
	File    string `json:"file"`
	Func    string `json:"func"`
	Expr    string `json:"expr"`
	Type    string `json:"type"`
	CommaOk bool   `json:"comma_ok"`
}

