package main

type builtinFact struct {
	ID      string   `json:"id"`
	Params  []string `json:"params"`
	Output  string   `json:"output"`
	Errors  bool     `json:"errors"`
	Handler string   `json:"handler"`
}

type generatedOutput struct {
	Site     string   `json:"site"`
	Stage    string   `json:"stage"`
	Output   string   `json:"output"`
	Kind     string   `json:"kind"` // map | struct:<Type> | other
	Keys     []string `json:"keys"`
	Declared []string `json:"declared"`
}

type assertFact struct {
	File    string `json:"file"`
	Func    string `json:"func"`
	Expr    string `json:"expr"`
	Type    string `json:"type"`
	CommaOk bool   `json:"comma_ok"`
}

type accessFact struct {
	File   string `json:"file"`
	Func   string `json:"func"`
	Recv   string `json:"recv"`
	Field  string `json:"field"`
	Write  bool   `json:"write"`
	Locked bool   `json:"locked"`
	Line   int    `json:"line"`
}

func extractGenerated(repo string, files map[string]string) {}
func extractAccess(repo string, files map[string]string)    {}
