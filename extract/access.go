package main

import (
	"fmt"
	"go/ast"
	"go/parser"
	"go/token"
	"os"
	"path/filepath"
	"sort"
	"strings"
)

// extractAccess: the access table (G10) of the three lock-protected engine structures
//
//	loopState    (workflow/workflow.go,                 mutex l.lock)
//	runningStep  (internal/step/plugin/provider.go,     mutex r.lock)
//	runningStep  (internal/step/foreach/provider.go,    mutex r.lock)
//
// For every function and function literal of the file that has a variable of the structure type in scope (method
// receiver, `*T` parameter, `x := &T{..}`), every read / write / synchronising operation of a field `x.<field>` with
// the lock state at that statement.  The lock state is computed by an intra-procedural scan of the statement list
// (`x.lock.Lock()`, `x.lock.Unlock()`, `defer x.lock.Unlock()`, deferred literals that unlock); an access inside a branch
// inherits the state at branch entry, lock operations inside a branch last to the end of that branch, and the state
// after a branching statement is the common state of the branches that fall through (not held when they disagree).
// `lockedOnEntry` is the greatest fixpoint over the intra-file call graph: a function is entered with the lock held when
// it has at least one call site, is not reachable from outside the file, and every call site is inside a locked region
// or inside a function that itself is always entered with the lock (the Lean side re-checks that the emitted assignment
// is such a fixpoint).  Contracts found in comments ("must have the step mutex locked", ...) are reported next to it;
// they are never used to compute `locked`.
//
// Not tracked (stated in Props/C17.lean): aliases of field contents held in local variables, the internal state of
// objects reached through a field by a method call (dgraph, logger, ATP client have their own synchronisation).

type accessFact struct {
	File    string `json:"file"`
	Func    string `json:"func"`
	Recv    string `json:"recv"`
	Field   string `json:"field"`
	Op      string `json:"op"` // read | write | sync
	Write   bool   `json:"write"`
	Held    bool   `json:"held"`    // the lock was taken by this function (or its lexically enclosing one) at this statement
	Inherit bool   `json:"inherit"` // the function has not released a lock it did not take before this statement
	Locked  bool   `json:"locked"`  // held || (inherit && lockedOnEntry(func))
	Kind    string `json:"kind"`
	Line    int    `json:"line"`
	Ctor    bool   `json:"ctor"` // key of the constructor literal &T{...}
	Root    bool   `json:"in_goroutine_root"`
}

type accessTarget struct {
	path string
	typ  string
}

var accessTargets = []accessTarget{
	{"workflow/workflow.go", "loopState"},
	{"internal/step/plugin/provider.go", "runningStep"},
	{"internal/step/foreach/provider.go", "runningStep"},
}

var lockContractPhrases = []string{
	"must have the step mutex locked",
	"lock should be acquired by the caller",
	"called with the run lock held",
	"caller must hold",
	"must be called with the lock",
}

type callSite struct {
	File    string
	Caller  string
	Callee  string
	Held    bool
	Inherit bool
	ViaGo   bool
	Line    int
}

type funcInfo struct {
	File     string
	Name     string
	Root     string // "", go-literal, go-target, callback, deferred, inline
	External bool   // may be entered from outside the file (exported, method value taken, referenced from a sibling file)
	Contract bool   // a comment says the caller holds the lock
	Entry    bool   // computed: always entered with the lock held
	Line     int
	Parent   string // literals: the unit that contains them
	start    token.Pos
	end      token.Pos
}

type lockState struct {
	held     bool // taken locally
	released bool // a lock not taken locally has been released (so a caller's lock can no longer be assumed)
	term     bool // control does not fall through (return / panic / break / continue / goto)
}

type deferredItem struct {
	pos  token.Pos
	lit  *ast.FuncLit
	call *ast.CallExpr // deferred named call (call site evaluated at function exit)
	name string        // unit name of the literal
}

type exitPoint struct {
	pos  token.Pos
	held bool
	inh  bool
}

// one analysed function body (declaration or literal)
type accessUnit struct {
	name        string
	root        string
	parent      *accessUnit
	body        *ast.BlockStmt
	exits       []exitPoint
	deferUnlock []token.Pos
	deferred    []deferredItem
	litSeq      *int
	outer       string
	start, end  token.Pos
}

type accessScanner struct {
	f        *file
	tgt      accessTarget
	fields   map[string]string // field -> declared type text
	order    []string
	kind0    map[string]string // preliminary kind from the declared type
	mutex    map[string]bool
	methods  map[string]bool // methods declared on the target type in this file
	bound    map[string]bool // variable names bound to the target type in the current declaration
	rows     []accessFact
	sites    []callSite
	funcs    []*funcInfo
	funcIdx  map[string]*funcInfo
	goTgt    map[string]bool
	escapes  map[string]bool
	locals   []accessFact  // captured local variables of goroutine / callback literals
	localAcc []localAccess // every use of a local variable in the declaration being scanned, with the lock state
}

type localAccess struct {
	unit    string
	obj     *ast.Object
	pos     token.Pos
	write   bool
	held    bool
	inherit bool
}

func (s *accessScanner) local(u *accessUnit, st *lockState, id *ast.Ident, write bool) {
	if id.Obj == nil || id.Obj.Kind != ast.Var {
		return
	}
	s.localAcc = append(s.localAcc, localAccess{unit: u.name, obj: id.Obj, pos: id.Pos(), write: write, held: st.held, inherit: !st.released})
}

func declKind(t string) string {
	t = strings.TrimPrefix(strings.TrimSpace(t), "*")
	switch {
	case t == "sync.Mutex" || t == "sync.RWMutex":
		return "mutex"
	case strings.HasPrefix(t, "atomic."):
		return "atomic"
	case t == "sync.WaitGroup":
		return "waitgroup"
	case strings.HasPrefix(t, "chan ") || strings.HasPrefix(t, "<-chan ") || strings.HasPrefix(t, "chan<- "):
		return "channel"
	case t == "context.Context" || t == "context.CancelFunc":
		return "context"
	}
	return "data"
}

func parseWithComments(repo, rel string) *file {
	fset := token.NewFileSet()
	p := filepath.Join(repo, rel)
	f, err := parser.ParseFile(fset, p, nil, parser.ParseComments)
	if err != nil {
		fmt.Fprintf(os.Stderr, "cannot parse %s: %v\n", p, err)
		os.Exit(1)
	}
	return &file{fset: fset, f: f, path: rel}
}

func (s *accessScanner) line(p token.Pos) int { return s.f.fset.Position(p).Line }

func (s *accessScanner) isBound(e ast.Expr) (string, bool) {
	id, ok := e.(*ast.Ident)
	if !ok || !s.bound[id.Name] {
		return "", false
	}
	return id.Name, true
}

// fieldSel recognises x.<field> for a bound x and a declared field.
func (s *accessScanner) fieldSel(e ast.Expr) (recv, field string, ok bool) {
	sel, isSel := e.(*ast.SelectorExpr)
	if !isSel {
		return "", "", false
	}
	r, b := s.isBound(sel.X)
	if !b {
		return "", "", false
	}
	if _, declared := s.fields[sel.Sel.Name]; !declared {
		return "", "", false
	}
	return r, sel.Sel.Name, true
}

func (s *accessScanner) emit(u *accessUnit, st *lockState, recv, field, op string, pos token.Pos, ctor bool) {
	s.rows = append(s.rows, accessFact{File: s.tgt.path, Func: u.name, Recv: recv, Field: field, Op: op, Write: op == "write",
		Held: st.held, Inherit: !st.released, Line: s.line(pos), Ctor: ctor})
}

func (s *accessScanner) newFunc(name, root string, pos token.Pos) *funcInfo {
	fi := &funcInfo{File: s.tgt.path, Name: name, Root: root, Line: s.line(pos)}
	s.funcs = append(s.funcs, fi)
	s.funcIdx[name] = fi
	return fi
}

// ---- expressions ----------------------------------------------------------------------------------------------------------

// baseField walks x.f[..][..].(T)[..] down to the field selector.
func (s *accessScanner) baseField(e ast.Expr) (recv, field string, ok bool) {
	for {
		switch t := e.(type) {
		case *ast.IndexExpr:
			e = t.X
		case *ast.TypeAssertExpr:
			e = t.X
		case *ast.ParenExpr:
			e = t.X
		case *ast.StarExpr:
			e = t.X
		default:
			return s.fieldSel(e)
		}
	}
}

func (s *accessScanner) syncKind(field string) bool {
	switch s.kind0[field] {
	case "mutex", "atomic", "waitgroup", "channel":
		return true
	}
	return false
}

func (s *accessScanner) expr(u *accessUnit, st *lockState, e ast.Node) {
	if e == nil {
		return
	}
	ast.Inspect(e, func(n ast.Node) bool {
		switch t := n.(type) {
		case *ast.FuncLit:
			// a literal that is neither invoked on the spot, nor deferred, nor started with go: a callback
			s.literal(u, st, t, "callback")
			return false
		case *ast.CompositeLit:
			if strings.TrimPrefix(s.f.src(t.Type), "*") != s.tgt.typ {
				// keys of struct literals are field names, not variables
				for _, el := range t.Elts {
					if kv, ok := el.(*ast.KeyValueExpr); ok {
						if _, isIdent := kv.Key.(*ast.Ident); !isIdent {
							s.expr(u, st, kv.Key)
						}
						s.expr(u, st, kv.Value)
					} else {
						s.expr(u, st, el)
					}
				}
				return false
			}
			{
				for _, el := range t.Elts {
					kv, ok := el.(*ast.KeyValueExpr)
					if !ok {
						unknown("access: %s: positional element in the %s literal at line %d", s.tgt.path, s.tgt.typ, s.line(el.Pos()))
						s.expr(u, st, el)
						continue
					}
					if k, ok := kv.Key.(*ast.Ident); ok {
						if _, declared := s.fields[k.Name]; declared {
							s.emit(u, st, "", k.Name, "write", kv.Pos(), true)
						}
					}
					s.expr(u, st, kv.Value)
				}
				return false
			}
		case *ast.Ident:
			s.local(u, st, t, false)
			return false
		case *ast.CallExpr:
			s.call(u, st, t, false)
			return false
		case *ast.UnaryExpr:
			if t.Op == token.ARROW {
				if r, f, ok := s.fieldSel(t.X); ok {
					if s.kind0[f] == "channel" {
						s.emit(u, st, r, f, "sync", t.Pos(), false)
					} else {
						s.emit(u, st, r, f, "read", t.Pos(), false)
					}
					return false
				}
			}
			if t.Op == token.AND {
				if r, f, ok := s.fieldSel(t.X); ok {
					if s.syncKind(f) {
						s.emit(u, st, r, f, "sync", t.Pos(), false)
					} else {
						unknown("access: %s: address of field %s taken at line %d (treated as a write)", s.tgt.path, f, s.line(t.Pos()))
						s.emit(u, st, r, f, "write", t.Pos(), false)
					}
					return false
				}
			}
			return true
		case *ast.SelectorExpr:
			if r, f, ok := s.fieldSel(t); ok {
				s.emit(u, st, r, f, "read", t.Pos(), false)
				return false
			}
			if _, b := s.isBound(t.X); b && s.methods[t.Sel.Name] {
				// method value taken without a call: the method may be entered from anywhere
				s.escapes[s.tgt.typ+"."+t.Sel.Name] = true
				return false
			}
			return true
		}
		return true
	})
}

func (s *accessScanner) call(u *accessUnit, st *lockState, c *ast.CallExpr, viaGo bool) {
	// immediately invoked literal
	if lit, ok := c.Fun.(*ast.FuncLit); ok {
		for _, a := range c.Args {
			s.expr(u, st, a)
		}
		if viaGo {
			s.literal(u, st, lit, "go-literal")
		} else {
			s.literal(u, st, lit, "inline")
		}
		return
	}
	if id, ok := c.Fun.(*ast.Ident); ok {
		switch id.Name {
		case "close":
			if len(c.Args) == 1 {
				if r, f, ok := s.fieldSel(c.Args[0]); ok {
					if s.kind0[f] == "channel" {
						s.emit(u, st, r, f, "sync", c.Pos(), false)
					} else {
						s.emit(u, st, r, f, "read", c.Pos(), false)
					}
					return
				}
			}
		case "delete":
			if len(c.Args) == 2 {
				if r, f, ok := s.baseField(c.Args[0]); ok {
					s.emit(u, st, r, f, "write", c.Pos(), false)
					s.indexReads(u, st, c.Args[0])
					s.expr(u, st, c.Args[1])
					return
				}
			}
		}
	}
	if sel, ok := c.Fun.(*ast.SelectorExpr); ok {
		// x.method(...): a call inside the file
		if _, b := s.isBound(sel.X); b && s.methods[sel.Sel.Name] {
			for _, a := range c.Args {
				s.expr(u, st, a)
			}
			s.sites = append(s.sites, callSite{File: s.tgt.path, Caller: u.name, Callee: s.tgt.typ + "." + sel.Sel.Name,
				Held: st.held, Inherit: !st.released, ViaGo: viaGo, Line: s.line(c.Pos())})
			if viaGo {
				s.goTgt[s.tgt.typ+"."+sel.Sel.Name] = true
			}
			return
		}
		// x.field.Method(...)
		if r, f, ok := s.fieldSel(sel.X); ok {
			switch s.kind0[f] {
			case "mutex":
				// lock operations are handled at statement level; anything that gets here is in an unexpected position
				unknown("access: %s: %s.%s.%s() in an unrecognised position at line %d", s.tgt.path, r, f, sel.Sel.Name, s.line(c.Pos()))
				s.emit(u, st, r, f, "sync", c.Pos(), false)
			case "atomic", "waitgroup":
				s.emit(u, st, r, f, "sync", c.Pos(), false)
			default:
				s.emit(u, st, r, f, "read", sel.X.Pos(), false)
			}
			for _, a := range c.Args {
				s.expr(u, st, a)
			}
			return
		}
	}
	s.expr(u, st, c.Fun)
	for _, a := range c.Args {
		s.expr(u, st, a)
	}
}

// indexReads scans the index expressions of x.f[i][j] (the base is accounted for by the caller).
func (s *accessScanner) indexReads(u *accessUnit, st *lockState, e ast.Expr) {
	for {
		switch t := e.(type) {
		case *ast.IndexExpr:
			s.expr(u, st, t.Index)
			e = t.X
		case *ast.TypeAssertExpr:
			e = t.X
		case *ast.ParenExpr:
			e = t.X
		case *ast.StarExpr:
			e = t.X
		default:
			return
		}
	}
}

func (s *accessScanner) assignTarget(u *accessUnit, st *lockState, lhs ast.Expr, alsoRead bool, decl ast.Node) {
	if r, f, ok := s.fieldSel(lhs); ok {
		if alsoRead {
			s.emit(u, st, r, f, "read", lhs.Pos(), false)
		}
		s.emit(u, st, r, f, "write", lhs.Pos(), false)
		return
	}
	if id, isIdent := lhs.(*ast.Ident); isIdent {
		// `x := ..` declaring x is an initialisation, `x = ..` and `x, err := ..` re-using err are assignments
		if id.Obj != nil && id.Obj.Decl != decl {
			s.local(u, st, id, true)
		}
		return
	}
	// x.f[i] = .., x.f.g = .., v[i] = ..: a write into what the field (or the local variable) holds
	e := lhs
	for {
		switch t := e.(type) {
		case *ast.IndexExpr:
			s.expr(u, st, t.Index)
			e = t.X
			continue
		case *ast.TypeAssertExpr:
			e = t.X
			continue
		case *ast.ParenExpr:
			e = t.X
			continue
		case *ast.StarExpr:
			e = t.X
			continue
		case *ast.SelectorExpr:
			if r, f, ok := s.fieldSel(t); ok {
				s.emit(u, st, r, f, "write", lhs.Pos(), false)
				return
			}
			e = t.X
			continue
		case *ast.Ident:
			s.local(u, st, t, true)
			return
		}
		break
	}
	s.expr(u, st, e)
}

// ---- lock operations --------------------------------------------------------------------------------------------------------

// lockOp recognises x.<mutex>.Lock() / Unlock() as a whole statement expression.
func (s *accessScanner) lockOp(e ast.Expr) (op string, recv, field string, ok bool) {
	c, isCall := e.(*ast.CallExpr)
	if !isCall || len(c.Args) != 0 {
		return "", "", "", false
	}
	sel, isSel := c.Fun.(*ast.SelectorExpr)
	if !isSel {
		return "", "", "", false
	}
	r, f, isField := s.fieldSel(sel.X)
	if !isField || s.kind0[f] != "mutex" {
		return "", "", "", false
	}
	switch sel.Sel.Name {
	case "Lock", "Unlock":
		return sel.Sel.Name, r, f, true
	}
	unknown("access: %s: mutex operation %s.%s.%s() is not Lock/Unlock (line %d)", s.tgt.path, r, f, sel.Sel.Name, s.line(c.Pos()))
	return "", "", "", false
}

func (s *accessScanner) applyLock(u *accessUnit, st *lockState, op, recv, field string, pos token.Pos) {
	s.emit(u, st, recv, field, "sync", pos, false)
	if op == "Lock" {
		if st.held {
			unknown("access: %s: %s locks %s.%s twice (line %d)", s.tgt.path, u.name, recv, field, s.line(pos))
		}
		st.held = true
		st.released = false
		return
	}
	if st.held {
		st.held = false
	} else {
		st.released = true
	}
}

// ---- statements -------------------------------------------------------------------------------------------------------------

func merge(entry lockState, outs []lockState) lockState {
	var live []lockState
	for _, o := range outs {
		if !o.term {
			live = append(live, o)
		}
	}
	if len(live) == 0 {
		return lockState{held: entry.held, released: entry.released, term: true}
	}
	res := live[0]
	for _, o := range live[1:] {
		if o.held != res.held {
			res.held = false // branches disagree: not held
		}
		if o.released != res.released {
			res.released = true
		}
	}
	res.term = false
	return res
}

func (s *accessScanner) block(u *accessUnit, st *lockState, list []ast.Stmt) {
	for _, x := range list {
		s.stmt(u, st, x)
	}
}

func (s *accessScanner) branch(u *accessUnit, st lockState, list []ast.Stmt) lockState {
	c := st
	c.term = false
	s.block(u, &c, list)
	return c
}

func (s *accessScanner) stmt(u *accessUnit, st *lockState, x ast.Stmt) {
	switch t := x.(type) {
	case nil:
	case *ast.ExprStmt:
		if op, r, f, ok := s.lockOp(t.X); ok {
			s.applyLock(u, st, op, r, f, t.Pos())
			return
		}
		if c, ok := t.X.(*ast.CallExpr); ok {
			if id, ok := c.Fun.(*ast.Ident); ok && id.Name == "panic" {
				s.expr(u, st, c)
				st.term = true
				return
			}
		}
		s.expr(u, st, t.X)
	case *ast.SendStmt:
		s.expr(u, st, t.Value)
		if r, f, ok := s.fieldSel(t.Chan); ok {
			if s.kind0[f] == "channel" {
				s.emit(u, st, r, f, "sync", t.Pos(), false)
			} else {
				s.emit(u, st, r, f, "read", t.Pos(), false)
			}
		} else {
			s.expr(u, st, t.Chan)
		}
	case *ast.AssignStmt:
		for _, r := range t.Rhs {
			s.expr(u, st, r)
		}
		for _, l := range t.Lhs {
			s.assignTarget(u, st, l, t.Tok != token.ASSIGN && t.Tok != token.DEFINE, t)
		}
	case *ast.IncDecStmt:
		s.assignTarget(u, st, t.X, true, nil)
	case *ast.DeclStmt:
		s.expr(u, st, t)
	case *ast.ReturnStmt:
		for _, r := range t.Results {
			s.expr(u, st, r)
		}
		u.exits = append(u.exits, exitPoint{pos: t.Pos(), held: st.held, inh: !st.released})
		st.term = true
	case *ast.BlockStmt:
		s.block(u, st, t.List)
	case *ast.LabeledStmt:
		s.stmt(u, st, t.Stmt)
	case *ast.BranchStmt:
		st.term = true
	case *ast.IfStmt:
		s.stmt(u, st, t.Init)
		s.expr(u, st, t.Cond)
		outs := []lockState{s.branch(u, *st, t.Body.List)}
		if t.Else != nil {
			outs = append(outs, s.branch(u, *st, []ast.Stmt{t.Else}))
		} else {
			outs = append(outs, *st)
		}
		*st = merge(*st, outs)
	case *ast.ForStmt:
		s.stmt(u, st, t.Init)
		s.expr(u, st, t.Cond)
		out := s.branch(u, *st, append(append([]ast.Stmt{}, t.Body.List...), t.Post))
		s.loopExit(u, st, out, t.Pos())
	case *ast.RangeStmt:
		if r, f, ok := s.fieldSel(t.X); ok {
			if s.kind0[f] == "channel" {
				s.emit(u, st, r, f, "sync", t.X.Pos(), false)
			} else {
				s.emit(u, st, r, f, "read", t.X.Pos(), false)
			}
		} else {
			s.expr(u, st, t.X)
		}
		out := s.branch(u, *st, t.Body.List)
		s.loopExit(u, st, out, t.Pos())
	case *ast.SwitchStmt:
		s.stmt(u, st, t.Init)
		s.expr(u, st, t.Tag)
		s.clauses(u, st, t.Body, false)
	case *ast.TypeSwitchStmt:
		s.stmt(u, st, t.Init)
		s.stmt(u, st, t.Assign)
		s.clauses(u, st, t.Body, false)
	case *ast.SelectStmt:
		s.clauses(u, st, t.Body, true)
	case *ast.GoStmt:
		s.call(u, st, t.Call, true)
	case *ast.DeferStmt:
		if op, r, f, ok := s.lockOp(t.Call); ok {
			s.emit(u, st, r, f, "sync", t.Pos(), false)
			if op == "Unlock" {
				u.deferUnlock = append(u.deferUnlock, t.Pos())
			} else {
				unknown("access: %s: deferred Lock in %s (line %d)", s.tgt.path, u.name, s.line(t.Pos()))
			}
			return
		}
		if lit, ok := t.Call.Fun.(*ast.FuncLit); ok {
			for _, a := range t.Call.Args {
				s.expr(u, st, a)
			}
			*u.litSeq++
			name := fmt.Sprintf("%s$lit%d", u.outer, *u.litSeq)
			u.deferred = append(u.deferred, deferredItem{pos: t.Pos(), lit: lit, name: name})
			if s.litUnlocks(lit) {
				u.deferUnlock = append(u.deferUnlock, t.Pos()+1) // the unlock inside runs after the literal's own prefix
			}
			return
		}
		// deferred named call: arguments are evaluated now, the call happens at function exit
		if sel, ok := t.Call.Fun.(*ast.SelectorExpr); ok {
			if _, b := s.isBound(sel.X); b && s.methods[sel.Sel.Name] {
				for _, a := range t.Call.Args {
					s.expr(u, st, a)
				}
				u.deferred = append(u.deferred, deferredItem{pos: t.Pos(), call: t.Call})
				return
			}
		}
		s.call(u, st, t.Call, false)
	default:
		unknown("access: %s: unrecognised statement kind %T at line %d", s.tgt.path, x, s.line(x.Pos()))
	}
}

// litUnlocks: does the literal unlock the mutex at the top level of its body?
func (s *accessScanner) litUnlocks(lit *ast.FuncLit) bool {
	for _, x := range lit.Body.List {
		if es, ok := x.(*ast.ExprStmt); ok {
			if op, _, _, ok := s.lockOp(es.X); ok && op == "Unlock" {
				return true
			}
		}
	}
	return false
}

func (s *accessScanner) loopExit(u *accessUnit, st *lockState, out lockState, pos token.Pos) {
	if !out.term && (out.held != st.held || out.released != st.released) {
		unknown("access: %s: the loop at line %d in %s changes the lock state", s.tgt.path, s.line(pos), u.name)
		st.held = false
		st.released = true
	}
}

func (s *accessScanner) clauses(u *accessUnit, st *lockState, body *ast.BlockStmt, isSelect bool) {
	outs := []lockState{}
	hasDefault := false
	for _, c := range body.List {
		switch cc := c.(type) {
		case *ast.CaseClause:
			b := *st
			b.term = false
			for _, e := range cc.List {
				s.expr(u, &b, e)
			}
			if cc.List == nil {
				hasDefault = true
			}
			s.block(u, &b, cc.Body)
			// a trailing fallthrough continues in the next clause with the same state: clauses in the scanned files keep
			// the lock state unchanged, which the merge below verifies
			if n := len(cc.Body); n > 0 {
				if br, ok := cc.Body[n-1].(*ast.BranchStmt); ok && br.Tok == token.FALLTHROUGH {
					b.term = false
				}
			}
			outs = append(outs, b)
		case *ast.CommClause:
			b := *st
			b.term = false
			if cc.Comm == nil {
				hasDefault = true
			} else {
				s.stmt(u, &b, cc.Comm)
			}
			s.block(u, &b, cc.Body)
			outs = append(outs, b)
		}
	}
	if !hasDefault && !isSelect {
		outs = append(outs, *st)
	}
	*st = merge(*st, outs)
}

// ---- function units -----------------------------------------------------------------------------------------------------------

// literal analyses a function literal met inside unit u with lock state st.
func (s *accessScanner) literal(u *accessUnit, st *lockState, lit *ast.FuncLit, root string) {
	*u.litSeq++
	name := fmt.Sprintf("%s$lit%d", u.outer, *u.litSeq)
	s.runLiteral(u, lit, name, root, st.held, !st.released, lit.Pos())
}

func (s *accessScanner) runLiteral(parent *accessUnit, lit *ast.FuncLit, name, root string, held, inherit bool, pos token.Pos) {
	fi := s.newFunc(name, root, lit.Pos())
	fi.Parent, fi.start, fi.end = parent.name, lit.Pos(), lit.End()
	lu := &accessUnit{name: name, root: root, parent: parent, body: lit.Body, litSeq: parent.litSeq, outer: parent.outer,
		start: lit.Pos(), end: lit.End()}
	entry := lockState{}
	switch root {
	case "inline", "deferred":
		// runs on the caller's goroutine: the lexical lock state carries over; recorded as the literal's single call site
		s.sites = append(s.sites, callSite{File: s.tgt.path, Caller: parent.name, Callee: name, Held: held, Inherit: inherit, Line: s.line(pos)})
	case "go-literal":
		s.sites = append(s.sites, callSite{File: s.tgt.path, Caller: parent.name, Callee: name, Held: held, Inherit: inherit, ViaGo: true, Line: s.line(pos)})
	}
	s.runUnit(lu, entry)
	if root == "inline" {
		// an invoked literal must leave the lock as it found it for the linear scan of the caller to stay valid
		for _, e := range lu.exits {
			if e.held != (len(lu.deferUnlock) > 0) || !e.inh {
				unknown("access: %s: literal %s changes the lock state of its caller", s.tgt.path, name)
			}
		}
	}
}

// runUnit scans one body.  Rows of the unit are relative to the unit's own entry (held = taken inside the unit).
func (s *accessScanner) runUnit(u *accessUnit, entry lockState) {
	st := entry
	s.block(u, &st, u.body.List)
	if !st.term {
		u.exits = append(u.exits, exitPoint{pos: u.body.End(), held: st.held, inh: !st.released})
	}
	// deferred calls and literals run at function exit, last registered first
	for i := len(u.deferred) - 1; i >= 0; i-- {
		d := u.deferred[i]
		held, inh := true, true
		any := false
		for _, e := range u.exits {
			if e.pos > d.pos {
				any = true
				held = held && e.held
				inh = inh && e.inh
			}
		}
		if !any {
			held = false
		}
		for _, p := range u.deferUnlock {
			if p > d.pos+1 {
				held = false // an unlock registered later has already run
			}
		}
		if d.lit != nil {
			s.runDeferredLiteral(u, d, held, inh)
		} else {
			sel := d.call.Fun.(*ast.SelectorExpr)
			s.sites = append(s.sites, callSite{File: s.tgt.path, Caller: u.name, Callee: s.tgt.typ + "." + sel.Sel.Name,
				Held: held, Inherit: inh, Line: s.line(d.pos)})
		}
	}
}

// a deferred literal is scanned with the lock state of the function exit as its *local* state: the lock it may release was
// taken by the lexically enclosing function.
func (s *accessScanner) runDeferredLiteral(parent *accessUnit, d deferredItem, held, inherit bool) {
	fi := s.newFunc(d.name, "deferred", d.lit.Pos())
	fi.Parent, fi.start, fi.end = parent.name, d.lit.Pos(), d.lit.End()
	lu := &accessUnit{name: d.name, root: "deferred", parent: parent, body: d.lit.Body, litSeq: parent.litSeq, outer: parent.outer,
		start: d.lit.Pos(), end: d.lit.End()}
	// call site: the lock held lexically at exit is accounted for in the literal's own rows, so the site itself is neutral
	s.sites = append(s.sites, callSite{File: s.tgt.path, Caller: parent.name, Callee: d.name, Held: false, Inherit: inherit, Line: s.line(d.pos)})
	s.runUnit(lu, lockState{held: held, released: !inherit})
}

// ---- driver ---------------------------------------------------------------------------------------------------------------------

func (s *accessScanner) structFields() bool {
	for _, d := range s.f.f.Decls {
		g, ok := d.(*ast.GenDecl)
		if !ok || g.Tok != token.TYPE {
			continue
		}
		for _, sp := range g.Specs {
			ts := sp.(*ast.TypeSpec)
			stt, ok := ts.Type.(*ast.StructType)
			if !ok || ts.Name.Name != s.tgt.typ {
				continue
			}
			for _, fl := range stt.Fields.List {
				typ := s.f.src(fl.Type)
				if len(fl.Names) == 0 {
					unknown("access: %s: embedded field %s in %s", s.tgt.path, typ, s.tgt.typ)
					continue
				}
				for _, n := range fl.Names {
					s.fields[n.Name] = typ
					s.order = append(s.order, n.Name)
					s.kind0[n.Name] = declKind(typ)
					if s.kind0[n.Name] == "mutex" {
						s.mutex[n.Name] = true
					}
				}
			}
			return true
		}
	}
	return false
}

func recvTypeName(f *file, fd *ast.FuncDecl) string {
	if fd.Recv == nil || len(fd.Recv.List) == 0 {
		return ""
	}
	return strings.TrimPrefix(f.src(fd.Recv.List[0].Type), "*")
}

func (s *accessScanner) contractOf(fd *ast.FuncDecl) bool {
	has := func(text string) bool {
		text = strings.ToLower(strings.Join(strings.Fields(text), " "))
		for _, p := range lockContractPhrases {
			if strings.Contains(text, p) {
				return true
			}
		}
		return false
	}
	if fd.Doc != nil && has(fd.Doc.Text()) {
		return true
	}
	for _, cg := range s.f.f.Comments {
		if cg.Pos() > fd.Pos() && cg.End() < fd.End() && has(cg.Text()) {
			// only comments at the top level of the body (not inside a nested literal) count
			inner := false
			ast.Inspect(fd.Body, func(n ast.Node) bool {
				if l, ok := n.(*ast.FuncLit); ok && cg.Pos() > l.Pos() && cg.End() < l.End() {
					inner = true
				}
				return true
			})
			if !inner {
				return true
			}
		}
	}
	return false
}

func (s *accessScanner) run(repo string) {
	if !s.structFields() {
		unknown("access: type %s not found in %s", s.tgt.typ, s.tgt.path)
		return
	}
	if len(s.mutex) != 1 {
		unknown("access: %s: %s has %d mutex fields, expected exactly one", s.tgt.path, s.tgt.typ, len(s.mutex))
	}
	for _, d := range s.f.f.Decls {
		if fd, ok := d.(*ast.FuncDecl); ok && recvTypeName(s.f, fd) == s.tgt.typ {
			s.methods[fd.Name.Name] = true
		}
	}
	for _, d := range s.f.f.Decls {
		fd, ok := d.(*ast.FuncDecl)
		if !ok || fd.Body == nil {
			continue
		}
		s.bound = map[string]bool{}
		rt := recvTypeName(s.f, fd)
		if rt == s.tgt.typ && len(fd.Recv.List[0].Names) == 1 {
			s.bound[fd.Recv.List[0].Names[0].Name] = true
		}
		for _, p := range fd.Type.Params.List {
			if strings.TrimPrefix(s.f.src(p.Type), "*") == s.tgt.typ {
				for _, n := range p.Names {
					s.bound[n.Name] = true
				}
			}
		}
		ast.Inspect(fd.Body, func(n ast.Node) bool {
			as, ok := n.(*ast.AssignStmt)
			if !ok || len(as.Lhs) != len(as.Rhs) {
				return true
			}
			for i, r := range as.Rhs {
				e := r
				if ue, ok := e.(*ast.UnaryExpr); ok && ue.Op == token.AND {
					e = ue.X
				}
				if cl, ok := e.(*ast.CompositeLit); ok && s.f.src(cl.Type) == s.tgt.typ {
					if id, ok := as.Lhs[i].(*ast.Ident); ok {
						s.bound[id.Name] = true
					}
				}
			}
			return true
		})
		if len(s.bound) == 0 {
			continue
		}
		name := fd.Name.Name
		if rt != "" {
			name = rt + "." + name
		}
		fi := s.newFunc(name, "", fd.Pos())
		fi.start, fi.end = fd.Pos(), fd.End()
		fi.Contract = s.contractOf(fd)
		s.localAcc = nil
		if rt != s.tgt.typ || ast.IsExported(fd.Name.Name) {
			fi.External = true // functions of other types and exported methods are entered from outside
		}
		seq := 0
		u := &accessUnit{name: name, body: fd.Body, litSeq: &seq, outer: name, start: fd.Pos(), end: fd.End()}
		s.runUnit(u, lockState{})
		for _, e := range u.exits {
			if !e.inh && rt == s.tgt.typ {
				// the linear scan of a caller assumes that a call leaves the caller's lock alone
				unknown("access: %s: %s releases a lock it did not take (line %d)", s.tgt.path, name, s.line(e.pos))
			}
		}
		s.capturedLocals(fd, name)
	}
	// methods referenced from sibling files of the package cannot be assumed to be called under the lock
	dir := filepath.Dir(filepath.Join(repo, s.tgt.path))
	entries, _ := os.ReadDir(dir)
	for _, e := range entries {
		n := e.Name()
		if e.IsDir() || !strings.HasSuffix(n, ".go") || strings.HasSuffix(n, "_test.go") || n == filepath.Base(s.tgt.path) {
			continue
		}
		sib := parse(repo, filepath.Join(filepath.Dir(s.tgt.path), n))
		ast.Inspect(sib.f, func(x ast.Node) bool {
			if sel, ok := x.(*ast.SelectorExpr); ok && s.methods[sel.Sel.Name] && !ast.IsExported(sel.Sel.Name) {
				s.escapes[s.tgt.typ+"."+sel.Sel.Name] = true
			}
			return true
		})
	}
	for name := range s.escapes {
		if fi, ok := s.funcIdx[name]; ok {
			fi.External = true
		}
	}
	for name := range s.goTgt {
		if fi, ok := s.funcIdx[name]; ok && fi.Root == "" {
			fi.Root = "go-target"
		}
	}
}

// capturedLocals: local variables of fd that a goroutine literal or a callback literal shares with the rest of fd.
// Emitted (as field "local:<func>:<name>", kind local) only for variables that are assigned (not merely declared) inside
// such a literal, or by the outer function after the literal was created.  Outer accesses positioned before the literal
// (or before the outermost loop that contains it) are ordered before the goroutine by the go statement and are left out.
// The lock state of every access is the one the scan had at that point.
func (s *accessScanner) capturedLocals(fd *ast.FuncDecl, outer string) {
	var loops [][2]token.Pos
	ast.Inspect(fd.Body, func(n ast.Node) bool {
		switch n.(type) {
		case *ast.ForStmt, *ast.RangeStmt:
			loops = append(loops, [2]token.Pos{n.Pos(), n.End()})
		}
		return true
	})
	seen := map[string]bool{}
	for _, fi := range s.funcs {
		if !strings.HasPrefix(fi.Name, outer+"$lit") || (fi.Root != "go-literal" && fi.Root != "callback") {
			continue
		}
		from := fi.start
		for _, l := range loops {
			if l[0] <= fi.start && fi.end <= l[1] && l[0] < from {
				from = l[0]
			}
		}
		inLit := func(p token.Pos) bool { return p >= fi.start && p < fi.end }
		objs := map[*ast.Object]bool{}
		for _, a := range s.localAcc {
			if inLit(a.pos) && a.obj.Pos() >= fd.Pos() && a.obj.Pos() < fd.End() && !inLit(a.obj.Pos()) && !s.bound[a.obj.Name] {
				objs[a.obj] = true
			}
		}
		for obj := range objs {
			var accs []localAccess
			written := false
			for _, a := range s.localAcc {
				if a.obj == obj && (inLit(a.pos) || a.pos >= from) {
					accs = append(accs, a)
					written = written || a.write
				}
			}
			if !written {
				continue
			}
			for _, a := range accs {
				key := fmt.Sprintf("%s|%d|%v", obj.Name, a.pos, a.write)
				if seen[key] {
					continue
				}
				seen[key] = true
				op := "read"
				if a.write {
					op = "write"
				}
				s.locals = append(s.locals, accessFact{File: s.tgt.path, Func: a.unit, Field: "local:" + outer + ":" + obj.Name,
					Op: op, Write: a.write, Held: a.held, Inherit: a.inherit, Kind: "local", Line: s.line(a.pos)})
			}
		}
	}
}

func extractAccess(repo string, files map[string]string) {
	var rows []accessFact
	var sites []callSite
	var funcs []*funcInfo
	type kindRow struct{ file, field, kind, decl string }
	var kinds []kindRow

	for _, tgt := range accessTargets {
		s := &accessScanner{f: parseWithComments(repo, tgt.path), tgt: tgt, fields: map[string]string{}, kind0: map[string]string{},
			mutex: map[string]bool{}, methods: map[string]bool{}, funcIdx: map[string]*funcInfo{}, goTgt: map[string]bool{},
			escapes: map[string]bool{}}
		s.run(repo)

		// field kinds: sync kinds from the declared type; the rest immutable unless written outside the constructor literal
		written := map[string]bool{}
		for _, r := range s.rows {
			if r.Write && !r.Ctor {
				written[r.Field] = true
			}
		}
		kindOf := map[string]string{}
		for _, f := range s.order {
			k := s.kind0[f]
			switch k {
			case "data":
				if written[f] {
					k = "plain"
				} else {
					k = "immutable"
				}
			case "channel", "context":
				if written[f] {
					k = "plain" // the field itself is reassigned: every use reads a mutable field
				}
			}
			kindOf[f] = k
			kinds = append(kinds, kindRow{tgt.path, f, k, s.fields[f]})
		}
		for i := range s.rows {
			k := kindOf[s.rows[i].Field]
			s.rows[i].Kind = k
			if k == "plain" && s.rows[i].Op == "sync" {
				s.rows[i].Op = "read"
			}
		}
		rows = append(rows, s.rows...)
		rows = append(rows, s.locals...)
		sites = append(sites, s.sites...)
		funcs = append(funcs, s.funcs...)
	}

	// lockedOnEntry: greatest fixpoint
	type fkey struct{ file, name string }
	idx := map[fkey]*funcInfo{}
	bySite := map[fkey][]callSite{}
	for _, f := range funcs {
		idx[fkey{f.File, f.Name}] = f
	}
	for _, c := range sites {
		bySite[fkey{c.File, c.Callee}] = append(bySite[fkey{c.File, c.Callee}], c)
	}
	for _, f := range funcs {
		f.Entry = !f.External && len(bySite[fkey{f.File, f.Name}]) > 0 && f.Root != "callback" && f.Root != "go-literal"
	}
	for changed := true; changed; {
		changed = false
		for _, f := range funcs {
			if !f.Entry {
				continue
			}
			for _, c := range bySite[fkey{f.File, f.Name}] {
				caller := idx[fkey{c.File, c.Caller}]
				ok := !c.ViaGo && (c.Held || (c.Inherit && caller != nil && caller.Entry))
				if !ok {
					f.Entry = false
					changed = true
					break
				}
			}
		}
	}
	for i := range rows {
		f := idx[fkey{rows[i].File, rows[i].Func}]
		if f == nil {
			unknown("access: row in unknown function %s (%s)", rows[i].Func, rows[i].File)
			continue
		}
		rows[i].Locked = rows[i].Held || (rows[i].Inherit && f.Entry)
		for g := f; g != nil; g = idx[fkey{g.File, g.Parent}] {
			if g.Root == "go-literal" || g.Root == "go-target" || g.Root == "callback" {
				rows[i].Root = true
			}
			if g.Parent == "" {
				break
			}
		}
	}
	sort.SliceStable(rows, func(i, j int) bool {
		if rows[i].File != rows[j].File {
			return rows[i].File < rows[j].File
		}
		if rows[i].Line != rows[j].Line {
			return rows[i].Line < rows[j].Line
		}
		if rows[i].Field != rows[j].Field {
			return rows[i].Field < rows[j].Field
		}
		return !rows[i].Write && rows[j].Write
	})
	fx.Access = rows

	// package-level variables of internal/infer/infer.go used inside functions (note of C17: Prepare-time state)
	type pkgVarUse struct {
		file, name, fn string
		line           int
	}
	var pkgUses []pkgVarUse
	{
		const ipath = "internal/infer/infer.go"
		inf := parse(repo, ipath)
		vars := map[string]bool{}
		for _, d := range inf.f.Decls {
			if g, ok := d.(*ast.GenDecl); ok && g.Tok == token.VAR {
				for _, sp := range g.Specs {
					for _, n := range sp.(*ast.ValueSpec).Names {
						vars[n.Name] = true
					}
				}
			}
		}
		for _, d := range inf.f.Decls {
			fd, ok := d.(*ast.FuncDecl)
			if !ok || fd.Body == nil {
				continue
			}
			ast.Inspect(fd.Body, func(n ast.Node) bool {
				if id, ok := n.(*ast.Ident); ok && vars[id.Name] {
					pkgUses = append(pkgUses, pkgVarUse{ipath, id.Name, fd.Name.Name, inf.fset.Position(id.Pos()).Line})
				}
				return true
			})
		}
	}

	var b strings.Builder
	b.WriteString("-- GENERATED by /verif/extract from /repo; do not edit.\nnamespace Arca.Gen\n\n")
	b.WriteString(`/-- one access of a field of loopState / plugin runningStep / foreach runningStep (or of a local variable shared with a
    goroutine literal, field "local:<func>:<name>").  op: read | write | sync (channel operation, atomic / wait-group / mutex
    method).  held: the mutex was taken by the function itself at this statement; inherit: the function has not released a
    lock it did not take; locked = held || (inherit && the function is always entered with the lock, see lockedOnEntry).
    kind: mutex | atomic | channel | waitgroup | context | immutable | plain | local.  ctor: key of the constructor literal. -/
structure AccessRow where
  file : String
  func : String
  recv : String
  field : String
  op : String
  write : Bool
  held : Bool
  inherit : Bool
  locked : Bool
  kind : String
  line : Nat
  ctor : Bool
  inGoroutineRoot : Bool
  deriving Repr, DecidableEq, Inhabited

/-- a call of a function of the file (or the creation of a function literal) with the lock state at that point -/
structure CallSite where
  file : String
  caller : String
  callee : String
  held : Bool
  inherit : Bool
  viaGo : Bool
  line : Nat
  deriving Repr, DecidableEq, Inhabited

`)
	b.WriteString("def accessTable : List AccessRow := [")
	for i, r := range rows {
		if i > 0 {
			b.WriteString(",")
		}
		fmt.Fprintf(&b, "\n  ⟨%s, %s, %s, %s, %s, %v, %v, %v, %v, %s, %d, %v, %v⟩", leanStr(r.File), leanStr(r.Func), leanStr(r.Recv),
			leanStr(r.Field), leanStr(r.Op), r.Write, r.Held, r.Inherit, r.Locked, leanStr(r.Kind), r.Line, r.Ctor, r.Root)
	}
	b.WriteString("\n]\n\ndef callSites : List CallSite := [")
	for i, c := range sites {
		if i > 0 {
			b.WriteString(",")
		}
		fmt.Fprintf(&b, "\n  ⟨%s, %s, %s, %v, %v, %v, %d⟩", leanStr(c.File), leanStr(c.Caller), leanStr(c.Callee), c.Held, c.Inherit, c.ViaGo, c.Line)
	}
	b.WriteString("\n]\n\n/-- (file, function, always entered with the lock held): the fixpoint computed by the extractor -/\ndef lockedOnEntry : List (String × String × Bool) := [")
	for i, f := range funcs {
		if i > 0 {
			b.WriteString(",")
		}
		fmt.Fprintf(&b, "\n  (%s, %s, %v)", leanStr(f.File), leanStr(f.Name), f.Entry)
	}
	b.WriteString("\n]\n\n/-- (file, function, root kind, reachable from outside the file, a comment says the caller holds the lock) -/\ndef funcInfo : List (String × String × String × Bool × Bool) := [")
	for i, f := range funcs {
		if i > 0 {
			b.WriteString(",")
		}
		fmt.Fprintf(&b, "\n  (%s, %s, %s, %v, %v)", leanStr(f.File), leanStr(f.Name), leanStr(f.Root), f.External, f.Contract)
	}
	b.WriteString("\n]\n\n/-- (file, field, kind, declared type) -/\ndef fieldKinds : List (String × String × String × String) := [")
	for i, k := range kinds {
		if i > 0 {
			b.WriteString(",")
		}
		fmt.Fprintf(&b, "\n  (%s, %s, %s, %s)", leanStr(k.file), leanStr(k.field), leanStr(k.kind), leanStr(k.decl))
	}
	b.WriteString("\n]\n\n/-- uses of package-level variables of internal/infer/infer.go: (file, variable, function, line) -/\ndef packageVarUses : List (String × String × String × Nat) := [")
	for i, p := range pkgUses {
		if i > 0 {
			b.WriteString(",")
		}
		fmt.Fprintf(&b, "\n  (%s, %s, %s, %d)", leanStr(p.file), leanStr(p.name), leanStr(p.fn), p.line)
	}
	b.WriteString("\n]\n\nend Arca.Gen\n")
	files["Access.lean"] = b.String()
}
