// vextract regenerates the fact layer of the Lean model (lean/Arca/Gen/*.lean) from the Go sources of
// arcaflow-engine. It is a fact extractor, not a Go->Lean compiler: each fact class has a recogniser for the shape
// the code has today; a shape it does not recognise becomes an explicit "unknown:" entry, never a silent default.
package main

import (
	"bytes"
	"encoding/json"
	"flag"
	"fmt"
	"go/ast"
	"go/parser"
	"go/printer"
	"go/token"
	"os"
	"path/filepath"
	"sort"
	"strconv"
	"strings"
)

type file struct {
	fset *token.FileSet
	f    *ast.File
	path string
}

func parse(repo, rel string) *file {
	fset := token.NewFileSet()
	p := filepath.Join(repo, rel)
	f, err := parser.ParseFile(fset, p, nil, parser.SkipObjectResolution)
	if err != nil {
		fmt.Fprintf(os.Stderr, "cannot parse %s: %v\n", p, err)
		os.Exit(1)
	}
	return &file{fset: fset, f: f, path: rel}
}

func (f *file) src(n ast.Node) string {
	if n == nil {
		return ""
	}
	var b bytes.Buffer
	_ = printer.Fprint(&b, f.fset, n)
	return strings.Join(strings.Fields(b.String()), " ")
}

// string constants of a file: name -> value
func (f *file) consts() map[string]string {
	out := map[string]string{}
	for _, d := range f.f.Decls {
		g, ok := d.(*ast.GenDecl)
		if !ok || (g.Tok != token.CONST && g.Tok != token.VAR) {
			continue
		}
		for _, s := range g.Specs {
			vs := s.(*ast.ValueSpec)
			for i, n := range vs.Names {
				if i < len(vs.Values) {
					if bl, ok := vs.Values[i].(*ast.BasicLit); ok {
						if bl.Kind == token.STRING {
							v, _ := strconv.Unquote(bl.Value)
							out[n.Name] = v
						} else {
							out[n.Name] = bl.Value
						}
					}
				}
			}
		}
	}
	return out
}

// constStr evaluates string(X) / X / "lit" using the const table.
func constStr(e ast.Expr, c map[string]string) (string, bool) {
	switch t := e.(type) {
	case *ast.BasicLit:
		if t.Kind == token.STRING {
			v, err := strconv.Unquote(t.Value)
			return v, err == nil
		}
		return t.Value, true
	case *ast.Ident:
		v, ok := c[t.Name]
		return v, ok
	case *ast.CallExpr:
		if id, ok := t.Fun.(*ast.Ident); ok && (id.Name == "string" || id.Name == "StageID") && len(t.Args) == 1 {
			return constStr(t.Args[0], c)
		}
	case *ast.ParenExpr:
		return constStr(t.X, c)
	}
	return "", false
}

func (f *file) funcDecl(recv, name string) *ast.FuncDecl {
	for _, d := range f.f.Decls {
		fd, ok := d.(*ast.FuncDecl)
		if !ok || fd.Name.Name != name {
			continue
		}
		r := ""
		if fd.Recv != nil && len(fd.Recv.List) > 0 {
			r = strings.TrimPrefix(f.src(fd.Recv.List[0].Type), "*")
		}
		if r == recv {
			return fd
		}
	}
	return nil
}

func (f *file) varDecl(name string) ast.Expr {
	for _, d := range f.f.Decls {
		g, ok := d.(*ast.GenDecl)
		if !ok {
			continue
		}
		for _, s := range g.Specs {
			if vs, ok := s.(*ast.ValueSpec); ok {
				for i, n := range vs.Names {
					if n.Name == name && i < len(vs.Values) {
						return vs.Values[i]
					}
				}
			}
		}
	}
	return nil
}

// ---- skeletons -------------------------------------------------------------------------------------------------------

func isLogging(s string) bool {
	return strings.Contains(s, "logger.") || strings.HasPrefix(s, "fmt.Print") || strings.HasPrefix(s, "log.")
}

// skeleton renders the control/synchronisation skeleton of a function body as a token list: branch structure with
// conditions, calls (callee and constant arguments), channel operations, panics, returns, go/defer. Logging calls,
// comments and the contents of error messages are left out.
func (f *file) skeleton(fd *ast.FuncDecl) []string {
	var out []string
	emit := func(s string) { out = append(out, s) }
	var stmt func(s ast.Stmt)
	var block func(b *ast.BlockStmt)
	callText := func(c *ast.CallExpr) string {
		fun := f.src(c.Fun)
		args := []string{}
		for _, a := range c.Args {
			switch t := a.(type) {
			case *ast.BasicLit:
				if t.Kind == token.STRING {
					args = append(args, "str")
				} else {
					args = append(args, t.Value)
				}
			case *ast.Ident:
				args = append(args, t.Name)
			case *ast.SelectorExpr:
				args = append(args, f.src(t))
			case *ast.UnaryExpr:
				args = append(args, f.src(t))
			case *ast.CallExpr:
				inner := f.src(t.Fun)
				if inner == "string" || inner == "schema.PointerTo" || inner == "fmt.Errorf" || inner == "any" {
					if len(t.Args) > 0 && inner != "fmt.Errorf" {
						args = append(args, inner+"("+f.src(t.Args[0])+")")
					} else {
						args = append(args, inner+"(..)")
					}
				} else {
					args = append(args, inner+"(..)")
				}
			case *ast.FuncLit:
				args = append(args, "func")
			default:
				args = append(args, "_")
			}
		}
		return fun + "(" + strings.Join(args, ",") + ")"
	}
	var exprCalls func(e ast.Node)
	exprCalls = func(e ast.Node) {
		if e == nil {
			return
		}
		ast.Inspect(e, func(n ast.Node) bool {
			switch t := n.(type) {
			case *ast.FuncLit:
				emit("func{")
				block(t.Body)
				emit("}")
				return false
			case *ast.CallExpr:
				if fl, ok := t.Fun.(*ast.FuncLit); ok {
					// a function literal called on the spot (go func(){..}(), defer func(){..}()): its body is part of
					// the skeleton whatever it mentions (the text filters below are for plain calls only)
					for _, a := range t.Args {
						exprCalls(a)
					}
					emit("func{")
					block(fl.Body)
					emit("}()")
					return false
				}
				txt := callText(t)
				if isLogging(txt) || strings.HasPrefix(txt, "fmt.Errorf") || strings.HasPrefix(txt, "fmt.Sprintf") ||
					strings.HasPrefix(txt, "schema.PointerTo") || strings.HasPrefix(txt, "string(") ||
					strings.HasPrefix(txt, "any(") || strings.HasPrefix(txt, "len(") || strings.HasPrefix(txt, "errors.") {
					return false
				}
				if id, ok := t.Fun.(*ast.Ident); ok && id.Name == "panic" {
					emit("panic")
					return false
				}
				// arguments first (evaluation order), then the call
				for _, a := range t.Args {
					exprCalls(a)
				}
				if fl, ok := t.Fun.(*ast.FuncLit); ok {
					emit("func{")
					block(fl.Body)
					emit("}()")
					return false
				}
				emit("call:" + txt)
				return false
			case *ast.UnaryExpr:
				if t.Op == token.ARROW {
					emit("recv:" + f.src(t.X))
					return false
				}
			}
			return true
		})
	}
	block = func(b *ast.BlockStmt) {
		if b == nil {
			return
		}
		for _, s := range b.List {
			stmt(s)
		}
	}
	stmt = func(s ast.Stmt) {
		switch t := s.(type) {
		case *ast.ExprStmt:
			if isLogging(f.src(t.X)) {
				return
			}
			exprCalls(t.X)
		case *ast.SendStmt:
			exprCalls(t.Value)
			emit("send:" + f.src(t.Chan))
		case *ast.AssignStmt:
			for _, r := range t.Rhs {
				exprCalls(r)
			}
			// assignments to fields (state) are part of the skeleton
			for i, l := range t.Lhs {
				if sel, ok := l.(*ast.SelectorExpr); ok {
					rhs := "_"
					if i < len(t.Rhs) {
						switch t.Rhs[i].(type) {
						case *ast.Ident, *ast.SelectorExpr, *ast.BasicLit:
							rhs = f.src(t.Rhs[i])
						}
					}
					emit("set:" + f.src(sel) + "=" + rhs)
				}
				if idx, ok := l.(*ast.IndexExpr); ok {
					emit("setidx:" + f.src(idx.X))
				}
			}
		case *ast.DeclStmt:
			exprCalls(t)
		case *ast.IncDecStmt:
		case *ast.ReturnStmt:
			for _, r := range t.Results {
				exprCalls(r)
			}
			emit("return")
		case *ast.IfStmt:
			if t.Init != nil {
				stmt(t.Init)
			}
			emit("if(" + f.src(t.Cond) + "){")
			block(t.Body)
			emit("}")
			if t.Else != nil {
				emit("else{")
				switch e := t.Else.(type) {
				case *ast.BlockStmt:
					block(e)
				default:
					stmt(e)
				}
				emit("}")
			}
		case *ast.ForStmt:
			emit("for(" + f.src(t.Cond) + "){")
			block(t.Body)
			emit("}")
		case *ast.RangeStmt:
			emit("range(" + f.src(t.X) + "){")
			block(t.Body)
			emit("}")
		case *ast.SwitchStmt:
			if t.Init != nil {
				stmt(t.Init)
			}
			emit("switch(" + f.src(t.Tag) + "){")
			for _, c := range t.Body.List {
				cc := c.(*ast.CaseClause)
				labels := []string{}
				for _, e := range cc.List {
					labels = append(labels, f.src(e))
				}
				if cc.List == nil {
					emit("default:")
				} else {
					emit("case(" + strings.Join(labels, ",") + "):")
				}
				for _, s := range cc.Body {
					stmt(s)
				}
			}
			emit("}")
		case *ast.TypeSwitchStmt:
			emit("typeswitch(" + f.src(t.Assign) + "){")
			for _, c := range t.Body.List {
				cc := c.(*ast.CaseClause)
				labels := []string{}
				for _, e := range cc.List {
					labels = append(labels, f.src(e))
				}
				if cc.List == nil {
					emit("default:")
				} else {
					emit("case(" + strings.Join(labels, ",") + "):")
				}
				for _, s := range cc.Body {
					stmt(s)
				}
			}
			emit("}")
		case *ast.SelectStmt:
			emit("select{")
			for _, c := range t.Body.List {
				cc := c.(*ast.CommClause)
				if cc.Comm == nil {
					emit("default:")
				} else {
					emit("comm(" + f.src(cc.Comm) + "):")
				}
				for _, s := range cc.Body {
					stmt(s)
				}
			}
			emit("}")
		case *ast.GoStmt:
			emit("go{")
			exprCalls(t.Call)
			emit("}")
		case *ast.DeferStmt:
			emit("defer{")
			exprCalls(t.Call)
			emit("}")
		case *ast.BlockStmt:
			block(t)
		case *ast.BranchStmt:
			emit(t.Tok.String())
		case *ast.LabeledStmt:
			stmt(t.Stmt)
		}
	}
	block(fd.Body)
	return out
}

// ---- Lean rendering -----------------------------------------------------------------------------------------------------

func leanStr(s string) string {
	var b strings.Builder
	b.WriteByte('"')
	for _, r := range s {
		switch r {
		case '"':
			b.WriteString("\\\"")
		case '\\':
			b.WriteString("\\\\")
		case '\n':
			b.WriteString("\\n")
		case '\t':
			b.WriteString("\\t")
		default:
			b.WriteRune(r)
		}
	}
	b.WriteByte('"')
	return b.String()
}

func leanStrList(xs []string) string {
	if len(xs) == 0 {
		return "[]"
	}
	parts := make([]string, len(xs))
	for i, x := range xs {
		parts[i] = leanStr(x)
	}
	return "[\n    " + strings.Join(parts, ",\n    ") + "]"
}

func leanIdent(s string) string {
	var b strings.Builder
	for _, r := range s {
		if r == '_' || (r >= 'a' && r <= 'z') || (r >= 'A' && r <= 'Z') || (r >= '0' && r <= '9') {
			b.WriteRune(r)
		} else {
			b.WriteRune('_')
		}
	}
	return b.String()
}

type facts struct {
	Consts     map[string]string              `json:"consts"`
	Skeletons  map[string][]string            `json:"skeletons"`
	Lifecycles map[string][]stageFact         `json:"lifecycles"`
	Builtins   []builtinFact                  `json:"builtins"`
	Unknown    []string                       `json:"unknown"`
	Generated  map[string][]generatedOutput   `json:"generated_outputs"`
	Chains     map[string][][2]string         `json:"chains"`
	Provide    map[string][][2]string         `json:"provide"`
	Asserts    []assertFact                   `json:"asserts"`
	Access     []accessFact                   `json:"access"`
}

var fx = facts{Consts: map[string]string{}, Skeletons: map[string][]string{}, Lifecycles: map[string][]stageFact{},
	Generated: map[string][]generatedOutput{}, Chains: map[string][][2]string{}, Provide: map[string][][2]string{}}

func unknown(format string, a ...any) { fx.Unknown = append(fx.Unknown, fmt.Sprintf(format, a...)) }

func main() {
	repo := flag.String("repo", "/repo", "repository root")
	out := flag.String("out", "", "output directory for Gen/*.lean")
	factsPath := flag.String("facts", "", "facts.json output")
	flag.Parse()
	if *out == "" {
		fmt.Fprintln(os.Stderr, "-out required")
		os.Exit(2)
	}
	files := map[string]string{}
	extractLifecycles(*repo, files)
	extractConsts(*repo, files)
	extractSkeletons(*repo, files)
	extractBuiltins(*repo, files)
	extractGenerated(*repo, files)
	extractAsserts(*repo, files)
	extractAccess(*repo, files)
	extractEngineApi(*repo, files)
	extractFrame(*repo, files)
	extractDecisions(*repo, files)
	extractRecover(*repo, files)
	extractSinks(*repo, files)
	extractLocks(*repo, files)
	sort.Strings(fx.Unknown)
	files["Unknown.lean"] = "-- GENERATED by /verif/extract from /repo; do not edit.\nnamespace Arca.Gen\n\n/-- constructs the extractor did not recognise -/\ndef unknown : List String := " +
		leanStrList(fx.Unknown) + "\n\nend Arca.Gen\n"
	for name, content := range files {
		if err := os.WriteFile(filepath.Join(*out, name), []byte(content), 0o644); err != nil {
			fmt.Fprintln(os.Stderr, err)
			os.Exit(1)
		}
	}
	if *factsPath != "" {
		b, _ := json.MarshalIndent(fx, "", " ")
		_ = os.WriteFile(*factsPath, b, 0o644)
	}
}
