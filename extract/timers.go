package main

import (
	"fmt"
	"go/ast"
	"go/token"
	"sort"
	"strings"
)

// Time facts of one provider file (G2, added for C13): the worker pool of the foreach step is modelled WITHOUT any timer
// (an item waits for a slot or for the close, nothing else).  Every place where wall-clock time enters the provider is
// therefore a fact the model depends on:
//
//   <prefix>.timeconst.<name>      package-level const / var whose value mentions package `time` (e.g. `5 * time.Second`)
//   <prefix>.timer.<func>.<n>      the n-th call, in source order inside <func> (function literals included), of
//                                  time.NewTimer / After / AfterFunc / Sleep / NewTicker / Tick / Since / Until,
//                                  (*Timer).Reset, context.WithTimeout / WithDeadline; value = "<callee>(<duration arg>)"
//
// A new timer constant or timer call is a changed fact (Arca.Gen.foreachTimers), not a silent no-op.
func timeFacts(repo, rel, prefix string) [][2]string {
	f := parse(repo, rel)
	var out [][2]string
	for _, d := range f.f.Decls {
		g, ok := d.(*ast.GenDecl)
		if !ok || (g.Tok != token.CONST && g.Tok != token.VAR) {
			continue
		}
		for _, s := range g.Specs {
			vs := s.(*ast.ValueSpec)
			typ := ""
			if vs.Type != nil {
				typ = f.src(vs.Type)
			}
			for i, n := range vs.Names {
				val := ""
				if i < len(vs.Values) {
					val = f.src(vs.Values[i])
				}
				if strings.Contains(val, "time.") || strings.HasPrefix(typ, "time.") {
					out = append(out, [2]string{prefix + ".timeconst." + n.Name, val})
				}
			}
		}
	}
	timeCall := func(fn string) bool {
		switch fn {
		case "time.NewTimer", "time.After", "time.AfterFunc", "time.Sleep", "time.NewTicker", "time.Tick", "time.Since", "time.Until",
			"context.WithTimeout", "context.WithDeadline":
			return true
		}
		return strings.HasSuffix(fn, ".Reset") && (strings.Contains(strings.ToLower(fn), "timer") || strings.Contains(strings.ToLower(fn), "ticker"))
	}
	for _, d := range f.f.Decls {
		fd, ok := d.(*ast.FuncDecl)
		if !ok || fd.Body == nil {
			continue
		}
		k := 0
		ast.Inspect(fd.Body, func(n ast.Node) bool {
			c, ok := n.(*ast.CallExpr)
			if !ok {
				return true
			}
			fn := f.src(c.Fun)
			if !timeCall(fn) {
				return true
			}
			arg := ""
			switch {
			case strings.HasPrefix(fn, "context.") && len(c.Args) >= 2:
				arg = f.src(c.Args[1])
			case len(c.Args) >= 1:
				arg = f.src(c.Args[0])
			}
			out = append(out, [2]string{fmt.Sprintf("%s.timer.%s.%d", prefix, fd.Name.Name, k), fn + "(" + arg + ")"})
			k++
			return true
		})
	}
	sort.Slice(out, func(i, j int) bool { return out[i][0] < out[j][0] })
	return out
}

// leanTimeFacts renders `def <name> : List (String × String)`.
func leanTimeFacts(name, doc string, facts [][2]string) string {
	var b strings.Builder
	fmt.Fprintf(&b, "/-- %s -/\ndef %s : List (String × String) := [", doc, name)
	for i, kv := range facts {
		sep := ","
		if i == len(facts)-1 {
			sep = ""
		}
		fmt.Fprintf(&b, "\n  (%s, %s)%s", leanStr(kv[0]), leanStr(kv[1]), sep)
	}
	b.WriteString("]\n")
	return b.String()
}
