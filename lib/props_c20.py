"""C20 — the engine API classifies results and resolves files consistently.

Registry entry in the format of `props.PROPS[...]` (merge with `PROPS["C20"] = props_c20.SPEC`) plus the
implementation monitor of the `engineapi` stream.  Self-contained: imports nothing from props.py.

One case of the stream = one generated workflow tree written to a fresh context directory and run
  * through the engine entry point (`variants`: context API as the CLI builds it / in-memory API, absolute /
    relative / non-canonical / empty spelling of the context directory, several working directories, default file
    name, Parse+Run as the CLI does with its exit code), and
  * directly (`baselines`: converter + Prepare + Execute with a hand-built file map), plus
  * the result an oracle computes from the abstract tree alone (`expected`).

Fingerprints (a fingerprint names the class of failing input, see DESIGN.md section 2):
  C20:engine-differs-from-direct   engine result != direct result where nothing excuses it
  C20:wrong-error-flag             error flag != declared flag (explicit schema) / (id == "error") (inferred)
  C20:error-without-flag           an error return whose outputError is false / which carries an output id
  C20:cwd-dependent                same absolute context, different working directory, different result
  C20:cwd-dependent:readFile       ... and the tree calls readFile("note.txt")           (finding F14)
  C20:relative-root-rejected       in-memory cache whose root is not the canonical absolute spelling (relative, trailing
                                   slash, empty) + foreach => "file caches have different root directory"   (finding F15,
                                   fixed in 5d35fc8: kept as a regression detector)
  C20:memory-cache-needs-disk      the in-memory cache holds the file, yet Parse fails reading it from disk (fixed: Parse hands the
                                   caller's cache to the sub-workflow discovery; kept as a regression detector)
  C20:nesting-dependent            the direct result differs from what the tree denotes (oracle), i.e. depends on depth/sharing
  C20:context-spelling-dependent   context API: relative / "." / unclean spelling of the same directory gives another result
  C20:exit-code                    CLI exit code differs from the table (0 ok, 1 invalid, 2 error output, 3 run failed)
  C20:merge-differs                loadfile.MergeFileCaches differs from a python re-implementation of its contract
"""

T = "Arca.Props.C20."
PIN = ["engine_workflowEngine_Parse", "engine_workflowEngine_RunWorkflow", "engine_engineWorkflow_Run",
       "engine__StepWorkflowPaths", "engine__SubworkflowCache", "engine__subworkflowCache", "engine__checkSubworkflowCycles",
       "loadfile_loadfile__MergeFileCaches", "loadfile_loadfile__NewFileCacheUsingContext", "infer_infer__OutputSchema"]


def _res_key(r):
    """comparable outcome of one run: error vs (output id, data); error classes/messages are not compared"""
    if r.get("panic"):
        return ("panic",)
    if r.get("timeout"):
        return ("timeout",)
    if r.get("err"):
        return ("err",)
    return ("ok", r.get("output_id"), _canon(r.get("data")))


def _canon(v):
    import json
    return json.dumps(v, sort_keys=True)


def _slim(case, variant=None):
    keep = ("id", "depth", "shared", "subdirs", "explicit", "uses_readfile", "version_supported", "input_yaml", "behaviours",
            "expected", "direct", "missing_on_disk", "mod_file", "disk")
    c = {k: case.get(k) for k in keep if k in case}
    tree = case.get("tree") or {}
    c["files"] = {f: _render_hint(n) for f, n in (tree.get("nodes") or {}).items()}
    c["root_yaml"] = (case.get("yaml") or "")[:1500]
    if variant is not None:
        c["variant"] = variant
        b = (case.get("baselines") or {}).get(variant.get("baseline")) or {}
        if b:
            c["baseline"] = {"name": variant.get("baseline"), "sub": b.get("sub"), "result": b.get("result")}
    return c


def _render_hint(n):
    return {"kind": n.get("kind"), "version": n.get("version"), "loops": [(l.get("id"), l.get("file"), l.get("parallelism")) for l in n.get("loops") or []],
            "plugs": n.get("plugs"), "outputs": n.get("outputs"), "explicit": n.get("explicit")}


def expected_flag(case, output_id):
    """declared flag if the root workflow has an explicit schema for that output, else id == 'error'"""
    root = ((case.get("tree") or {}).get("nodes") or {}).get((case.get("tree") or {}).get("root_file") or "workflow.yaml") or {}
    for o in root.get("outputs") or []:
        if o.get("id") == output_id and o.get("declared") is not None:
            return bool(o["declared"])
    return output_id == "error"


def py_merge(caches, abs_of=None):
    """contract of loadfile.MergeFileCaches: nil skipped, last writer wins per key, root = last root, error when a
    non-empty accumulated root does not denote the same directory as the next cache's root (same spelling or same
    filepath.Abs, as recorded by the harness in `abs`)"""
    abs_of = abs_of or {}
    files, root = {}, ""
    for c in caches:
        if c.get("nil"):
            continue
        files.update(c.get("files") or {})
        nxt = c.get("root")
        if root != "" and root != nxt and abs_of.get(root, root) != abs_of.get(nxt, nxt):
            return {"err": "rootMismatch"}
        root = nxt
    return {"root": root, "files": files}


def mon_c20_engineapi(case, verdict, chk):
    if case.get("kind") != "engineapi":
        return
    h = chk.hist

    def bump(t):
        h[t] = h.get(t, 0) + 1

    bump("depth:%s" % case.get("depth"))
    bump("shared:%s" % case.get("shared"))
    bump("subdirs:%s" % case.get("subdirs"))
    bump("schema:%s" % case.get("explicit"))
    bump("readfile:%s" % case.get("uses_readfile"))
    exp = case.get("expected") or {}
    bump("expected:%s" % ("no-output" if exp.get("no_output") else "%s:%s:%s" % (exp.get("role"), exp.get("output_id"),
                                                                                "declared" if exp.get("declared") is not None else "inferred")))
    uses_readfile = bool(case.get("uses_readfile"))
    supported = bool(case.get("version_supported", True))
    baselines = case.get("baselines") or {}
    direct = case.get("direct") or {}

    # -- nesting / sharing: the direct result must be what the tree denotes --------------------------------------------------
    if not uses_readfile:
        if not case.get("direct_equals_expected"):
            chk.violation("C20:nesting-dependent",
                          "the directly executed tree (depth %s, shared=%s) does not give the result its leaves denote" % (case.get("depth"), case.get("shared")),
                          {"kind": "impl-counterexample", "case": _slim(case)})
    else:
        d = case.get("direct_in_ctx") or {}
        if _res_key(d) != (("err",) if exp.get("no_output") else ("ok", exp.get("output_id"), _canon(exp.get("data")))):
            chk.violation("C20:nesting-dependent", "direct run inside the context directory differs from the oracle",
                          {"kind": "impl-counterexample", "case": _slim(case)})

    by_name = {}
    for v in case.get("variants") or []:
        by_name[v["name"]] = v
        r = v.get("result") or {}
        bump("variant:%s:%s" % (v["name"], "err:" + r.get("err_class", "?") if r.get("err") else ("panic" if r.get("panic") else "ok")))
        bump("compared:%s" % v["name"])
        rep = {"kind": "impl-counterexample", "case": _slim(case, v)}
        if r.get("panic") or r.get("timeout"):
            chk.violation("C20:panic-or-hang:" + v["name"], "the engine entry point panicked or did not return", rep)
            continue
        # -- classification -----------------------------------------------------------------------------------------------
        if r.get("err"):
            if not r.get("error_flag") or r.get("output_id"):
                chk.violation("C20:error-without-flag", "an error return must carry outputError=true and no output id", rep)
        else:
            want = expected_flag(case, r.get("output_id"))
            if bool(r.get("error_flag")) != want:
                chk.violation("C20:wrong-error-flag", "output %r returned with outputError=%s, the tree says %s" %
                              (r.get("output_id"), r.get("error_flag"), want), rep)
            bump("flag:%s:%s" % ("declared" if any(o.get("id") == r.get("output_id") and o.get("declared") is not None
                                                   for o in _root_outputs(case)) else "inferred", r.get("error_flag")))
        # -- CLI exit code ---------------------------------------------------------------------------------------------------
        if v.get("split"):
            want_exit = 1 if r.get("stage") in ("cache", "parse") else 3 if r.get("err") else 2 if r.get("error_flag") else 0
            bump("exit:%s" % v.get("exit_code"))
            if v.get("exit_code") != want_exit:
                chk.violation("C20:exit-code", "exit code %s, expected %s" % (v.get("exit_code"), want_exit), rep)
        # -- engine vs direct ------------------------------------------------------------------------------------------------
        base = (baselines.get(v.get("baseline")) or {}).get("result") or direct
        same = _res_key(r) == _res_key(base)
        if same:
            continue
        if v.get("file_name") not in ("workflow", "workflow.yaml", ""):
            if r.get("err_class") != "noWorkflowFile":
                chk.violation("C20:engine-differs-from-direct", "a missing workflow file must be reported as ErrNoWorkflowFile", rep)
            continue
        if not supported:
            # only the engine front end checks the version of the root workflow
            if r.get("err_class") not in ("unsupportedVersion", "rootMismatch", "readError"):
                chk.violation("C20:engine-differs-from-direct", "unsupported version not rejected by the engine", rep)
            continue
        if uses_readfile:
            continue  # judged below (cwd dependence)
        if v.get("api") == "memory" and r.get("err_class") == "rootMismatch" and v.get("root_class") != "absolute":
            chk.violation("C20:relative-root-rejected",
                          "loadfile.NewFileCache(%r, ...) (%s root) + foreach: Parse fails with 'file caches have different root directory'; "
                          "the canonical absolute spelling of the same directory works" % (v.get("root_given"), v.get("root_class")), rep)
            continue
        if v.get("api") == "memory" and r.get("err_class") == "readError":
            # the direct run on the same files (the supplied ones plus, where there is a context directory, its copies of
            # the others) does not fail like this: Parse looked on disk for a file the caller supplied
            chk.violation("C20:memory-cache-needs-disk",
                          "in-memory file cache holding %s of the files (%s): direct preparation of the files that are going to be "
                          "used works, yet Parse fails reading a file from disk" %
                          (v.get("supplied") or "all", "no context directory on disk" if v.get("disk") == "none" else "the others are in the context directory"), rep)
            continue
        if v["name"].startswith("same_engine"):
            chk.violation("C20:depends-on-earlier-calls",
                          "an engine instance that has parsed and run other contexts before (same file names%s) returns %s for this context; "
                          "a fresh engine and the direct run return %s" % (", among them this tree with one leaf changed" if case.get("mod_file") else "",
                                                                            _res_key(r)[:2], _res_key(base)[:2]), rep)
            continue
        chk.violation("C20:engine-differs-from-direct", "variant %s: engine %s, direct %s" % (v["name"], _res_key(r)[:2], _res_key(base)[:2]), rep)

    # -- working-directory dependence: same absolute context directory, three working directories -------------------------
    trio = [by_name.get(n) for n in ("abs", "abs_other_cwd", "abs_in_ctx")]
    if all(trio):
        keys = {_res_key(v["result"]) for v in trio}
        if len(keys) > 1:
            fp = "C20:cwd-dependent:readFile" if uses_readfile else "C20:cwd-dependent"
            chk.violation(fp, "the same absolute context directory run from three working directories gives %d different results%s" %
                          (len(keys), " (the workflow calls readFile(\"note.txt\"): resolved against the process working directory, not the context)" if uses_readfile else ""),
                          {"kind": "impl-counterexample", "case": _slim(case), "results": {v["name"]: v["result"] for v in trio}})
    # -- spelling of the context directory (context API) ------------------------------------------------------------------------
    if not uses_readfile:
        group = [by_name.get(n) for n in ("abs", "rel", "unclean", "cli_abs", "cli_rel", "cli_dot", "abs_default_name")]
        keys = {_res_key(v["result"]) for v in group if v}
        if len(keys) > 1:
            chk.violation("C20:context-spelling-dependent", "absolute / relative / '.' / unclean spellings of one context directory give different results",
                          {"kind": "impl-counterexample", "case": _slim(case)})
    # -- MergeFileCaches against its contract ------------------------------------------------------------------------------------
    for p in case.get("merge") or []:
        want = py_merge(p.get("caches") or [], p.get("abs"))
        got = p.get("result") or {}
        bump("merge:%s" % ("err" if "err" in got else "ok"))
        if ("err" in want) != ("err" in got) or ("err" not in want and (want["root"] != got.get("root") or want["files"] != got.get("files"))):
            chk.violation("C20:merge-differs", "MergeFileCaches differs from its contract", {"kind": "impl-counterexample", "probe": p})


def _root_outputs(case):
    tree = case.get("tree") or {}
    return ((tree.get("nodes") or {}).get(tree.get("root_file") or "workflow.yaml") or {}).get("outputs") or []


def nontrivial_engineapi(case):
    """non-trivial: nesting depth >= 2, or a shared sub-workflow, or an explicit schema, or a non-success result"""
    exp = case.get("expected") or {}
    return (case.get("depth", 1) >= 2 or bool(case.get("shared")) or case.get("explicit") != "none"
            or exp.get("no_output") or exp.get("output_id") != "success")


def sample_engineapi(case):
    return {"id": case.get("id"), "depth": case.get("depth"), "shared": case.get("shared"), "root_yaml": (case.get("yaml") or "")[:1200],
            "files": sorted(((case.get("tree") or {}).get("nodes") or {}).keys()), "expected": case.get("expected"),
            "direct": case.get("direct"), "variants": {v["name"]: (v["result"].get("output_id"), v["result"].get("error_flag"), v["result"].get("err_class"))
                                                       for v in case.get("variants") or []}}


def engineapi_n(tier):
    return 400 if tier == "thorough" else 40


SPEC = {
    "module": "Arca.Props.C20",
    "theorems": [
        T + "error_flag_exact", T + "error_flag_declared", T + "error_flag_on_error", T + "runWorkflow_parse_error_is_error",
        T + "default_file_name", T + "missing_workflow_file",
        T + "engine_equals_direct", T + "engine_equals_direct_partial", T + "unsupported_version_rejected", T + "caller_copy_wins",
        T + "parse_rejects_cycles_in_used_files", T + "prepared_contents_acyclic", T + "cyclic_copy_over_acyclic_disk_copy",
        T + "parseFiles_supplied", T + "runWorkflow_supplied", T + "engine_equals_direct_supplied", T + "supplied_cycle_reported",
        T + "engine_equals_direct_supplied_acyclic", T + "supplied_cache_ignores_disk", T + "memory_cache_needed_disk",
        T + "cwd_independent",
        T + "merge_last_wins", T + "merge_order_independent_partial", T + "merge_order_dependent_without_agreement",
        T + "loaded_caches_agree", T + "merge_root_mismatch_rejected", T + "merge_empty_root_bridges_directories",
        T + "merge_same_directory_ok", T + "merge_same_root_ok", T + "merge_empty_root_order_dependent",
        T + "relative_root_accepted", T + "any_root_accepted",
        T + "exit_code_map",
        T + "default_file_name_pinned", T + "supported_versions_pinned", T + "inferred_error_flag_pinned",
        T + "cwd_call_sites_pinned", T + "same_directory_pinned", T + "exit_codes_pinned", T + "engineapi_extractor_complete",
    ],
    "pins": PIN,
    "streams": [
        {"name": "engineapi",
         "harness": lambda t, s: ["engineapi", "-n", str(engineapi_n(t)), "-seed", str(s), "-tier", t],
         "driver": lambda f: ["engineapi"],
         "monitor": mon_c20_engineapi,
         "nontrivial": nontrivial_engineapi,
         "sample": sample_engineapi},
    ],
    "rule": ("generated workflow trees (root workflow.yaml + sub-workflow files reached through foreach steps, nesting depth 1..3, shared "
             "sub-workflows, sub-directories, output ids from {success, failure, error, done}, explicit / partial / inferred output schemas, "
             "scripted plugin outcomes) written to a fresh context directory and run through engine.RunWorkflow / Parse+Run with the context "
             "and in-memory file-cache APIs (absolute, relative, '.', unclean and empty root spellings; three working directories; default "
             "file name; in-memory copy different from disk; files missing on disk; in-memory cache for a directory that does not exist; "
             "in-memory cache holding only some of the sub-workflows or only the referring ones, the others in the context directory) "
             "and directly through Prepare+Execute; distinct = distinct "
             "tree + input + behaviours; non-trivial = depth >= 2, shared sub-workflow, explicit schema or a result other than 'success'"),
}
