"""C09 - the result does not depend on how fast goroutines are scheduled: monitor of the `sched` stream.

Merged into the registry with `props_c09.extend(PROPS["C09"])` (one line in props.py).

The stream (harness/vharness/cmd_sched.go + cmd_sched_foreach.go, instrumented build) runs every case twice without any
delay and then once per held synchronisation point (goroutine-start points: every arrival).  Two judgements, both direct
consequences of the property's statement:

 1. `fixed_result`: where the declarative meaning of the case is unique by inspection - every plugin step of the workflow
    and of its sub-workflows is scripted to succeed and to be deployable, no step can be disabled or stopped, every
    reference of the steps and of the `success` output points at something a succeeding step produces, and every other
    declared output needs something a succeeding step never produces - the run has to return the output `success`.  The
    delay-free runs are placements of delays too (all of length zero), so they are held against that meaning as well: an
    engine that reports "no step can make progress" while a loop is working is wrong whether or not the harness delayed
    anything.  Everything outside that narrow class is left to the comparison (2).
 2. every run with one point held must return what the delay-free runs returned (output id and data; any error = any
    error).  Where the workflow contains a soft-optional member the data is not fixed by the meaning (such a member may be
    absent although its source was produced), so only the output id is compared there.

A violation carries the concrete input: workflow text, sub-workflow files, input, plugin behaviours, the held point (none for
a delay-free run), what the meaning / the delay-free run prescribes and what was observed (result + plugin-side log).
"""
import monitors as M

T = "Arca.Props.C09."

# theorems added by this slice (lean/Arca/Props/C09Progress.lean, imported by Arca.Props.C09; over the regenerated skeletons)
THEOREMS = [
    T + "starting_counts_as_progress",
    T + "starting_step_stops_detector",
    T + "foreach_items_handed_over_as_running",
    T + "foreach_loop_never_waits_while_working",
]

OK_STAGE_OUTPUTS = {("starting", "started"), ("enabling", "resolved")}


def _expr_is_path(e):
    while isinstance(e, dict) and e.get("x") in ("dot", "idx"):
        e = e["e"]
    return isinstance(e, dict) and e.get("x") == "root"


def _all_exprs(inval, out):
    k = inval.get("k")
    if k in ("expr", "optional", "ordisabled"):
        out.append(inval.get("e") or {})
    elif k == "list":
        for x in inval["l"]:
            _all_exprs(x, out)
    elif k == "map":
        for x in inval["m"].values():
            _all_exprs(x, out)
    elif k == "oneof":
        for x in inval["opts"].values():
            _all_exprs(x, out)
    return out


def _produced_by_success(p, steps):
    """is the referenced value produced when every step runs and succeeds?"""
    if not p:
        return False
    if p[0] == "input":
        return True
    if p[0] != "steps" or len(p) < 3 or p[1] not in steps:
        return False
    if p[2] == "outputs":
        return len(p) == 3 or p[3] == "success"
    return len(p) >= 4 and (p[2], p[3]) in OK_STAGE_OUTPUTS and steps[p[1]].get("kind") == "plugin"


def _wf_fixed_success(wf):
    """True when, with every step succeeding, `success` is the one producible output of this (sub-)workflow; None = not decided here"""
    steps = {s["id"]: s for s in wf.get("steps", [])}
    outs = wf.get("outputs", {})
    if "success" not in outs:
        return None
    for s in steps.values():
        f = s.get("fields", {})
        if "enabled" in f or "stop_if" in f:
            return None
        for inval in f.values():
            if not all(_expr_is_path(e) for e in _all_exprs(inval, [])):
                return None
            if not all(_produced_by_success(p, steps) for p, _, _ in M.refs(inval)):
                return None
    succ = outs["success"]
    if not all(_expr_is_path(e) for e in _all_exprs(succ, [])):
        return None
    if not all(_produced_by_success(p, steps) for p, _, _ in M.refs(succ)):
        return None
    for oid, inval in outs.items():
        if oid == "success":
            continue
        hard = [p for p, optional, _ in M.refs(inval) if not optional]
        if not any(not _produced_by_success(p, steps) for p in hard):
            return None  # another output may be producible as well: the meaning is not a single result
    return True


def fixed_result(case):
    """the output id the declarative meaning prescribes, where that is unique by inspection; None = not judged"""
    beh = case.get("behaviours") or {}
    if not beh:
        return None
    for b in beh.values():
        if b.get("outcome") != "success" or b.get("deploy_fail") or b.get("start_fail"):
            return None
    wfs = [case.get("wf") or {}] + list((case.get("files_wf") or {}).values())
    # every plugin step must be scripted (an unscripted source succeeds by default, but then say so explicitly)
    for wf in wfs:
        if _wf_fixed_success(wf) is not True:
            return None
    return "success"


def _has_soft(case):
    for wf in [case.get("wf") or {}] + list((case.get("files_wf") or {}).values()):
        for s in wf.get("steps", []):
            if any(M.has_soft(v) for v in s.get("fields", {}).values()):
                return True
        if any(M.has_soft(v) for v in wf.get("outputs", {}).values()):
            return True
    return False


def _got(res):
    if not res.get("returned"):
        return "no-return"
    return res.get("output_id") or res.get("err_class") or "error"


def _slim(case):
    drop = ("sweeps", "wf", "files_wf", "log", "baseline_logs", "leak_dump")
    return {k: v for k, v in case.items() if k not in drop}


def mon_sched(case, verdict, chk, points=None):
    pts = {p["id"]: p for p in (points or [])}
    hold = case.get("hold_ms", 0)

    def where(pid):
        p = pts.get(pid)
        if not p:
            return "?", "?"
        return p["file"].split("/")[-2], p["func"]

    # ---- 1. the delay-free runs against the declarative meaning
    want = fixed_result(case)
    runs = case.get("baseline_results") or [case.get("result", {})]
    logs = case.get("baseline_logs") or [case.get("log")]
    if want is not None:
        chk.hist["sched:meaning-fixes-" + want] = chk.hist.get("sched:meaning-fixes-" + want, 0) + 1
        for i, res in enumerate(runs):
            got = _got(res)
            if got == want or "invalidInput" in got:
                continue
            if "noMoreSteps" in got:
                fp = "C09:spurious-noMoreSteps:no-delay"
                what = ("without any delay the run fails with 'no steps running, no more executable steps' although every step is scripted to "
                        "succeed and nothing can be disabled or stopped: the meaning of the workflow is the output '%s' (case %s, shape %s)"
                        % (want, case.get("id"), case.get("shape", "generated")))
            else:
                fp = "C09:fixed-result-not-returned:no-delay:%s->%s" % (want, got)
                what = ("without any delay the run returns %s although every step is scripted to succeed and nothing can be disabled or "
                        "stopped: the meaning of the workflow is the output '%s' (case %s)" % (got, want, case.get("id")))
            chk.violation(fp, what, {"kind": "impl-counterexample", "case": _slim(case), "schedule_plan": [], "held_point": None,
                                     "expected": {"output_id": want, "why": "every step (also of the sub-workflows) is scripted to succeed and to deploy; "
                                                  "no enabled / stop_if; all references point at outputs of succeeding steps; no other declared output is producible"},
                                     "observed": res, "observed_in": "delay-free run %d of %d" % (i + 1, len(runs)),
                                     "observed_log": logs[i] if i < len(logs) else case.get("log")})
            break
    if case.get("unstable_baseline"):
        if want is None:
            chk.hist["sched:unstable-baseline-not-judged"] = chk.hist.get("sched:unstable-baseline-not-judged", 0) + 1
        return

    # ---- 2. every held run against the delay-free result
    soft = None
    possible = None
    base_key = case.get("base_key", "")
    base = base_key.split(":")[0]
    base_res = case.get("result", {})
    for sw in case.get("sweeps", []):
        if sw.get("same"):
            continue
        res = sw.get("result", {})
        got = res.get("output_id") or res.get("err_class") or "no-return"
        if base == "output" and res.get("output_id") and res.get("output_id") == base_res.get("output_id"):
            if soft is None:
                soft = _has_soft(case)
            if soft:
                # same output, different data, and the workflow has a soft-optional member: the data is not fixed by the meaning
                chk.hist["sched:soft-optional-data-differs"] = chk.hist.get("sched:soft-optional-data-differs", 0) + 1
                continue
        if base == "output" and res.get("output_id") and res.get("output_id") != base_res.get("output_id"):
            if possible is None:
                possible = possibly_producible(case)
            if res["output_id"] in possible and base_res.get("output_id") in possible:
                # two declared outputs that the scripted behaviours both allow: the workflow's meaning does not fix a single
                # result (whichever becomes producible first is returned), the property does not speak about it
                chk.hist["sched:several-producible-outputs-not-judged"] = chk.hist.get("sched:several-producible-outputs-not-judged", 0) + 1
                continue
        pk, fn = where(sw["point"])
        kind = (pts.get(sw["point"]) or {}).get("kind", sw["point"].rsplit(":", 1)[-1])
        at = "the start of a goroutine (%s, %s.%s, arrival %d)" % (sw["point"], pk, fn, sw["nth"]) if kind == "gostart" \
            else "%s (%s.%s, arrival %d)" % (sw["point"], pk, fn, sw["nth"])
        if base == "output" and "noMoreSteps" in got:
            fp = "C09:spurious-noMoreSteps:%s.%s" % (pk, fn)
            what = ("a %d ms delay at %s makes the run fail with 'no steps running...' although it returns %s without the delay"
                    % (hold, at, base_key[:60]))
        else:
            fp = "C09:result-changed:%s.%s:%s->%s" % (pk, fn, base, got)
            what = "a %d ms delay at %s changes the result from %s to %s" % (hold, at, base_key[:60], got)
        chk.violation(fp, what, {"kind": "impl-counterexample", "case": _slim(case),
                                 "schedule_plan": [{"id": sw["point"], "nth": sw["nth"], "delay_ms": hold}],
                                 "held_point": {"id": sw["point"], "nth": sw["nth"], "delay_ms": hold, "kind": kind, "package": pk, "func": fn,
                                                "hold_fired": sw.get("held")},
                                 "expected": {"result_without_delay": base_res, "meaning": want},
                                 "observed": res, "delayed_result": res, "delayed_log": sw.get("log")})


def possibly_producible(case):
    """output ids that the scripted behaviours do not rule out (an over-approximation: whether the producing steps get to run at
    all is not looked at).  A declared output is ruled out when one of its non-optional references names an output / stage of a
    step that the step's scripted behaviour cannot produce."""
    beh = case.get("behaviours") or {}
    steps = {s["id"]: s for s in (case.get("wf") or {}).get("steps", [])}

    def can(step_id, stage, out):
        st = steps.get(step_id)
        if st is None:
            return True
        b = beh.get(st.get("src") or step_id, {})
        oc = b.get("outcome", "success")
        if stage == "outputs":
            if b.get("deploy_fail") or b.get("start_fail") or oc in ("crash", "hang"):
                return False
            return out is None or out == oc
        if stage == "crashed":
            return oc == "crash" or bool(b.get("start_fail"))
        if stage == "deploy_failed":
            return bool(b.get("deploy_fail"))
        return True  # disabled / closed / enabling / starting: depends on gates and on the other steps, not decided here

    possible = set()
    for oid, inval in ((case.get("wf") or {}).get("outputs") or {}).items():
        try:
            rs = M.refs(inval)
        except Exception:
            possible.add(oid)
            continue
        ok = True
        for path, optional, _ in rs:
            if optional or len(path) < 3 or path[0] != "steps":
                continue
            if not can(path[1], path[2], path[3] if len(path) > 3 else None):
                ok = False
                break
        if ok:
            possible.add(oid)
    return possible


def _sample(c):
    return {"id": c.get("id"), "shape": c.get("shape", "generated-plugin-only"), "workflow_yaml": c.get("yaml", "")[:800],
            "files": sorted((c.get("files") or {}).keys()), "base_result": c.get("base_key"), "points_hit": c.get("points_hit"),
            "start_points_hit": c.get("start_points_hit"),
            "swept": [s["point"] + "#%d" % s["nth"] for s in c.get("sweeps", [])][:60]}


def extend(spec):
    spec["theorems"] = list(spec["theorems"]) + [t for t in THEOREMS if t not in spec["theorems"]]
    for st in spec["streams"]:
        if st["name"] == "sched":
            st["monitor"] = mon_sched
            st["sample"] = _sample
            # as before, plus the tier (thorough: every variant of the targeted shapes, 10 generated foreach workflows,
            # up to 12 arrivals per goroutine-start point)
            st["harness"] = lambda t, s: ["sched", "-n", "3" if t == "quick" else "25", "-seed", str(s), "-tier", t,
                                          "-points", "45" if t == "quick" else "0", "-hold", "60"]
    spec["rule"] = ("schedule sweeps on the instrumented build: two delay-free runs (judged against the declarative meaning where every step is "
                    "scripted to succeed), then every synchronisation point passed by the first of them is held once for 60 ms (quick: 45 sampled "
                    "points per case) and every arrival at every goroutine-start point is held (never sampled); workflows: generated plugin-only, "
                    "stop-release, side/main, late items, generated foreach with real durations; distinct = workflow text; non-trivial = at least "
                    "one point swept")
