#!/usr/bin/env python3
"""Orchestrator of the /verif checks.

One check = (1) regenerate the fact layer from /repo, (2) build the property's Lean module and audit the axioms
of its obligations, (3) rebuild the harness from /repo's current working tree (overlay), (4) run the correspondence
streams (real code vs executable model, plus the Spec monitors), (5) verdict, evidence, exit code.
"""
import fcntl
import hashlib
import json
import os
import re
import shutil
import subprocess
import sys
import tempfile
import time

VERIF = os.path.dirname(os.path.dirname(os.path.abspath(__file__)))
REPO = os.environ.get("VERIF_REPO", "/repo")
LEAN = os.path.join(VERIF, "lean")
BUILD = os.path.join(VERIF, ".build")
GOENV = dict(os.environ, GOFLAGS="-mod=mod", GOPROXY="off", GOSUMDB="off", GOTOOLCHAIN="local")
ALLOWED_AXIOMS = {"propext", "Classical.choice", "Quot.sound"}
TRUSTED_BASE = [
    "Lean 4.33.0 kernel; axioms allowed in obligations: propext, Classical.choice, Quot.sound (checked by #print axioms on every run)",
    "fact extractor /verif/extract (go/ast) and Arca/Gen/Expected pins",
    "correspondence harness /verif/harness (Go, overlay build of /repo's working tree), generators, canonicalisers, arcadrv (compiled Lean, used for testing only)",
    "modelled, not verified: Go runtime (scheduler, channels, mutexes, context, timers), dgraph (model M2, differential-tested), expressions (fragment), pluginsdk schema/atp, yaml.v3, deployers (scripted deployer instead)",
]


def log(*a):
    print("[check]", *a, file=sys.stderr, flush=True)


def sh(cmd, cwd=None, env=None, timeout=None, input_=None):
    p = subprocess.run(cmd, cwd=cwd, env=env or os.environ, timeout=timeout, input=input_,
                       stdout=subprocess.PIPE, stderr=subprocess.PIPE, text=True)
    return p.returncode, p.stdout, p.stderr


class Lock:
    def __init__(self):
        os.makedirs(BUILD, exist_ok=True)
        self.f = open(os.path.join(BUILD, "lock"), "w")

    def __enter__(self):
        fcntl.flock(self.f, fcntl.LOCK_EX)
        return self

    def __exit__(self, *a):
        fcntl.flock(self.f, fcntl.LOCK_UN)


# ---------------------------------------------------------------------------------------------------- build steps

def extract():
    """Regenerate lean/Arca/Gen/*.lean and .build/facts.json from /repo's current working tree."""
    os.makedirs(BUILD, exist_ok=True)
    exe = os.path.join(BUILD, "vextract")
    rc, out, err = sh(["go", "build", "-o", exe, "."], cwd=os.path.join(VERIF, "extract"), env=GOENV, timeout=600)
    if rc != 0:
        raise RuntimeError("extractor build failed:\n" + err)
    gen = os.path.join(LEAN, "Arca", "Gen")
    tmp = tempfile.mkdtemp(prefix="gen.", dir=BUILD)
    try:
        rc, out, err = sh([exe, "-repo", REPO, "-out", tmp, "-facts", os.path.join(BUILD, "facts.json")], timeout=600)
        if rc != 0:
            raise RuntimeError("extractor failed:\n" + out + err)
        os.makedirs(gen, exist_ok=True)
        new = set(os.listdir(tmp))
        for f in os.listdir(gen):
            if f not in new:
                os.remove(os.path.join(gen, f))
        for f in new:
            src, dst = os.path.join(tmp, f), os.path.join(gen, f)
            if not os.path.exists(dst) or open(src, "rb").read() != open(dst, "rb").read():
                shutil.copyfile(src, dst)
    finally:
        shutil.rmtree(tmp, ignore_errors=True)
    return json.load(open(os.path.join(BUILD, "facts.json")))


def lake_build(targets, timeout=3000):
    rc, out, err = sh(["lake", "build"] + targets, cwd=LEAN, timeout=timeout)
    return rc == 0, (out + err)


def audit(module, theorems):
    """Return {theorem: (ok, axioms or reason)} using #print axioms on the compiled module."""
    res = {}
    if not theorems:
        return res
    fd, path = tempfile.mkstemp(suffix=".lean", dir=BUILD)
    with os.fdopen(fd, "w") as f:
        f.write("import %s\n" % module)
        for t in theorems:
            f.write("#print axioms %s\n" % t)
    try:
        rc, out, err = sh(["lake", "env", "lean", path], cwd=LEAN, timeout=1200)
    finally:
        os.remove(path)
    text = out + err
    for t in theorems:
        m = re.search(r"'%s' depends on axioms: \[([^\]]*)\]" % re.escape(t), text, re.S)
        if m:
            axs = [a.strip() for a in m.group(1).replace("\n", " ").split(",") if a.strip()]
            bad = [a for a in axs if a not in ALLOWED_AXIOMS]
            res[t] = (not bad, axs)
        elif re.search(r"'%s' does not depend on any axioms" % re.escape(t), text):
            res[t] = (True, [])
        else:
            res[t] = (False, "missing or failed: " + text.strip()[:300])
    return res


def grep_audit():
    """Source audit: no sorry/admit/axiom/native_decide/... outside comments in the Lean sources."""
    bad = []
    pat = re.compile(r"\b(sorry|admit|native_decide|bv_decide|implemented_by)\b|^axiom |unsafe |maxHeartbeats 0")
    for root, _, files in os.walk(os.path.join(LEAN, "Arca")):
        for fn in files:
            if not fn.endswith(".lean"):
                continue
            in_block = 0
            for i, line in enumerate(open(os.path.join(root, fn), encoding="utf-8")):
                code = line
                # strip block comments (non-nested approximation is enough for our own sources)
                if in_block:
                    if "-/" in code:
                        code = code.split("-/", 1)[1]
                        in_block = 0
                    else:
                        continue
                while "/-" in code:
                    pre, rest = code.split("/-", 1)
                    if "-/" in rest:
                        code = pre + rest.split("-/", 1)[1]
                    else:
                        code = pre
                        in_block = 1
                        break
                code = code.split("--", 1)[0]
                if pat.search(code) and "Driver" not in root:
                    bad.append("%s:%d: %s" % (os.path.join(root, fn), i + 1, line.strip()))
    return bad


def build_harness(race=False, extra_overlay=None, name=None):
    out = os.path.join(BUILD, name or ("vharness-race" if race else "vharness"))
    env = dict(GOENV)
    if extra_overlay:
        env["VERIF_OVERLAY_EXTRA"] = extra_overlay
    cmd = [os.path.join(VERIF, "bin", "build-harness"), out]
    if race:
        cmd.append("-race")
    rc, o, e = sh(cmd, env=env, timeout=1800)
    if rc != 0:
        return None, o + e
    return out, ""


INSTRUMENTED_FILES = ["workflow/workflow.go", "internal/step/plugin/provider.go", "internal/step/foreach/provider.go"]


def build_instrumented(race=False):
    """Schedule-point instrumented harness: overlay copies of the run loop and both providers (from the current tree)."""
    tool = os.path.join(BUILD, "vinstrument")
    rc, o, e = sh(["go", "build", "-o", tool, "."], cwd=os.path.join(VERIF, "instrument"), env=GOENV, timeout=600)
    if rc != 0:
        return None, None, "instrumenter build failed: " + e
    idir = os.path.join(BUILD, "instr")
    shutil.rmtree(idir, ignore_errors=True)
    os.makedirs(idir)
    ov, pts = os.path.join(idir, "overlay.json"), os.path.join(idir, "points.json")
    rc, o, e = sh([tool, "-repo", REPO, "-out", idir, "-overlay", ov, "-points", pts,
                   "-vsched", os.path.join(VERIF, "harness", "vsched", "vsched.go")] + INSTRUMENTED_FILES, timeout=600)
    if rc != 0:
        return None, None, "instrumentation failed: " + o + e
    out = os.path.join(BUILD, "vharness-instr" + ("-race" if race else ""))
    env = dict(GOENV, VERIF_OVERLAY_EXTRA=ov, VERIF_TAGS="verif vsched")
    cmd = [os.path.join(VERIF, "bin", "build-harness"), out] + (["-race"] if race else [])
    rc, o, e = sh(cmd, env=env, timeout=1800)
    if rc != 0:
        return None, None, o + e
    return out, json.load(open(pts)), ""


def arcadrv():
    return os.path.join(LEAN, ".lake", "build", "bin", "arcadrv")


def run_stream(harness, hargs, dargs, timeout=3000, skip0=0):
    """Run harness (cases) | arcadrv (verdicts); returns ([(case, verdict)], error text, [crash records]).
    A harness process that dies (a Go panic on any goroutine kills it) is restarted after the crashing case."""
    fd, path = tempfile.mkstemp(suffix=".jsonl", dir=BUILD)
    os.close(fd)
    cases, crashes, herr = [], [], None
    try:
        skip = skip0
        for attempt in range(12):
            part = path + ".part"
            rc, o, e = sh([harness] + hargs + ["-out", part, "-skip", str(skip)], env=GOENV, timeout=timeout)
            last_begin = None
            got = 0
            if os.path.exists(part):
                for line in open(part):
                    line = line.strip()
                    if not line:
                        continue
                    try:
                        c = json.loads(line)
                    except Exception:
                        continue
                    if c.get("kind") == "begin":
                        last_begin = c.get("index")
                        continue
                    cases.append(c)
                    got += 1
                os.remove(part)
            if rc == 0:
                break
            text = (o + e)
            if last_begin is None:
                herr = "harness exit %d: %s" % (rc, text[-2000:])
                break
            crashes.append({"index": last_begin, "exit": rc, "stderr": text[-3000:], "args": hargs})
            skip = last_begin + 1
        with open(path, "w") as f:
            for c in cases:
                f.write(json.dumps(c) + "\n")
        verdicts = {}
        if dargs is not None and cases:
            with open(path) as f:
                p = subprocess.run([arcadrv()] + dargs, stdin=f, stdout=subprocess.PIPE, stderr=subprocess.PIPE,
                                   text=True, timeout=timeout)
            for line in p.stdout.splitlines():
                try:
                    v = json.loads(line)
                    verdicts[v.get("id")] = v
                except Exception:
                    pass
            if p.returncode != 0:
                herr = (herr or "") + " driver exit %d: %s" % (p.returncode, p.stderr[-1000:])
        return [(c, verdicts.get(c.get("id"))) for c in cases], herr, crashes
    finally:
        for f in (path, path + ".part"):
            if os.path.exists(f):
                os.remove(f)


# ---------------------------------------------------------------------------------------------------- findings

def load_known():
    p = os.path.join(VERIF, "known_findings.json")
    if not os.path.exists(p):
        return []
    return json.load(open(p)).get("findings", [])


def case_key(obj):
    return hashlib.sha256(json.dumps(obj, sort_keys=True).encode()).hexdigest()[:16]


class Check:
    """Accumulates the outcome of one property check."""

    def __init__(self, pid, tier, seed):
        self.pid, self.tier, self.seed = pid, tier, seed
        self.t0 = time.time()
        self.violations = []      # dicts: fingerprint, what, replay(dict)
        self.known_hits = []
        self.obligations = {}
        self.evaluations = 0
        self.keys = set()
        self.samples = []
        self.hist = {}
        self.traces = 0
        self.notes = []
        self.proof_broken = []    # obligation names / correspondence names that no longer check
        self.rule = ""
        self.extra = {}

    def count(self, key, nontrivial, sample=None, tags=()):
        self.evaluations += 1
        if nontrivial:
            self.keys.add(key)
        for t in tags:
            self.hist[t] = self.hist.get(t, 0) + 1
        if sample is not None and len(self.samples) < 3:
            self.samples.append(sample)

    def violation(self, fingerprint, what, replay):
        for k in load_known():
            if k.get("property") == self.pid and k.get("status") == "known" and k.get("fingerprint") == fingerprint:
                if fingerprint not in [h[0] for h in self.known_hits]:
                    self.known_hits.append((fingerprint, k.get("what", what)))
                return
        if len(self.violations) < 20 and fingerprint not in [v["fingerprint"] for v in self.violations]:
            self.violations.append({"fingerprint": fingerprint, "what": what, "replay": replay})

    def finish(self):
        os.makedirs(os.path.join(VERIF, "evidence"), exist_ok=True)
        os.makedirs(os.path.join(VERIF, "replays"), exist_ok=True)
        rc = 0
        hit = {fp for fp, _ in self.known_hits}
        for k in load_known():
            if k.get("property") == self.pid and k.get("status") == "known":
                print("KNOWN-FINDING: property=%s %s [%s]" % (self.pid, k.get("what", ""),
                      "reproduced in this run" if k.get("fingerprint") in hit else "not exercised in this run"))
        # broken obligations without a concrete failing input
        concrete = [v for v in self.violations if v["replay"].get("kind") != "obligation-failed"]
        printed = set()
        for v in self.violations:
            kind = v["replay"].get("kind", "impl-counterexample")
            path = os.path.join(VERIF, "replays", "%s-%s.json" % (self.pid, case_key([v["fingerprint"], v["what"]])))
            rep = dict(v["replay"])
            rep.update({"property": self.pid, "fingerprint": v["fingerprint"], "seed": self.seed, "tier": self.tier,
                        "what": v["what"], "replay_cmd": "bin/check replay " + path})
            with open(path, "w") as f:
                json.dump(rep, f, indent=1, sort_keys=True)
            if path in printed:
                continue
            printed.add(path)
            if kind == "obligation-failed" and not concrete:
                print("VIOLATION property=%s replay=%s no-failing-input-found" % (self.pid, path))
                rc = 1
            elif kind != "obligation-failed":
                print("VIOLATION property=%s replay=%s" % (self.pid, path))
                rc = 1
        if self.proof_broken and concrete:
            rc = 1
        discharged = sum(1 for ok, _ in self.obligations.values() if ok)
        cov = {
            "obligations": len(self.obligations),
            "discharged": discharged,
            "checker_cmd": "cd /verif/lean && lake build Arca.Props.%s && lake env lean <#print axioms of every obligation> (bin/check %s)" % (self.pid, self.pid),
            "trusted_base": TRUSTED_BASE,
            "obligation_axioms": {k: (v[1] if v[0] else {"failed": str(v[1])}) for k, v in self.obligations.items()},
            "evaluations": self.evaluations,
            "distinct_nontrivial": len(self.keys),
            "rule": self.rule,
            "samples": self.samples or [{"note": "no correspondence case was generated in this run"}],
            "traces_validated_against_impl": self.traces,
            "input_distribution": self.hist,
            "known_findings_hit": [h[0] for h in self.known_hits],
            "notes": self.notes,
        }
        cov.update(self.extra)
        ev = {"property_id": self.pid, "tier": self.tier, "seed": self.seed, "level": "proof", "coverage": cov,
              "assumptions": TRUSTED_BASE, "wall_s": round(time.time() - self.t0, 2),
              "violations": len(self.violations)}
        with open(os.path.join(VERIF, "evidence", self.pid + ".json"), "w") as f:
            json.dump(ev, f, indent=1, sort_keys=True)
        return rc
