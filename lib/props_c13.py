"""C13 — a loop step returns per-item results in item order within its parallelism.

Registry entry (`SPEC`, same format as the entries of props.PROPS) and the implementation monitor for the `foreach`
stream of the harness.  The monitor evaluates the DECLARATIVE reading of the property on what the real engine did:
from the generated items and their scripted outcomes it computes the output the foreach step has to produce (success:
the sub-workflow outputs in item order; failure: exactly the failing indexes in `errors`, the others in `data`) and
compares it with the step output as returned verbatim by the parent workflow; from the plugin-side log it checks the
parallelism bound per loop and that every item ran exactly once with its own item as input.

Stand-alone use:  python3 lib/props_c13.py cases.jsonl [verdicts.jsonl]   prints violations and histograms.

Probe stream (thorough tier only; `vharness foreach-probe` builds a second harness binary): harness/foreach_probe_overlay.py
makes an instrumented copy of the CURRENT foreach provider, the probe closes large loops within their first milliseconds and
`mon_c13_probe` checks the overlap of sub-workflow Executes counted INSIDE the provider (the plugin-side log cannot see runs
started with a dead context).  Before fix 26900e2 it exhibited up to 60 overlapping Executes with parallelism 1.

Regression detectors of the closing path (all silent on a correct tree): C13:closed-success-with-holes,
C13:closed-items-unreported, C13:parallelism-exceeded-after-close, C13:did-not-return, C13:left-running.
"""
import collections
import json
import sys

try:
    import monitors as M
except ImportError:  # stand-alone
    import os
    sys.path.insert(0, os.path.dirname(os.path.abspath(__file__)))
    import monitors as M

FOREACH_PINS = [
    "step_foreach_provider_runningStep_processInput",
    "step_foreach_provider_runningStep_executeSubWorkflows",
    "step_foreach_provider_runningStep_runOnInput",
    "step_foreach_provider_runningStep_run",
    "step_foreach_provider_runningStep_ProvideStageInput",
    "step_foreach_provider_runningStep_Close",
]

THEOREMS = [
    "Arca.Props.C13.parallelism_bound",
    "Arca.Props.C13.parallelism_bound_prefix",
    "Arca.Props.C13.schedule_bounded",
    "Arca.Props.C13.maximal_schedule_complete",
    "Arca.Props.C13.all_items_finish",
    "Arca.Props.C13.order_independent",
    "Arca.Props.C13.loop_success_shape",
    "Arca.Props.C13.loop_failure_exact",
    "Arca.Props.C13.each_item_runs_once",
    "Arca.Props.C13.abort_release_harmless",
    "Arca.Props.C13.aborted_items_are_reported_as_errors",
    "Arca.Props.C13.closed_pool_accounts_for_every_item",
    # the pool model has no timer: time facts of the provider (regenerated), what a timer may do, what it must not do
    "Arca.Props.C13.foreach_pool_has_no_timer",
    "Arca.Props.C13.queued_items_wait_for_slot_or_close_only",
    "Arca.Props.C13.parallelism_bound_with_timer",
    "Arca.Props.C13.timer_schedule_is_pool_schedule",
    "Arca.Props.C13.timer_start_without_slot_breaks_bound",
    "Arca.Props.C13.close_parked_no_new_start",
    "Arca.Props.C13.close_parked_work_bounded_by_parallelism",
]


DETECTOR_MSG = "no steps running, no more executable steps"


# ---- the declarative reading ---------------------------------------------------------------------------------------------

def item_result(case, item):
    """('ok', value) | ('fail', None): what one sub-workflow run yields for the loop that contains the item"""
    src = case.get("src", "item")
    if item.get("has_inner"):
        rs = [item_result(case, x) for x in item.get("inner") or []]
        if all(r[0] == "ok" for r in rs):
            return ("ok", {"r": [r[1] for r in rs]})
        return ("fail", None)
    if item["outcome"] == "success":
        return ("ok", {"s": item["key"] + "+" + src, "i": item["i"] + 1})
    return ("fail", None)


def expected_output(case):
    """('success', [values]) | ('failed', {index: value}, {failing indexes})"""
    rs = [item_result(case, it) for it in case["items"]]
    if all(r[0] == "ok" for r in rs):
        return ("success", [r[1] for r in rs])
    return ("failed", {i: r[1] for i, r in enumerate(rs) if r[0] == "ok"}, {i for i, r in enumerate(rs) if r[0] != "ok"})


def int_keys(m):
    out = {}
    for k, v in (m or {}).items():
        if isinstance(k, str) and k.startswith("#"):
            k = k[1:]
        try:
            out[int(k)] = v
        except (TypeError, ValueError):
            out[k] = v
    return out


def canon(v):
    return json.dumps(v, sort_keys=True)


# ---- the plugin-side log ----------------------------------------------------------------------------------------------------

def leaves(case):
    """key -> (top-level index, leaf item)"""
    out = {}
    for o, it in enumerate(case["items"]):
        if it.get("has_inner"):
            for x in it.get("inner") or []:
                out[x["key"]] = (o, x)
        else:
            out[it["key"]] = (o, it)
    return out


def overlap(intervals):
    """max number of simultaneously open [start, end) intervals (sequence numbers)"""
    ev = []
    for a, b in intervals:
        ev.append((a, 1))
        ev.append((b, -1))
    cur = best = 0
    for _, d in sorted(ev):
        cur += d
        best = max(best, cur)
    return best


def log_intervals(case, upto=None):
    """key -> [start_seq, end_seq] of the plugin handler; entries at or after sequence number `upto` are ignored"""
    big = 1 << 60
    iv = {}
    for e in case.get("log", []):
        if upto is not None and e["seq"] >= upto:
            break
        if e["ev"] == "exec-start":
            iv.setdefault(e.get("run", ""), []).append([e["seq"], big])
        elif e["ev"] == "exec-end":
            l = iv.get(e.get("run", ""))
            if l and l[-1][1] == big:
                l[-1][1] = e["seq"]
    return iv


def bounds_from_log(case, upto=None):
    """(max overlap of top-level items, max overlap inside one inner loop)"""
    lv = leaves(case)
    iv = log_intervals(case, upto)
    top = {}
    inner = collections.defaultdict(list)
    for key, l in iv.items():
        if key not in lv:
            continue
        o = lv[key][0]
        for a, b in l:
            if o in top:
                top[o] = [min(top[o][0], a), max(top[o][1], b)]
            else:
                top[o] = [a, b]
            inner[o].append((a, b))
    top_max = overlap(list(top.values()))
    inner_max = max([overlap(v) for v in inner.values()] or [0]) if case.get("nested") else 0
    return top_max, inner_max


def completion_out_of_order(case):
    ends = [e.get("run") for e in case.get("log", []) if e["ev"] == "exec-end"]
    lv = leaves(case)
    order = [k for k in ends if k in lv]
    keys = list(lv.keys())  # generation order = item order
    pos = {k: i for i, k in enumerate(keys)}
    idx = [pos[k] for k in order]
    return idx != sorted(idx)


def start_in_item_order(case):
    lv = leaves(case)
    pos = {k: i for i, k in enumerate(lv.keys())}
    idx = [pos[e.get("run")] for e in case.get("log", []) if e["ev"] == "exec-start" and e.get("run") in pos]
    return idx == sorted(idx)


# ---- monitor -------------------------------------------------------------------------------------------------------------------

def slim(case):
    c = dict(case)
    if len(c.get("log", [])) > 400:
        c["log"] = c["log"][:400]
    return c


def mon_c13_foreach(case, verdict, chk):
    res = case.get("result", {}) or {}
    rep = {"kind": "impl-counterexample", "case": slim(case)}
    if "panic" in case:
        chk.violation("C13:panic", "the run panicked: %s" % str(case["panic"])[:200], rep)
        return
    if not res.get("returned"):
        chk.violation("C13:did-not-return", "Execute did not return within 60 s (close_after_ms=%s)" % case.get("close_after_ms"),
                      dict(rep, dump=case.get("dump")))
        return
    cancelled = bool(case.get("cancelled"))
    # nothing may be left behind, cancelled or not
    if case.get("balance", 0) != 0 or case.get("probe_balance", 0) != 0 or case.get("still_running", 0) != 0:
        chk.violation("C13:left-running", "after Execute returned: deploy balance %s, handlers still running %s" %
                      (case.get("balance"), case.get("still_running")), rep)
        return
    if case.get("goroutine_delta", 0) > 0:
        chk.violation("C13:left-running", "%d goroutine(s) alive 1.5 s after Execute returned" % case["goroutine_delta"],
                      dict(rep, dump=case.get("leak_dump")))
        return
    # parallelism bound (while the context is alive)
    upto = None
    if cancelled:
        upto = next((e["seq"] for e in case.get("log", []) if e["ev"] == "ctx-cancel"), None)
    p = case["parallelism"]
    q = case.get("inner_parallelism") or 1
    top_max, inner_max = bounds_from_log(case, upto)
    if top_max > p or (case.get("nested") and inner_max > q):
        chk.violation("C13:parallelism-exceeded", "%d item runs overlapped with parallelism %d (inner loop: %d with %d)" %
                      (top_max, p, inner_max, q), rep)
        return
    if not cancelled:
        limit = p * q if case.get("nested") else p
        if case.get("max_running", 0) > limit:
            chk.violation("C13:parallelism-exceeded", "plugin high-water mark %d exceeds %d" % (case["max_running"], limit), rep)
            return
    # every item at most once (exactly once when not cancelled), with its own item as input
    lv = leaves(case)
    starts = collections.Counter()
    for e in case.get("log", []):
        if e["ev"] != "exec-start":
            continue
        key = e.get("run", "")
        starts[key] += 1
        got = M.dec(e.get("data")) or {}
        if key not in lv:
            chk.violation("C13:item-run-count", "a sub-workflow ran for an item that is not in the list: %r" % got, rep)
            return
        it = lv[key][1]
        if got.get("s") != it["key"] or got.get("i") != it["i"]:
            chk.violation("C13:item-wrong-input", "item %s was run with input %r" % (key, got), rep)
            return
    # items of an outer item whose inner loop was never reached cannot occur here: without cancellation every outer item
    # runs, so every leaf runs exactly once
    for key in lv:
        n = starts.get(key, 0)
        if n > 1 or (n != 1 and not cancelled):
            chk.violation("C13:item-run-count", "item %s ran %d times" % (key, n), rep)
            return
    if cancelled:
        if check_late_starts("C13", case, chk, rep):
            return
        mon_closed_output(case, res, chk, rep)
        return
    # the step output, as returned verbatim by the parent
    if "bug" in res.get("err_class", "") or "bug:" in res.get("err", ""):
        chk.violation("C13:bug-error", "internal consistency error: %s" % res.get("err", "")[:300], rep)
        return
    exp = expected_output(case)
    oid = res.get("output_id")
    data = M.dec(res.get("data"))
    if oid == "failed":
        # a known defect of ANOTHER property shows through the loop: under load the run loop's fallback deadlock detector
        # (C09, finding F10a) fails a healthy sub-workflow run; the loop then correctly reports that item as failed.
        # Keep it apart from the loop's own fingerprints.
        ok_idx = set(range(case["n"])) if exp[0] == "success" else set(exp[1].keys())
        errs = int_keys(((data or {}).get("e") or {}).get("errors"))
        hit = sorted(i for i, m in errs.items() if i in ok_idx and isinstance(m, str) and DETECTOR_MSG in m)
        if hit:
            chk.violation("C13:item-failed-by-false-deadlock-detector",
                          "item(s) %s were scripted to succeed but their sub-workflow run was failed by the run loop's fallback "
                          "deadlock detector (C09/F10a: '%s'); parallelism %d, %d handlers at once" %
                          (hit, DETECTOR_MSG, p, case.get("max_running", 0)), rep)
            return
    if not oid:
        chk.violation("C13:unexpected-error:" + res.get("err_class", ""), "the parent run ended in an error although both foreach "
                      "outputs are returned by it: %s" % res.get("err", "")[:300], rep)
        return
    if exp[0] == "success":
        if oid != "success":
            chk.violation("C13:wrong-failure-set", "all items succeed but the step reported %s: %r" % (oid, data), rep)
            return
        got = (data or {}).get("r")
        if not isinstance(got, list) or not M.veq(exp[1], got):
            same = isinstance(got, list) and sorted(map(canon, got)) == sorted(map(canon, exp[1]))
            fp = "C13:wrong-order" if same else "C13:wrong-item-result"
            chk.violation(fp, "success data %r, expected %r" % (got, exp[1]), rep)
        return
    if oid != "failed":
        chk.violation("C13:wrong-failure-set", "items %s fail but the step reported %s" % (sorted(exp[2]), oid), rep)
        return
    e = (data or {}).get("e") or {}
    got_data = int_keys(e.get("data"))
    got_err = int_keys(e.get("errors"))
    if set(got_err.keys()) != exp[2] or set(got_data.keys()) != set(exp[1].keys()):
        chk.violation("C13:wrong-failure-set", "errors keys %s data keys %s; failing items %s, others %s" %
                      (sorted(got_err, key=str), sorted(got_data, key=str), sorted(exp[2]), sorted(exp[1])), rep)
        return
    if any(not isinstance(m, str) or not m for m in got_err.values()):
        chk.violation("C13:wrong-failure-set", "a failing item has no message: %r" % got_err, rep)
        return
    for i, v in exp[1].items():
        if not M.veq(v, got_data[i]):
            chk.violation("C13:wrong-item-result", "data[%d] = %r, item %d produced %r" % (i, got_data[i], i, v), rep)
            return


def mon_closed_output(case, res, chk, rep):
    """Closing at any time: whatever the step reports must still be a well-formed loop result — a success lists ALL items,
    a failure accounts for every index (an item that never ran has no result, so it has to be among the failures)."""
    n = case["n"]
    oid = res.get("output_id")
    data = M.dec(res.get("data"))
    err = res.get("err", "")
    if not oid:
        if "bug" in res.get("err_class", "") and "<nil> given" in err:
            chk.violation("C13:closed-success-with-holes",
                          "closed while items were pending: the step reported success with nil entries for the items that never "
                          "ran, which the engine rejects as: %s" % err[:200], rep)
        elif "bug" in res.get("err_class", ""):
            chk.violation("C13:bug-error", "internal consistency error: %s" % err[:300], rep)
        return
    if oid == "success":
        got = (data or {}).get("r")
        if not isinstance(got, list) or len(got) != n or any(x is None for x in got):
            chk.violation("C13:closed-success-with-holes", "closed run reported success with data %r for %d items" % (got, n), rep)
        return
    if oid == "failed":
        e = (data or {}).get("e") or {}
        keys = set(int_keys(e.get("data"))) | set(int_keys(e.get("errors")))
        if keys != set(range(n)):
            chk.violation("C13:closed-items-unreported",
                          "closed run reported failure without mentioning items %s (neither in data nor in errors)" %
                          sorted(set(range(n)) - keys)[:20], rep)


# ---- closing: what may still START after the caller's cancel (C06 / C13) ---------------------------------------------------------
#
# Counted on the plugin-side log by sequence numbers only (no wall time).  c = the `ctx-cancel` entry.  An item run BEGINS with
# the deployment of its plugin (`deploy-begin`, written when Deploy is entered).  A run that begins after c needs a slot:
# either it already held one at c (at most `parallelism` runs do), or a slot was given back after c.  A slot is given back
# by an item that ENDS; an item that ends because it was cancelled does so after the loop was closed, when every queued
# item has been woken on the close arm of its select - so only NORMAL ends after c (exec-end with an output other than
# `cancelled`) can let a queued item in.  Hence
#       #deploy-begin after c  <=  parallelism + #normal item ends after c   (+ RACE_SLACK)
# RACE_SLACK covers item goroutines that had not yet reached their select when the loop was closed (Go picks among ready
# select arms at random; only possible in the first instants of a loop).  Nested loops are left out: the close reaches the
# inner loops one level later, inner items legitimately keep starting in between.

RACE_SLACK = 2


def late_starts(case):
    """(begun after cancel, allowed, details) or None when the oracle does not apply"""
    if not case.get("cancelled") or case.get("nested"):
        return None
    log = case.get("log", [])
    c = next((e["seq"] for e in log if e["ev"] == "ctx-cancel"), None)
    if c is None:
        return None
    if not any(e["ev"] == "deploy-begin" for e in log) and any(e["ev"] == "deploy" for e in log):
        return None  # a log without deploy-begin entries (older harness)
    # the bound needs every slot to be TAKEN at the cancel: a goroutine that reaches its select after the cancel then finds the
    # slot arm blocked and leaves through the close arm.  When the loop is cancelled in its first instants, with free slots and
    # item goroutines that have not reached their select yet, Go's random choice among two ready arms lets such a goroutine start
    # (with a cancelled context: the item run ends at once) - allowed by the properties, not bounded by this count (false alarm of
    # the thorough tier, foreach-close-503-76: 105 instant items, parallelism 21, cancelled 2 ms in, 43 late starts).
    begun_before = len([e for e in log if e["ev"] == "deploy-begin" and e["seq"] < c])
    closed_before = len([e for e in log if e["ev"] == "close" and e["seq"] < c]) - len([e for e in log if e["ev"] == "probe" and e["seq"] < c])
    if begun_before - max(closed_before, 0) < int(case["parallelism"]):
        return None
    begun = [e for e in log if e["ev"] == "deploy-begin" and e["seq"] > c]
    normal_ends = [e for e in log if e["ev"] == "exec-end" and e["seq"] > c and e.get("out") != "cancelled"]
    allowed = int(case["parallelism"]) + len(normal_ends) + RACE_SLACK
    return len(begun), allowed, {"cancel_seq": c, "deploy_begin_after_cancel": [e["seq"] for e in begun][:50],
                                 "normal_item_ends_after_cancel": len(normal_ends), "parallelism": case["parallelism"],
                                 "last_seq": log[-1]["seq"] if log else 0}


def check_late_starts(pid, case, chk, rep):
    ls = late_starts(case)
    if ls and ls[0] > ls[1]:
        chk.violation(pid + ":queued-items-started-after-cancel",
                      "%d item runs BEGAN (plugin deployments) after the caller's context was cancelled; at most %d can have held "
                      "or obtained a slot (parallelism %d + %d items that ended normally after the cancel + %d); %d items were given" %
                      (ls[0], ls[1], case["parallelism"], ls[2]["normal_item_ends_after_cancel"], RACE_SLACK, case["n"]),
                      dict(rep, after_cancel=ls[2]))
        return True
    return False


GRACE_MS = M.GRACE_MS
DEFAULT_CLOSURE_MS = 5000      # plugin provider default (Arca.Gen.defaultClosureTimeoutMs, pinned by C06.constants_as_modelled)
C06_TOLERANCE_MS = 2000


def c06_foreach_bound(case):
    """grace period of every nesting level (the parent run, every item run, nested: every inner item run) + the closure
    timeout of the sub-workflow's plugin step + a deployment that was in flight and cannot be interrupted + tolerance"""
    levels = 3 if case.get("nested") else 2
    closure = case.get("closure_ms", -1)
    if closure is None or closure < 0:
        closure = DEFAULT_CLOSURE_MS
    return levels * GRACE_MS + closure + max(0, case.get("deploy_ms") or 0) + C06_TOLERANCE_MS


def mon_c06_foreach(case, verdict, chk):
    """C06 on loops: after the caller's cancel the run returns within the bound - whatever the number of queued items -,
    queued items do not begin after the cancel, nothing is left running"""
    if case.get("close_after_ms", -1) < 0 or "skip" in case:
        return
    res = case.get("result", {}) or {}
    rep = {"kind": "impl-counterexample", "case": slim(case)}
    if "panic" in case:
        return  # C07 / C13
    if not res.get("returned"):
        chk.violation("C06:no-return-after-cancel", "Execute of a workflow with a foreach step (%d items, parallelism %d) did not "
                      "return within 60 s after its context was cancelled" % (case.get("n", 0), case.get("parallelism", 0)),
                      dict(rep, dump=case.get("dump")))
        return
    if not case.get("cancelled"):
        return
    bound = c06_foreach_bound(case)
    if case.get("after_cancel_ms", 0) > bound:
        chk.violation("C06:cancel-bound-exceeded:foreach",
                      "Execute returned %d ms after the cancellation; bound %d ms (grace periods + closure timeout + deployment in "
                      "flight + tolerance); %d items, parallelism %d" %
                      (case["after_cancel_ms"], bound, case.get("n", 0), case.get("parallelism", 0)),
                      dict(rep, bound_ms=bound, after_cancel=(late_starts(case) or [0, 0, None])[2]))
        return
    if check_late_starts("C06", case, chk, rep):
        return
    if case.get("balance", 0) != 0 or case.get("still_running", 0) != 0:
        chk.violation("C06:left-running-after-cancel", "after the cancelled run returned: deploy balance %s, handlers still running %s" %
                      (case.get("balance"), case.get("still_running")), rep)


def mon_c13_probe(case, verdict, chk):
    """optional stream `foreach-probe` (instrumented provider copy, see harness/foreach_probe_overlay.py)"""
    res = case.get("result", {}) or {}
    if not res.get("returned") and "panic" not in case:
        chk.violation("C13:did-not-return", "Execute did not return within 60 s after an early close", {"kind": "impl-counterexample", "case": case})
        return
    if case.get("execute_overlap_max", 0) > case.get("parallelism", 1):
        chk.violation("C13:parallelism-exceeded-after-close",
                      "%d sub-workflow Executes overlapped with parallelism %d (%d of them started after the step's context was "
                      "cancelled)" % (case["execute_overlap_max"], case["parallelism"], case.get("execute_started_after_cancel", 0)),
                      {"kind": "impl-counterexample", "case": case})


def nontrivial(case):
    """more than one item and (a failing item or items completing out of order)"""
    if case.get("n", 0) < 2:
        return False
    return expected_output(case)[0] == "failed" or completion_out_of_order(case)


def sample(case):
    return {"id": case.get("id"), "workflow_yaml": case.get("yaml", "")[:1500], "files": case.get("files"),
            "n": case.get("n"), "parallelism": case.get("parallelism"), "items": case.get("items", [])[:8],
            "result": case.get("result"), "max_running": case.get("max_running"), "log_len": len(case.get("log", []))}


def foreach_n(tier):
    return 600 if tier == "thorough" else 150


def close_n(tier):
    return 300 if tier == "thorough" else 50


def probe_n(tier):
    return 40 if tier == "thorough" else 0   # needs a second harness build: thorough tier only


# ---- long-queue cases: how long is "long" ----------------------------------------------------------------------------------------

GO_UNITS_MS = {"time.Nanosecond": 1e-6, "time.Microsecond": 1e-3, "time.Millisecond": 1.0, "time.Second": 1000.0,
               "time.Minute": 60000.0, "time.Hour": 3600000.0}


def go_duration_ms(expr, consts, depth=0):
    """milliseconds of a Go duration expression built from literals, time units, `*` and named constants of the provider
    (`5 * time.Second`, `queuedItemLogInterval`, `time.NewTimer(x)`); None when it cannot be evaluated"""
    import re
    expr = expr.strip()
    m = re.match(r"^[\w.]+\((.*)\)$", expr)
    if m:
        expr = m.group(1).strip()
    if depth > 5 or not expr:
        return None
    val = 1.0
    seen_unit = False
    for f in expr.split("*"):
        f = f.strip()
        f = re.sub(r"^time\.Duration\((.*)\)$", r"\1", f).strip()
        if re.match(r"^\d+(\.\d+)?$", f):
            val *= float(f)
        elif f in GO_UNITS_MS:
            val *= GO_UNITS_MS[f]
            seen_unit = True
        elif ("foreach.timeconst." + f) in consts:
            sub = go_duration_ms(consts["foreach.timeconst." + f], consts, depth + 1)
            if sub is None:
                return None
            val *= sub
            seen_unit = True
        else:
            return None
    return val if seen_unit else None


def foreach_timer_ms(consts=None):
    """the longest time constant / timer argument the fact extractor found inside the foreach provider (0 = none)"""
    if consts is None:
        try:
            import os
            import vcheck
            consts = json.load(open(os.path.join(vcheck.BUILD, "facts.json"))).get("consts", {})
        except Exception:
            consts = {}
    best = 0
    for k, v in consts.items():
        if k.startswith("foreach.timeconst.") or k.startswith("foreach.timer."):
            d = go_duration_ms(v, consts)
            if d is not None and d < 3600000:
                best = max(best, int(d))
    return best


def long_args(tier):
    """queue waits of the long-queue cases: several seconds, and longer than every timer found in the provider (capped at
    30 s, which keeps a check bounded if someone adds a very long timer; the broken fact is reported regardless)"""
    hold = min(30000, max(6000, foreach_timer_ms() + 1500))
    return ["-long", "5" if tier == "thorough" else "1", "-longms", str(hold)]


def queue_n(tier):
    return 6 if tier == "thorough" else 2


SPEC = {
    "module": "Arca.Props.C13",
    "theorems": THEOREMS,
    "pins": FOREACH_PINS,
    "streams": [
        {"name": "foreach",
         "harness": lambda t, s: ["foreach", "-n", str(foreach_n(t)), "-seed", str(s), "-tier", t] + long_args(t),
         "driver": lambda f: ["foreach"], "monitor": mon_c13_foreach, "nontrivial": nontrivial, "sample": sample},
        {"name": "foreach-close",
         "harness": lambda t, s: ["foreach", "-close", "-n", str(close_n(t)), "-seed", str(s + 500), "-tier", t,
                                  "-queue", str(queue_n(t))],
         "driver": lambda f: ["foreach"], "monitor": mon_c13_foreach, "nontrivial": lambda c: bool(c.get("cancelled")),
         "sample": sample},
        {"name": "foreach-probe",
         "harness": lambda t, s: ["foreach-probe", "-n", str(probe_n(t)), "-seed", str(s + 900), "-tier", t],
         "driver": None, "monitor": mon_c13_probe,
         "nontrivial": lambda c: bool(c.get("cancelled")) and c.get("execute_overlap_max", 0) > 0, "sample": lambda c: c},
    ],
    "rule": ("whole-engine runs of a parent workflow with one foreach step (1 in 5: nested, the sub-workflow loops again) over "
             "generated item lists (0..40 items, thorough 200), parallelism omitted / literal / from the input in 1..n+1, per-item "
             "outcomes success / error / alt / crash and per-item durations chosen so that items finish out of order; "
             "distinct = distinct items + parallelism + declared outputs; non-trivial = at least two items and (a failing item or "
             "out-of-order completion); the close stream cancels the parent context at a random instant (non-trivial = the "
             "cancellation hit the run; checked: Execute returns, nothing left running, bound kept, every index accounted for); "
             "thorough only: the probe stream closes 150..250-item loops within 1..2 ms and counts overlapping sub-workflow "
             "Executes inside an instrumented copy of the provider (non-trivial = closed while items were executing); "
             "long-queue cases (1, thorough 5): items stay queued behind the limit for >= 6 s and longer than every timer constant "
             "found in the provider; cancel-queue cases (2, thorough 6): 60..200 never-ending items, parallelism 1..3, deployments "
             "of 250..350 ms that cannot be interrupted, cancelled while the first items deploy: no queued item may begin after the "
             "cancel (counted by log sequence numbers)"),
}

# C06 on loops (registered in props.py: PROPS["C06"]["streams"].append(props_c13.S_C06_FOREACH))
S_C06_FOREACH = {
    "name": "foreach-cancel",
    "harness": lambda t, s: ["foreach", "-close", "-n", "30" if t == "quick" else "250", "-seed", str(s + 700), "-tier", t,
                             "-queue", "3" if t == "quick" else "12"],
    "driver": None, "monitor": mon_c06_foreach, "nontrivial": lambda c: bool(c.get("cancelled")),
    "sample": lambda c: {k: c.get(k) for k in ("id", "class", "n", "parallelism", "close_after_ms", "cancelled", "after_cancel_ms",
                                               "deploy_ms", "closure_ms", "result", "balance")},
}
C06_FOREACH_THEOREMS = ["Arca.Props.C06.queued_items_watch_the_close", "Arca.Props.C06.foreach_close_starts_nothing",
                        "Arca.Props.C06.foreach_close_work_bounded"]
C06_FOREACH_PINS = ["step_foreach_provider_runningStep_executeSubWorkflows"]
C06_FOREACH_RULE = ("; foreach workflows (0..40 items, thorough 200; parallelism 1..n+1; nested loops) cancelled at a random instant, "
                    "and cancel-queue cases: 60..200 never-ending items with parallelism 1..3, uninterruptible deployments of "
                    "250..350 ms, closure timeout 100 ms, cancelled while the first items deploy and all others are queued - the "
                    "return bound must hold whatever the number of queued items and no queued item may begin after the cancel")


# ---- stand-alone: violations + histograms ------------------------------------------------------------------------------------------

class _Chk:
    def __init__(self):
        self.v = []

    def violation(self, fp, what, replay):
        self.v.append((fp, what, replay.get("case", {}).get("id")))


def _bucket(n):
    return "0" if n == 0 else "1" if n == 1 else "2-6" if n <= 6 else "7-16" if n <= 16 else "17-40" if n <= 40 else ">40"


def main(argv):
    cases = [json.loads(l) for l in open(argv[1]) if l.strip()]
    verdicts = {}
    if len(argv) > 2:
        for l in open(argv[2]):
            try:
                v = json.loads(l)
                verdicts[v.get("id")] = v
            except ValueError:
                pass
    h = collections.defaultdict(collections.Counter)
    chk = _Chk()
    for c in cases:
        if c.get("kind") == "foreach-probe":
            mon_c13_probe(c, None, chk)
            h["probe: Executes started after cancel"]["0" if not c.get("execute_started_after_cancel") else ">0"] += 1
            h["probe: Execute overlap vs parallelism"]["<= p" if c.get("execute_overlap_max", 0) <= c["parallelism"] else "> p"] += 1
            continue
        if c.get("kind") != "foreach":
            h["kind"][c.get("kind")] += 1
            continue
        if "skip" in c:
            h["skip"][c["skip"][:80]] += 1
            continue
        mon_c13_foreach(c, verdicts.get(c["id"]), chk)
        h["size"][_bucket(c["n"])] += 1
        h["parallelism"]["%s:%s" % (c["par_mode"], "1" if c["parallelism"] == 1 else "n+1" if c["parallelism"] == c["n"] + 1
                                   else "n" if c["parallelism"] == c["n"] else "2..n-1")] += 1
        lv = leaves(c)
        kinds = collections.Counter(x[1]["outcome"] for x in lv.values())
        fails = sum(v for k, v in kinds.items() if k != "success")
        h["outcome-mix"]["all-success" if fails == 0 else "all-fail" if fails == len(lv) else "one-fail" if fails == 1 else "mixed"] += 1
        for k, v in kinds.items():
            h["leaf-outcomes"][k] += v
        h["nested"][str(bool(c["nested"]))] += 1
        h["declared"]["alt=%d err=%d failed=%d" % (c["decl_alt"], c["decl_err"], c["decl_failed"])] += 1
        h["out-of-order-completion"][str(completion_out_of_order(c))] += 1
        if c["parallelism"] == 1 and not c["nested"] and c["n"] > 1:
            h["p=1: started in item order"][str(start_in_item_order(c))] += 1
        res = c.get("result", {})
        h["result"][res.get("output_id") or ("err:" + res.get("err_class", "")) if res.get("returned") else "NOT-RETURNED"] += 1
        top, inner = bounds_from_log(c)
        h["bound"]["reached p" if top == c["parallelism"] else "below p" if top < c["parallelism"] else "ABOVE p"] += 1
        if c.get("close_after_ms", -1) >= 0:
            h["close"]["cancel hit the run" if c.get("cancelled") else "finished before cancel"] += 1
            if c.get("cancelled"):
                h["close: max overlap after cancel vs p"]["<= p" if top <= c["parallelism"] else "> p"] += 1
                h["close: after_cancel_ms"]["<50" if c.get("after_cancel_ms", 0) < 50 else "<500" if c.get("after_cancel_ms", 0) < 500 else ">=500"] += 1
        if verdicts:
            h["driver-verdict"][(verdicts.get(c["id"]) or {}).get("verdict", "none")] += 1
    print("cases: %d" % len(cases))
    for name in h:
        print("  %-38s %s" % (name, dict(sorted(h[name].items()))))
    print("monitor violations: %d" % len(chk.v))
    for fp, what, cid in chk.v[:20]:
        print("  %s  %s  %s" % (cid, fp, what[:300]))
    for cid, v in verdicts.items():
        if v.get("verdict") == "diff":
            print("  DIFF %s %s" % (cid, json.dumps(v.get("detail"))[:400]))
    return 1 if chk.v else 0


if __name__ == "__main__":
    sys.exit(main(sys.argv))
