"""Property registry: obligations (Lean theorems + pins), correspondence streams and implementation monitors."""
import json
import os
import re
import time

import monitors as M
import props_c08
import props_c10
import props_c11
import props_c13
import props_c17
import props_c20
import props_c12
import props_c18
import props_c07
import props_c09
import props_c19
import props_c04
import props_dgraph
import vcheck
from vcheck import Check, log

PIN = "Arca.Pins."

# ---- pin groups: the Go functions whose control skeleton the hand-written model mirrors -------------------------------

RUNLOOP_PINS = [
    "workflow_workflow_executableWorkflow_Execute", "workflow_workflow_executableWorkflow_handleOutput",
    "workflow_workflow_loopState_onStageComplete", "workflow_workflow_loopState_markOutputsUnresolvable",
    "workflow_workflow_loopState_markStageNodeUnresolvable", "workflow_workflow_loopState_markRemainingStagesUnresolvable",
    "workflow_workflow_loopState_notifySteps",
    "workflow_workflow_loopState_checkForDeadlocks", "workflow_workflow_loopState_terminateAllSteps",
    "workflow_workflow_loopState_getLastError", "workflow_workflow_loopState_reportError",
]
RESOLVE_PINS = [
    "workflow_workflow_loopState_resolveExpressions", "workflow_workflow_loopState_resolveOneOfExpression",
    "workflow_workflow_loopState_resolveOptionalExpression",
]
PREPARE_PINS = [
    "workflow_executor_executor_Prepare", "workflow_executor_executor_connectStepDependencies",
    "workflow_executor_executor_prepareDependencies", "workflow_executor_executor_prepareExprDependencies",
    "workflow_executor_executor_createGroupNode", "workflow_executor_executor_prepareOptionalExprDependencies",
    "workflow_executor_executor_prepareOneOfExprDependencies", "workflow_executor_executor_buildOutputProperties",
    "workflow_executor_executor_addOutputProperties", "workflow_executor_executor_verifyStageInputs",
]


def loop_n(tier):
    return 600 if tier == "thorough" else 120


# ---- monitors: property oracles evaluated on what the implementation did (never on the model) ----------------------------

def mon_c01_loop(case, verdict, chk):
    """C01 on a run-loop history: the loop must not block and Execute must return once all steps are done."""
    res = case.get("result", {})
    if case.get("stuck"):
        chk.violation("C01:callback-blocked-in-run-loop", "a step callback never returned (blocked while holding the run lock)",
                      {"kind": "impl-counterexample", "case": slim(case)})
    elif not res.get("returned") and not case.get("panic"):
        chk.violation("C01:execute-did-not-return", "Execute did not return although every step finished or was closed",
                      {"kind": "impl-counterexample", "case": slim(case)})
    elif res.get("returned") and res.get("output_id") and res.get("err"):
        chk.violation("C01:output-and-error", "Execute returned an output together with an error",
                      {"kind": "impl-counterexample", "case": slim(case)})


def slim(case):
    c = {k: v for k, v in case.items() if k not in ("prepared",)}
    return c


# ---- registry -----------------------------------------------------------------------------------------------------------------

def errcap(facts):
    return str(facts.get("consts", {}).get("workflow.chan.recentErrors", "20"))


def S_loop(monitor=None, fanin=False):
    if fanin:
        return {"name": "loop-fanin", "harness": lambda t, s: ["loop", "-n", "4" if t == "quick" else "16", "-seed", str(s + 1000), "-fanin", "45"],
                "driver": lambda f: ["loop", errcap(f)], "monitor": monitor, "nontrivial": lambda c: True}
    return {"name": "loop", "harness": lambda t, s: ["loop", "-n", str(loop_n(t)), "-seed", str(s), "-tier", t],
            "driver": lambda f: ["loop", errcap(f)], "monitor": monitor, "retry_diffs": True,
            "nontrivial": lambda c: any(o != "success" for o in c.get("outcomes", {}).values())}


def S_engine(monitor, extra=(), name="engine", n=(150, 1500), seed_off=0):
    return {"name": name,
            "harness": lambda t, s: ["engine", "-n", str(n[1] if t == "thorough" else n[0]), "-seed", str(s + seed_off), "-tier", t] + list(extra),
            "driver": None, "monitor": monitor,
            "nontrivial": lambda c: any(b.get("outcome") != "success" or b.get("deploy_fail") or b.get("start_fail") for b in c.get("behaviours", {}).values())
            or len(c.get("wf", {}).get("steps", [])) > 2,
            "sample": engine_sample}


def S_prompt(pid):
    return {"name": "prompt", "harness": lambda t, s: ["prompt", "-n", "12" if t == "quick" else "48", "-seed", str(s)],
            "driver": None, "monitor": M.mon_prompt(pid), "nontrivial": lambda c: True,
            "sample": lambda c: {"id": c.get("id"), "shape": c.get("shape"), "workflow_yaml": c.get("yaml", "")[-500:], "result": c.get("result"),
                                 "wall_ms": c.get("wall_ms")}}


def S_foreach_close(monitor, seed_off=0):
    """whole-engine runs of a parent workflow with a foreach step whose context is cancelled at a random instant"""
    return {"name": "foreach-close",
            "harness": lambda t, s: ["foreach", "-close", "-n", "20" if t == "quick" else "200", "-seed", str(s + 500 + seed_off), "-tier", t],
            "driver": None, "monitor": monitor, "nontrivial": lambda c: bool(c.get("cancelled")),
            "sample": lambda c: {k: c.get(k) for k in ("id", "result", "cancelled", "close_after_ms", "balance", "goroutine_delta")}}


def S_foreach(monitor, seed_off=0):
    """whole-engine runs of a parent workflow with a foreach step (failing, crashing and alternative-output items, out-of-order
    completion, parallelism below the number of items) that is NOT closed from outside: the run has to end by itself"""
    return {"name": "foreach",
            "harness": lambda t, s: ["foreach", "-n", "40" if t == "quick" else "400", "-seed", str(s + 700 + seed_off), "-tier", t],
            "driver": None, "monitor": monitor, "nontrivial": lambda c: len(c.get("items") or []) >= 2,
            "sample": lambda c: {k: c.get(k) for k in ("id", "result", "balance", "goroutine_delta")}}


def engine_sample(case):
    return {"id": case.get("id"), "workflow_yaml": case.get("yaml", "")[:1200], "behaviours": case.get("behaviours"),
            "input": case.get("input"), "result": case.get("result"), "log_len": len(case.get("log", []))}


LOOP_RULE = ("run-loop histories generated by scripted providers over generated workflows (distinct = distinct workflow text + "
             "event history; non-trivial = at least one step does not end in success)")
ENGINE_RULE = ("whole-engine runs of generated workflows with the scripted deployer/plugin (distinct = distinct workflow text + input; "
               "non-trivial = some step does not succeed or more than two steps)")

PROPS = {
    "C01": {
        "module": "Arca.Props.C01",
        "theorems": ["Arca.Props.C01.no_blocking_send", "Arca.Props.C01.at_most_one_output", "Arca.Props.C01.no_more_outputs_once",
                     "Arca.Props.C01.error_buffer_bounded", "Arca.Props.C01.error_capacity_sufficient", "Arca.Props.C01.dead_only_by_panic",
                     "Arca.Props.C01.completed_step_settles_all_its_stages", "Arca.Props.C01.completed_steps_stay_settled",
                     "Arca.Props.C01.all_steps_completed_nothing_waits_for_a_step",
                     "Arca.Props.C01.quiescent_run_has_verdict", "Arca.Props.C01.quiescent_stmt",
                     "Arca.Props.C01.quiescent_hypotheses_needed"],
        "pins": RUNLOOP_PINS,
        "streams": [S_loop(mon_c01_loop), S_loop(mon_c01_loop, fanin=True), S_engine(M.mon_c01_engine), S_prompt("C01"),
                    S_foreach_close(M.mon_c01_engine), S_foreach(M.mon_c01_engine),
                    S_engine(M.mon_c01_engine, extra=["-cancel", "random"], name="engine-cancel", n=(60, 600), seed_off=29)],
        "rule": LOOP_RULE + "; fan-in shape: one output fed by a failing step and 45 others; " + ENGINE_RULE,
    },
    "C02": {
        "module": "Arca.Props.C02",
        "theorems": ["Arca.Props.C02.run_keeps_graph_invariant", "Arca.Props.C02.provide_after_deps",
                     "Arca.Props.C02.provide_sees_produced_values", "Arca.Props.C02.data_model_holds_resolved_outputs",
                     "Arca.Model.Graph.ready_sound", "Arca.Model.Graph.inv_resolve"],
        "pins": RUNLOOP_PINS + RESOLVE_PINS + PREPARE_PINS,
        "streams": [S_loop(), S_engine(M.both(M.mon_c02_engine, M.no_eval_failure("C02", "a stage input was evaluated before the data it refers to was produced")), n=(250, 2500)),
                    # single expressions with several step references (one of them already connected by another expression of
                    # the same stage), optional members with several sources
                    S_engine(M.both(M.mon_c02_engine, M.no_eval_failure("C02", "a stage input was evaluated before the data it refers to was produced")),
                             extra=["-tags", "-multiref"], name="engine-multiref", n=(150, 1500), seed_off=41),
                    # step outputs are logged (config.LoggedOutputConfigs) through a sink that takes 40 ms per such line: a pure
                    # delay inside the logger, while other steps report their own stage changes
                    S_engine(M.both(M.mon_c02_engine, M.no_eval_failure("C02", "a stage input was evaluated before the data it refers to was produced")),
                             extra=["-slowlog", "40"], name="engine-slowlog", n=(40, 300), seed_off=53),
                    # the recorded run is the SECOND run of a prepared workflow (the first one had another input); steps with
                    # deploy-time expressions over the input: every value (stage inputs and the deployment configuration) has to
                    # come from this run's input and producers, none from the earlier run
                    S_engine(M.both(M.mon_c02_engine, M.mon_c02_deploy, M.no_eval_failure("C02", "a stage input was evaluated before the data it refers to was produced")),
                             extra=["-second"], name="engine-second-run", n=(60, 600), seed_off=59)],
        "rule": LOOP_RULE + " - every provided stage input is compared with the model; " + ENGINE_RULE +
                " - every plugin execution's input is recomputed from the logged producer outputs",
    },
    "C03": {
        "module": "Arca.Props.C03",
        "theorems": ["Arca.Props.C03.result_sound", "Arca.Props.C03.result_is_the_output",
                     "Arca.Props.C03.no_output_reported_when_last_output_fails",
                     "Arca.Props.C03.producible_output_is_returned", "Arca.Props.C03.no_producible_output_gives_error",
                     "Arca.Props.C03.nothing_producible_gives_error", "Arca.Props.C03.producible_stmt",
                     "Arca.Props.C03.no_output_stmt", "Arca.Props.C03.ready_empty_stmt",
                     "Arca.Props.C03.completeness_hypotheses_needed"],
        "pins": RUNLOOP_PINS + RESOLVE_PINS,
        "streams": [S_loop(), S_engine(M.both(M.mon_c03_engine, M.no_eval_failure("C03", "an error was returned although the expressions of a producible output evaluate")),
                                       n=(250, 2500), seed_off=7),
                    # runs cancelled by the caller: "if no declared output is producible the run returns an error and no output"
                    S_engine(M.result_shape("C03"), extra=["-cancel", "random"], name="engine-cancel", n=(60, 600), seed_off=29),
                    S_engine(M.both(M.mon_c03_engine, M.no_eval_failure("C03", "an error was returned although the expressions of a producible output evaluate")),
                             extra=["-tags", "-multiref"], name="engine-multiref", n=(150, 1500), seed_off=43)],
        "rule": LOOP_RULE + " - the returned output must be one the model admits; " + ENGINE_RULE +
                " - the returned output is recomputed declaratively from the logged step outcomes",
    },
    "C04": {
        "module": "Arca.Props.C04",
        "theorems": ["Arca.Props.C04.failed_prereq_never_provided", "Arca.Props.C04.no_start_without_deps",
                     "Arca.Props.C04.status_monotone"],
        "pins": RUNLOOP_PINS,
        "streams": [S_loop(), S_engine(M.mon_c04_engine, n=(250, 2500), seed_off=11)],
        "rule": LOOP_RULE + "; " + ENGINE_RULE + " - plugin executions are checked against enabled / prerequisite / stop conditions",
    },
    "C05": {
        "module": "Arca.Props.C05",
        "theorems": ["Arca.Props.C05.run_closes_all", "Arca.Props.C05.terminate_force_closes", "Arca.Props.C05.forceclose_waits",
                     "Arca.Props.C05.plugin_run_registered_before_start", "Arca.Props.C05.plugin_run_closes_container",
                     "Arca.Props.C05.probe_closes", "Arca.Props.C05.foreach_run_registered_before_start"],
        "pins": ["workflow_workflow_executableWorkflow_Execute", "workflow_workflow_loopState_terminateAllSteps",
                 "step_plugin_provider_pluginProvider_LoadSchema", "step_plugin_provider_runningStep_run",
                 "step_plugin_provider_runningStep_ForceClose", "step_plugin_provider_runningStep_Close",
                 "step_plugin_provider_runningStep_closeComponents", "step_plugin_provider_runningStep_startPlugin",
                 "step_foreach_provider_runningStep_Close", "step_foreach_provider_runningStep_run"],
        "streams": [S_engine(M.mon_c05_engine, n=(200, 2000), seed_off=13),
                    S_engine(M.mon_c05_engine, extra=["-cancel", "random"], name="engine-cancel", n=(25, 400), seed_off=17),
                    S_foreach_close(M.mon_c05_engine, seed_off=3),
                    {"name": "probe", "harness": lambda t, s: ["probe", "-n", "12" if t == "quick" else "90", "-seed", str(s)],
                     "driver": None, "monitor": M.mon_c05_probe, "nontrivial": lambda c: c.get("mode") != "ok",
                     "sample": lambda c: {k: c.get(k) for k in ("id", "mode", "victim", "prepared", "probe_balance", "goroutine_delta", "err")}}],
        "rule": ENGINE_RULE + "; deploy/close balance and goroutine delta after every run, incl. runs cancelled at a random instant; "
                "schema-probe failure modes (deployment fails, ATP client shut-down fails) while a workflow is prepared",
    },
    "C06": {
        "module": "Arca.Props.C06",
        "theorems": ["Arca.Props.C06.cancel_bound", "Arca.Props.C06.cancel_reaches_running", "Arca.Props.C06.responsive_plugin_fast",
                     "Arca.Props.C06.constants_as_modelled", "Arca.Props.C06.execute_waits_for_termination",
                     "Arca.Props.C06.runStage_signals_or_closes"],
        "pins": ["workflow_workflow_executableWorkflow_Execute", "workflow_workflow_loopState_terminateAllSteps",
                 "step_plugin_provider_runningStep_runStage", "step_plugin_provider_runningStep_cancelStep",
                 "step_plugin_provider_runningStep_ForceClose", "step_plugin_provider_runningStep_forceCloseInternal",
                 "step_plugin_provider_runningStep_forceClose", "step_plugin_provider_runningStep_closeComponents",
                 "step_plugin_provider_runningStep_provideCancelledInput", "step_foreach_provider_runningStep_Close"],
        "streams": [S_engine(M.mon_c06_cancel, extra=["-cancel", "random"], name="engine-cancel", n=(30, 500), seed_off=29)],
        "rule": ENGINE_RULE + "; the caller's context is cancelled at a random instant (0-60 ms) of runs with hanging and signal-ignoring "
                "steps and closure timeouts of 100-250 ms; non-trivial = the cancellation fired before the run ended",
    },
    "C07": {
        "module": "Arca.Props.C07",
        "theorems": ["Arca.Props.C07.legal_history_never_panics", "Arca.Props.C07.legal_callback_never_panics",
                     "Arca.Props.C07.mark_unresolvable_succeeds", "Arca.Props.C07.propagation_fuel_suffices",
                     "Arca.Props.C07.dead_only_by_panic", "Arca.Props.C07.completion_needs_finished_bookkeeping",
                     "Arca.Props.C07.completion_needs_unambiguous_stage_ids"],
        "pins": RUNLOOP_PINS + RESOLVE_PINS,
        "streams": [S_loop(), S_engine(M.mon_c07_evalfail, extra=["-evalfail"], name="engine-evalfail", n=(250, 2500), seed_off=19),
                    # a failure that happens while the caller has cancelled the run still surfaces as an error
                    S_engine(M.both(M.mon_c07_engine, M.result_shape("C07")), extra=["-cancel", "random"], name="engine-cancel", n=(60, 600), seed_off=29),
                    # every step output is logged (config.LoggedOutputConfigs): plugin outputs (maps), engine-generated ones
                    # (deploy_failed / crashed: structs), long texts - rendering an output for the log must not crash the run
                    S_engine(M.both(M.mon_c07_engine, M.result_shape("C07")), extra=["-slowlog", "1"], name="engine-logged", n=(60, 600), seed_off=37)],
        "rule": LOOP_RULE + "; " + ENGINE_RULE + " with expressions that fail at run time (absent optional input, index out of range, "
                "failing conversion, division by zero); a process crash of the harness is a violation",
    },
    "C09": {
        "module": "Arca.Props.C09", "theorems": ['Arca.Props.C09.raw_state_window_deploy_race', 'Arca.Props.C09.raw_state_window_enabling', 'Arca.Props.C09.raw_state_window_enabling_report_in_flight', 'Arca.Props.C09.raw_state_window_enabling_provided_while_parked', 'Arca.Props.C09.raw_state_window_starting', 'Arca.Props.C09.raw_state_window_starting_provided_while_parked', 'Arca.Props.C09.raw_state_window_completion_in_flight', 'Arca.Props.C09.raw_state_window_closing', 'Arca.Props.C09.raw_state_window_closing_owes_completion', 'Arca.Props.C09.raw_state_unsound', 'Arca.Props.C09.raw_state_windows_exhaustive', 'Arca.Props.C09.raw_deploy_wait_partial', 'Arca.Props.C09.counted_waiting_not_cancelled', 'Arca.Props.C09.deploy_wait_is_sound', 'Arca.Props.C09.detector_sound_waiting', 'Arca.Props.C09.settled_is_silent', 'Arca.Props.C09.detector_sound_finished_partial', 'Arca.Props.C09.detector_sound_finished', 'Arca.Props.C09.harmless_is_inert', 'Arca.Props.C09.detector_sound', 'Arca.Props.C09.detector_sound_counterexample_failure_tail', 'Arca.Props.C09.detector_sound_counterexample_without_marking', 'Arca.Props.C09.failure_tail_settled_with_marking', 'Arca.Props.C09.loop_marks_remaining_stages_at_completion', 'Arca.Props.C09.refinement_owes_check', 'Arca.Props.C09.owed_check_is_delivered_or_kept', 'Arca.Props.C09.owed_check_runs', 'Arca.Props.C09.no_lost_check', 'Arca.Props.C09.detector_needs_quiescence_for_three_polls', 'Arca.Props.C09.one_active_poll_stops_detector', 'Arca.Props.C09.short_window_cannot_trigger', 'Arca.Props.C09.starting_counts_as_progress', 'Arca.Props.C09.starting_step_stops_detector', 'Arca.Props.C09.foreach_items_handed_over_as_running', 'Arca.Props.C09.foreach_loop_never_waits_while_working'], "instrumented": True,
        "pins": ["workflow_workflow_loopState_checkForDeadlocks", "workflow_workflow_loopState_countStates",
                 "workflow_workflow_loopState_onStageComplete", "step_plugin_provider_runningStep_State",
                 "step_plugin_provider_runningStep_CurrentStage", "step_plugin_provider_runningStep_currentStageInputAvailable",
                 "step_foreach_provider_runningStep_State", "step_foreach_provider_runningStep_CurrentStage",
                 "step_plugin_provider_runningStep_provideDeployInput",
                 "step_plugin_provider_runningStep_provideEnablingInput", "step_plugin_provider_runningStep_provideStartingInput",
                 "step_plugin_provider_runningStep_deployStage", "step_plugin_provider_runningStep_enableStage",
                 "step_plugin_provider_runningStep_startStage", "step_plugin_provider_runningStep_transitionStageWithOutput",
                 "step_plugin_provider_runningStep_completeStep", "step_plugin_provider_runningStep_runStage",
                 "step_plugin_provider_runningStep_startPlugin", "step_plugin_provider_runningStep_postDeployment",
                 "step_plugin_provider_runningStep_transitionFromFailedStage", "step_foreach_provider_runningStep_ProvideStageInput",
                 "step_foreach_provider_runningStep_run"],
        "streams": [{"name": "sched", "instrumented": True,
                     "harness": lambda t, s: ["sched", "-n", "3" if t == "quick" else "25", "-seed", str(s), "-points", "45" if t == "quick" else "0", "-hold", "60"],
                     "driver": None, "monitor": M.mon_c09_sched,
                     "nontrivial": lambda c: len(c.get("sweeps", [])) > 0,
                     "sample": lambda c: {"id": c.get("id"), "workflow_yaml": c.get("yaml", "")[:800], "base_result": c.get("base_key"),
                                          "points_hit": c.get("points_hit"), "swept": [s["point"] for s in c.get("sweeps", [])][:50]}}],
        "rule": "schedule sweeps on the instrumented build: every synchronisation point passed by a baseline run is held once for 60 ms "
                "(quick: 45 sampled points per case); distinct = workflow text; non-trivial = at least one point swept",
    },
    "C15": {
        "module": "Arca.Props.C15",
        "theorems": ["Arca.Props.C15.optional_meaning", "Arca.Props.C15.absent_members_left_out", "Arca.Props.C15.oneof_meaning",
                     "Arca.Props.C15.recorded_source_was_produced", "Arca.Props.C15.wait_optional_settled_when_evaluated",
                     "Arca.Props.C15.soft_optional_not_hard", "Arca.Props.C15.absent_optional_item_left_out",
                     "Arca.Props.C15.present_optional_item_kept", "Arca.Props.C15.list_result_null_only_from_non_optional"],
        "pins": RESOLVE_PINS + ["workflow_workflow_loopState_notifySteps", "workflow_executor_executor_prepareOptionalExprDependencies",
                                "workflow_executor_executor_prepareOneOfExprDependencies", "workflow_executor_executor_createGroupNode",
                                "workflow_yaml__buildOneOfExpressions", "workflow_yaml__buildResultOrDisabledExpression",
                                "workflow_yaml__buildOptionalExpression", "workflow_yaml__yamlBuildExpressions"],
        "streams": [S_loop(), S_engine(M.both(M.mon_c15_engine, M.no_eval_failure("C15", "a tagged member was evaluated although its source was not produced")),
                                       n=(250, 2500), seed_off=31, extra=["-tags"]),
                    # optional members with several sources; a !wait-optional and a !soft-optional member on ONE source
                    S_engine(M.both(M.mon_c15_engine, M.no_eval_failure("C15", "a tagged member was evaluated although its source was not produced")),
                             extra=["-tags", "-multiref"], name="engine-multiref", n=(200, 2000), seed_off=47),
                    # the sources' outputs are logged through a slow sink while other steps report: tagged members are evaluated
                    # over the data model, which must already hold what the DAG says is resolved
                    S_engine(M.both(M.mon_c15_engine, M.no_eval_failure("C15", "a tagged member was evaluated although its source was not produced")),
                             extra=["-tags", "-slowlog", "40"], name="engine-slowlog", n=(40, 300), seed_off=59)],
        "rule": LOOP_RULE + " over workflows whose inputs and outputs use !wait-optional / !soft-optional / !oneof / !ordisabled; "
                + ENGINE_RULE + " - every plugin input and the returned output are recomputed with the declarative meaning of the tags",
    },
    "C08": {
        "module": "Arca.Props.C08", "theorems": [],
        "pins": RUNLOOP_PINS + ["workflow_workflow__serializedOutput"],
        "streams": [S_loop(), S_engine(M.mon_c08_engine, n=(250, 2500), seed_off=23)],
        "rule": LOOP_RULE + "; " + ENGINE_RULE + " - 'bug:' consistency errors and schema failures of the returned output are violations",
    },
}


PROPS["C18"] = props_c18.SPEC
props_c07.extend(PROPS["C07"])
props_c09.extend(PROPS["C09"])
PROPS["C11"] = props_c11.SPEC
PROPS["C12"] = props_c12.SPEC
PROPS["C10"] = props_c10.SPEC_C10
PROPS["C16"] = props_c10.SPEC_C16
PROPS["C13"] = props_c13.SPEC
PROPS["C06"]["streams"].append(props_c13.S_C06_FOREACH)
PROPS["C06"]["rule"] += props_c13.C06_FOREACH_RULE
PROPS["C06"]["theorems"] += props_c13.C06_FOREACH_THEOREMS
PROPS["C06"]["pins"] += props_c13.C06_FOREACH_PINS
PROPS["C08"] = props_c08.SPEC
PROPS["C17"] = props_c17.SPEC
PROPS["C20"] = props_c20.SPEC
PROPS["C19"] = props_c19.SPEC_C19
PROPS["C14"] = props_c19.SPEC_C14
PROPS["C04"] = props_c04.extend(PROPS["C04"])
# the graph model has its own correspondence stream (real go.arcalot.io/dgraph vs Arca.Model.Dgraph); the theorems of C02 / C10 rest on it
PROPS["C02"]["streams"].append(props_dgraph.S_DGRAPH)
PROPS["C10"]["streams"].append(props_dgraph.S_DGRAPH)
PROPS["C02"]["theorems"] += props_dgraph.DGRAPH_THEOREMS
PROPS["C02"]["rule"] = PROPS["C02"].get("rule", "") + props_dgraph.DGRAPH_RULE
PROPS["C10"]["rule"] = PROPS["C10"].get("rule", "") + props_dgraph.DGRAPH_RULE


def setup():
    """Build everything once: extractor, Gen, model, driver, proofs, pins, harness."""
    t0 = time.time()
    with vcheck.Lock():
        vcheck.extract()
        ok, out = vcheck.lake_build(["arcadrv", "Arca"])
        if not ok:
            print(out[-4000:])
            return 1
        pins = sorted({p for spec in PROPS.values() for p in spec.get("pins", [])})
        mods = sorted({spec["module"] for spec in PROPS.values() if module_exists(spec.get("module"))})
        ok, out = vcheck.lake_build([PIN + p for p in pins] + mods)
        if not ok:
            print(out[-4000:])
            return 1
        h, err = vcheck.build_harness()
        if h is None:
            print(err[-4000:])
            return 1
    log("setup done in %.0fs" % (time.time() - t0))
    return 0


def module_exists(mod):
    if not mod:
        return False
    return os.path.exists(os.path.join(vcheck.LEAN, *mod.split(".")) + ".lean")


def check_obligations(chk, spec):
    """Build and audit the Lean side; returns the list of obligations that no longer check."""
    broken = []
    pins = [PIN + p for p in spec.get("pins", [])]
    mod = spec.get("module")
    theorems = list(spec.get("theorems", []))
    ok, out = vcheck.lake_build(["arcadrv"])
    if not ok:
        chk.notes.append("arcadrv build failed: " + out[-1500:])
        broken.append("arcadrv(model does not build)")
    if pins:
        ok, out = vcheck.lake_build(pins)
        if ok:
            for p in pins:
                chk.obligations[p] = (True, [])
        else:
            for p in pins:
                ok1, out1 = vcheck.lake_build([p])
                chk.obligations[p] = (ok1, [] if ok1 else "Gen skeleton differs from Expected: " + tail_err(out1))
                if not ok1:
                    broken.append(p)
    if theorems:
        if module_exists(mod):
            ok, out = vcheck.lake_build([mod])
            if ok:
                res = vcheck.audit(mod, theorems)
                for t in theorems:
                    chk.obligations[t] = res.get(t, (False, "not reported"))
                    if not chk.obligations[t][0]:
                        broken.append(t)
                if chk.tier == "thorough":
                    # independent re-check of the compiled module (and everything it imports) by the toolchain's leanchecker
                    rc, o, e = vcheck.sh(["lake", "env", "leanchecker", mod], cwd=vcheck.LEAN, timeout=3000)
                    name = "leanchecker:" + mod
                    chk.obligations[name] = (rc == 0, [] if rc == 0 else (o + e)[-600:])
                    if rc != 0:
                        broken.append(name)
            else:
                # the module does not compile: name the declarations Lean rejected (root causes); the other theorems of
                # the module are not re-checked in this run (no .olean), which is recorded per obligation, but only the
                # root causes are reported as violations
                roots = build_error_roots(out, mod, theorems)
                for t in theorems:
                    if t in roots or not roots:
                        chk.obligations[t] = (False, "module does not build: " + (roots.get(t) or tail_err(out)))
                        broken.append(t)
                    else:
                        chk.obligations[t] = (False, "not re-checked: the module does not build because of " + ", ".join(sorted(roots)))
                for r, msg in roots.items():
                    if r not in theorems:
                        chk.obligations[r] = (False, "module does not build: " + msg)
                        broken.append(r)
        else:
            for t in theorems:
                chk.obligations[t] = (False, "module missing")
                broken.append(t)
    return broken


def crash_site(stderr):
    import re
    m = re.search(r"^(panic: [^\n]{0,160})", stderr, re.M)
    head = m.group(1) if m else "exit"
    m2 = re.search(r"go\.flow\.arcalot\.io/engine/[\w/]+\.(\(?\*?\w+\)?\.?\w+)", stderr)
    return (head[:80] + " @ " + (m2.group(1) if m2 else "?")).replace(" ", "_")


def build_error_roots(out, mod, theorems):
    """Map the `error: <file>:<line>:<col>: msg` lines of a failed `lake build` to the declarations that contain them.
    Returns {obligation name: message}; a declaration that is not a listed theorem is named <module>:<decl>."""
    import re
    roots = {}
    short = {t.split(".")[-1]: t for t in theorems}
    for m in re.finditer(r"error: (?:\./)?(\S+?\.lean):(\d+):(\d+): ([^\n]*)", out):
        rel, line, msg = m.group(1), int(m.group(2)), m.group(4)
        path = rel if os.path.isabs(rel) else os.path.join(vcheck.LEAN, rel)
        decl = None
        try:
            src = open(path).read().splitlines()
            for i in range(min(line, len(src)) - 1, -1, -1):
                dm = re.match(r"\s*(?:@\[[^\]]*\]\s*)?(?:private\s+|protected\s+)?(theorem|lemma|def|abbrev|instance|example|structure|inductive)\s*(\S*)", src[i])
                if dm:
                    decl = dm.group(2) if dm.group(1) != "example" and dm.group(2) else "example@%d" % (i + 1)
                    break
        except OSError:
            pass
        module = os.path.splitext(os.path.relpath(path, vcheck.LEAN))[0].replace(os.sep, ".")
        name = short.get(decl) if (module == mod and decl in short) else "%s:%s" % (module, decl or "line%d" % line)
        roots.setdefault(name, "%s:%d: %s" % (rel, line, msg[:300]))
    return roots


def tail_err(out):
    lines = [l for l in out.splitlines() if "error" in l.lower()]
    return " | ".join(lines[:3])[:400]


def plugin_side_crash(stderr):
    """True when the goroutine that panicked runs the in-process ATP server of the scripted plugin and has no engine frame."""
    i = stderr.find("panic:")
    if i < 0:
        return False
    j = stderr.find("\ngoroutine ", i)
    if j < 0:
        return False
    k = stderr.find("\n\ngoroutine ", j + 1)
    block = stderr[j:k if k > 0 else len(stderr)]
    block = block.replace("go.flow.arcalot.io/engine/cmd/vharness", "")
    return "pluginsdk/atp.(*atpServerSession)" in block and "go.flow.arcalot.io/engine/" not in block


def diff_is_timing_artefact(binary, hargs, dargs, case, verdict):
    """Re-run one case of a stream (same seed, `-skip i -n i+1`) up to three times; True when the disagreement involves the
    detector's 'no more steps' verdict on either side and at least two of the re-runs agree with the model."""
    detail = json.dumps((verdict or {}).get("detail"))
    if "noMoreSteps" not in detail and "stuck" not in detail:
        return False
    m = re.match(r".*-(\d+)$", str(case.get("id", "")))
    if not m or "-n" not in hargs:
        return False
    idx = int(m.group(1))
    args = list(hargs)
    args[args.index("-n") + 1] = str(idx + 1)
    ok = 0
    for _ in range(3):
        pairs, herr, crashes = vcheck.run_stream(binary, args, dargs, skip0=idx)
        mine = [v for c, v in pairs if c.get("id") == case.get("id")]
        if mine and (mine[0] or {}).get("verdict") == "ok":
            ok += 1
    return ok >= 2


def run_check(pid, tier, seed):
    spec = PROPS[pid]
    chk = Check(pid, tier, seed)
    chk.rule = spec.get("rule", "")
    with vcheck.Lock():
        try:
            facts = vcheck.extract()
        except Exception as e:  # extraction failure = the tie cannot be established
            chk.notes.append("extract failed: %s" % e)
            facts = {"consts": {}, "unknown": ["extract failed"]}
        if facts.get("unknown"):
            chk.notes.append("extractor did not recognise: %s" % facts["unknown"][:5])
        broken = check_obligations(chk, spec)
        if tier == "thorough":
            bad = vcheck.grep_audit()
            if bad:
                chk.notes.append("source audit: " + "; ".join(bad[:5]))
                broken.append("source-audit")
        harness, err = vcheck.build_harness()
        instr, points = None, None
        if harness is not None and spec.get("instrumented"):
            instr, points, err = vcheck.build_instrumented()
            if instr is None:
                harness = None
    if harness is None:
        chk.notes.append("harness build failed: " + err[-1500:])
        chk.violation(pid + ":harness-does-not-build", "the correspondence harness no longer builds against /repo",
                      {"kind": "obligation-failed", "theorems": ["harness build"], "detail": err[-1500:]})
        return chk.finish()
    diffs = []
    for st in spec.get("streams", []):
        dargs = st["driver"](facts) if st.get("driver") else None
        binary = instr if st.get("instrumented") else harness
        if st.get("race"):
            # race-detector build; an optional overlay (pure delays after statically predicted unlocked accesses)
            ov = st["overlay"](facts) if st.get("overlay") else None
            if st.get("overlay") and ov is None:
                continue
            binary, err = vcheck.build_harness(race=True, extra_overlay=ov, name="vharness-race" + ("-" + st["name"] if ov else ""))
            if binary is None:
                chk.violation(pid + ":harness-does-not-build", "the race-detector build of the harness fails",
                              {"kind": "obligation-failed", "theorems": ["harness build"], "detail": err[-1500:]})
                continue
        pairs, herr, crashes = vcheck.run_stream(binary, st["harness"](tier, seed), dargs)
        if herr:
            chk.notes.append("%s: %s" % (st["name"], herr[:500]))
        for cr in crashes:
            # a Go panic on any goroutine kills the process: that is what C07 forbids; for the other properties the
            # crash is reported as a broken run of the stream
            site = crash_site(cr["stderr"])
            if plugin_side_crash(cr["stderr"]):
                # the panicking goroutine is the in-process ATP *server* of the scripted plugin (pluginsdk, plugin side).  In a
                # real deployment that code runs in the plugin's container: the engine would see a crashed step, not die.
                # It is an artefact of running the plugin in the harness process, not a behaviour of /repo; the case is
                # skipped (the stream continues behind it) and counted.
                chk.hist["crash:plugin-side-atp-server"] = chk.hist.get("crash:plugin-side-atp-server", 0) + 1
                note = "%s: case %d skipped, the in-process plugin (pluginsdk ATP server, outside /repo) panicked: %s" % (st["name"], cr["index"], site)
                if len([n for n in chk.notes if "in-process plugin" in n]) < 3:
                    chk.notes.append(note)
                continue
            chk.violation("%s:process-crash:%s" % (pid, site), "the engine crashed the process in stream %s (case %d): %s" % (st["name"], cr["index"], site),
                          {"kind": "impl-counterexample", "stream": st["name"], "harness_args": cr["args"], "case_index": cr["index"],
                           "stderr": cr["stderr"][-2500:]})
        for case, verdict in pairs:
            if case.get("kind") == "harness-error":
                chk.notes.append("harness error: %s" % case.get("error"))
                continue
            v = (verdict or {}).get("verdict", "none" if dargs is not None else "n/a")
            key = vcheck.case_key([case.get("yaml"), case.get("events"), case.get("input"), case.get("key"), case.get("fn"),
                                   case.get("args"), case.get("tree"), case.get("fs"), case.get("script"), case.get("items")])
            nontriv = bool(st.get("nontrivial", lambda c: True)(case)) and v not in ("skip",)
            sample = None
            if len(chk.samples) < 3 and v in ("ok", "n/a"):
                sample = st.get("sample", default_sample)(case)
            chk.count(key, nontriv, sample, tags=[st["name"] + ":" + v] + case_tags(case) +
                      (["completeness-hyps:" + verdict["completeness"]] if (verdict or {}).get("completeness") else []))
            if v in ("ok", "diff", "n/a"):
                chk.traces += 1
            if st.get("monitor") and "skip" not in case:
                if st.get("instrumented"):
                    st["monitor"](case, verdict, chk, points)
                else:
                    st["monitor"](case, verdict, chk)
            if v == "diff" and st.get("retry_diffs") and diff_is_timing_artefact(binary, st["harness"](tier, seed), dargs, case, verdict):
                # the loop stream drives the REAL run loop, whose deadlock detector polls in real time: on a loaded machine a
                # poll can fall between two harness events in a way the recorded history cannot express.  A disagreement of
                # model and implementation that involves the detector's verdict and does not reproduce when the same case is
                # run again (same seed, same index) is counted, not reported; a real disagreement is deterministic.
                chk.hist[st["name"] + ":diff-not-reproducible(detector timing)"] = chk.hist.get(st["name"] + ":diff-not-reproducible(detector timing)", 0) + 1
                v = "skip"
            if v == "diff":
                diffs.append((st["name"], case, verdict))
    if diffs:
        name, case, verdict = diffs[0]
        broken.append("correspondence:" + name)
        chk.notes.append("%d model/implementation disagreements in stream(s); first: %s" %
                         (len(diffs), json.dumps(verdict.get("detail"))[:600]))
        chk.violation(pid + ":correspondence:" + name, "the model and the implementation disagree (stream %s)" % name,
                      {"kind": "obligation-failed", "theorems": ["correspondence:" + name],
                       "case": slim(case), "model_verdict": verdict})
    chk.proof_broken = broken
    for b in broken:
        if not b.startswith("correspondence:"):
            chk.violation(pid + ":obligation:" + b, "obligation no longer checks: " + b,
                          {"kind": "obligation-failed", "theorems": [b], "detail": str(chk.obligations.get(b, ("", ""))[1])[:800]})
    return chk.finish()


def default_sample(case):
    s = {"id": case.get("id")}
    if "yaml" in case:
        s["workflow_yaml"] = case["yaml"][:1200]
    if "events" in case:
        s["events"] = case["events"][:12]
        s["n_events"] = len(case["events"])
    if "result" in case:
        s["result"] = case["result"]
    return s


def case_tags(case):
    tags = []
    res = case.get("result") or {}
    if isinstance(res, dict):
        if res.get("output_id"):
            tags.append("result:output:" + res["output_id"])
        elif res.get("err_class"):
            tags.append("result:error:" + res["err_class"])
    for o in (case.get("outcomes") or {}).values():
        tags.append("outcome:" + o)
    if "events" in case:
        n = len(case["events"])
        tags.append("events:%s" % ("<20" if n < 20 else "<60" if n < 60 else ">=60"))
    return tags


def replay(path):
    rep = json.load(open(path))
    print(json.dumps({k: rep.get(k) for k in ("property", "fingerprint", "what", "seed", "tier")}, indent=1))
    print("re-running the check of property %s with the recorded seed and tier" % rep.get("property"))
    return run_check(rep["property"], rep.get("tier", "quick"), int(rep.get("seed", 1)))
