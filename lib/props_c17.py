"""C17 — no data races in the engine on any explored schedule.

Registry entry in the format of `props.PROPS[...]` (merge with `PROPS["C17"] = props_c17.SPEC`) plus the monitor of the
`racesuite` streams.  Self-contained: imports nothing from props.py / vcheck.py.

The streams need the race-detector build of the harness: they carry `"race": True` (build with
`vcheck.build_harness(race=True, ...)`); the second stream additionally carries `"overlay": delay_overlay`, a function
`facts -> path of an overlay JSON (or None)` that puts a *pure delay* (time.Sleep, no synchronisation) behind every access
the static table (Arca.Gen.accessTable) leaves unlocked and un-allowlisted, so that a statically predicted race which
needs an improbable schedule becomes observable.  A delay never adds behaviour: a race reported on the delayed build is
a race of the real code.

Stand-alone use (what the check would report for a recorded run):  python3 lib/props_c17.py <racesuite-output.jsonl>
"""
import json
import os
import re
import subprocess
import sys

T = "Arca.Props.C17."
VERIF = os.path.dirname(os.path.dirname(os.path.abspath(__file__)))
BUILD = os.path.join(VERIF, ".build")
REPO = os.environ.get("VERIF_REPO", "/repo")

PLUGIN = "internal/step/plugin/provider.go"

# allowlist keys of Arca/Expected/Access.lean are (file, func, field, write); the static candidates below are computed from
# facts.json (same table as Arca.Gen.accessTable) and must stay in step with `rowSafe` of Arca/Props/C17.lean
_EXPECTED = os.path.join(VERIF, "lean", "Arca", "Expected", "Access.lean")

_facts_cache = {}


def _facts():
    p = os.path.join(BUILD, "facts.json")
    try:
        m = os.path.getmtime(p)
    except OSError:
        return {"access": []}
    if _facts_cache.get("m") != m:
        _facts_cache["m"] = m
        _facts_cache["f"] = json.load(open(p))
    return _facts_cache["f"]


def _allowlist():
    """(file, func, field, write) tuples parsed from the hand-written Lean allowlist"""
    try:
        text = open(_EXPECTED, encoding="utf-8").read()
    except OSError:
        return set()
    names = {"wfFile": "workflow/workflow.go", "pluginFile": PLUGIN, "foreachFile": "internal/step/foreach/provider.go"}
    out = set()
    for m in re.finditer(r'\{\s*file := (\w+)\s+func := "([^"]*)"\s+field := "([^"]*)"\s+write := (true|false)', text):
        out.add((names.get(m.group(1), m.group(1)), m.group(2), m.group(3), m.group(4) == "true"))
    return out


def static_candidates(facts=None):
    """rows of the access table that `engine_access_table_safe` accepts only through an exclusion: data written after
    construction, accessed outside the constructor without the lock and not allowlisted (today: F10d)"""
    rows = (facts or _facts()).get("access", [])
    mutated = {(r["file"], r["field"]) for r in rows if r["write"] and not r["ctor"] and r["kind"] in ("plain", "local")}
    allow = _allowlist()
    return [r for r in rows
            if r["kind"] in ("plain", "local") and not r["ctor"] and (r["file"], r["field"]) in mutated and not r["locked"]
            and (r["file"], r["func"], r["field"], r["write"]) not in allow]


def delay_overlay(facts=None, hold_ms=40):
    """Overlay (VERIF_OVERLAY_EXTRA format: {repo path: replacement}) with `time.Sleep` inserted after the statement of every
    static candidate.  Returns the overlay path, or None when there is no candidate / no safe insertion point."""
    cands = static_candidates(facts)
    by_file = {}
    for r in cands:
        if not r["field"].startswith("local:"):
            by_file.setdefault(r["file"], set()).add(r["line"])
    if not by_file:
        return None
    odir = os.path.join(BUILD, "c17-delay")
    os.makedirs(odir, exist_ok=True)
    rep = {}
    for rel, lines in by_file.items():
        src = open(os.path.join(REPO, rel), encoding="utf-8").read().split("\n")
        if not any(re.match(r'\s*"time"\s*$', l) for l in src):
            continue
        for ln in sorted(lines, reverse=True):
            stmt = src[ln - 1].rstrip()
            # only after a one-line statement (balanced brackets, not a block opener)
            if stmt.endswith(("{", ",", "(")) or stmt.count("(") != stmt.count(")") or stmt.count("{") != stmt.count("}"):
                continue
            indent = re.match(r"\s*", stmt).group(0)
            src.insert(ln, "%stime.Sleep(%d * time.Millisecond) // verif: pure delay after an unlocked access" % (indent, hold_ms))
        dst = os.path.join(odir, rel.replace("/", "__"))
        open(dst, "w", encoding="utf-8").write("\n".join(src))
        try:
            ok = subprocess.run(["gofmt", "-e", "-l", dst], stdout=subprocess.PIPE, stderr=subprocess.PIPE).returncode == 0
        except OSError:
            ok = True
        if ok:
            rep[os.path.join(REPO, rel)] = dst
    if not rep:
        return None
    path = os.path.join(odir, "overlay.json")
    json.dump(rep, open(path, "w"))
    return path


# ---- monitor ------------------------------------------------------------------------------------------------------------------

def _rel(path):
    return path[len(REPO) + 1:] if path and path.startswith(REPO + "/") else (path or "")


def _fields_at(site):
    """fields the static table lists at the source line of an access site, split by lock state"""
    if not site:
        return []
    rel, line = _rel(site.get("file")), site.get("line")
    return [r for r in _facts().get("access", []) if r["file"] == rel and r["line"] == line]


def _dep_pkg(acc):
    """package of the innermost dependency frame of an access (pluginsdk/schema, dgraph, log/v2, ...)"""
    for f in acc.get("frames") or []:
        fn = f.get("func", "")
        head = fn.split("(")[0]
        if fn.startswith("go.flow.arcalot.io/engine/") or "/" not in head:
            continue
        pkg = head.rsplit(".", 1)[0] if "." in head.split("/")[-1] else head
        return "/".join(pkg.split("/")[-2:])
    return "?"


def analyse_race(case):
    """fingerprint, classification and the cross-check with the static table of one race report"""
    a, b = case.get("first") or {}, case.get("second") or {}
    fa, fb = a.get("site_func") or "?", b.get("site_func") or "?"
    ra, rb = _fields_at(a.get("site")), _fields_at(b.get("site"))
    scope = case.get("scope", "unknown")
    both_engine_sites = bool(a.get("site")) and bool(b.get("site"))
    field = ""
    static = []
    if scope == "engine":
        # rows at the line of a direct access; method calls on a field (x.f.M()) enter M, so plain reads / writes only
        da = {r["field"] for r in ra if r["op"] != "sync"} if a.get("scope") == "engine" else set()
        db = {r["field"] for r in rb if r["op"] != "sync"} if b.get("scope") == "engine" else set()
        common = sorted(da & db) or sorted(da | db)
        if len(common) >= 1:
            field = common[0] if len(common) == 1 else "|".join(common)
        for who, rows in (("first", ra), ("second", rb)):
            hit = [r for r in rows if r["field"] == field] or rows
            if hit:
                static.append("%s: %s %s of %s in table, locked=%s" % (who, hit[0]["func"], "write" if hit[0]["write"] else "read",
                                                                        hit[0]["field"], str(hit[0]["locked"]).lower()))
            else:
                static.append("%s: not in the static table" % who)
    elif scope.startswith("dependency:"):
        field = "dep:" + _dep_pkg(a)
    names = sorted([fa, fb])
    fp = "C17:race:%s~%s:%s" % (names[0], names[1], field)
    if scope == "engine":
        cls = "engine"
    elif scope.startswith("dependency:") and both_engine_sites:
        cls = "dependency-shared-by-engine"
    elif scope == "harness":
        cls = "harness"
    else:
        cls = "outside-engine"
    predicted = any("locked=false" in s for s in static)
    return {"fingerprint": fp, "class": cls, "field": field, "static": static, "predicted_by_table": predicted}


def mon_c17_racesuite(case, verdict, chk):
    kind = case.get("kind")
    if kind == "racerun":
        tag = "scenario:" + case.get("scenario", "?")
        chk.hist[tag] = chk.hist.get(tag, 0) + 1
        if case.get("panic"):
            chk.notes.append("racesuite: engine panic in %s: %s" % (case.get("id"), str(case["panic"])[:200]))
        return
    if kind == "racesuite-summary":
        chk.extra.setdefault("racesuite", []).append({k: case.get(k) for k in ("id", "runs", "races", "engine_races", "wall_ms", "skip")})
        if case.get("skip"):
            chk.violation("C17:race-build-missing", "the racesuite stream did not run on a race-detector build: %s" % case["skip"],
                          {"kind": "obligation-failed", "theorems": ["race build"], "detail": case["skip"]})
        return
    if kind != "race":
        return
    an = analyse_race(case)
    tag = "race:" + an["class"]
    chk.hist[tag] = chk.hist.get(tag, 0) + 1
    replay = {"kind": "impl-counterexample", "sites": case.get("sites"), "report": case.get("report"), "static_table": an["static"],
              "created": [c.get("site_func") for c in case.get("created") or []],
              "replay_harness": case.get("replay_harness") or ["racesuite", "-seed", str(chk.seed), "-n", "40"]}
    if case.get("case"):
        replay["case"] = case["case"]  # streams that run one case per child process: the concrete input of the report
    if an["class"] == "engine":
        chk.violation(an["fingerprint"], "data race on engine memory (%s): %s; static table: %s" % (
            an["field"] or "field unknown", " <-> ".join(case.get("sites") or []), "; ".join(an["static"])), replay)
    elif an["class"] == "dependency-shared-by-engine":
        chk.violation(an["fingerprint"], "data race inside a dependency on an object the engine shares between goroutines (%s): %s" % (
            an["field"], " <-> ".join(case.get("sites") or [])), replay)
    else:
        note = "race outside the engine (%s, not counted): %s" % (an["class"], " <-> ".join(case.get("sites") or []))
        if note not in chk.notes and len([n for n in chk.notes if n.startswith("race outside the engine")]) < 6:
            chk.notes.append(note)


def _seq_case(case):
    """the sequence as a replay: workflow text, documents, runs"""
    docs = [{k: d.get(k) for k in ("index", "role", "doc", "expect_valid", "violation_kind", "violation_path")} for d in case.get("docs") or []]
    runs = [{k: r.get(k) for k in ("n", "phase", "overlap", "doc", "cancel_after_ms", "result")} for r in case.get("runs") or []]
    for r in runs:
        res = r.get("result") or {}
        r["result"] = {k: res.get(k) for k in ("returned", "output_id", "err_class")}
    return {"id": case.get("id"), "workflow_yaml": case.get("yaml"), "steps": case.get("steps"), "documents": docs, "runs": runs}


def mon_c17_seq(case, verdict, chk):
    """race-detector build of the `inputseq` stream (one child process per case): a first run, then overlapping runs with
    differently shaped documents, refused and cancelled runs in between.  Every report of the child belongs to that case."""
    kind = case.get("kind")
    if kind != "inputseq":
        return
    idx = case.get("id", "inputseq-0-0").split("-")
    rh = ["inputseq", "-n", str(int(idx[-1]) + 1), "-skip", idx[-1], "-seed", idx[1] if len(idx) > 2 else "1", "-child", "self"]
    chk.hist["scenario:input-sequence"] = chk.hist.get("scenario:input-sequence", 0) + 1
    if case.get("crash") and "atpServerSession" not in case["crash"]:
        chk.notes.append("inputseq (race build): child crashed in %s: %s" % (case.get("id"), case["crash"][:200]))
    if case.get("hung"):
        chk.notes.append("inputseq (race build): a run never returned in %s (reported by the checks of C14 / C19)" % case.get("id"))
    for k, rec in enumerate(case.get("race_reports") or []):
        rec = dict(rec)
        rec["kind"] = "race"
        rec["case"] = _seq_case(case)
        rec["replay_harness"] = rh
        mon_c17_racesuite(rec, None, chk)


def mon_c17_conc(case, verdict, chk):
    """race-detector build of the concurrency leg of the built-in functions (one child process per function)"""
    if case.get("kind") == "builtin-conc":
        tag = "scenario:builtins-concurrent"
        chk.hist[tag] = chk.hist.get(tag, 0) + 1
        if case.get("crash"):
            chk.notes.append("builtins-conc (race build): child crashed in %s: %s" % (case.get("id"), case["crash"][:200]))
        return
    mon_c17_racesuite(case, verdict, chk)


def racesuite_n(tier):
    return 160 if tier == "thorough" else 40


def _stream(name, args, overlay=None, seed_off=0):
    st = {"name": name, "race": True,
          "harness": lambda t, s: ["racesuite", "-n", str(racesuite_n(t)), "-seed", str(s + seed_off), "-tier", t] + list(args),
          "driver": None,
          "monitor": mon_c17_racesuite,
          "nontrivial": lambda c: c.get("kind") == "racerun" and not c.get("skip"),
          "sample": lambda c: {k: c.get(k) for k in ("id", "kind", "scenario", "wall_ms", "results", "extra", "sites")}}
    if overlay:
        st["overlay"] = overlay
    return st


SPEC = {
    "module": "Arca.Props.C17",
    "theorems": [
        T + "lockset_sound", T + "lockset_discipline_race_free",
        T + "engine_access_table_safe", T + "lockedOnEntry_consistent", T + "locked_is_held_or_entry",
        T + "lock_contracts_respected", T + "access_shapes_recognised", T + "engine_locked_accesses_ordered",
        T + "shared_expression_objects_are_read_only",
    ],
    "pins": [],
    "streams": [
        _stream("racesuite", []),
        # the statically predicted candidates (today F10d) under a pure delay; stop_if scenarios reach plugin closedEarly
        _stream("racesuite-delay", ["-scenario", "stopif-cancel"], overlay=lambda facts: delay_overlay(facts), seed_off=100),
        # one prepared workflow: a completed first run, then overlapping runs whose documents reach nested optional objects for the
        # first time, refused / cancelled runs in between (every case in its own child process: the reports belong to the case)
        {"name": "inputseq-race", "race": True,
         "harness": lambda t, s: ["inputseq", "-n", "60" if t == "thorough" else "10", "-seed", str(s + 7), "-tier", t, "-child", "self"],
         "driver": None, "monitor": mon_c17_seq,
         "nontrivial": lambda c: c.get("kind") == "inputseq" and not c.get("skip") and not c.get("crash"),
         "sample": lambda c: {k: c.get(k) for k in ("id", "kind", "n_runs", "hung")}},
        # engine code shared between goroutines: the function table of builtinfunctions.GetFunctions() (parallel foreach items,
        # independent steps); per function 4 goroutines with fixed arguments
        {"name": "builtins-conc-race", "race": True,
         "harness": lambda t, s: ["builtins-conc", "-n", "90" if t == "thorough" else "30", "-seed", str(s + 3), "-tier", t,
                                  "-child", "self", "-g", "4", "-iters", "400"],
         "driver": None, "monitor": mon_c17_conc,
         "nontrivial": lambda c: c.get("kind") == "builtin-conc" and not c.get("skip") and not c.get("crash"),
         "sample": lambda c: {k: c.get(k) for k in ("id", "kind", "fn", "calls", "mismatches", "sites")}},
    ],
    "rule": ("race-detector build of the harness, one process per stream, GORACE halt_on_error=0 with all reports collected: generated "
             "engine cases (hanging steps, cancellation at a random instant), 3-4 overlapping Execute calls on one prepared workflow, "
             "foreach steps with concurrent items, stop_if firing while the stopped step waits or runs, termination overlapping late "
             "callbacks; second stream: the same stop_if scenarios on a build with a pure delay behind every access the static table "
             "leaves unlocked and un-allowlisted (distinct = run id; non-trivial = the run was executed); third stream: sequences of runs "
             "on one prepared workflow over generated input schemas with optional nested objects (first run without them, then overlapping "
             "runs with them, refused and cancelled runs in between), one child process per case; fourth stream: every built-in function "
             "called by 4 goroutines at once (the function table is shared by parallel foreach items)"),
}


if __name__ == "__main__":
    class _Chk:
        def __init__(self):
            self.hist, self.notes, self.extra, self.seed, self.v = {}, [], {}, 0, []

        def violation(self, fp, what, replay):
            if fp not in [x[0] for x in self.v]:
                self.v.append((fp, what, replay))

    for path in sys.argv[1:]:
        chk = _Chk()
        for line in open(path):
            line = line.strip()
            if line:
                c = json.loads(line)
                if c.get("kind") != "begin":
                    mon_c17_racesuite(c, None, chk)
        print(path)
        print(" summary:", json.dumps(chk.extra.get("racesuite")))
        print(" histogram:", json.dumps(chk.hist, sort_keys=True))
        for fp, what, rep in chk.v:
            print(" VIOLATION", fp)
            print("   ", what[:600])
        for n in chk.notes:
            print(" note:", n[:300])
