"""C07 - run-time evaluation and step failures surface as errors, never as a crash: the `evalpos` stream and the obligations
about recover handlers, run-loop assertions and built-in guards.

Merged into the registry with `props_c07.extend(PROPS["C07"])` (one line in props.py).  Self-contained: imports nothing
from props.py.

Stream `evalpos` (harness/vharness/cmd_evalpos.go): fault x source x position, one child process per case with a lowered
address-space limit.  A case line always carries the concrete input: workflow text, sub-workflow files, workflow input,
plugin behaviours, the faulty expression and where it was placed; when the child died, `crash` holds the Go runtime's
report (panic / fatal error) instead of a result.
"""

T = "Arca.Props.C07."

THEOREMS = [
    T + "no_unchecked_assertion_on_recovered_value",
    T + "resolveExpressions_recovers",
    T + "recover_sites_pinned",
    T + "run_loop_unchecked_assertions_pinned",
    T + "builtin_sinks_pinned",
    T + "numeric_sink_arguments_guarded",
    T + "format_float_precision_guarded_for_every_format",
    T + "positions_cover_lifecycle_inputs",
    # fix 2d63d83: the defaults of the input section are decoded (under recover) while the workflow is prepared
    T + "input_defaults_validated_when_prepared", T + "input_processed_before_steps", T + "validateDefaults_recovers_and_decodes",
]


def _plugin_side_crash(text):
    """the goroutine that panicked runs the in-process ATP server of the scripted plugin and has no engine frame (harness
    artefact: in a deployment that code runs in the plugin's container)"""
    i = text.find("panic:")
    if i < 0:
        return False
    j = text.find("\ngoroutine ", i)
    if j < 0:
        return False
    k = text.find("\n\ngoroutine ", j + 1)
    block = text[j:k if k > 0 else len(text)]
    block = block.replace("go.flow.arcalot.io/engine/cmd/vharness", "")
    return "pluginsdk/atp.(*atpServerSession)" in block and "go.flow.arcalot.io/engine/" not in block


def _site(text):
    import re
    text = text or ""
    m = re.search(r"^(fatal error: [^\n]{0,80}|panic: [^\n]{0,120})", text, re.M)
    head = m.group(1) if m else (text.strip().splitlines() or ["exit"])[0][:80]
    # the innermost engine frame
    m2 = re.search(r"go\.flow\.arcalot\.io/engine/(?!cmd/vharness)[\w/]+\.(\(?\*?\w+\)?\.?[\w.]+)", text)
    head = re.sub(r"0x[0-9a-f]+", "0x..", head)
    head = re.sub(r"\d{6,}", "N", head)
    return (head + " @ " + (m2.group(1) if m2 else "?")).replace(" ", "_")


def _replay(case):
    keep = ("id", "index", "fault", "fault_class", "source", "position", "field", "variant", "expr", "must_fail", "yaml", "files",
            "input", "behaviours", "result", "executed", "crash", "panic", "dump", "child_exit", "address_space_limit", "wall_ms")
    c = {k: case.get(k) for k in keep if k in case}
    return {"kind": "impl-counterexample", "case": c,
            "observed": ("process died: " + str(case.get("crash"))[:600]) if "crash" in case else
                        ("panic on the Execute goroutine: " + str(case.get("panic"))[:600]) if "panic" in case else case.get("result"),
            "replay_harness": ["evalpos", "-seed", str(case.get("id", "evalpos-1-0").split("-")[1]), "-n", str(case.get("index", 0) + 1),
                               "-skip", str(case.get("index", 0))]}


def _facts():
    import json
    import os
    p = os.path.join(os.path.dirname(os.path.dirname(os.path.abspath(__file__))), ".build", "facts.json")
    try:
        return json.load(open(p))
    except (OSError, ValueError):
        return None


def check_coverage(case, chk):
    """the positions / argument tables of the stream against the REGENERATED facts: every input field of every lifecycle stage
    of both step kinds must be a position, every range-limited integer parameter of a built-in must have an extreme-argument
    table.  A gap is an obligation failure (the stream no longer covers what the engine evaluates), not a counterexample."""
    facts = _facts()
    if facts is None:
        chk.notes.append("evalpos: facts.json not readable, coverage of the positions not compared")
        return
    missing = []
    for kind in ("plugin", "foreach"):
        have = set(case.get("fields", {}).get(kind, []))
        for st in facts.get("lifecycles", {}).get(kind, []):
            for f in st.get("input_fields") or []:
                if f not in have:
                    missing.append("%s step: input field %s of stage %s" % (kind, f, st.get("id")))
    ext = case.get("extreme_builtin_parameters", {})
    for b in facts.get("builtins", []):
        for i, p in enumerate(b.get("params") or []):
            if p.startswith("int[") and i not in ext.get(b.get("id"), []):
                missing.append("built-in %s: parameter %d is declared %s" % (b.get("id"), i, p))
    chk.extra["evalpos_coverage"] = {"cells": case.get("cells"), "cases": case.get("cases"), "faults": case.get("faults"),
                                     "fields": case.get("fields"), "missing": missing}
    if missing:
        chk.violation("C07:evalpos-does-not-cover:" + missing[0].replace(" ", "_"),
                      "the evalpos stream has no position / argument table for: " + "; ".join(missing),
                      {"kind": "obligation-failed", "theorems": ["correspondence:evalpos-coverage"], "detail": missing})


def mon_c07_evalpos(case, verdict, chk):
    """C07 on one real run with a faulty expression: no crash of the process, no panic, the run returns; a fault that was
    certainly evaluated (it is part of the returned output / of what the executed step needed) ends the run with an error."""
    if case.get("kind") == "evalpos-coverage":
        check_coverage(case, chk)
        return
    if case.get("kind") != "evalpos":
        return
    tag = "fault:%s" % case.get("fault_class")
    chk.hist[tag] = chk.hist.get(tag, 0) + 1
    for k in ("position", "source"):
        t = "%s:%s" % (k, case.get(k))
        chk.hist[t] = chk.hist.get(t, 0) + 1
    where = "%s from %s at %s (`%s`)" % (case.get("fault"), case.get("source"), case.get("position"), str(case.get("expr"))[:160])
    if case.get("child_timeout"):
        chk.notes.append("evalpos: case %s produced no result within the wall-clock limit of the child (harness, not counted)" % case.get("id"))
        return
    if "child_died" in case:
        chk.notes.append("evalpos: the child process of case %s died without a Go crash report (%s); not counted"
                         % (case.get("id"), str(case.get("child_exit"))[:80]))
        return
    if "crash" in case:
        text = str(case["crash"])
        if _plugin_side_crash(text):
            chk.hist["crash:plugin-side-atp-server"] = chk.hist.get("crash:plugin-side-atp-server", 0) + 1
            return
        chk.violation("C07:process-crash:" + _site(text),
                      "the engine killed the process while evaluating %s: %s" % (where, _site(text)), _replay(case))
        return
    if "panic" in case:
        chk.violation("C07:panic:" + _site("panic: " + str(case["panic"])),
                      "Execute panicked while evaluating %s: %s" % (where, str(case["panic"])[:200]), _replay(case))
        return
    res = case.get("result") or {}
    if not res.get("returned"):
        rep = _replay(case)
        rep["dump"] = case.get("dump")
        chk.violation("C07:no-return-after-evaluation-failure", "the run neither returned nor failed within 30 s: %s" % where, rep)
        return
    if res.get("output_id") and res.get("err"):
        chk.violation("C07:output-and-error", "the run returned an output together with an error: %s" % where, _replay(case))
        return
    if case.get("must_fail") and res.get("output_id"):
        chk.violation("C07:evaluation-failure-not-reported:" + str(case.get("fault")),
                      "the run returned output %s although an expression it had to evaluate cannot be evaluated: %s"
                      % (res.get("output_id"), where), _replay(case))


def _sample(case):
    if case.get("kind") == "evalpos-coverage":
        return {k: case.get(k) for k in ("id", "cells", "cases", "fields", "faults")}
    return {k: case.get(k) for k in ("id", "fault", "source", "position", "expr", "input", "result")} | {
        "workflow_yaml": str(case.get("yaml", ""))[-900:]}


STREAM = {
    "name": "evalpos",
    # one round = the whole fault x source x position matrix (every cell once, every variant of the argument tables)
    "harness": lambda t, s: ["evalpos", "-rounds", "1" if t == "quick" else "4", "-seed", str(s), "-tier", t, "-workers", "4"],
    "driver": None,
    "monitor": mon_c07_evalpos,
    "nontrivial": lambda c: bool((c.get("result") or {}).get("err")) or "crash" in c or "panic" in c,
    "sample": _sample,
}

RULE = ("; evalpos: every run-time fault (evaluation errors, runtime.Error panics, non-error panic values from Go-typed containers, "
        "extreme arguments of built-ins and size-like step parameters) from every source (input, plugin output, foreach error output, "
        "sub-workflow item) at every position the engine evaluates (outputs top-level/nested/tagged, every input field of both "
        "step kinds, sub-workflow outputs and inputs), one address-space-limited child process per case (distinct = workflow text + "
        "input; non-trivial = the run ended with an error or a crash)")


def extend(spec):
    """add the C07 obligations and the evalpos stream to the registry entry built in props.py"""
    spec["theorems"] = list(spec.get("theorems", [])) + [t for t in THEOREMS if t not in spec.get("theorems", [])]
    spec["pins"] = list(spec.get("pins", [])) + [p for p in ("workflow_executor_executor_processInput", "workflow_executor__validateDefaults",
                                                           "workflow_executor_executor_Prepare") if p not in spec.get("pins", [])]
    spec["streams"] = list(spec.get("streams", [])) + [STREAM]
    spec["rule"] = spec.get("rule", "") + RULE
    return spec
