#!/usr/bin/env python3
"""Regenerate MANIFEST.json from the property registry (lib/props.py) and the per-property texts below."""
import json, os, sys
sys.path.insert(0, os.path.dirname(os.path.abspath(__file__)))
import props

VERIF = os.path.dirname(os.path.dirname(os.path.abspath(__file__)))
ids = [json.loads(l)["id"] for l in open(os.path.join(VERIF, "properties.jsonl"))]
TEXT = json.load(open(os.path.join(VERIF, "lib", "manifest_text.json")))
checks, na = [], []
for pid in ids:
    if pid in props.PROPS:
        t = TEXT.get(pid, {})
        checks.append({
            "property_id": pid,
            "quick_cmd": "bin/check %s --tier quick" % pid,
            "thorough_cmd": "bin/check %s --tier thorough" % pid,
            "evidence_file": "/verif/evidence/%s.json" % pid,
            "replay_cmd_template": "bin/check replay {path}",
            "engine": "lean-proof+correspondence",
            "level_claimed": {"category": "proof", "text": t.get("text", ""), "design_ref": t.get("design_ref", "DESIGN.md section 6")},
            "level_note": t.get("note", ""),
            "technique": t.get("technique", "Lean 4 theorems over an executable model; regenerated fact pins; differential correspondence"),
        })
    else:
        na.append({"property_id": pid, "reason": TEXT.get(pid, {}).get("na", "check not built yet in this round; see DESIGN.md section 6 for the design")})
m = {
    "version": 1,
    "setup_cmd": "bin/check setup",
    "hooks": {"guard": "verif", "enable": "go build -tags verif -overlay <generated> ./cmd/vharness (bin/build-harness); no file of /repo is modified",
              "baseline_off_cmd": "cd /repo && go test -vet=off -count=1 ./...", "source_commits": [], "add_only": True},
    "engines": [{"name": "lean-proof+correspondence", "path": "/verif/lean, /verif/extract, /verif/harness, /verif/lib",
                 "serves_properties": [c["property_id"] for c in checks],
                 "kind_free_text": "Lean 4 model + theorems; go/ast fact extractor regenerating Arca.Gen on every run; Go overlay harness driving the real code; arcadrv model driver"}],
    "checks": checks,
    "not_applicable": na,
    "notes": "All checks: extract facts from /repo's working tree -> lake build obligations + #print axioms audit -> overlay build of the harness -> correspondence streams + implementation monitors. See DESIGN.md.",
}
json.dump(m, open(os.path.join(VERIF, "MANIFEST.json"), "w"), indent=1)
print("checks:", [c["property_id"] for c in checks], "n/a:", len(na))
